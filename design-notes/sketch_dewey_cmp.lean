namespace Proto

inductive Op | ge | gt | le | lt deriving DecidableEq, Repr

def test (l : Int) (op : Op) (r : Int) : Bool :=
  match op with
  | .ge => decide (l ≥ r) | .gt => decide (l > r) | .le => decide (l ≤ r) | .lt => decide (l < r)

/-- tail of the longer rhs compared against 0 (Ordering::Less branch) -/
def tailR (op : Op) (lrev rrev : Int) : List Int → Bool
  | [] => test lrev op rrev
  | b :: bs => if 0 ≠ b then test 0 op b else tailR op lrev rrev bs

/-- tail of the longer lhs compared against 0 (Ordering::Greater branch) -/
def tailL (op : Op) (lrev rrev : Int) : List Int → Bool
  | [] => test lrev op rrev
  | a :: as => if 0 ≠ a then test a op 0 else tailL op lrev rrev as

/-- dewey_cmp as the code does it: common prefix, then one of two tails -/
def deweyCmp (op : Op) (lrev rrev : Int) : List Int → List Int → Bool
  | [], [] => test lrev op rrev
  | [], b :: bs => tailR op lrev rrev (b :: bs)
  | a :: as, [] => tailL op lrev rrev (a :: as)
  | a :: as, b :: bs => if a ≠ b then test a op b else deweyCmp op lrev rrev as bs

/-- spec: three-way padded lexicographic comparison, revision last -/
def cmp3 (x y : Int) : Ordering := if x < y then .lt else if x > y then .gt else .eq

def padCmp (lrev rrev : Int) : List Int → List Int → Ordering
  | [], [] => cmp3 lrev rrev
  | [], b :: bs => (cmp3 0 b).then (padCmp lrev rrev [] bs)
  | a :: as, [] => (cmp3 a 0).then (padCmp lrev rrev as [])
  | a :: as, b :: bs => (cmp3 a b).then (padCmp lrev rrev as bs)

def testOrd (o : Ordering) (op : Op) : Bool :=
  match op with
  | .ge => o != .lt | .gt => o == .gt | .le => o != .gt | .lt => o == .lt

theorem test_cmp3 (a b : Int) (op : Op) : test a op b = testOrd (cmp3 a b) op := by
  cases op <;> grind [test, testOrd, cmp3]

theorem tailR_spec (op : Op) (lrev rrev : Int) (bs : List Int) :
    tailR op lrev rrev bs = testOrd (padCmp lrev rrev [] bs) op := by
  induction bs with
  | nil => simp [tailR, padCmp, test_cmp3]
  | cons b bs ih => grind [tailR, padCmp, test_cmp3, cmp3, Ordering.then]

theorem tailL_spec (op : Op) (lrev rrev : Int) (as : List Int) :
    tailL op lrev rrev as = testOrd (padCmp lrev rrev as []) op := by
  induction as with
  | nil => simp [tailL, padCmp, test_cmp3]
  | cons a as ih => grind [tailL, padCmp, test_cmp3, cmp3, Ordering.then]

theorem deweyCmp_spec (op : Op) (lrev rrev : Int) (as bs : List Int) :
    deweyCmp op lrev rrev as bs = testOrd (padCmp lrev rrev as bs) op := by
  fun_induction deweyCmp op lrev rrev as bs <;>
    grind [padCmp, test_cmp3, cmp3, Ordering.then, tailR_spec, tailL_spec]

theorem padCmp_swap (lrev rrev : Int) (as bs : List Int) :
    padCmp lrev rrev as bs = (padCmp rrev lrev bs as).swap := by
  fun_induction padCmp lrev rrev as bs <;> grind [padCmp, cmp3, Ordering.then, Ordering.swap]

/-- the C03 law that cross-checks the two padding branches -/
theorem lt_swap_gt (lrev rrev : Int) (as bs : List Int) :
    deweyCmp .lt lrev rrev as bs = deweyCmp .gt rrev lrev bs as := by
  rw [deweyCmp_spec, deweyCmp_spec, padCmp_swap]
  cases padCmp rrev lrev bs as <;> simp [testOrd, Ordering.swap]

end Proto
