namespace Glob

inductive Tok
  | one (p : Char → Bool)   -- Char / AnyChar / AnyWithin / AnyExcept
  | star

inductive R | m | sub | entire deriving DecidableEq

mutual
/-- matches_from: the `for` loop over the remaining tokens -/
def mf : List Tok → List Char → R
  | [], [] => .m
  | [], _ :: _ => .sub
  | .one _ :: _, [] => .entire
  | .one p :: ts, c :: s => if p c then mf ts s else .sub
  | .star :: ts, s =>
    match mf ts s with
    | .sub => star ts s
    | r => r
/-- the `while let Some(c) = file.next()` loop inside the star arm -/
def star : List Tok → List Char → R
  | ts, [] => mf ts []          -- loop ends, `for` continues on the exhausted file
  | ts, _ :: s =>
    match mf ts s with
    | .sub => star ts s
    | r => r
end

/-- declarative semantics -/
inductive GM : List Tok → List Char → Prop
  | nil : GM [] []
  | one {p ts c s} : p c = true → GM ts s → GM (.one p :: ts) (c :: s)
  | star {ts s} (k : Nat) : GM ts (s.drop k) → GM (.star :: ts) s

end Glob

namespace Glob

/-- what each result value promises about the remaining tokens `ts` and name `s` -/
def Good (ts : List Tok) (s : List Char) (r : R) : Prop :=
  (r = .m ↔ GM ts s) ∧ (r = .entire → ∀ k, ¬ GM ts (s.drop k))

theorem GM_star_iff (ts : List Tok) (s : List Char) :
    GM (.star :: ts) s ↔ ∃ k, GM ts (s.drop k) := by
  constructor
  · intro h; cases h with | star k h => exact ⟨k, h⟩
  · rintro ⟨k, h⟩; exact .star k h

theorem GM_nil_iff (s : List Char) : GM [] s ↔ s = [] := by
  constructor
  · intro h; cases h; rfl
  · rintro rfl; exact .nil

theorem GM_one_nil (p) (ts : List Tok) : ¬ GM (.one p :: ts) [] := by
  intro h; cases h

theorem GM_one_cons (p) (ts : List Tok) (c : Char) (s : List Char) :
    GM (.one p :: ts) (c :: s) ↔ p c = true ∧ GM ts s := by
  constructor
  · intro h; cases h with | one h1 h2 => exact ⟨h1, h2⟩
  · rintro ⟨h1, h2⟩; exact .one h1 h2

/-- length bound: a `one` token needs a character -/
def minLen : List Tok → Nat
  | [] => 0
  | .one _ :: ts => minLen ts + 1
  | .star :: ts => minLen ts

theorem GM_len {ts s} (h : GM ts s) : minLen ts ≤ s.length := by
  induction h with
  | nil => simp [minLen]
  | one _ _ ih => simp [minLen]; omega
  | star k _ ih => simp [minLen, List.length_drop] at *; omega

theorem star_good (ts : List Tok) (ih : ∀ s, Good ts s (mf ts s)) (s : List Char) :
    (star ts s = .m ↔ ∃ k, 1 ≤ k ∧ GM ts (s.drop k)) ∧
    (star ts s = .entire → ∀ k, 1 ≤ k → ¬ GM ts (s.drop k)) := by
  induction s with
  | nil =>
    have h := ih []
    simp only [star, Good, List.drop_nil] at *
    refine ⟨⟨fun hm => ⟨1, Nat.le_refl _, h.1.mp hm⟩, fun ⟨_, _, hk⟩ => h.1.mpr hk⟩, ?_⟩
    intro he k _; exact h.2 he 0
  | cons c s ihs =>
    have h := ih s
    unfold star
    have hd : ∀ k, 1 ≤ k → (c :: s).drop k = s.drop (k - 1) := by
      intro k hk; cases k with | zero => omega | succ n => simp
    cases hr : mf ts s with
    | m =>
      simp only [Good, hr] at h
      refine ⟨⟨fun _ => ⟨1, Nat.le_refl _, by simpa using h.1.mp trivial⟩, fun _ => rfl⟩, by simp⟩
    | entire =>
      simp only [Good, hr] at h
      refine ⟨⟨by simp, ?_⟩, ?_⟩
      · rintro ⟨k, hk, hg⟩; rw [hd k hk] at hg; exact absurd hg (h.2 trivial _)
      · intro _ k hk hg; rw [hd k hk] at hg; exact h.2 trivial _ hg
    | sub =>
      simp only [Good, hr] at h
      have hns : ¬ GM ts s := fun hg => by have := h.1.mpr hg; cases this
      simp only
      refine ⟨⟨?_, ?_⟩, ?_⟩
      · intro hm
        obtain ⟨k, hk, hg⟩ := ihs.1.mp hm
        exact ⟨k + 1, by omega, by simpa using hg⟩
      · rintro ⟨k, hk, hg⟩
        rw [hd k hk] at hg
        by_cases h1 : k = 1
        · subst h1; simp at hg; exact absurd hg hns
        · exact ihs.1.mpr ⟨k - 1, by omega, hg⟩
      · intro he k hk hg
        rw [hd k hk] at hg
        by_cases h1 : k = 1
        · subst h1; simp at hg; exact hns hg
        · exact ihs.2 he (k - 1) (by omega) hg

theorem mf_good (ts : List Tok) : ∀ s, Good ts s (mf ts s) := by
  induction ts with
  | nil =>
    intro s
    cases s with
    | nil => simp [mf, Good, GM_nil_iff]
    | cons c s => simp [mf, Good, GM_nil_iff]
  | cons t ts ih =>
    intro s
    cases t with
    | one p =>
      cases s with
      | nil =>
        simp only [mf, Good, List.drop_nil]
        exact ⟨⟨by simp, fun h => absurd h (GM_one_nil p ts)⟩, fun _ _ => GM_one_nil p ts⟩
      | cons c s =>
        have h := ih s
        simp only [mf]
        by_cases hp : p c = true
        · simp only [hp, if_true, Good, GM_one_cons, true_and] at *
          refine ⟨h.1, ?_⟩
          intro he k hg
          -- a suffix of c :: s matching `one p :: ts` forces a suffix of s matching ts
          cases k with
          | zero => simp [GM_one_cons] at hg; exact h.2 he 0 (by simpa using hg.2)
          | succ n =>
            simp only [List.drop_succ_cons] at hg
            cases hd : s.drop n with
            | nil => rw [hd] at hg; exact GM_one_nil p ts hg
            | cons d r =>
              rw [hd, GM_one_cons] at hg
              have : r = s.drop (n + 1) := by
                have := congrArg List.tail hd; simpa [List.tail_drop] using this.symm
              exact h.2 he (n + 1) (this ▸ hg.2)
        · simp only [hp, Bool.false_eq_true, if_false, Good, GM_one_cons, false_and]
          exact ⟨by simp, by simp⟩
    | star =>
      have hs := star_good ts ih s
      have h := ih s
      unfold mf
      cases hr : mf ts s with
      | m =>
        simp only [Good, hr, GM_star_iff] at *
        exact ⟨⟨fun _ => ⟨0, by simpa using h.1.mp trivial⟩, fun _ => trivial⟩, by simp⟩
      | entire =>
        simp only [Good, hr, GM_star_iff] at *
        refine ⟨⟨by simp, ?_⟩, ?_⟩
        · rintro ⟨k, hg⟩; exact absurd hg (h.2 trivial k)
        · rintro _ k ⟨j, hg⟩; rw [List.drop_drop] at hg; exact h.2 trivial _ hg
      | sub =>
        simp only [Good, hr] at h
        have hns : ¬ GM ts s := fun hg => by have := h.1.mpr hg; cases this
        simp only [Good, GM_star_iff]
        refine ⟨⟨?_, ?_⟩, ?_⟩
        · intro hm; obtain ⟨k, _, hg⟩ := hs.1.mp hm; exact ⟨k, hg⟩
        · rintro ⟨k, hg⟩
          by_cases h0 : k = 0
          · subst h0; simp at hg; exact absurd hg hns
          · exact hs.1.mpr ⟨k, by omega, hg⟩
        · rintro he k ⟨j, hg⟩
          rw [List.drop_drop] at hg
          by_cases h0 : k + j = 0
          · have : k = 0 ∧ j = 0 := by omega
            rw [h0] at hg; simp at hg; exact hns hg
          · exact hs.2 he (k + j) (by omega) hg

/-- C05 core: the backtracking matcher with its early exit decides the declarative relation -/
theorem mf_iff (ts : List Tok) (s : List Char) : mf ts s = .m ↔ GM ts s := (mf_good ts s).1

end Glob
