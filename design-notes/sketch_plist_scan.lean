namespace Scan

def isWs (c : UInt8) : Bool := c == 9 || c == 10 || c == 11 || c == 12 || c == 13 || c == 32 || c == 0x85 || c == 0xA0

structure St where
  start : Nat
  tstart : Nat
  trim : Bool
  lines : List (Nat × Nat)   -- in push order

/-- one iteration of the `for (idx, ch) in bytes.iter().enumerate()` loop (after F9) -/
def step (s : St) (idx : Nat) (ch : UInt8) : St :=
  if ch == 10 then
    { start := idx + 1, tstart := idx + 1, trim := true,
      lines := if s.start < idx && s.tstart < idx then s.lines ++ [(s.start, idx)] else s.lines }
  else if s.trim && isWs ch then { s with tstart := s.tstart + 1 }
  else { s with trim := false }

def loop (s : St) (idx : Nat) : List UInt8 → St
  | [] => s
  | c :: cs => loop (step s idx c) (idx + 1) cs

def finish (s : St) (len : Nat) : List (Nat × Nat) :=
  if s.start < len && s.tstart < len then s.lines ++ [(s.start, len)] else s.lines

def scan (b : List UInt8) : List (Nat × Nat) :=
  finish (loop { start := 0, tstart := 0, trim := true, lines := [] } 0 b) b.length

/-- spec with an explicit current line -/
def lead : List UInt8 → Nat
  | [] => 0
  | c :: cs => if isWs c then lead cs + 1 else 0

def hasNonWs (l : List UInt8) : Bool := l.any (fun c => !isWs c)

def specGo (cur : List UInt8) : List UInt8 → List (List UInt8)
  | [] => if hasNonWs cur then [cur] else []
  | c :: r => if c == 10 then (if hasNonWs cur then [cur] else []) ++ specGo [] r
              else specGo (cur ++ [c]) r

def slice (b : List UInt8) (p : Nat × Nat) : List UInt8 := (b.drop p.1).take (p.2 - p.1)

theorem lead_le (l : List UInt8) : lead l ≤ l.length := by
  induction l with
  | nil => simp [lead]
  | cons c cs ih => simp [lead]; split <;> omega

theorem lead_lt_iff (l : List UInt8) : lead l < l.length ↔ hasNonWs l = true := by
  induction l with
  | nil => simp [lead, hasNonWs]
  | cons c cs ih =>
    simp only [hasNonWs] at ih
    by_cases h : isWs c = true
    · simp [lead, hasNonWs, h, ← ih]
    · simp [lead, hasNonWs, h]

theorem lead_snoc (l : List UInt8) (c : UInt8) :
    lead (l ++ [c]) = if lead l = l.length ∧ isWs c = true then lead l + 1 else lead l := by
  induction l with
  | nil => simp [lead]
  | cons d ds ih =>
    have := lead_le ds
    simp only [List.cons_append, lead, List.length_cons]
    by_cases h : isWs d = true <;> simp [h, ih] <;> grind

theorem slice_mid (pre cur rest : List UInt8) :
    slice (pre ++ cur ++ rest) (pre.length, pre.length + cur.length) = cur := by
  simp [slice, List.append_assoc]

theorem finish_map (b : List UInt8) (s : St) (len : Nat) :
    (finish s len).map (slice b) =
      s.lines.map (slice b) ++ (if s.start < len ∧ s.tstart < len then [slice b (s.start, len)] else []) := by
  unfold finish; split <;> simp_all

theorem step_nl (s : St) (idx : Nat) :
    step s idx 10 = St.mk (idx + 1) (idx + 1) true
      (if s.start < idx ∧ s.tstart < idx then s.lines ++ [(s.start, idx)] else s.lines) := by
  simp [step]

theorem step_other (s : St) (idx : Nat) (c : UInt8) (h : c ≠ 10) :
    step s idx c = if s.trim = true ∧ isWs c = true then { s with tstart := s.tstart + 1 } else { s with trim := false } := by
  have : (c == 10) = false := by simp [h]
  simp [step, this]

/-- invariant-carrying generalisation -/
theorem loop_spec (b pre cur rest : List UInt8) (s : St)
    (hb : b = pre ++ cur ++ rest) (hcur : ∀ c ∈ cur, c ≠ 10)
    (hs : s.start = pre.length) (ht : s.tstart = pre.length + lead cur)
    (htrim : s.trim = decide (lead cur = cur.length)) :
    (finish (loop s (pre.length + cur.length) rest) b.length).map (slice b)
      = s.lines.map (slice b) ++ specGo cur rest := by
  induction rest generalizing pre cur s with
  | nil =>
    have hl := lead_le cur
    have hiff := lead_lt_iff cur
    have hsl := slice_mid pre cur []
    subst hb
    simp only [List.append_nil] at hsl
    rw [loop, finish_map, specGo]
    simp only [List.append_nil, List.length_append, hs, ht]
    by_cases hn : hasNonWs cur = true
    · have h1 : lead cur < cur.length := hiff.mpr hn
      have : pre.length < pre.length + cur.length ∧ pre.length + lead cur < pre.length + cur.length := by omega
      simp [this, hn, hsl]
    · have h1 : ¬ lead cur < cur.length := fun h => hn (hiff.mp h)
      have : ¬ (pre.length + lead cur < pre.length + cur.length) := by omega
      simp [this, hn]
  | cons c r ih =>
    have hl := lead_le cur
    have hiff := lead_lt_iff cur
    rw [loop, specGo]
    by_cases hc : c = 10
    · subst hc
      have hsl := slice_mid pre cur (10 :: r)
      have key := ih (pre ++ cur ++ [10]) [] (step s (pre.length + cur.length) 10)
        (by simp [hb]) (by simp) (by simp [step_nl]; omega) (by simp [step_nl, lead]; omega) (by simp [step_nl, lead])
      have e : (pre ++ cur ++ [10]).length + ([] : List UInt8).length = pre.length + cur.length + 1 := by simp; omega
      rw [e] at key
      simp only [beq_self_eq_true, if_true]
      rw [key, step_nl]
      simp only [hs, ht]
      by_cases hn : hasNonWs cur = true
      · have h1 : lead cur < cur.length := hiff.mpr hn
        have : pre.length < pre.length + cur.length ∧ pre.length + lead cur < pre.length + cur.length := by omega
        simp only [List.append_assoc] at hsl
        simp [this, hn, hb, hsl]
      · have h1 : ¬ lead cur < cur.length := fun h => hn (hiff.mp h)
        have : ¬ (pre.length + lead cur < pre.length + cur.length) := by omega
        simp [this, hn]
    · have hc' : (c == 10) = false := by simp [hc]
      have hst := step_other s (pre.length + cur.length) c hc
      have key := ih pre (cur ++ [c]) (step s (pre.length + cur.length) c)
        (by simp [hb])
        (by intro x hx; simp at hx; rcases hx with h | h; exact hcur x h; exact h ▸ hc)
        (by rw [hst]; split <;> simp [hs])
        (by rw [hst, lead_snoc, htrim]
            by_cases h1 : lead cur = cur.length <;> by_cases h2 : isWs c = true <;> simp [h1, h2, ht] <;> omega)
        (by rw [hst, lead_snoc, htrim]
            by_cases h1 : lead cur = cur.length <;> by_cases h2 : isWs c = true <;> simp [h1, h2] <;> omega)
      have e : pre.length + (cur ++ [c]).length = pre.length + cur.length + 1 := by simp; omega
      rw [e] at key
      have hlines : (step s (pre.length + cur.length) c).lines = s.lines := by
        rw [hst]; split <;> rfl
      simp only [hc', Bool.false_eq_true, if_false]
      rw [key, hlines]

theorem scan_spec (b : List UInt8) : (scan b).map (slice b) = specGo [] b := by
  have := loop_spec b [] [] b { start := 0, tstart := 0, trim := true, lines := [] }
    (by simp) (by simp) rfl (by simp [lead]) (by simp [lead])
  simpa [scan] using this

end Scan
