//! Generators for cluster `dig`.
use harness::*;

fn data(rng: &mut Rng, n: usize, text: bool) -> Vec<u8> {
    if text {
        // lines, some containing the marker, some nearly
        let mut out: Vec<u8> = vec![];
        while out.len() < n {
            let l: &[u8] = *rng.pick::<&[u8]>(&[
                b"--- a/file", b"+++ b/file", b"$NetBSD: patch-aa,v 1.1 2024/01/01 00:00:00 x Exp $", b"$NetBSD$",
                b"context $NetBS", b"x$NetBSDy", b"", b"@@ -1,2 +1,2 @@", b"-old", b"+new", b"$NetBSD", b"NetBSD$",
                // other '$' before the marker on the same line, doubled '$', near misses that restart
                b"+.if ${FOO} > 5.4 # $NetBSD$", b"$Id$ $NetBSD: x $", b"$$NetBSD: Makefile,v 1.2 $$", b"$Net$NetBSD",
                b"$NetBS$NetBSD", b"$$", b"$N$Ne$Net$NetB$NetBS", b"$NETBSD$", b"$ NetBSD",
            ]);
            out.extend(l);
            out.push(b'\n');
        }
        out.truncate(n);
        out
    } else {
        (0..n).map(|_| rng.next() as u8).collect()
    }
}

fn schedule(rng: &mut Rng, len: usize) -> String {
    match rng.below(8) {
        0 => String::new(), // one read
        1 => vec!["1"; len.min(300)].join(","), // byte at a time
        2 => {
            // random short reads
            let k = rng.range(1, 12);
            (0..k).map(|_| rng.range(1, 9).to_string()).collect::<Vec<_>>().join(",")
        }
        3 => {
            // interrupts sprinkled between short reads
            let k = rng.range(2, 10);
            (0..k)
                .map(|_| if rng.chance(1, 3) { "i".to_string() } else { rng.range(1, 70).to_string() })
                .collect::<Vec<_>>()
                .join(",")
        }
        4 => "i,i,i".into(),
        5 => {
            // a hard error: first / middle / after everything
            let kind = *rng.pick(&["e", "eu", "ew", "et", "ep", "ed", "en"]);
            match rng.below(3) {
                0 => kind.into(),
                1 => format!("{},{}", rng.range(1, len.max(1)), kind),
                _ => format!("{},i,{}", len + 10, kind),
            }
        }
        6 => format!("{},{}", len / 2 + 1, 1),
        _ => "64,64,64,64".into(),
    }
}

fn gen_c13(tier: &str, rng: &mut Rng, emit: &mut dyn FnMut(Op)) {
    let thorough = tier == "thorough";
    // names
    for n in ["BLAKE2s", "MD5", "RMD160", "SHA1", "SHA256", "SHA512", "blake2s", "md5", "rmd160", "sha1", "sha256", "sha512",
        "Sha1", "sHA256", "BLAKE2S", "BLA\u{212A}E2s", "SHA-1", "SHA3", "sha 1", " sha1", "sha1 ", "", "SHA1\0", "ＳＨＡ１", "MD4", "SHA224",
        "RIPEMD160", "blake2b", "\u{17F}ha1"] {
        emit(Op::s("digest.name", &[n]));
    }
    let lens: Vec<usize> = if thorough {
        vec![0, 1, 2, 55, 56, 57, 63, 64, 65, 111, 112, 119, 120, 127, 128, 129, 1000, 8191, 8192, 8193, 20000]
    } else {
        vec![0, 1, 55, 56, 57, 63, 64, 65, 111, 112, 119, 120, 127, 128, 129, 1000, 8193]
    };
    for alg in 0..6usize {
        for &n in &lens {
            for text in [false, true] {
                let d = data(rng, n, text);
                for mode in ["f", "p"] {
                    emit(Op::new("digest.hash", &[alg.to_string().as_bytes(), mode.as_bytes(), b"", &d]));
                    for _ in 0..(if thorough { 4 } else { 2 }) {
                        let s = schedule(rng, n);
                        emit(Op::new("digest.hash", &[alg.to_string().as_bytes(), mode.as_bytes(), s.as_bytes(), &d]));
                    }
                }
                if std::str::from_utf8(&d).is_ok() {
                    emit(Op::new("digest.hash", &[alg.to_string().as_bytes(), b"s", b"", &d]));
                }
            }
        }
        // marker straddling a read boundary / just before and after a newline; no final newline
        for (d, s) in [
            (&b"abc\n$NetBSD$\ndef\n"[..], "5"), (b"abc\n$NetBSD$\ndef\n", "4,3,1"), (b"abc\n$NetBSD$\ndef", "7"),
            (b"$NetBSD", ""), (b"$NetBS\nD", "3"), (b"no newline $NetBSD$", "2,2,2"), (b"\n", ""), (b"\n\n", "1"),
            (b"a\n", "1,1"), (b"a", "1"), (b"x\r\n$NetBSD$\r\n", "3"),
            (b"a ${X} $NetBSD$\nb\n", "4"), (b"$$NetBSD$$\nkeep\n", ""), (b"$Net$NetBSD\nkeep\n", "2,2"),
            (b"data", "eu"), (b"data", "2,eu"), (b"data", "9,eu"), (b"", "eu"),
        ] {
            for mode in ["f", "p"] {
                emit(Op::new("digest.hash", &[alg.to_string().as_bytes(), mode.as_bytes(), s.as_bytes(), d]));
            }
        }
        // Interrupted is retried however often it comes: long runs of it at the start, in the
        // middle and right before the end of the data
        for run in [999usize, 1000, 1001, 3000] {
            let ints = vec!["i"; run].join(",");
            for sched in [format!("{},4,4", ints), format!("4,{},4", ints), format!("4,4,{}", ints)] {
                for mode in ["f", "p"] {
                    emit(Op::new("digest.hash", &[alg.to_string().as_bytes(), mode.as_bytes(), sched.as_bytes(), b"twelve bytes"]));
                }
            }
        }
        // other RCS keywords are content; a marker after a hunk header is still a marker
        for d in [&b"$Id$"[..], b"$Id$\nkeep\n", b"$Revision: 1.2 $\n$Date$\n$Author: x $\n$Header$\n$Source: y $\nkeep\n", b"@@ \n$NetBSD",
            b"--- a\n+++ b\n@@ -1 +1 @@\n-$NetBSD: old $\n+$NetBSD: new $\n ctx\n", b"@@ -1 +1 @@\nkeep\n"] {
            for mode in ["f", "p"] {
                emit(Op::new("digest.hash", &[alg.to_string().as_bytes(), mode.as_bytes(), b"", d]));
            }
        }
        // a line may BEGIN with the letters of the marker without the '$': it is kept
        for d in [&b"NetBSD make needs this\nkeep\n"[..], b"NetBSD\n", b"x\nNetBSD: y\n", b"etBSD$ x\n$ NetBSD\n", b"NetBSD$NetBS\n"] {
            for mode in ["f", "p"] {
                emit(Op::new("digest.hash", &[alg.to_string().as_bytes(), mode.as_bytes(), b"", d]));
            }
        }
        // the string entry point hashes the string's bytes, all of them: a leading byte order mark,
        // blanks, NUL and a trailing newline are data
        for t in ["\u{feff}hello world", "\u{feff}", "\u{feff}\u{feff}x", "x\u{feff}", " hello ", "hello\n", "\nhello", "\0", "a\0b", "\r\n",
            "\u{fffe}", "\u{feff}$NetBSD$\n"] {
            for mode in ["s", "f", "p"] {
                emit(Op::new("digest.hash", &[alg.to_string().as_bytes(), mode.as_bytes(), b"", t.as_bytes()]));
            }
        }
        // very long lines: the marker counts wherever it stands in the line (around and beyond any
        // plausible buffer size), and a long line without one is kept whole
        let long_cases: Vec<(usize, Option<usize>)> = if thorough {
            vec![(70000, Some(69000)), (70000, Some(65530)), (70000, Some(65533)), (70000, Some(65536)), (70000, None), (70000, Some(0)),
                (140000, Some(131070)), (9000, Some(8190)), (9000, Some(8192)), (33000, Some(32766))]
        } else {
            // one algorithm per long case in the quick tier
            [(70000, Some(69000)), (70000, Some(65533)), (70000, None), (9000, Some(8190)), (33000, Some(32766)), (70000, Some(65536))]
                .iter().cloned().enumerate().filter(|(i, _)| i % 6 == alg).map(|(_, c)| c).collect()
        };
        // a kept line larger than any plausible block (after other kept bytes), and an unbroken run
        // of marker lines far longer than any stack is deep: one algorithm each in the quick tier
        if thorough || alg == 0 || alg == 3 {
            for len in [131072usize, 140000, 300000] {
                let line: Vec<u8> = (0..len).map(|i| b"abcdefghij klmnop"[i % 17]).collect();
                let mut d: Vec<u8> = b"first\n".to_vec();
                d.extend(&line);
                d.extend(b"\n");
                d.extend(&line);
                d.extend(b"\nlast\n");
                emit(Op::new("digest.hash", &[alg.to_string().as_bytes(), b"p", b"", &d]));
            }
        }
        if thorough || alg == 1 || alg == 4 {
            for run in [5000usize, 120000] {
                let mut d: Vec<u8> = b"kept\n".to_vec();
                for _ in 0..run {
                    d.extend(b"$NetBSD\n");
                }
                d.extend(b"kept too\n");
                emit(Op::new("digest.hash", &[alg.to_string().as_bytes(), b"p", b"", &d]));
            }
        }
        for (len, at) in long_cases {
            let mut line: Vec<u8> = (0..len).map(|i| b"abcdefghij klmnop"[i % 17]).collect();
            if let Some(k) = at {
                let m = b"$NetBSD: x $";
                let k = k.min(len - m.len());
                line[k..k + m.len()].copy_from_slice(m);
            }
            let mut d: Vec<u8> = b"first\n".to_vec();
            d.extend(&line);
            d.extend(b"\nlast\n");
            let sched = if rng.chance(1, 2) { "" } else { "8192,8192,1,65536" };
            emit(Op::new("digest.hash", &[alg.to_string().as_bytes(), b"p", sched.as_bytes(), &d]));
        }
        // Interrupted at every read index of a small input
        let d = data(rng, 40, true);
        for k in 0..8 {
            let mut s: Vec<String> = vec!["6".to_string(); 8];
            s.insert(k, "i".into());
            for mode in ["f", "p"] {
                emit(Op::new("digest.hash", &[alg.to_string().as_bytes(), mode.as_bytes(), s.join(",").as_bytes(), &d]));
            }
        }
    }
}

pub fn gen(id: &str, tier: &str, rng: &mut Rng, emit: &mut dyn FnMut(Op)) {
    match id {
        "C17" => {
            // mutations of every other generator's ops (and the ops themselves, sampled)
            let mut pool: Vec<Op> = vec![];
            for pid in ["C13"] {
                let mut sub = Rng::new(rng.next());
                let mut n = 0usize;
                gen(pid, "quick", &mut sub, &mut |op: Op| {
                    n += 1;
                    if n % 7 == 0 || pool.len() < 400 {
                        pool.push(op);
                    }
                });
            }
            // files are exercised by their own properties; C17 is about parsers and matchers
            pool.retain(|o| !matches!(o.name.as_str(), "distinfo.verify" | "entry.verify" | "pkgdb.iter"));
            let n = if tier == "thorough" { 60000 } else { 4000 };
            fuzz(&pool, n, rng, emit);
        }
        "C13" => with_oracle_fuzz(tier, rng, emit, &gen_c13),
        _ => {
            eprintln!("dig: unknown property {}", id);
            std::process::exit(2);
        }
    }
}
