//! Cluster `dig`: digests (property C13).
use harness::*;
use pkgsrc::digest::Digest;
use std::io::Read;
use std::str::FromStr;

mod gen;

pub const DIGESTS: [Digest; 6] = [
    Digest::BLAKE2s,
    Digest::MD5,
    Digest::RMD160,
    Digest::SHA1,
    Digest::SHA256,
    Digest::SHA512,
];

/// A reader driven by a schedule: "n" = return at most n bytes, "i" = Interrupted,
/// "e" = a hard error.  When the schedule is exhausted the rest is returned in one read.
struct Scheduled {
    data: Vec<u8>,
    pos: usize,
    sched: Vec<String>,
    step: usize,
}

impl Read for Scheduled {
    fn read(&mut self, buf: &mut [u8]) -> std::io::Result<usize> {
        let ev = self.sched.get(self.step).cloned();
        self.step += 1;
        let want = match ev.as_deref() {
            Some("i") => return Err(std::io::Error::new(std::io::ErrorKind::Interrupted, "eintr")),
            // a hard error of some kind (anything but Interrupted must be returned, never
            // treated as end of file or retried)
            Some(e) if e.starts_with('e') => {
                let kind = match e {
                    "eu" => std::io::ErrorKind::UnexpectedEof,
                    "ew" => std::io::ErrorKind::WouldBlock,
                    "et" => std::io::ErrorKind::TimedOut,
                    "ep" => std::io::ErrorKind::BrokenPipe,
                    "ed" => std::io::ErrorKind::InvalidData,
                    "en" => std::io::ErrorKind::NotFound,
                    _ => std::io::ErrorKind::Other,
                };
                return Err(std::io::Error::new(kind, "boom"));
            }
            Some(n) => n.parse::<usize>().unwrap_or(usize::MAX).max(1),
            None => usize::MAX,
        };
        let n = want.min(buf.len()).min(self.data.len() - self.pos);
        buf[..n].copy_from_slice(&self.data[self.pos..self.pos + n]);
        self.pos += n;
        Ok(n)
    }
}

fn exec(op: &Op) -> String {
    match op.name.as_str() {
        "digest.hash" => {
            // args: algorithm index, mode (f|p|s), schedule (comma separated), data
            let Some(i) = op.str(0).and_then(|s| s.parse::<usize>().ok()) else { return "BAD-ARG".into() };
            if i >= 6 {
                return "BAD-ARG".into();
            }
            let d = DIGESTS[i];
            let mode = op.str(1).unwrap_or("f").to_string();
            let sched: Vec<String> = match op.str(2) {
                Some("") | None => vec![],
                Some(s) => s.split(',').map(|x| x.to_string()).collect(),
            };
            let mut r = Scheduled { data: op.args[3].clone(), pos: 0, sched, step: 0 };
            let res = match mode.as_str() {
                "f" => d.hash_file(&mut r),
                "p" => d.hash_patch(&mut r),
                _ => match std::str::from_utf8(&op.args[3]) {
                    Ok(s) => d.hash_str(s),
                    Err(_) => return "BAD-UTF8".into(),
                },
            };
            match res {
                Ok(h) => h,
                Err(_) => "err".into(),
            }
        }
        "digest.name" => {
            let Some(s) = op.str(0) else { return "BAD-UTF8".into() };
            match Digest::from_str(s) {
                Ok(d) => format!("{}:{}", DIGESTS.iter().position(|x| *x == d).unwrap(), d),
                Err(_) => "none".into(),
            }
        }
        _ => "UNKNOWN-OP".into(),
    }
}

fn main() {
    main_with(&exec, &gen::gen);
}
