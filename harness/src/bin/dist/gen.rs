//! Generators for cluster `dist`.
use super::DIGESTS;
use harness::*;
use pkgsrc::digest::Digest;
use std::io::Cursor;

const DNAMES: [&str; 6] = ["BLAKE2s", "MD5", "RMD160", "SHA1", "SHA256", "SHA512"];

fn dist_names() -> Vec<Vec<u8>> {
    vec![
        b"foo-1.0.tar.gz".to_vec(),
        b"sub/dir/x.tgz".to_vec(),
        b"caf\xc3\xa9.tar".to_vec(),
        b"\xc3\xa0.zip".to_vec(),       // C3 A0: contains A0
        b"\xc3\x85ngstrom".to_vec(),     // C3 85: contains 85
        b"lone\xe9.tgz".to_vec(),        // invalid UTF-8
        b"x\x85y".to_vec(),
        b"x\xa0y".to_vec(),
        b"x\x0by".to_vec(),              // vertical tab: not ASCII whitespace
        b"na(me).tgz".to_vec(),
        b"(weird)".to_vec(),
        b"patch-2.7.6.tar.xz".to_vec(),  // looks like a patch, is a distfile
        b"patch-local-foo".to_vec(),
        b"patch-aa.orig".to_vec(),
        b"a".to_vec(),
        b"emul-patch-x".to_vec(),        // not emul-*-patch-*
        b"foo.patch-1".to_vec(),
        // names that are trailing sub-paths of one another are different files
        b"x.tgz".to_vec(),
        b"dir/x.tgz".to_vec(),
        // a leading "./" is part of the spelling (same file as without it), "../" is not
        // any name is a name: absolute, with "..", containing the RCS marker, patch-like with a
        // trailing separator (still a patch), a patch below a directory whose name contains ".tar."
        b"../shared/bar.tgz".to_vec(),
        b"/net/distfiles/foo.tar.gz".to_vec(),
        b"cvs-$NetBSD$-keywords.tgz".to_vec(),
        b"libfoo-1.2.tar.gz.d/patch-aa".to_vec(),
        // spellings with doubled / dotted / trailing separators are kept as written
        b"dir//f.tgz".to_vec(),
        b"dir/./g.tgz".to_vec(),
        b"h.tgz/".to_vec(),
        b"a//b///c.tgz".to_vec(),
        b"./x.tgz".to_vec(),
        b"./sub/dir/x.tgz".to_vec(),
        b"./dotted-1.0.tgz".to_vec(),
        b"v2/foo-1.0.tar.gz".to_vec(),
        b"v2/v2/foo-1.0.tar.gz".to_vec(),
    ]
}
fn patch_names() -> Vec<Vec<u8>> {
    vec![
        b"patch-ab/".to_vec(),
        b"patch-ac//".to_vec(),
        b"patch-ad/.".to_vec(),
        b"patch-aa".to_vec(),
        b"patch-src_main.c".to_vec(),
        b"emul-linux-patch-a".to_vec(),
        b"patch-caf\xe9".to_vec(),
        b"patch-\xc3\xa0".to_vec(),
        b"sub/patch-ab".to_vec(),
        b"patch-ab".to_vec(),
        b"extra/patch-aa".to_vec(),
    ]
}

fn hash_str(rng: &mut Rng) -> String {
    match rng.below(7) {
        0 => "abc".into(),
        // a recorded hash is an opaque token: no word and no letter case is special
        5 => rng.pick(&["IGNORE", "ignore", "none", "-", "SKIP", "null", "ABCDEF0123456789", "53F5a0B", "x=y", "(h)"]).to_string(),
        6 => "D41D8CD98F00B204E9800998ECF8427E".into(),
        1 => "d41d8cd98f00b204e9800998ecf8427e".into(),
        2 => "é".into(),
        3 => "0".into(),
        _ => (0..rng.range(8, 40)).map(|_| *rng.pick(&['0', '1', '9', 'a', 'f'])).collect(),
    }
}

fn block(rng: &mut Rng, name: &[u8], patch: bool) -> Vec<u8> {
    let mut out = vec![];
    let mut ds: Vec<usize> = (0..6).collect();
    rng.shuffle(&mut ds);
    let k = rng.range(if patch { 1 } else { 0 }, 4);
    for &i in ds.iter().take(k) {
        out.extend(format!("{} (", DNAMES[i]).as_bytes());
        out.extend(name);
        out.extend(format!(") = {}\n", hash_str(rng)).as_bytes());
    }
    if !patch && (k == 0 || rng.chance(2, 3)) {
        let n: u64 = *rng.pick(&[0u64, 1, 1024, u64::MAX, 123456789]);
        out.extend(b"Size (");
        out.extend(name);
        out.extend(format!(") = {} bytes\n", n).as_bytes());
    }
    out
}

fn canonical_file(rng: &mut Rng) -> Vec<u8> {
    let mut out: Vec<u8> = match rng.below(7) {
        0 => b"$NetBSD$".to_vec(),
        1 => b"$NetBSD: distinfo,v 1.80 2024/05/27 19:17:21 riastradh Exp $".to_vec(),
        2 => b"$NetBSD: caf\xe9 \xa0 $".to_vec(),
        // "RCS Id lines of any bytes": trailing blanks / CR / FF / VT belong to the Id
        3 => b"$NetBSD: distinfo,v 1.2 wiz Exp $ ".to_vec(),
        4 => b"$NetBSD: j\xf6rg Exp $\r".to_vec(),
        5 => b"$NetBSD: x $\t \x0c\x0b".to_vec(),
        _ => b"$NetBSD: x $".to_vec(),
    };
    out.extend(b"\n\n");
    let mut dn = dist_names();
    rng.shuffle(&mut dn);
    for n in dn.iter().take(rng.range(0, 4)) {
        out.extend(block(rng, n, false));
    }
    let mut pn = patch_names();
    rng.shuffle(&mut pn);
    for n in pn.iter().take(rng.range(0, 3)) {
        out.extend(block(rng, n, true));
    }
    out
}

fn build_calls(rng: &mut Rng) -> Vec<Vec<u8>> {
    let mut calls: Vec<Vec<u8>> = vec![];
    if rng.chance(2, 3) {
        let mut c = vec![0u8];
        c.extend(match rng.below(5) {
            0 => b"$NetBSD: distinfo,v 1.1 2024/01/01 00:00:00 x Exp $".to_vec(),
            1 => b"$NetBSD: \xe9 $".to_vec(),
            2 => b"$NetBSD: y $ \t".to_vec(),
            3 => b"$NetBSD: z $\r".to_vec(),
            _ => b"$NetBSD: y $".to_vec(),
        });
        calls.push(c);
    }
    let mut names: Vec<Vec<u8>> = dist_names();
    names.extend(patch_names());
    rng.shuffle(&mut names);
    let k = rng.range(0, 5);
    for n in names.iter().take(k) {
        let is_patch = n.starts_with(b"patch-a") || n.starts_with(b"patch-s") || n.starts_with(b"patch-c")
            || n.starts_with(b"patch-\xc3") || n.starts_with(b"emul-linux") || n.starts_with(b"sub/patch") || n.starts_with(b"extra/patch");
        let mut c = vec![1u8];
        c.extend(n);
        c.push(0);
        let with_size = !is_patch && rng.chance(2, 3);
        if with_size {
            c.extend(rng.pick(&[0u64, 7, u64::MAX]).to_string().as_bytes());
        } else {
            c.push(b'-');
        }
        let mut ds: Vec<usize> = (0..6).collect();
        rng.shuffle(&mut ds);
        let nsum = rng.range(if with_size { 0 } else { 1 }, 3);
        for &i in ds.iter().take(nsum) {
            c.push(0);
            c.extend(DNAMES[i].as_bytes());
            c.push(0);
            c.extend(hash_str(rng).as_bytes());
        }
        calls.push(c);
    }
    // sometimes insert the same name twice (second replaces in place)
    if rng.chance(1, 5) && calls.len() > 1 {
        let c = calls[calls.len() - 1].clone();
        calls.push(c);
    }
    // an entry whose FILEPATH (where it was hashed from) looks like the other kind of file
    if rng.chance(1, 4) {
        let (name, fp): (&[u8], &[u8]) = *rng.pick(&[(&b"libfoo-1.2-fix-build.diff"[..], &b"/distfiles/.incoming/patch-8f3a2c1.diff"[..]),
            (b"patch-zz", b"/tmp/work/main.c.diff"), (b"emul-linux-patch-q", b"dl/file.bin"), (b"plain.tgz", b"x/patch-aa"), (b"sub/p.tgz", b"")]);
        let mut c = vec![2u8];
        c.extend(name);
        c.push(0);
        c.extend(fp);
        c.push(0);
        if name.starts_with(b"patch-") || name.starts_with(b"emul-") { c.push(b'-'); } else { c.extend(b"18446744073709551615"); }
        c.push(0);
        c.extend(DNAMES[rng.below(6)].as_bytes());
        c.push(0);
        c.extend(hash_str(rng).as_bytes());
        calls.push(c);
    }
    // ... or insert an earlier name again with OTHER values (an update in place), and set the
    // RCS Id again: the written form must show the latest values
    if rng.chance(1, 3) && calls.len() > 1 {
        let k = rng.below(calls.len());
        if calls[k][0] == 1 {
            let name: Vec<u8> = calls[k][1..].split(|c| *c == 0).next().unwrap().to_vec();
            let mut c = vec![1u8];
            c.extend(&name);
            c.push(0);
            if name.starts_with(b"patch-") || rng.chance(1, 2) { c.push(b'-'); } else { c.extend(b"4242"); }
            c.push(0);
            c.extend(DNAMES[rng.below(6)].as_bytes());
            c.push(0);
            c.extend(hash_str(rng).as_bytes());
            calls.push(c);
        } else {
            let mut c = vec![0u8];
            c.extend(b"$NetBSD: again $");
            calls.push(c);
        }
    }
    calls
}

fn gen_c10(tier: &str, rng: &mut Rng, emit: &mut dyn FnMut(Op)) {
    let thorough = tier == "thorough";
    let doc = b"$NetBSD: distinfo,v 1.1 2024/01/01 00:00:00 x Exp $\n\nBLAKE2s (foo-1.0.tar.gz) = aa\nSHA512 (foo-1.0.tar.gz) = bb\nSize (foo-1.0.tar.gz) = 42 bytes\nSHA1 (patch-aa) = cc\n";
    emit(Op::new("distinfo.roundtrip", &[doc]));
    emit(Op::new("distinfo.parse", &[doc]));
    for n in dist_names().iter().chain(patch_names().iter()) {
        let mut d = b"$NetBSD$\n\nSHA1 (".to_vec();
        d.extend(n);
        d.extend(b") = abc\n");
        emit(Op::new("distinfo.roundtrip", &[&d]));
        emit(Op::new("entrytype", &[n]));
    }
    // two names that differ only in bytes that are not UTF-8 are two files
    for (a, b) in [(&b"caf\xe9-1.0.tar.gz"[..], &b"caf\xe8-1.0.tar.gz"[..]), (b"x\xff.tgz", b"x\xef\xbf\xbd.tgz"), (b"patch-\xe9", b"patch-\xe8"), (b"d\xe9/x.tgz", b"d\xe8/x.tgz")] {
        let mut d = b"$NetBSD$\n\n".to_vec();
        let patch = a.starts_with(b"patch-");
        for n in [a, b] {
            for alg in if patch { vec!["SHA1"] } else { vec!["BLAKE2s", "SHA512"] } {
                d.extend(format!("{} (", alg).as_bytes());
                d.extend(n);
                d.extend(b") = 0123456789abcdef\n");
            }
            if !patch {
                d.extend(b"Size (");
                d.extend(n);
                d.extend(if n == a { &b") = 1 bytes\n"[..] } else { &b") = 2 bytes\n"[..] });
            }
        }
        emit(Op::new("distinfo.roundtrip", &[&d]));
        emit(Op::new("distinfo.parse", &[&d]));
        let mk = |n: &[u8], h: &str| { let mut c = vec![1u8]; c.extend(n); c.push(0); if patch { c.push(b'-'); } else { c.extend(b"7"); } c.push(0); c.extend(b"SHA1"); c.push(0); c.extend(h.as_bytes()); c };
        emit(Op::new("distinfo.build", &[&mk(a, "aa"), &mk(b, "bb")]));
    }
    // an update through insert() under another SPELLING of the same path
    for (n1, n2) in [(&b"sub/foo.tgz"[..], &b"sub//foo.tgz"[..]), (b"sub//foo.tgz", b"sub/foo.tgz"), (b"sub/foo.tgz", b"sub/./foo.tgz"), (b"foo.tgz", b"./foo.tgz"),
        (b"sub/patch-aa", b"sub//patch-aa"), (b"a/b/c.tgz", b"a//b/./c.tgz")] {
        let mk = |n: &[u8], h: &str| { let mut c = vec![1u8]; c.extend(n); c.push(0); c.extend(b"7"); c.push(0); c.extend(b"SHA1"); c.push(0); c.extend(h.as_bytes()); c };
        emit(Op::new("distinfo.build", &[&mk(n1, "aa"), &mk(n2, "bb")]));
        emit(Op::new("distinfo.build", &[&mk(b"other.tgz", "cc"), &mk(n1, "aa"), &mk(n2, "bb"), &mk(n1, "dd")]));
    }
    for _ in 0..(if thorough { 20000 } else { 1500 }) {
        let f = canonical_file(rng);
        emit(Op::new("distinfo.roundtrip", &[&f]));
        if rng.chance(1, 3) {
            emit(Op::new("distinfo.parse", &[&f]));
        }
    }
    for _ in 0..(if thorough { 10000 } else { 800 }) {
        let calls = build_calls(rng);
        let refs: Vec<&[u8]> = calls.iter().map(|c| c.as_slice()).collect();
        emit(Op::new("distinfo.build", &refs));
    }
}

fn junk_line(rng: &mut Rng) -> Vec<u8> {
    match rng.below(16) {
        0 => b"".to_vec(),
        1 => b"# comment SHA1 (x) = y".to_vec(),
        2 => b"   ".to_vec(),
        3 => b"SHA3 (foo) = abc".to_vec(),
        4 => b"Size (foo) = 1x bytes".to_vec(),
        5 => b"Size (foo) = -1 bytes".to_vec(),
        6 => b"Size (foo) = 18446744073709551616 bytes".to_vec(),
        7 => b"SHA1".to_vec(),
        8 => b"SHA1 (x)".to_vec(),
        9 => b"SHA1 (x) =".to_vec(),
        10 => b"SHA1 x = abc".to_vec(),
        11 => b"SHA1 (x = abc".to_vec(),
        12 => b"SHA1 x) = abc".to_vec(),
        13 => b"\xe9\xe9 (x) = abc".to_vec(),
        14 => b"SHA1 (x) = \xe9".to_vec(),
        _ => b"garbage here and there more".to_vec(),
    }
}

fn good_line(rng: &mut Rng, name: &[u8]) -> Vec<u8> {
    let sep = |rng: &mut Rng| -> &'static [u8] { *rng.pick(&[&b" "[..], b"  ", b"\t", b" \t ", b"\x0c"]) };
    let mut l: Vec<u8> = vec![];
    if rng.chance(1, 4) {
        l.extend(sep(rng));
    }
    if rng.chance(1, 4) {
        l.extend(b"Size");
        l.extend(sep(rng));
        l.push(b'(');
        l.extend(name);
        l.push(b')');
        l.extend(sep(rng));
        l.push(b'=');
        l.extend(sep(rng));
        l.extend(rng.pick(&["0", "42", "+7", "18446744073709551615", "007"]).as_bytes());
        if rng.chance(3, 4) {
            l.extend(sep(rng));
            l.extend(b"bytes");
        }
    } else {
        let spell = *rng.pick(&["SHA1", "sha1", "Sha256", "BLAKE2s", "blake2S", "MD5", "RMD160", "rmd160", "SHA512", "BLA\u{212A}E2s"]);
        l.extend(spell.as_bytes());
        l.extend(sep(rng));
        l.push(b'(');
        l.extend(name);
        l.push(b')');
        l.extend(sep(rng));
        l.extend(*rng.pick(&[&b"="[..], b"=", b"=", b"is"]));
        l.extend(sep(rng));
        l.extend(hash_str(rng).as_bytes());
        if rng.chance(1, 6) {
            l.extend(sep(rng));
            l.extend(b"trailing");
        }
    }
    if rng.chance(1, 5) {
        l.extend(sep(rng));
    }
    l
}

fn gen_c11(tier: &str, rng: &mut Rng, emit: &mut dyn FnMut(Op)) {
    let thorough = tier == "thorough";
    // classification probes
    let probes: [&[u8]; 34] = [
        b"patch-aa", b"patch-", b"patch", b"patch-local-x", b"patch-local-", b"patch-x.orig", b"patch-x.rej",
        b"patch-a~", b"patch-2.7.6.tar.xz", b"patch-a.tar.", b"patch-a.tar", b"foo.patch-1", b"xpatch-aa",
        b"emul-linux-patch-a", b"emul-patch-x", b"emul--patch-x", b"emul-a-patch-b.rej", b"emul-a-patch-",
        b"emul-apatch-b", b"emulx-a-patch-b", b"sub/patch-aa", b"patch-aa/foo.tgz", b"patch-aa/", b"patch-aa/.",
        b"patch-aa/..", b"/", b"", b"..", b"patch-\xe9", b"\xe9patch-a", b"PATCH-aa", b"patch-a.TAR.gz",
        b"emul-x-patch-y.tar.z", b"a/b/emul-x-patch-y",
    ];
    for p in probes {
        emit(Op::new("entrytype", &[p]));
    }
    // version-control noise is garbage like any other line: it changes nothing around it
    for doc in [&b"<<<<<<< HEAD\nSHA1 (patch-aa) = 11\n=======\nSHA1 (patch-ab) = 22\nSize (x.tgz) = 5 bytes\n>>>>>>> branch\nSHA1 (patch-ac) = 33\n"[..],
        b"=======\nSHA1 (a.tgz) = 11\n", b"<<<<<<< x\n=======\nSHA1 (a.tgz) = 11\nSHA1 (b.tgz) = 22\n",
        b"SHA1 (a.tgz) = 11\n<<<<<<< \nSHA1 (a.tgz) = 22\n=======\nSHA1 (a.tgz) = 33\n",
        b"SHA512 (cvs-$NetBSD$-keywords.tgz) = 11bb\nSize (cvs-$NetBSD$-keywords.tgz) = 7 bytes\nSHA1 (x) = $NetBSD$\n"] {
        emit(Op::new("distinfo.parse", &[doc]));
    }
    // ".tar." ANYWHERE in the name keeps a patch-like name with the distfiles — also when more
    // suffixes follow it, when it is the very end, or when it occurs twice
    for pre in ["patch-", "emul-linux-patch-", "patch-2.7.6", "emul-a-patch-b", "sub/patch-", "foo-"] {
        for mid in [".tar.xz", ".tar.gz.sig", ".tar.xz.asc", ".tar.", ".tar", ".tar.gz.sha256.txt", "a.tar.b.c", ".tar..", ".tar.tar.", ".tarx.gz", "x.tar"] {
            let n = format!("{}{}", pre, mid);
            emit(Op::new("entrytype", &[n.as_bytes()]));
        }
    }
    // a second (third) RCS id line is one more ignored line: nothing recorded before it is lost
    for doc in [&b"$NetBSD: distinfo,v 1.1 $\n\nSHA1 (a.tgz) = 11\nSize (a.tgz) = 5 bytes\n$NetBSD: distinfo,v 1.2 $\nSHA1 (b.tgz) = 22\nSHA1 (patch-aa) = 33\n"[..],
        b"SHA1 (a.tgz) = 11\n$NetBSD$\nRMD160 (a.tgz) = 12\n$NetBSD: x $\n$NetBSD: y $\nSHA1 (patch-aa) = 33\n",
        b"$NetBSD: 1 $\n$NetBSD: 2 $\n"] {
        emit(Op::new("distinfo.parse", &[doc]));
    }
    // an algorithm name is one of the six, in any letter case — nothing else, whatever bit is flipped
    for name in DNAMES {
        for i in 0..name.len() {
            for bit in [0x20u8, 0x40, 0x10, 0x80, 0x01] {
                let mut b = name.as_bytes().to_vec();
                b[i] ^= bit;
                let mut l = b.clone();
                l.extend(b" (f.tgz) = abc");
                emit(Op::new("distinfo.line", &[&l]));
            }
        }
    }
    for j in 0..16 {
        let mut r = Rng::new(j);
        let l = junk_line(&mut r);
        emit(Op::new("distinfo.line", &[&l]));
    }
    let mut names = dist_names();
    names.extend(patch_names());
    for n in &names {
        for _ in 0..(if thorough { 20 } else { 4 }) {
            let l = good_line(rng, n);
            emit(Op::new("distinfo.line", &[&l]));
        }
    }
    for l in [&b"$NetBSD: x $"[..], b"  $NetBSD: y $", b"$NetBSD$", b"$NetBSD:x", b"$NetBSD: ", b"#", b" #x", b"()", b"SHA1 () = x", b"SHA1 ( = x", b"SHA1 (a) (b) c"] {
        emit(Op::new("distinfo.line", &[l]));
    }
    // documents: interleaved lines of 2-4 files mixed with ignored lines
    for _ in 0..(if thorough { 30000 } else { 2000 }) {
        let k = rng.range(1, 4);
        let mut pool = names.clone();
        rng.shuffle(&mut pool);
        let files: Vec<Vec<u8>> = pool.into_iter().take(k).collect();
        let nlines = rng.range(0, 10);
        let mut doc: Vec<u8> = vec![];
        if rng.chance(1, 2) {
            doc.extend(b"$NetBSD: distinfo,v 1.1 $\n\n");
        }
        for _ in 0..nlines {
            if rng.chance(1, 4) {
                doc.extend(junk_line(rng));
            } else if rng.chance(1, 8) {
                // "Size" is matched exactly: any other spelling is an unknown algorithm, ignored
                let f = rng.pick(&files).clone();
                doc.extend(rng.pick(&["SIZE", "size", "SiZe", "Sizes", "Siz", "Size:", "sIZE"]).as_bytes());
                doc.extend(b" (");
                doc.extend(&f);
                doc.extend(format!(") = {}{}", rng.pick(&["5", "999", "0"]), rng.pick(&[" bytes", ""])).as_bytes());
            } else {
                let f = rng.pick(&files).clone();
                doc.extend(good_line(rng, &f));
            }
            doc.push(b'\n');
        }
        if rng.chance(1, 10) {
            doc.pop();
        }
        emit(Op::new("distinfo.parse", &[&doc]));
    }
}

fn hashes(content: &[u8], patch: bool) -> String {
    DIGESTS
        .iter()
        .map(|d: &Digest| {
            let mut c = Cursor::new(content.to_vec());
            // never trust (or depend on) the implementation here: an error or a panic while hashing
            // becomes the placeholder "err", which the oracle's reference digests expose
            let r = std::panic::catch_unwind(std::panic::AssertUnwindSafe(|| {
                if patch { d.hash_patch(&mut c) } else { d.hash_file(&mut c) }
            }));
            match r {
                Ok(Ok(h)) => h,
                _ => "err".to_string(),
            }
        })
        .collect::<Vec<_>>()
        .join(",")
}

/// a patch-like text whose `$NetBSD` marker starts at byte offset `at`
fn big_with_marker(at: usize) -> Vec<u8> {
    let mut v: Vec<u8> = vec![];
    while v.len() + 40 < at {
        v.extend(b"+ some ordinary patch line, caf\xc3\xa9\n");
    }
    while v.len() < at.saturating_sub(2) {
        v.push(b'x');
    }
    if v.len() < at {
        v.extend(b"\n#"[..at - v.len()].iter());
    }
    v.extend(b"$NetBSD: patch-aa,v 1.3 2024/01/01 00:00:00 x Exp $\n+kept line after the id\n");
    v.extend(vec![b'y'; 300]);
    v.push(b'\n');
    v
}

fn gen_c12(tier: &str, rng: &mut Rng, emit: &mut dyn FnMut(Op)) {
    let thorough = tier == "thorough";
    let contents: Vec<Vec<u8>> = vec![
        b"".to_vec(),
        b"hello\n".to_vec(),
        b"no newline".to_vec(),
        b"\x00\x01\xff\xfe binary \n\x00".to_vec(),
        b"$NetBSD: patch-aa,v 1.1 2024/01/01 00:00:00 x Exp $\n\n--- a\n+++ b\n@@\n-x\n+y\n".to_vec(),
        b"line1\nwith $NetBSD$ inside\nline3".to_vec(),
        vec![b'x'; 5000],
        // patches as they arrive from other systems: CRLF line ends, Latin-1 bytes, an
        // unterminated last line, a $NetBSD line with CRLF
        b"--- a\r\n+++ b\r\n$NetBSD: patch-aa,v 1.2 $\r\n@@\r\n-x\r\n+y\r\n".to_vec(),
        b"$NetBSD: x $\n--- caf\xe9.c\n+++ caf\xe9.c\n+\xff\xfe\n".to_vec(),
        b"line one\nlast line without newline".to_vec(),
        // '$NetBSD' after other '$' signs / doubled '$' / restarts of a near miss: still a marker line
        b"+.if ${FOO} > 5.4 # $NetBSD$\nkeep\n$$NetBSD: Makefile,v 1.2 $$\nkeep2\n$Net$NetBSD\n$NetBS$NetBSD x\n".to_vec(),
        // only "$NetBSD" marks a line: other RCS keywords are content; a marker counts wherever it
        // stands, also inside a hunk
        b"$Id$\n--- a\n+++ b\n$Revision: 1.2 $\n$Date$ $Author: x $\n+$Header$\n$Source: /cvs/x,v $\n".to_vec(),
        b"--- a\n+++ b\n@@ -1,3 +1,3 @@\n-$NetBSD: old $\n+$NetBSD: new $\n context\n@@ \n$NetBSD\n".to_vec(),
        // files larger than one 8 KiB read buffer: the marker (7 bytes) cut by the 8192 / 16384
        // boundary at each of its inner positions, a marker line starting exactly there, a
        // multi-byte character across it
        big_with_marker(8192 - 3), big_with_marker(8192 - 6), big_with_marker(8192 - 1), big_with_marker(8192),
        big_with_marker(16384 - 4), big_with_marker(8192 - 7),
    ];
    let names: [&[u8]; 11] = [b"c.tgz", b"b/c.tgz", b"a/b/c.tgz", b"patch-aa", b"sub/patch-ab", b"emul-linux-patch-a", b"d.tgz", b"patch-2.0.tar.gz",
        b"foo-1.0/patch-1.0.1", b"x/y/emul-a-patch-b", b"patch-dir/c.tgz"];
    for _ in 0..(if thorough { 4000 } else { 350 }) {
        let content = rng.pick(&contents).clone();
        let name: &[u8] = *rng.pick::<&[u8]>(&names);
        let is_patch = name.ends_with(b"patch-aa") || name.ends_with(b"patch-ab") || name.ends_with(b"patch-a")
            || name.ends_with(b"patch-1.0.1") || name.ends_with(b"patch-b");
        let plain = hashes(&content, false);
        let patch = hashes(&content, true);
        let right: Vec<&str> = if is_patch { patch.split(',').collect() } else { plain.split(',').collect() };
        // the recorded entry: some subset of digests, each right or corrupted, and a size
        let mut doc: Vec<u8> = b"$NetBSD$\n\n".to_vec();
        let mut ds: Vec<usize> = (0..6).collect();
        rng.shuffle(&mut ds);
        let k = rng.range(0, 4);
        for &i in ds.iter().take(k) {
            let mut h = right[i].to_string();
            match rng.below(10) {
                8 => h = rng.pick(&["IGNORE", "ignore", "none", "SKIP", "-", "*"]).to_string(), // a word instead of a hash
                9 => h = format!("{}x", h),   // one character too many
                0 => {
                    // one hex digit changed
                    let pos = rng.below(h.len());
                    let c = h.as_bytes()[pos];
                    let nc = if c == b'0' { '1' } else { '0' };
                    h.replace_range(pos..pos + 1, &nc.to_string());
                }
                1 => h.truncate(h.len() / 2), // a prefix only
                2 => h = h.to_uppercase(),
                3 => {
                    // the OTHER mode's hash
                    let other: Vec<&str> = if is_patch { plain.split(',').collect() } else { patch.split(',').collect() };
                    h = other[i].to_string();
                }
                _ => {}
            }
            doc.extend(format!("{} (", DNAMES[i]).as_bytes());
            doc.extend(name);
            doc.extend(format!(") = {}\n", h).as_bytes());
            if rng.chance(1, 8) {
                // duplicate digest line: the first one decides
                doc.extend(format!("{} (", DNAMES[i]).as_bytes());
                doc.extend(name);
                doc.extend(b") = deadbeef\n");
            }
        }
        if rng.chance(3, 4) {
            let n = match rng.below(4) {
                0 => content.len() as u64 + 1,
                1 => (content.len() as u64).saturating_sub(1),
                _ => content.len() as u64,
            };
            doc.extend(b"Size (");
            doc.extend(name);
            doc.extend(format!(") = {} bytes\n", n).as_bytes());
        }
        // other entries sharing tails
        for other in [&b"c.tgz"[..], b"b/c.tgz"] {
            if rng.chance(1, 3) && other != name {
                doc.extend(b"SHA1 (");
                doc.extend(other);
                doc.extend(b") = 0000\n");
            }
        }
        // the file: the content, or one byte corrupted / appended / truncated
        let mut file = content.clone();
        match rng.below(8) {
            0 if !file.is_empty() => {
                let pos = rng.below(file.len());
                file[pos] ^= 0x01;
            }
            1 => file.push(b'!'),
            2 if !file.is_empty() => {
                file.pop();
            }
            _ => {}
        }
        let fplain = hashes(&file, false);
        let fpatch = hashes(&file, true);
        // lookup path: the name itself, or below extra directories
        let mut path: Vec<u8> = match rng.below(4) {
            0 => b"distfiles/".to_vec(),
            1 => b"x/y/".to_vec(),
            _ => vec![],
        };
        path.extend(name);
        let exists = if rng.chance(1, 12) { &b"0"[..] } else { &b"1"[..] };
        emit(Op::new("distinfo.verify", &[&doc, &path, &file, exists, fplain.as_bytes(), fpatch.as_bytes()]));
        // the same record through the Entry-level API, where the file on disk need not be named
        // like the entry: the hashing mode must follow the ENTRY's type
        if rng.chance(1, 2) {
            let last: &[u8] = name.rsplit(|c| *c == b'/').next().unwrap();
            let fname: &[u8] = match rng.below(3) {
                0 => last,
                _ => if is_patch { b"main.c.diff" } else { b"patch-zz" },
            };
            emit(Op::new("entry.verify", &[&doc, name, fname, &file, fplain.as_bytes(), fpatch.as_bytes()]));
            if rng.chance(1, 3) {
                // a recorded hash that is the EMPTY string (only the API can build it): a mismatch
                // like any other, never "missing"
                let blank: Vec<u8> = (0..6u8).filter(|_| rng.chance(1, 2)).map(|i| b'0' + i).collect();
                emit(Op::new("entry.verify", &[&doc, name, fname, &file, fplain.as_bytes(), fpatch.as_bytes(), &blank]));
            }
        }
    }
    // lookup: every subset of recorded names sharing tails x lookup paths of 1-5 components
    let recs: [&[u8]; 7] = [b"a/b/c.tgz", b"b/c.tgz", b"c.tgz", b"patch-aa", b"p/patch-aa", b"/abs/a/b/c.tgz", b"/c.tgz"];
    let lookups: [&[u8]; 23] = [
        // absolute recorded names: the whole path (root included) is a trailing sub-path of itself
        b"//abs/a/b/c.tgz", b"/a/b/c.tgz", b"/c.tgz", b"/x/c.tgz", b"abs/a/b/c.tgz", b"/abs//a/./b/c.tgz", b"/patch-aa",
        b"c.tgz", b"b/c.tgz", b"a/b/c.tgz", b"x/a/b/c.tgz", b"/abs/a/b/c.tgz", b"b//c.tgz", b"./b/c.tgz", b"b/./c.tgz",
        b"a/../b/c.tgz", b"patch-aa", b"p/patch-aa", b"q/p/patch-aa", b"d.tgz", b"", b"/", b"c.tgz/",
    ];
    for mask in 0..128u32 {
        let mut doc: Vec<u8> = vec![];
        for (i, r) in recs.iter().enumerate() {
            if mask & (1 << i) != 0 {
                doc.extend(b"SHA1 (");
                doc.extend(*r);
                doc.extend(format!(") = {}\n", i).as_bytes());
            }
        }
        for l in lookups {
            emit(Op::new("distinfo.find", &[&doc, l]));
        }
    }
    // an entry is a patch or a distfile by its NAME, whichever of its lines comes first; the entry
    // that a path resolves to is the one that is verified, whatever it lacks
    {
        let content: &[u8] = b"$NetBSD: patch-aa,v 1.1 2024/01/01 00:00:00 x Exp $\n\n--- a\n+++ b\n@@\n-x\n+y\n";
        let plain = hashes(content, false);
        let patch = hashes(content, true);
        let ph: Vec<&str> = patch.split(',').collect();
        let pl: Vec<&str> = plain.split(',').collect();
        for name in [&b"patch-aa"[..], b"sub/patch-ab", b"emul-linux-patch-a"] {
            for first_size in [true, false] {
                let mut doc: Vec<u8> = vec![];
                let size = format!(") = {} bytes\n", content.len());
                if first_size { doc.extend(b"Size ("); doc.extend(name); doc.extend(size.as_bytes()); }
                for i in [3usize, 5] { doc.extend(format!("{} (", DNAMES[i]).as_bytes()); doc.extend(name); doc.extend(format!(") = {}\n", ph[i]).as_bytes()); }
                if !first_size { doc.extend(b"Size ("); doc.extend(name); doc.extend(size.as_bytes()); }
                emit(Op::new("distinfo.verify", &[&doc, name, content, b"1", plain.as_bytes(), patch.as_bytes()]));
                emit(Op::new("distinfo.parse", &[&doc]));
            }
        }
        for (doc_lines, path) in [(vec![("SHA1", &b"c.tgz"[..]), ("RMD160", b"b/c.tgz"), ("Size", b"b/c.tgz")], &b"b/c.tgz"[..]),
            (vec![("Size", b"c.tgz"), ("SHA1", b"b/c.tgz"), ("RMD160", b"b/c.tgz")], b"x/b/c.tgz"),
            (vec![("SHA512", b"c.tgz"), ("SHA1", b"a/b/c.tgz"), ("Size", b"a/b/c.tgz"), ("SHA1", b"b/c.tgz")], b"a/b/c.tgz")] {
            let mut doc: Vec<u8> = vec![];
            for (alg, n) in &doc_lines {
                if *alg == "Size" {
                    doc.extend(b"Size ("); doc.extend(*n); doc.extend(format!(") = {} bytes\n", content.len()).as_bytes());
                } else {
                    let i = DNAMES.iter().position(|d| d == alg).unwrap();
                    doc.extend(format!("{} (", alg).as_bytes()); doc.extend(*n); doc.extend(format!(") = {}\n", pl[i]).as_bytes());
                }
            }
            emit(Op::new("distinfo.verify", &[&doc, path, content, b"1", plain.as_bytes(), patch.as_bytes()]));
        }
    }
    // the lines of one file need not be contiguous: everything recorded for it is found together
    let doc3: &[u8] = b"SHA1 (c.tgz) = 11\nSHA1 (d.tgz) = 21\nRMD160 (c.tgz) = 12\nSize (d.tgz) = 7 bytes\nSHA512 (c.tgz) = 13\nSize (c.tgz) = 5 bytes\nSHA1 (patch-aa) = 31\nSHA1 (patch-ab) = 41\nMD5 (patch-aa) = 32\n";
    for l in [&b"c.tgz"[..], b"d.tgz", b"x/c.tgz", b"patch-aa", b"patch-ab", b"y/patch-aa"] {
        emit(Op::new("distinfo.find", &[doc3, l]));
    }
    // only the FILE NAME decides between patch and distfile: directory components that look like
    // tarballs, patches or backups decide nothing
    let doc2: &[u8] = b"SHA1 (patch-aa) = 1\nSHA1 (libfoo-1.2.tar.gz.d/patch-ab) = 2\nSHA1 (patch-dir/c.tgz) = 3\nSHA1 (x.orig/patch-ac) = 4\nSize (c.tgz) = 5 bytes\n";
    for l in [&b"/w/libfoo-1.2.tar.gz.d/patches/patch-aa"[..], b"libfoo-1.2.tar.gz.d/patch-ab", b"/w/libfoo-1.2.tar.gz.d/patch-ab", b"a.tar.b/patch-aa",
        b"patch-dir/c.tgz", b"x/patch-dir/c.tgz", b"x.orig/patch-ac", b"emul-x-patch-y/c.tgz", b"patch-local-z/patch-aa", b"q~/patch-aa", b"a.rej/c.tgz"] {
        emit(Op::new("distinfo.find", &[doc2, l]));
        emit(Op::new("entrytype", &[l]));
    }
}

pub fn gen(id: &str, tier: &str, rng: &mut Rng, emit: &mut dyn FnMut(Op)) {
    match id {
        "C17" => {
            // mutations of every other generator's ops (and the ops themselves, sampled)
            let mut pool: Vec<Op> = vec![];
            for pid in ["C10", "C11", "C12"] {
                let mut sub = Rng::new(rng.next());
                let mut n = 0usize;
                gen(pid, "quick", &mut sub, &mut |op: Op| {
                    n += 1;
                    if n % 7 == 0 || pool.len() < 400 {
                        pool.push(op);
                    }
                });
            }
            // files are exercised by their own properties; C17 is about parsers and matchers
            pool.retain(|o| !matches!(o.name.as_str(), "distinfo.verify" | "entry.verify" | "pkgdb.iter"));
            let n = if tier == "thorough" { 60000 } else { 4000 };
            fuzz(&pool, n, rng, emit);
        }
        "C10" => with_oracle_fuzz(tier, rng, emit, &gen_c10),
        "C11" => with_oracle_fuzz(tier, rng, emit, &gen_c11),
        "C12" => with_oracle_fuzz(tier, rng, emit, &gen_c12),
        _ => {
            eprintln!("dist: unknown property {}", id);
            std::process::exit(2);
        }
    }
}
