//! Cluster `dist`: distinfo files (properties C10, C11, C12).
use harness::*;
use pkgsrc::digest::Digest;
use pkgsrc::distinfo::{Checksum, Distinfo, DistinfoError, Entry, EntryType};
use std::ffi::{OsStr, OsString};
use std::os::unix::ffi::{OsStrExt, OsStringExt};
use std::path::Path;
use std::str::FromStr;

mod gen;

pub const DIGESTS: [Digest; 6] = [
    Digest::BLAKE2s,
    Digest::MD5,
    Digest::RMD160,
    Digest::SHA1,
    Digest::SHA256,
    Digest::SHA512,
];

fn show_entry(e: &Entry) -> String {
    format!(
        "{}/{}/{}/{}",
        hex(e.filename.as_os_str().as_bytes()),
        match e.filetype {
            EntryType::Distfile => "D",
            EntryType::Patchfile => "P",
        },
        match e.size {
            Some(n) => n.to_string(),
            None => "-".into(),
        },
        e.checksums
            .iter()
            .map(|c| format!("{}={}", c.digest, hex(c.hash.as_bytes())))
            .collect::<Vec<_>>()
            .join(",")
    )
}

fn dump(d: &Distinfo) -> String {
    format!(
        "rcsid={}|D[{}]|P[{}]",
        match d.rcsid() {
            Some(s) => format!("+{}", hex(s.as_bytes())),
            None => "-".into(),
        },
        d.distfiles().iter().map(|e| show_entry(e)).collect::<Vec<_>>().join(";"),
        d.patchfiles().iter().map(|e| show_entry(e)).collect::<Vec<_>>().join(";")
    )
}

fn verr(e: &DistinfoError) -> String {
    match e {
        DistinfoError::Io(_) => "err:io".into(),
        DistinfoError::Digest(_) => "err:io".into(),
        DistinfoError::NotFound => "err:notfound".into(),
        DistinfoError::Checksum(_, _, exp, act) => {
            format!("err:checksum:{}:{}", hex(exp.as_bytes()), hex(act.as_bytes()))
        }
        DistinfoError::MissingChecksum(_, _) => "err:missing".into(),
        DistinfoError::Size(_, exp, act) => format!("err:size:{}:{}", exp, act),
        DistinfoError::MissingSize(_) => "err:missingsize".into(),
    }
}

fn path_of(b: &[u8]) -> &Path {
    Path::new(OsStr::from_bytes(b))
}

/// call: kind 0 = set_rcsid(payload); kind 1 = insert(Entry::new(..)):
/// payload = NUL-separated filename, size ('-' or decimal), then digest-name / hash pairs
fn apply_call(d: &mut Distinfo, call: &[u8], rets: &mut String) -> Option<()> {
    let kind = *call.first()?;
    let payload = &call[1..];
    match kind {
        0 => d.set_rcsid(&OsString::from_vec(payload.to_vec())),
        1 => {
            let parts: Vec<&[u8]> = payload.split(|c| *c == 0).collect();
            if parts.len() < 2 || (parts.len() - 2) % 2 != 0 {
                return None;
            }
            let size = if parts[1] == b"-" {
                None
            } else {
                Some(std::str::from_utf8(parts[1]).ok()?.parse::<u64>().ok()?)
            };
            let mut sums = vec![];
            for i in (2..parts.len()).step_by(2) {
                let dg = Digest::from_str(std::str::from_utf8(parts[i]).ok()?).ok()?;
                sums.push(Checksum::new(dg, String::from_utf8(parts[i + 1].to_vec()).ok()?));
            }
            let e = Entry::new(path_of(parts[0]), path_of(b""), sums, size);
            rets.push_str(b(d.insert(e)));
        }
        2 => {
            // insert(Entry::new(name, FILEPATH, ..)): the path the file was hashed from differs
            // from its distinfo name
            let parts: Vec<&[u8]> = payload.split(|c| *c == 0).collect();
            if parts.len() < 3 || (parts.len() - 3) % 2 != 0 {
                return None;
            }
            let size = if parts[2] == b"-" {
                None
            } else {
                Some(std::str::from_utf8(parts[2]).ok()?.parse::<u64>().ok()?)
            };
            let mut sums = vec![];
            for i in (3..parts.len()).step_by(2) {
                let dg = Digest::from_str(std::str::from_utf8(parts[i]).ok()?).ok()?;
                sums.push(Checksum::new(dg, String::from_utf8(parts[i + 1].to_vec()).ok()?));
            }
            let e = Entry::new(path_of(parts[0]), path_of(parts[1]), sums, size);
            rets.push_str(b(d.insert(e)));
        }
        _ => return None,
    }
    Some(())
}

/// The Distinfo of a text, rebuilt through the public API the way a tool that fills it
/// incrementally would: entries inserted one at a time (same order, same maps), with lookups of
/// `probe` and of a path that is not recorded between the insertions.  Equal to parsing the text
/// in one go for every query the ops make (lookups and verification).
fn incremental(text: &[u8], probe: &Path) -> Distinfo {
    let t = Distinfo::from_bytes(text);
    let mut d = Distinfo::new();
    if let Some(r) = t.rcsid() {
        d.set_rcsid(r);
    }
    let _ = d.find_entry(probe).is_ok();
    for e in t.distfiles().iter().chain(t.patchfiles().iter()) {
        d.insert((*e).clone());
        let _ = d.find_entry(probe).is_ok();
        let _ = d.find_entry(Path::new("zz/not/recorded")).is_ok();
    }
    d
}

fn exec(op: &Op) -> String {
    match op.name.as_str() {
        "distinfo.line" => pkgsrc::distinfo::verif_line(&op.args[0]),
        "distinfo.parse" => dump(&Distinfo::from_bytes(&op.args[0])),
        "distinfo.roundtrip" => hex(&Distinfo::from_bytes(&op.args[0]).as_bytes()),
        "distinfo.build" => {
            let mut d = Distinfo::new();
            let mut rets = String::new();
            for c in &op.args {
                if apply_call(&mut d, c, &mut rets).is_none() {
                    return "BAD-CALL".into();
                }
                // a caller may look at the value between two updates: writing it out and reading
                // its accessors changes nothing
                let _ = (d.as_bytes().len(), d.rcsid().map(|r| r.len()), d.distfiles().len(), d.patchfiles().len());
                for e in d.distfiles().iter().chain(d.patchfiles().iter()) {
                    let _ = (e.as_bytes().len(), d.find_entry(&e.filename).is_ok());
                }
            }
            let out = d.as_bytes();
            // Entry::as_bytes of every entry, in order
            let ents: Vec<String> = d
                .distfiles()
                .iter()
                .chain(d.patchfiles().iter())
                .map(|e| hex(&e.as_bytes()))
                .collect();
            format!("{}|{}|{}|{}|{}", rets, dump(&d), hex(&out), dump(&Distinfo::from_bytes(&out)), ents.join(";"))
        }
        "entrytype" => match EntryType::from(path_of(&op.args[0])) {
            EntryType::Distfile => "D".into(),
            EntryType::Patchfile => "P".into(),
        },
        "distinfo.find" => {
            let d = incremental(&op.args[0], path_of(&op.args[1]));
            match d.find_entry(path_of(&op.args[1])) {
                Ok(e) => format!("found:{}", show_entry(e)),
                Err(e) => verr(&e),
            }
        }
        "distinfo.verify" => {
            // args: distinfo, relative path, content, exists flag, plain hashes, patch hashes
            // (the hash arguments are for the model; the implementation computes its own)
            let p = path_of(&op.args[1]);
            let d = incremental(&op.args[0], &Path::new("f").join(p));
            let exists = op.args[3] == b"1";
            if p.is_absolute() || p.components().any(|c| !matches!(c, std::path::Component::Normal(_))) {
                return "BAD-PATH".into();
            }
            let _ = std::fs::remove_dir_all("f");
            let full = Path::new("f").join(p);
            if exists {
                if let Some(parent) = full.parent() {
                    std::fs::create_dir_all(parent).unwrap();
                }
                // the same path first holds OTHER content of the same length and is verified once
                // (results discarded): a later verification must look at the file as it is then
                let other: Vec<u8> = op.args[2].iter().map(|c| if *c == b'\n' { *c } else { c ^ 0x01 }).collect();
                std::fs::write(&full, &other).unwrap();
                let _ = d.verify_size(&full).is_ok();
                for dg in DIGESTS.iter() {
                    let _ = d.verify_checksum(&full, *dg).is_ok();
                }
                let _ = d.verify_checksums(&full).len();
                std::fs::write(&full, &op.args[2]).unwrap();
            }
            let size = match d.verify_size(&full) {
                Ok(n) => format!("ok:{}", n),
                Err(e) => verr(&e),
            };
            let sums: Vec<String> = DIGESTS
                .iter()
                .map(|dg| match d.verify_checksum(&full, *dg) {
                    Ok(_) => "ok".to_string(),
                    Err(e) => verr(&e),
                })
                .collect();
            let all: Vec<String> = d
                .verify_checksums(&full)
                .iter()
                .map(|r| match r {
                    Ok(dg) => format!("ok:{}", dg),
                    Err(e) => verr(e),
                })
                .collect();
            let calc: Vec<String> = DIGESTS
                .iter()
                .map(|dg| match Distinfo::calculate_checksum(&full, *dg) {
                    Ok(h) => h,
                    Err(_) => "err".into(),
                })
                .collect();
            let csize = match Distinfo::calculate_size(&full) {
                Ok(n) => n.to_string(),
                Err(_) => "err".into(),
            };
            let _ = std::fs::remove_dir_all("f");
            format!("size={}|sums={}|all={}|calc={}|csize={}", size, sums.join(","), all.join(","), calc.join(","), csize)
        }
        "entry.verify" => {
            // args: distinfo, recorded entry name, name of the file on disk, content, plain
            // hashes, patch hashes (the last two are for the model).  The Entry-level API:
            // the file checked need not be called like the entry.
            let d = Distinfo::from_bytes(&op.args[0]);
            let ename = path_of(&op.args[1]);
            let fname = path_of(&op.args[2]);
            if fname.is_absolute() || fname.components().any(|c| !matches!(c, std::path::Component::Normal(_))) {
                return "BAD-PATH".into();
            }
            let Some(entry) = d.get_distfile(ename).or_else(|| d.get_patchfile(ename)) else {
                return "noentry".into();
            };
            // optional 7th argument: digits naming the digests whose recorded hash is replaced by
            // the EMPTY string through the public fields (a value the text format cannot express)
            let mut entry = entry.clone();
            if let Some(blank) = op.args.get(6) {
                for c in entry.checksums.iter_mut() {
                    let i = DIGESTS.iter().position(|d| *d == c.digest).unwrap();
                    if blank.contains(&(b'0' + i as u8)) {
                        c.hash.clear();
                    }
                }
            }
            let entry = &entry;
            let _ = std::fs::remove_dir_all("f");
            let full = Path::new("f").join(fname);
            if let Some(parent) = full.parent() {
                std::fs::create_dir_all(parent).unwrap();
            }
            std::fs::write(&full, &op.args[3]).unwrap();
            let size = match entry.verify_size(&full) {
                Ok(n) => format!("ok:{}", n),
                Err(e) => verr(&e),
            };
            let sums: Vec<String> = DIGESTS
                .iter()
                .map(|dg| match entry.verify_checksum(&full, *dg) {
                    Ok(_) => "ok".to_string(),
                    Err(e) => verr(&e),
                })
                .collect();
            let all: Vec<String> = entry
                .verify_checksums(&full)
                .iter()
                .map(|r| match r {
                    Ok(dg) => format!("ok:{}", dg),
                    Err(e) => verr(e),
                })
                .collect();
            let _ = std::fs::remove_dir_all("f");
            format!("size={}|sums={}|all={}", size, sums.join(","), all.join(","))
        }
        _ => "UNKNOWN-OP".into(),
    }
}

fn main() {
    // all file-system work happens under a private scratch directory (relative paths only)
    let scratch = std::env::temp_dir().join(format!("pkgsrc-verif-dist-{}", std::process::id()));
    let _ = std::fs::remove_dir_all(&scratch);
    std::fs::create_dir_all(&scratch).unwrap();
    std::env::set_current_dir(&scratch).unwrap();
    main_with(&exec, &gen::gen);
    let _ = std::env::set_current_dir("/");
    let _ = std::fs::remove_dir_all(&scratch);
}
