//! Generators for cluster `idx`.
use harness::*;

const SCALARS: [&str; 10] = [
    "PKG_SKIP_REASON", "PKG_FAIL_REASON", "NO_BIN_ON_FTP", "RESTRICTED", "CATEGORIES", "MAINTAINER",
    "USE_DESTDIR", "BOOTSTRAP_PKG", "USERGROUP_PHASE", "PBULK_WEIGHT",
];

fn value(rng: &mut Rng) -> String {
    match rng.below(13) {
        0 => String::new(),
        // values are kept as they are: quotes, brackets and file suffixes are ordinary text
        12 => rng.pick(&["does not build below C:\\", "\\", "a\\ b", "trailing backslash \\", "\\n"]).to_string(),
        10 => rng.pick(&["\"one is not available\"", "\"a\" \"b\"", "\"\"", "\"", "'x'", "(none)", "[a]", "\"x", "x\""]).to_string(),
        11 => rng.pick(&["foo-1.0.tgz", "yes.txz", "$NetBSD$", "IGNORE", "none", "NULL"]).to_string(),
        1 => "yes".into(),
        2 => "a=b".into(),
        3 => "  padded  ".into(),
        4 => "two words".into(),
        5 => "é€".into(),
        6 => "\u{a0}nbsp\u{a0}".into(),
        7 => "x=y=z".into(),
        _ => (0..rng.range(1, 8)).map(|_| *rng.pick(&['a', 'b', '1', '-', '/', '.'])).collect(),
    }
}

fn depend(rng: &mut Rng, good: bool) -> String {
    if good {
        format!(
            "{}:{}",
            rng.pick(&["foo-[0-9]*", "bar>=1.0", "{a,b}-1", "baz", "qux>=1<2"]),
            rng.pick(&["../../cat/pkg", "cat/pkg", "../../a/b", "x/y/"])
        )
    } else {
        rng.pick(&["a:b:c", "x>1>2:a/b", "x:a", "nocolon", "foo-[0-9:a/b", ":", "{a:a/b",
            // exactly one ':' — a dangling or doubled one is invalid wherever it stands
            // the path of a dependency obeys the same rules as PKG_LOCATION
            "x-[0-9]*:../../../foo", "x:../.././foo", "x:../../foo/..", "x:../../foo/.", "x:../../..", "x:../../a/b/c",
            "foo-[0-9]*:../../cat/pkg:", "foo:a/b:", ":foo:a/b", "foo::a/b", "foo:a/b::", "foo:", ":a/b", "::"]).to_string()
    }
}

fn record(rng: &mut Rng, name: &str, bad_dep: bool, bad_loc: bool, lines: &mut Vec<String>) {
    let mut body: Vec<String> = vec![];
    for k in SCALARS {
        if rng.chance(1, 3) {
            body.push(format!("{}={}", k, value(rng)));
            if rng.chance(1, 6) {
                body.push(format!("{}={}", k, value(rng))); // repeated key: last wins
            }
        }
    }
    if rng.chance(1, 2) || bad_dep {
        let n = rng.range(0, 4);
        let mut items: Vec<String> = (0..n).map(|_| depend(rng, true)).collect();
        if bad_dep {
            let pos = rng.range(0, items.len());
            items.insert(pos, depend(rng, false));
        }
        // list items are separated by ANY Unicode white space (str::split_whitespace), not only ASCII
        body.push(format!("ALL_DEPENDS={}", items.join(*rng.pick(&[" ", "  ", "\t", "\u{b}", "\u{85}", "\u{a0}", "\u{2003}", "\u{3000} "]))));
    }
    if rng.chance(1, 2) || bad_loc {
        body.push(format!(
            "PKG_LOCATION={}",
            if bad_loc {
                *rng.pick(&["a", "../a/b", "a/b/c", "/a/b", "", "../../../foo", "../../foo/..", "../../../..", "../../a/../b", "./a/b", "../../a"])
            } else {
                *rng.pick(&["cat/pkg", "../../cat/pkg", "a//b/", "../..//cat/pkg", "cat/./pkg"])
            }
        ));
    }
    if rng.chance(1, 3) {
        let n = rng.range(0, 4);
        body.push(format!("SCAN_DEPENDS={}", (0..n).map(|i| format!("{}f{}.mk{}", rng.pick(&["/usr/pkgsrc/", "../../mk//", "../../lang/./", "./", "a//b///"]), i, rng.pick(&["", "", "/", "/."]))).collect::<Vec<_>>().join(*rng.pick(&[" ", "\t ", "\u{a0}", "\u{2003}", "\u{b}"]))));
    }
    if rng.chance(1, 3) {
        body.push(format!("MULTI_VERSION={}", rng.pick(&["", " PYTHON_VERSION_REQD=312 ", "A=1 B=2", "x", "A=1\u{a0}B=2", "A=1\u{85}B=2\u{2003}C=3"])));
    }
    // noise
    if rng.chance(1, 3) {
        body.push(format!("UNKNOWN_KEY={}", value(rng)));
    }
    if rng.chance(1, 3) {
        // near misses of the 15 known keys are unknown keys: ignored, whatever their value
        let k = *rng.pick(&["DEPENDS", "DEPEND", "BUILD_DEPENDS", "ALL_DEPEND", "ALL_DEPENDSS", "SCAN_DEPEND", "PKGNAMES", "PKG_NAME",
            "pkgname", "Pkgname", "categories", "Categories", "all_depends", "PKGPATH", "PKG_LOCATIONS", "LOCATION", "MULTI_VERSIONS",
            "MAINTAINERS", "WEIGHT", "PBULK_WEIGHTS", "SKIP_REASON", "_PKGNAME", "XPKGNAME"]);
        let v = match rng.below(4) {
            0 => "foo-1.0 bar-2.0nb1".to_string(),
            1 => format!("{} {}", depend(rng, true), depend(rng, false)),
            2 => "../../../bad".to_string(),
            _ => value(rng),
        };
        body.push(format!("{}={}", k, v));
    }
    if rng.chance(1, 4) {
        body.push("no equals sign here".into());
    }
    if rng.chance(1, 4) {
        body.push(String::new());
    }
    if rng.chance(1, 5) {
        body.push("   ".into());
    }
    if rng.chance(1, 6) {
        body.push("PKGNAME =spaced-1.0".into()); // NOT a record boundary: key is trimmed, line does not start a record
    }
    rng.shuffle(&mut body);
    lines.push(format!("PKGNAME={}", name));
    for l in body {
        let l = if rng.chance(1, 5) { format!("  {}\t", l) } else { l };
        lines.push(l);
    }
}

fn gen_c16(tier: &str, rng: &mut Rng, emit: &mut dyn FnMut(Op)) {
    let thorough = tier == "thorough";
    for doc in ["", "\n", "PKGNAME=a-1", "PKGNAME=a-1\n", "PKGNAME=a-1\nPKGNAME=b-2\n", "CATEGORIES=x\n", "CATEGORIES=x\nPKGNAME=a-1\n",
        "PKGNAME=a-1\nALL_DEPENDS=a:b:c\n", "PKGNAME=a-1\nPKG_LOCATION=foo\n", "PKGNAME=a-1\r\nCATEGORIES=net\r\n", "PKGNAME=\n", "PKGNAME= x \n",
        " PKGNAME=a-1\n  PKGNAME=b-1\n", "PKGNAME=a-1\nPKGNAME=a-1\n", "PKGNAME=a-1\nPKGNAME =b-1\n", "=v\nPKGNAME=a-1\n"] {
        emit(Op::s("scanindex.read", &[doc, "-"]));
    }
    // a record is made of ITS OWN lines: what other records (earlier or later) say about the same
    // packages does not reach into it
    for doc in ["PKGNAME=lib-1.0\nPKG_LOCATION=c/p\n\nPKGNAME=app-2.0\nPKG_LOCATION=c/app\nALL_DEPENDS=lib>=1:../../c/p\n",
        "PKGNAME=app-2.0\nALL_DEPENDS=lib-[0-9]*:../../c/p other>=1:../../c/o\nPKGNAME=lib-1.0\nPKG_LOCATION=c/p\nPKGNAME=other-3\nPKG_LOCATION=../../c/o\n",
        "PKGNAME=a-1\nPKG_LOCATION=c/a\nALL_DEPENDS=a>=1:../../c/a\n"] {
        emit(Op::s("scanindex.read", &[doc, "-"]));
    }
    for bad in ["x-[0-9]*:../../../foo", "x:../.././foo", "x:../../foo/..", "x:../../foo/.", "x:../../..", "x:../../a/b/c", "x:a/b/c", "x:../a/b"] {
        emit(Op::s("scanindex.read", &[&format!("PKGNAME=a-1\nALL_DEPENDS=ok-[0-9]*:../../c/ok {}\n", bad), "-"]));
        emit(Op::s("scanindex.read", &[&format!("PKGNAME=a-1\nALL_DEPENDS={}\nPKGNAME=b-2\n", bad), "-"]));
    }
    emit(Op::new("scanindex.read", &[b"PKGNAME=a-1\nCATEGORIES=\xe9\n", b"-"]));
    emit(Op::new("scanindex.read", &[b"PKGNAME=a-1\n\xff\nPKGNAME=b-1\n", b"-"]));
    // very long lines (a pbulk-index line has no length limit): lengths around 64 KiB, a list of
    // thousands of items, text that LOOKS like a new record exactly where a fixed-size read
    // would cut, a multi-byte character across that offset
    for total in [65535usize, 65536, 65537, 70000] {
        let key = "DESCR_SRC=";
        let doc = format!("PKGNAME=real-1.0\n{}{}\nCATEGORIES=net\n", key, "x".repeat(total - key.len()));
        emit(Op::s("scanindex.read", &[&doc, "-"]));
        let doc2 = format!("PKGNAME=real-1.0\n{}{}PKGNAME=phantom-9.9\nCATEGORIES=net\n", key, "y".repeat(total - key.len()));
        emit(Op::s("scanindex.read", &[&doc2, "-"]));
        let doc3 = format!("PKGNAME=real-1.0\n{}{}\u{e9}\u{e9}z\n", key, "z".repeat(total - key.len() - 1));
        emit(Op::s("scanindex.read", &[&doc3, "-"]));
    }
    {
        let items: Vec<String> = (0..3000).map(|i| format!("dep{}-[0-9]*:../../cat/dep{}", i, i)).collect();
        let doc = format!("PKGNAME=big-1.0\nSCAN_DEPENDS={}\nALL_DEPENDS={}\nMULTI_VERSION={}\n", items.join(" "), items.join(" "), items.join(" "));
        emit(Op::s("scanindex.read", &[&doc, "-"]));
    }
    for _ in 0..(if thorough { 20000 } else { 1500 }) {
        let n = rng.range(1, 5);
        let fault = rng.below(8);
        let mut lines: Vec<String> = vec![];
        if fault == 0 {
            // a leading block without PKGNAME
            lines.push(format!("CATEGORIES={}", value(rng)));
        }
        let bad_rec = rng.below(n);
        for i in 0..n {
            let name = format!("{}-{}.{}{}", rng.pick(&["foo", "bar", "py312-baz", "x"]), i, rng.below(10),
                rng.pick(&["", "", "", "", ".tgz", ".tbz", ".txz", ".tzst", ".tar.gz", "nb1", " "]));
            record(rng, &name, fault == 1 && i == bad_rec, fault == 2 && i == bad_rec, &mut lines);
            if rng.chance(1, 3) {
                lines.push(String::new());
            }
        }
        let mut doc = lines.join(if rng.chance(1, 10) { "\r\n" } else { "\n" });
        if rng.chance(4, 5) {
            doc.push('\n');
        }
        emit(Op::s("scanindex.read", &[&doc, "-"]));
        if rng.chance(1, 4) {
            // an I/O error somewhere in the stream (any position, incl. 0 and just before EOF)
            let at = rng.range(0, doc.len().saturating_sub(1));
            emit(Op::s("scanindex.read", &[&doc, &at.to_string()]));
        }
    }
}

fn gen_c20(tier: &str, rng: &mut Rng, emit: &mut dyn FnMut(Op)) {
    let thorough = tier == "thorough";
    for i in 0..14 {
        emit(Op::s("metadata.name", &[&i.to_string()]));
    }
    for s in ["+BUILD_INFO", "+BUILD_VERSION", "+COMMENT", "+CONTENTS", "+DEINSTALL", "+DESC", "+DISPLAY", "+INSTALL",
        "+INSTALLED_INFO", "+MTREE_DIRS", "+PRESERVE", "+REQUIRED_BY", "+SIZE_ALL", "+SIZE_PKG", "COMMENT", "+comment",
        "+COMMENT ", "+SIZE", "", "+", "+BUILDINFO", "+REQUIRED-BY"] {
        emit(Op::s("metadata.from", &[s]));
    }
    let vals = ["", "x", " padded \n", "line1\nline2\n", "a\r\nb", "123", " 42\n", "-7", "+8", "abc", "12x", "9223372036854775808", "é",
        // values that are nothing but white space of some kind are EMPTY after trimming
        "\u{b}", "\u{85}", "\u{a0}", "\u{2028}", "\u{3000}", " \u{a0} ", "\t\u{2003}\n", "\u{c}\r", "\u{feff}", "\u{200b}", "\u{a0}x\u{a0}"];
    for i in 0..14usize {
        for v in vals {
            emit(Op::s("metadata.read", &[&i.to_string(), v]));
        }
    }
    // is_valid looks at the three mandatory entries only: each value class in each of them while
    // the two others hold ordinary text (2 = comment, 3 = contents, 5 = description), with and
    // without a rejected size read before / after
    for v in vals {
        for which in 0..3 {
            let trio = ["2", "3", "5"];
            let mut args: Vec<String> = vec![];
            for (k, e) in trio.iter().enumerate() {
                args.push(e.to_string());
                args.push(if k == which { v.to_string() } else { format!("text {}", k) });
            }
            let refs: Vec<&str> = args.iter().map(|s| s.as_str()).collect();
            emit(Op::s("metadata.read", &refs));
            let mut with_bad = vec!["13".to_string(), "4k".to_string()];
            with_bad.extend(args.iter().cloned());
            with_bad.extend(["12".to_string(), "".to_string()]);
            let refs: Vec<&str> = with_bad.iter().map(|s| s.as_str()).collect();
            emit(Op::s("metadata.read", &refs));
        }
    }
    for _ in 0..(if thorough { 3000 } else { 300 }) {
        let n = rng.range(1, 5);
        let mut args: Vec<String> = vec![];
        for _ in 0..n {
            args.push(rng.below(14).to_string());
            args.push(rng.pick(&vals).to_string());
        }
        let refs: Vec<&str> = args.iter().map(|s| s.as_str()).collect();
        emit(Op::s("metadata.read", &refs));
    }
    // metadata files larger than one 8 KiB read buffer, a multi-byte character across 8192 / 16384
    for cut in [8192usize, 16384, 8191] {
        for lead in [0usize, 1, 2] {
            let mut content: Vec<u8> = vec![b'a'; cut - 1 - lead];
            content.extend("é€\u{1F496}é".as_bytes());
            content.extend(vec![b'z'; 200]);
            let mut a = b"dbig-1.0".to_vec();
            for f in ["+COMMENT", "+CONTENTS", "+DESC"] {
                a.push(0);
                a.extend(f.as_bytes());
                a.push(0);
                if f == "+COMMENT" { a.extend(&content); } else { a.extend(b"x"); }
            }
            emit(Op::new("pkgdb.iter", &[&a]));
        }
    }
    // metadata content is bytes: a +COMMENT (or +DESC, +CONTENTS) that is not UTF-8 does not make
    // the package disappear
    for f in ["+COMMENT", "+DESC", "+CONTENTS", "+BUILD_INFO"] {
        let mut a = b"dlatin-1.0".to_vec();
        for g in ["+COMMENT", "+CONTENTS", "+DESC", "+BUILD_INFO"] {
            a.push(0);
            a.extend(g.as_bytes());
            a.push(0);
            if g == f { a.extend(b"Caf\xe9 client \xff\xfe\n"); } else { a.extend(b"plain\n"); }
        }
        emit(Op::new("pkgdb.iter", &[&a, b"dother-2.0\0+COMMENT\0c\0+CONTENTS\0x\0+DESC\0d"]));
    }
    // directory trees
    let names: [&[u8]; 23] = [b"tzdata-current", b"wip-tool-HEAD", b"snapshot-nb", b"oddball-", b"foo-1.0 ", b"foo-1.0", b"bar-2.0nb3", b"py312-baz-0.1", b"a-b-c-1", b"nodash", b"-", b"x-", b"-1",
        b"caf\xc3\xa9-1.0", b"bad\xff-1", b"+COMMENT", b"foo-1.0nb1",
        // names a directory listing filter might single out: leading dot, blanks, '~', '#'
        b".hidden-tool-2.0nb1", b"..-1", b".x", b"...", b" lead-1.0", b"tmp~-1#"];
    for _ in 0..(if thorough { 3000 } else { 300 }) {
        let k = rng.range(0, 8);
        let mut pool: Vec<&[u8]> = names.to_vec();
        rng.shuffle(&mut pool);
        let mut args: Vec<Vec<u8>> = vec![];
        for name in pool.into_iter().take(k) {
            if rng.chance(1, 6) {
                let mut a = vec![b'f'];
                a.extend(name);
                args.push(a);
                continue;
            }
            if rng.chance(1, 10) {
                // a dangling symbolic link / a link to itself among the entries
                let mut a = vec![b'l'];
                a.extend(name);
                if rng.chance(1, 2) {
                    a.push(0);
                    a.extend(b"loop");
                }
                args.push(a);
                continue;
            }
            let mut a = vec![b'd'];
            a.extend(name);
            let missing = if rng.chance(1, 3) { rng.below(8) } else { 0 };
            for (bit, f) in ["+COMMENT", "+CONTENTS", "+DESC"].iter().enumerate() {
                if missing & (1 << bit) == 0 {
                    a.push(0);
                    a.extend(f.as_bytes());
                    a.push(0);
                    match rng.below(10) {
                        // the mandatory entry exists but is a directory: still "contains" it
                        0 => a.extend(b"\x01D"),
                        // content is returned as it is: byte order mark, blanks, CR LF, empty
                        1 => a.extend(format!("\u{feff}{} of {}", f, String::from_utf8_lossy(name)).as_bytes()),
                        2 => a.extend(format!("  {} \r\n\n", f).as_bytes()),
                        3 => {}
                        4 if *f == "+CONTENTS" => a.extend(b"@name other-9.9\n@cwd /usr/pkg\nbin/x\n"),
                        _ => a.extend(format!("{} of {}", f, String::from_utf8_lossy(name)).as_bytes()),
                    }
                }
            }
            if rng.chance(1, 2) {
                a.push(0);
                a.extend(b"+SIZE_PKG");
                a.push(0);
                a.extend(*rng.pick::<&[u8]>(&[b"12345\n", b"\xef\xbb\xbf12345\n", b"\x01D", b"", b"\xef\xbb\xbf\xef\xbb\xbf1", b"1\xef\xbb\xbf"]));
            }
            if rng.chance(1, 4) {
                a.push(0);
                a.extend(b"stray.txt");
                a.push(0);
                a.extend(b"zzz");
            }
            args.push(a);
        }
        let refs: Vec<&[u8]> = args.iter().map(|a| a.as_slice()).collect();
        emit(Op::new("pkgdb.iter", &refs));
    }
}

/// SIZE: a database directory with thousands of entries that are not packages (plain files,
/// incomplete directories) between two packages.  Emitted after the mutation pool is built.
fn size_family(emit: &mut dyn FnMut(Op)) {
    for kind in [b'f', b'd'] {
        let mut args: Vec<Vec<u8>> = vec![b"daaa-1.0\0+COMMENT\0c\0+CONTENTS\0x\0+DESC\0d".to_vec()];
        for i in 0..(if kind == b'f' { 5000 } else { 2500 }) {
            let mut a = vec![kind];
            a.extend(format!("stray{:05}", i).as_bytes());
            args.push(a);
        }
        args.push(b"dzzz-2.0\0+COMMENT\0c\0+CONTENTS\0x\0+DESC\0d".to_vec());
        let refs: Vec<&[u8]> = args.iter().map(|a| a.as_slice()).collect();
        emit(Op::new("pkgdb.iter", &refs));
    }
}

pub fn gen(id: &str, tier: &str, rng: &mut Rng, emit: &mut dyn FnMut(Op)) {
    match id {
        "C17" => {
            // mutations of every other generator's ops (and the ops themselves, sampled)
            let mut pool: Vec<Op> = vec![];
            for pid in ["C16", "C20"] {
                let mut sub = Rng::new(rng.next());
                let mut n = 0usize;
                gen(pid, "quick", &mut sub, &mut |op: Op| {
                    n += 1;
                    if n % 7 == 0 || pool.len() < 400 {
                        pool.push(op);
                    }
                });
            }
            // files are exercised by their own properties; C17 is about parsers and matchers
            // package-database iteration is an entry point too: its trees are replayed as they are
            // (the tree encoding is protocol, so it is not mutated)
            let mut k = 0;
            for o in pool.iter().filter(|o| o.name == "pkgdb.iter") {
                k += 1;
                if k <= (if tier == "thorough" { 400 } else { 60 }) {
                    emit(o.clone());
                }
            }
            pool.retain(|o| !matches!(o.name.as_str(), "distinfo.verify" | "entry.verify" | "pkgdb.iter"));
            let n = if tier == "thorough" { 60000 } else { 4000 };
            fuzz(&pool, n, rng, emit);
        }
        "C16" => with_oracle_fuzz(tier, rng, emit, &gen_c16),
        "C20" => {
            with_oracle_fuzz(tier, rng, emit, &gen_c20);
            size_family(emit);
        }
        _ => {
            eprintln!("idx: unknown property {}", id);
            std::process::exit(2);
        }
    }
}
