//! Cluster `idx`: pbulk-index output, package database, metadata files (properties C16, C20).
use harness::*;
use pkgsrc::pkgdb::PkgDB;
use pkgsrc::{Metadata, MetadataEntry, ScanIndex};
use std::ffi::OsStr;
use std::io::{BufReader, Read};
use std::os::unix::ffi::OsStrExt;
use std::path::Path;

mod gen;

/// A reader that hands out its data in small pieces, is interrupted now and then, and
/// fails with a hard error once `fail_at` bytes have been delivered.
struct FaultyReader {
    data: Vec<u8>,
    pos: usize,
    fail_at: Option<usize>,
    tick: usize,
}

impl Read for FaultyReader {
    fn read(&mut self, buf: &mut [u8]) -> std::io::Result<usize> {
        self.tick += 1;
        if self.tick % 3 == 0 {
            return Err(std::io::Error::new(std::io::ErrorKind::Interrupted, "eintr"));
        }
        if let Some(f) = self.fail_at {
            if self.pos >= f {
                return Err(std::io::Error::new(std::io::ErrorKind::Other, "boom"));
            }
        }
        let mut n = buf.len().min(7).min(self.data.len() - self.pos);
        if let Some(f) = self.fail_at {
            n = n.min(f - self.pos);
        }
        buf[..n].copy_from_slice(&self.data[self.pos..self.pos + n]);
        self.pos += n;
        Ok(n)
    }
}

fn opt(o: &Option<String>) -> String {
    match o {
        Some(s) => format!("+{}", hex(s.as_bytes())),
        None => "-".into(),
    }
}

fn show_index(i: &ScanIndex) -> String {
    let pp = |p: &pkgsrc::PkgPath| {
        format!(
            "{}:{}",
            hex(p.as_path().as_os_str().as_bytes()),
            hex(p.as_full_path().as_os_str().as_bytes())
        )
    };
    format!(
        "name={}/{}/{}|loc={}|alldep={}|skip={}|fail={}|nobin={}|restr={}|cat={}|maint={}|destdir={}|boot={}|ug={}|scandep={}|weight={}|multi={}|deps={}",
        hex(i.pkgname.pkgname().as_bytes()),
        hex(i.pkgname.pkgbase().as_bytes()),
        hex(i.pkgname.pkgversion().as_bytes()),
        match &i.pkg_location {
            Some(p) => format!("+{}", pp(p)),
            None => "-".into(),
        },
        i.all_depends
            .iter()
            .map(|d| format!("{}:{}", hex(d.pattern().pattern().as_bytes()), pp(d.pkgpath())))
            .collect::<Vec<_>>()
            .join(","),
        opt(&i.pkg_skip_reason),
        opt(&i.pkg_fail_reason),
        opt(&i.no_bin_on_ftp),
        opt(&i.restricted),
        opt(&i.categories),
        opt(&i.maintainer),
        opt(&i.use_destdir),
        opt(&i.bootstrap_pkg),
        opt(&i.usergroup_phase),
        i.scan_depends.iter().map(|p| hex(p.as_os_str().as_bytes())).collect::<Vec<_>>().join(","),
        opt(&i.pbulk_weight),
        i.multi_version.iter().map(|s| hex(s.as_bytes())).collect::<Vec<_>>().join(","),
        i.depends.len()
    )
}

pub const ENTRIES: [fn() -> MetadataEntry; 14] = [
    || MetadataEntry::BuildInfo,
    || MetadataEntry::BuildVersion,
    || MetadataEntry::Comment,
    || MetadataEntry::Contents,
    || MetadataEntry::DeInstall,
    || MetadataEntry::Desc,
    || MetadataEntry::Display,
    || MetadataEntry::Install,
    || MetadataEntry::InstalledInfo,
    || MetadataEntry::MtreeDirs,
    || MetadataEntry::Preserve,
    || MetadataEntry::RequiredBy,
    || MetadataEntry::SizeAll,
    || MetadataEntry::SizePkg,
];

fn entry_index(e: &MetadataEntry) -> usize {
    ENTRIES.iter().position(|f| &f() == e).unwrap()
}

fn ov(o: &Option<Vec<String>>) -> String {
    match o {
        Some(v) => format!("+[{}]", v.iter().map(|s| hex(s.as_bytes())).collect::<Vec<_>>().join(",")),
        None => "-".into(),
    }
}
fn oi(o: &Option<i64>) -> String {
    match o {
        Some(i) => format!("+{}", i),
        None => "-".into(),
    }
}

fn show_metadata(m: &Metadata) -> String {
    format!(
        "bi={}|bv={}|comment={}|contents={}|deinstall={}|desc={}|display={}|install={}|ii={}|mtree={}|preserve={}|reqby={}|sizeall={}|sizepkg={}|valid={}",
        ov(m.build_info()),
        ov(m.build_version()),
        hex(m.comment().as_bytes()),
        hex(m.contents().as_bytes()),
        opt(m.deinstall()),
        hex(m.desc().as_bytes()),
        opt(m.display()),
        opt(m.install()),
        ov(m.installed_info()),
        ov(m.mtree_dirs()),
        ov(m.preserve()),
        ov(m.required_by()),
        oi(m.size_all()),
        oi(m.size_pkg()),
        b(m.is_valid().is_ok())
    )
}

fn exec(op: &Op) -> String {
    match op.name.as_str() {
        "scanindex.read" => {
            let fail_at = match op.str(1) {
                Some("-") | None => None,
                Some(s) => s.parse::<usize>().ok(),
            };
            let r = FaultyReader { data: op.args[0].clone(), pos: 0, fail_at, tick: 0 };
            match ScanIndex::from_reader(BufReader::with_capacity(16, r)) {
                Ok(v) => format!("ok:{}", v.iter().map(show_index).collect::<Vec<_>>().join(";;")),
                Err(_) => "err".into(),
            }
        }
        "metadata.name" => {
            let Some(i) = op.str(0).and_then(|s| s.parse::<usize>().ok()) else { return "BAD-ARG".into() };
            if i >= 14 {
                return "BAD-ARG".into();
            }
            let e = ENTRIES[i]();
            let f = e.to_filename().to_string();
            format!(
                "{}|{}",
                hex(f.as_bytes()),
                match MetadataEntry::from_filename(&f) {
                    Some(e2) => entry_index(&e2).to_string(),
                    None => "none".into(),
                }
            )
        }
        "metadata.from" => {
            let Some(s) = op.str(0) else { return "BAD-UTF8".into() };
            match MetadataEntry::from_filename(s) {
                Some(e) => entry_index(&e).to_string(),
                None => "none".into(),
            }
        }
        "metadata.read" => {
            // args: pairs (entry index as text, value), applied in order
            let mut m = Metadata::new();
            let mut i = 0;
            let mut errs: Vec<String> = vec![];
            while i + 1 < op.args.len() {
                let Some(k) = op.str(i).and_then(|s| s.parse::<usize>().ok()) else { return "BAD-ARG".into() };
                let Some(v) = op.str(i + 1) else { return "BAD-UTF8".into() };
                if k >= 14 {
                    return "BAD-ARG".into();
                }
                // a rejected value (non-numeric size) is reported and changes nothing: the object is
                // used on, and what it holds afterwards depends on the accepted calls only
                if m.read_metadata(ENTRIES[k](), v).is_err() {
                    errs.push((i / 2).to_string());
                }
                i += 2;
            }
            format!("e={}|{}", if errs.is_empty() { "-".to_string() } else { errs.join(",") }, show_metadata(&m))
        }
        "pkgdb.iter" => {
            // each arg: kind byte ('f' | 'd'), name, then NUL-separated (file name, content) pairs
            let _ = std::fs::remove_dir_all("db");
            std::fs::create_dir_all("db").unwrap();
            for a in &op.args {
                let kind = a[0];
                let parts: Vec<&[u8]> = a[1..].split(|c| *c == 0).collect();
                let p = Path::new("db").join(OsStr::from_bytes(parts[0]));
                if kind == b'f' {
                    std::fs::write(&p, b"x").unwrap();
                } else if kind == b'l' {
                    // a symbolic link that leads nowhere (or to itself): listed by readdir, not a package
                    let target = if parts.len() > 1 && parts[1] == b"loop" { p.clone() } else { Path::new("db").join("no-such-target") };
                    let _ = std::os::unix::fs::symlink(&target, &p);
                } else {
                    std::fs::create_dir_all(&p).unwrap();
                    let mut i = 1;
                    while i + 1 < parts.len() {
                        let q = p.join(OsStr::from_bytes(parts[i]));
                        if parts[i + 1] == b"\x01D" {
                            // the entry exists but is a directory (reading it fails)
                            std::fs::create_dir_all(&q).unwrap();
                        } else {
                            std::fs::write(q, parts[i + 1]).unwrap();
                        }
                        i += 2;
                    }
                }
            }
            // a path that does not exist is an error; a plain file opens as a database that
            // lists nothing (the two other arms of `PkgDB::open`)
            let _ = std::fs::remove_file("dbfile");
            match PkgDB::open(Path::new("db-does-not-exist")) {
                Err(e) if e.kind() == std::io::ErrorKind::NotFound => {}
                _ => return "OPEN-OF-MISSING-PATH-NOT-NOTFOUND".into(),
            }
            std::fs::write("dbfile", b"x").unwrap();
            match PkgDB::open(Path::new("dbfile")) {
                Ok(mut f) => {
                    if f.next().is_some() || f.next().is_some() {
                        return "OPEN-OF-A-FILE-LISTS-SOMETHING".into();
                    }
                }
                Err(_) => return "OPEN-OF-A-FILE-FAILED".into(),
            }
            let _ = std::fs::remove_file("dbfile");
            let db = match PkgDB::open(Path::new("db")) {
                Ok(d) => d,
                Err(_) => return "open-err".into(),
            };
            let mut items: Vec<String> = vec![];
            let mut db = db;
            while let Some(it) = db.next() {
                items.push(match it {
                    Ok(p) => format!(
                        "ok:{}:{}:{}:{}:{}",
                        hex(p.pkgname().as_bytes()),
                        hex(p.pkgbase().as_bytes()),
                        hex(p.pkgversion().as_bytes()),
                        match p.read_metadata(MetadataEntry::Comment) {
                            Ok(s) => format!("+{}", hex(s.as_bytes())),
                            Err(_) => "err".into(),
                        },
                        match p.read_metadata(MetadataEntry::SizePkg) {
                            Ok(s) => format!("+{}", hex(s.as_bytes())),
                            Err(_) => "err".into(),
                        }
                    ),
                    Err(_) => "err".into(),
                });
            }
            items.sort();
            // an exhausted iterator stays exhausted (and polling it again returns normally)
            for _ in 0..2 {
                if db.next().is_some() {
                    items.push("item-after-end".into());
                }
            }
            let _ = std::fs::remove_dir_all("db");
            items.join(";")
        }
        _ => "UNKNOWN-OP".into(),
    }
}

fn main() {
    let scratch = std::env::temp_dir().join(format!("pkgsrc-verif-idx-{}", std::process::id()));
    let _ = std::fs::remove_dir_all(&scratch);
    std::fs::create_dir_all(&scratch).unwrap();
    std::env::set_current_dir(&scratch).unwrap();
    main_with(&exec, &gen::gen);
    let _ = std::env::set_current_dir("/");
    let _ = std::fs::remove_dir_all(&scratch);
}
