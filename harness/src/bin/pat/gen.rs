//! Generators for cluster `pat`.  Every random choice comes from the one `Rng`.
use harness::*;

pub const CORE_TOKS: [&str; 20] = [
    "0", "1", "2", "10", "97", "122", ".", "_", "pl", "alpha", "beta", "rc", "pre", "nb1", "nb2",
    "a", "b", "z", "A", "é",
];
pub const MORE_TOKS: [&str; 34] = [
    "9", "26", "27", "96", "98", "123", "007", "123456789012345678", "nb", "nb0", "nb10", "n", "p",
    "r", "Z", "ALPHA", "Beta", "RC", "Pre", "NB3", "Nb2", "PL", "pL", "€", "𐀀", "+", "~", " ", "=",
    "\u{212A}", "\u{17F}", "al", "bet", "nbx",
];
pub const WILD_TOKS: [&str; 8] = [
    "99999999999999999999", "9223372036854775807", "9223372036854775808", "nb99999999999999999999",
    "\0", "\u{85}", ",", "00000000000000000000001",
];

fn all_toks() -> Vec<&'static str> {
    CORE_TOKS.iter().chain(MORE_TOKS.iter()).cloned().collect()
}

fn api_ok_w(w: &str) -> bool {
    !w.contains(|c| "-<>{}".contains(c))
}
fn api_ok_v(v: &str) -> bool {
    !v.contains(|c| "-<>{}".contains(c)) && !v.starts_with('=')
}

fn rand_version(rng: &mut Rng, toks: &[&str], maxlen: usize) -> String {
    let n = rng.range(0, maxlen);
    let mut s = String::new();
    for _ in 0..n {
        s.push_str(*rng.pick::<&str>(toks));
    }
    s
}

fn emit_vcmp(emit: &mut dyn FnMut(Op), w: &str, v: &str, api: bool) {
    emit(Op::s("dewey.vcmp", &[w, v]));
    if api && api_ok_w(w) && api_ok_v(v) {
        emit(Op::s("api.vcmp", &[w, v]));
        // "also through best_match": the same pair as two candidates that both match
        emit(Op::s("pattern.best", &["p-*", &format!("p-{}", w), &format!("p-{}", v)]));
    }
}


/// Two-bound patterns whose LOWER bound extends the UPPER one by zeros, separators or a negative
/// modifier (`p>=1.0alpha1<1.0`, `p>=1.0<=1`): the two bounds are then "out of order" for any
/// comparison that is not the zero-padded one, although the range is perfectly satisfiable.  Also
/// zero / empty bounds against versions that sort BELOW zero (`p>=0` vs `p-0rc1`, `p-alpha1`).
fn bound_extension_family(emit: &mut dyn FnMut(Op)) {
    let stems = ["1", "1.0", "2.5", "0", "", "1a", "3nb2", "10"];
    let exts = ["", ".0", ".0.0", "_", "pl", "alpha1", "beta", "rc1", "pre2", ".0alpha", "nb2", ".0nb1", "."];
    let probes = ["", ".0", "alpha1", "beta2", "rc1", "rc2", "pre1", ".0.0", "nb1", "nb3", ".1", "a", "alpha0"];
    for st in stems {
        for x in exts {
            for y in exts {
                let (lo, hi) = (format!("{}{}", st, x), format!("{}{}", st, y));
                for (o1, o2) in [(">=", "<"), (">=", "<="), (">", "<"), (">", "<=")] {
                    let pat = format!("p{}{}{}{}", o1, lo, o2, hi);
                    emit(Op::s("dewey.new", &[&pat]));
                    for pr in probes {
                        let name = format!("p-{}{}", st, pr);
                        emit(Op::s("dewey.match", &[&pat, &name]));
                        emit(Op::s("pattern.match", &[&pat, &name]));
                    }
                }
            }
        }
    }
    // the package version is the bound's text followed by a (further) revision
    for bd in ["1.0", "1.0NB3", "1.0nb3", "1.0Nb3", "2", "1.0rc1", "1.0nB"] {
        for extra in ["", "nb1", "nb2", "nb3", "nb4", "NB2", "nb", "nb03"] {
            for op in [">", ">=", "<", "<="] {
                let pat = format!("pkg{}{}", op, bd);
                let name = format!("pkg-{}{}", bd, extra);
                emit(Op::s("dewey.match", &[&pat, &name]));
                emit(Op::s("pattern.match", &[&pat, &name]));
            }
        }
    }
    for zero in ["", "0", "0.0", "0.", "_", "pl", "0pl", "00", ".", "0nb0", "nb0"] {
        for op in [">=", ">", "<=", "<"] {
            for v in ["0rc1", "alpha1", "rc1", "0alpha", "pre", "0.0beta", "beta", "0", "", "0.0", "0pl", "pl", "_", "0nb1", "nb1", "a", "0a", "1"] {
                let pat = format!("p{}{}", op, zero);
                let name = format!("p-{}", v);
                emit(Op::s("dewey.match", &[&pat, &name]));
                emit(Op::s("pattern.match", &[&pat, &name]));
                let pat2 = format!("p>={}<2", zero);
                emit(Op::s("pattern.match", &[&pat2, &name]));
            }
        }
    }
}

fn gen_c01(tier: &str, rng: &mut Rng, emit: &mut dyn FnMut(Op)) {
    let thorough = tier == "thorough";
    let toks = all_toks();
    // tokeniser: every version of <= 2 tokens, sampled 3- and 4-token versions
    emit(Op::s("dewey.comps", &[""]));
    for a in &toks {
        emit(Op::s("dewey.comps", &[a]));
        for b in &toks {
            emit(Op::s("dewey.comps", &[&format!("{}{}", a, b)]));
        }
    }
    for _ in 0..(if thorough { 30000 } else { 1500 }) {
        let v = rand_version(rng, &toks, 5);
        emit(Op::s("dewey.comps", &[&v]));
    }
    // comparison routine on raw component lists: exhaustive small scope, then random
    let vals = [-1i64, 0, 1];
    let mut lists: Vec<Vec<i64>> = vec![vec![]];
    for a in vals {
        lists.push(vec![a]);
        for b in vals {
            lists.push(vec![a, b]);
        }
    }
    for l in &lists {
        for r in &lists {
            for (lr, rr) in [(0, 0), (0, 1), (1, 0)] {
                emit(Op::s(
                    "dewey.rawcmp",
                    &[&format!("{};{}", ints(l), lr), &format!("{};{}", ints(r), rr)],
                ));
            }
        }
    }
    let pool = [-3i64, -2, -1, 0, 0, 0, 1, 2, 96, 97, 122, 123];
    for _ in 0..(if thorough { 40000 } else { 1500 }) {
        let mk = |rng: &mut Rng| -> Vec<i64> {
            let n = rng.range(0, 5);
            (0..n).map(|_| *rng.pick(&pool)).collect()
        };
        let l = mk(rng);
        // often share a prefix so the tails decide
        let r = if rng.chance(2, 3) {
            let k = rng.range(0, l.len());
            let mut r = l[..k].to_vec();
            r.extend(mk(rng));
            r
        } else {
            mk(rng)
        };
        let lr = *rng.pick(&[0i64, 0, 1, 2]);
        let rr = *rng.pick(&[0i64, 0, 1, 2]);
        emit(Op::s(
            "dewey.rawcmp",
            &[&format!("{};{}", ints(&l), lr), &format!("{};{}", ints(&r), rr)],
        ));
    }
    // value probes: pin the numeric value of each token through verdicts alone
    let probes = [
        "-4", "-3", "-2", "-1", "0", "1", "2", "25", "26", "27", "96", "97", "98", "121", "122", "123",
    ];
    for t in &toks {
        let w = format!("1{}", t);
        for n in probes {
            // "1.<n>" cannot express negatives; use the modifier ladder for them
            let v = match n {
                "-4" => continue,
                "-3" => "1alpha".to_string(),
                "-2" => "1beta".to_string(),
                "-1" => "1rc".to_string(),
                _ => format!("1.{}", n),
            };
            emit_vcmp(emit, &w, &v, true);
            emit_vcmp(emit, &v, &w, true);
            // second component of a letter token
            let v2 = match n {
                "-4" | "-3" | "-2" | "-1" => continue,
                _ => format!("1.0.{}", n),
            };
            emit_vcmp(emit, &w, &v2, false);
        }
    }
    // all pairs of <= 1-token versions (full alphabet), both orientations implied
    let mut singles: Vec<String> = vec!["".into()];
    singles.extend(toks.iter().map(|s| s.to_string()));
    for w in &singles {
        for v in &singles {
            emit_vcmp(emit, w, v, true);
        }
    }
    // pairs over the core alphabet, <= 2 tokens each, sampled (exhaustive in thorough)
    let mut core2: Vec<String> = vec!["".into()];
    for a in CORE_TOKS {
        core2.push(a.to_string());
        for b in CORE_TOKS {
            core2.push(format!("{}{}", a, b));
        }
    }
    if thorough {
        for w in &core2 {
            for v in &core2 {
                emit(Op::s("dewey.vcmp", &[w, v]));
            }
        }
    }
    for _ in 0..(if thorough { 60000 } else { 4000 }) {
        let w = if rng.chance(1, 2) { rng.pick(&core2).clone() } else { rand_version(rng, &toks, 4) };
        // derive v from w half of the time: shared prefix, different tail / padding
        let v = if rng.chance(1, 2) {
            let cut = {
                let idx: Vec<usize> = w.char_indices().map(|(i, _)| i).chain([w.len()]).collect();
                *rng.pick(&idx)
            };
            format!("{}{}", &w[..cut], rand_version(rng, &toks, 2))
        } else {
            rand_version(rng, &toks, 4)
        };
        emit_vcmp(emit, &w, &v, rng.chance(1, 3));
    }
    // best_match on versions the rule calls equal although their component lists differ in
    // length (padding), in both argument orders and under several pattern kinds
    // "also through best_match": a candidate without '-' is compared with the EMPTY version
    for pat in ["p*", "*", "{p,p-[0-9]*}", "{p1,p-*}", "p?*"] {
        for a in ["p", "p1", "p2.0", "pz", "p1a"] {
            for v in ["", "0", "0.1", "1", "1alpha", "0rc1", "a"] {
                let b2 = format!("p-{}", v);
                emit(Op::s("pattern.best", &[pat, a, &b2]));
                emit(Op::s("pattern.best", &[pat, &b2, a]));
            }
        }
    }
    // each candidate's version is the text after ITS OWN last '-' (the bases may nest)
    for (p, a, b2) in [("font-adobe-[0-9]*", "font-adobe-1.1", "font-adobe-100dpi-1.0"), ("foo-[0-9]*", "foo-1.1", "foo-100x-1.0"),
        ("foo-[0-9]*", "foo-2", "foo-3rc-1"), ("{foo,foo-9}-[0-9]*", "foo-5", "foo-9-1"), ("foo-*", "foo-1", "foo-bar-0.5"), ("foo-*", "foo-1", "foo-2-0.5")] {
        emit(Op::s("pattern.best", &[p, a, b2]));
        emit(Op::s("pattern.best", &[p, b2, a]));
    }
    // a bound is as long as it is: components beyond the first KiB count like any other
    for n in [511usize, 512, 600, 2000] {
        let pre = "0.".repeat(n);
        for (o, b, v) in [(">=", "5", "4"), ("<", "5", "4"), (">", "4", "5"), ("<=", "4", "5"), (">=", "4", "4")] {
            emit(Op::s("dewey.match", &[&format!("pkg{}{}{}", o, pre, b), &format!("pkg-{}{}", pre, v)]));
            emit(Op::s("pattern.match", &[&format!("pkg{}{}{}", o, pre, b), &format!("pkg-{}{}", pre, v)]));
        }
        emit(Op::s("dewey.match", &[&format!("pkg>{}4<={}5", pre, pre), &format!("pkg-{}5", pre)]));
    }
    bound_extension_family(emit);
    // ignored characters inside a candidate's version (NUL, '+', '~', blanks, non-ASCII) are
    // skipped and what FOLLOWS them still counts — through best_match as well
    for (a, b2) in [("1.0nb+5", "1.0.4"), ("1.0nb+5", "1.0nb9"), ("1.0nb-3", "1.0.2"), ("1nb3.0", "1nb3.0nb1"), ("1.0NB3nb2", "1.0NB3"),
        ("1\0.5", "1.2"), ("1.0\0nb3", "1.0nb1"), ("2\0rc1", "2.0"), ("1+.5", "1.2"), ("1~nb4", "1nb2"), ("1 .9", "1.5"),
        ("1\u{e9}.5", "1.2"), ("1.0\0", "1.0"), ("\0002", "1")] {
        for pat in ["pkg-[0-9]*", "pkg-*", "pkg>=0"] {
            emit(Op::s("pattern.best", &[pat, &format!("pkg-{}", a), &format!("pkg-{}", b2)]));
            emit(Op::s("pattern.best", &[pat, &format!("pkg-{}", b2), &format!("pkg-{}", a)]));
        }
        emit_vcmp(emit, a, b2, false);
    }
    let pads = ["", ".0", ".", "_", "pl", ".0.0", "pl.", "0"];
    for base in ["1", "1.0", "2.5", "1a", "1.0rc1", "3nb2", "10.20"] {
        for x in pads {
            for y in pads {
                for pat in ["p-*", "p-[0-9]*", "p>=0", "{p,q}-[0-9]*"] {
                    emit(Op::s("pattern.best", &[pat, &format!("p-{}{}", base, x), &format!("p-{}{}", base, y)]));
                }
            }
        }
    }
}

fn gen_c03(tier: &str, rng: &mut Rng, emit: &mut dyn FnMut(Op)) {
    let thorough = tier == "thorough";
    let mut toks = all_toks();
    toks.extend(WILD_TOKS.iter());
    let toks: Vec<&str> = toks.into_iter().filter(|t| api_ok_v(t) || *t == "=").collect();
    let fixed = [
        ("1.0", "1.0.0alpha", "1"),
        ("1", "1.0", "1.0.0"),
        ("1a", "1.5", "1.97"),
        ("", "0", "nb1"),
        ("1.0nb1", "1.0", "1.0.0nb2"),
        ("99999999999999999999", "9223372036854775807", "9223372036854775806"),
    ];
    for (x, y, z) in fixed {
        emit(Op::s("api.laws", &[x, y, z]));
    }
    // bounds that are zero-padded / modifier extensions of each other, probed around them
    for st in ["1", "1.0", "0", "2.5"] {
        for x in ["", ".0", ".0.0", "_", "pl", "alpha1", "rc1", "nb2", ".0nb1"] {
            for y in ["", ".0", "alpha1", "beta2", "nb1"] {
                for zz in ["", ".0", "beta2", "rc2", "nb1", "alpha0", ".1"] {
                    emit(Op::s("api.laws", &[&format!("{}{}", st, x), &format!("{}{}", st, y), &format!("{}{}", st, zz)]));
                }
            }
        }
    }
    for _ in 0..(if thorough { 40000 } else { 1500 }) {
        let x = rand_version(rng, &toks, 4);
        let mut derive = |rng: &mut Rng, base: &str| -> String {
            match rng.below(5) {
                0 => format!("{}{}", base, rng.pick(&[".0", "_", "pl", ".0.0", "alpha", "nb1", ".", "a"])),
                1 => {
                    let idx: Vec<usize> = base.char_indices().map(|(i, _)| i).chain([base.len()]).collect();
                    let cut = *rng.pick(&idx);
                    format!("{}{}", &base[..cut], rand_version(rng, &toks, 2))
                }
                2 => base.to_string(),
                _ => rand_version(rng, &toks, 4),
            }
        };
        let y = derive(rng, &x);
        let z = if rng.chance(1, 2) { derive(rng, &y) } else { derive(rng, &x) };
        if !(api_ok_v(&x) && api_ok_v(&y) && api_ok_v(&z)) {
            continue;
        }
        emit(Op::s("api.laws", &[&x, &y, &z]));
    }
}

fn gen_c02(tier: &str, rng: &mut Rng, emit: &mut dyn FnMut(Op)) {
    let thorough = tier == "thorough";
    let bases = ["", "a", "ab", "foo", "fo", "fooo", "foo-bar", "foo-", "-", "é", "foo-1", "f*o",
        // blanks are ordinary characters of a base, at either end too
        "foo ", " foo", "foo\t", "foo\u{a0}", "foo  ", "f oo", "foo\n"];
    let opw = [">", ">=", "<", "<="];
    let mut opstrs: Vec<Vec<&str>> = vec![];
    for a in opw {
        opstrs.push(vec![a]);
        for b in opw {
            opstrs.push(vec![a, b]);
            for c in opw {
                opstrs.push(vec![a, b, c]);
            }
        }
    }
    let bounds = ["", "1", "1.0", "2", "1.5nb2", "é", "=", "=1", "1a",
        // a sign is an ignored character, not part of a number; look-alike letters are ignored
        "-5", "+5", "-0", "+0", "-1.0", "1.0\u{212A}", "1.0\u{130}", "1.0K"];
    let vers = ["", "0", "1", "1.0", "1.0nb1", "1.5", "2", "3", "1a", "1.0alpha", "é", "5", "-5", "+3", "1.0\u{212A}", "1.0k", "1.0\u{130}",
        // a file-name like ending is part of the version text ("1.0.tgz" > "1.0")
        "1.0.tgz", "1.tgz", "1.5.tgz", "2.tgz", "1.0.tar.gz", "1.0 ", " 1.0", "1.0\n", "1.0nb1.tgz", ".tgz"];
    let mut pats: Vec<String> = vec![];
    for base in bases {
        for ops in &opstrs {
            // bounds: fixed small choices + all-empty (adjacent operators)
            let mut p_empty = base.to_string();
            for o in ops {
                p_empty.push_str(o);
            }
            pats.push(p_empty);
            for _ in 0..2 {
                let mut p = base.to_string();
                for o in ops {
                    p.push_str(o);
                    p.push_str(*rng.pick::<&str>(&bounds));
                }
                pats.push(p);
            }
        }
        for odd in ["=>1", ">==1", ">é", "=1", ">1=<2", "<é>"] {
            pats.push(format!("{}{}", base, odd));
        }
        pats.push(base.to_string());
    }
    for p in &pats {
        emit(Op::s("dewey.new", &[p]));
        emit(Op::s("pattern.new", &[p]));
    }
    bound_extension_family(emit);
    // names: base variants x versions
    let variant = |base: &str, k: usize| -> String {
        match k {
            0 => base.to_string(),
            1 => format!("{}x", base),
            2 => format!("x{}", base),
            3 => base.chars().skip(1).collect(),
            4 => {
                let n = base.chars().count();
                base.chars().take(n.saturating_sub(1)).collect()
            }
            5 => format!("{}-x", base),
            6 => format!("x-{}", base),
            7 => base.trim_end().to_string(),
            8 => base.trim().to_string(),
            9 => format!("{} ", base),
            _ => base.replace('o', "0"),
        }
    };
    // quotes, brackets and blanks around a pattern are part of its text (of BASE and of the bound)
    for (l, r) in [("'", "'"), ("\"", "\""), ("(", ")"), (" ", " "), ("`", "`")] {
        for inner in ["pkg>=1.0", "pkg<2", "pkg>=1<3", "pkg>1.0nb2"] {
            let p = format!("{}{}{}", l, inner, r);
            emit(Op::s("dewey.new", &[&p]));
            emit(Op::s("pattern.new", &[&p]));
            for n in ["pkg-2.0", "pkg-1.5", "pkg-0.5"] {
                for name in [n.to_string(), format!("{}{}", l, n), format!("{}{}{}", l, n, r), format!("{}{}", n, r)] {
                    emit(Op::s("dewey.match", &[&p, &name]));
                    emit(Op::s("pattern.match", &[&p, &name]));
                }
            }
        }
    }
    // "nb<digits>" in the MIDDLE of a version: the revision is those digits, the text goes on;
    // bounds with the same components, so that the revision decides
    for (v, comps_same) in [("1.0nb3.1", vec!["1.0.1nb3", "1.0.1nb2", "1.0.1nb4", "1.0.1"]), ("2.0nb4a", vec!["2.0a", "2.0anb4", "2.0anb5", "2.0anb3"]),
        ("1nb2_1", vec!["1_1nb2", "1_1", "1_1nb3"]), ("1.0nb+5", vec!["1.0", "1.0nb5", "1.0nb1"]), ("1nb2nb3", vec!["1nb3", "1nb2", "1"])] {
        for b in &comps_same {
            for o in opw {
                let p = format!("pkg{}{}", o, b);
                emit(Op::s("dewey.match", &[&p, &format!("pkg-{}", v)]));
                emit(Op::s("pattern.match", &[&p, &format!("pkg-{}", v)]));
                let q = format!("pkg{}{}", o, v);
                emit(Op::s("dewey.match", &[&q, &format!("pkg-{}", b)]));
            }
        }
    }
    // digits are the ten ASCII digits: every other numeric character is ignored text
    for ch in ["\u{663}", "\u{ff11}", "\u{b2}", "\u{bd}", "\u{2167}", "\u{6f3}", "\u{96f}", "\u{1d7d9}"] {
        for v in [format!("1.{}", ch), format!("1{}", ch), ch.to_string(), format!("{}1", ch), format!("1.0nb{}", ch), format!("1.0nb2{}", ch)] {
            emit(Op::s("dewey.comps", &[&v]));
            for (o, b) in [("<=", "1"), (">=", "2"), (">", "1"), ("<", "1.0nb3"), (">=", "1.0nb2")] {
                emit(Op::s("dewey.match", &[&format!("pkg{}{}", o, b), &format!("pkg-{}", v)]));
                emit(Op::s("pattern.match", &[&format!("pkg{}{}", o, b), &format!("pkg-{}", v)]));
                emit(Op::s("dewey.match", &[&format!("pkg{}{}", o, v), &format!("pkg-{}", b)]));
            }
        }
    }
    // a bound is as long as it is: components beyond the first KiB count like any other
    for n in [300usize, 511, 512, 600, 2000] {
        let pre = "0.".repeat(n);
        for (o, b, v) in [(">=", "5", "4"), ("<", "5", "4"), (">", "4", "5"), ("<=", "4", "5"), (">=", "4", "4")] {
            emit(Op::s("dewey.match", &[&format!("pkg{}{}{}", o, pre, b), &format!("pkg-{}{}", pre, v)]));
            emit(Op::s("pattern.match", &[&format!("pkg{}{}{}", o, pre, b), &format!("pkg-{}{}", pre, v)]));
        }
        emit(Op::s("dewey.match", &[&format!("pkg>{}4<={}5", pre, pre), &format!("pkg-{}5", pre)]));
    }
    // a package name spelled exactly like the pattern is just another name
    for p in &pats {
        emit(Op::s("dewey.match", &[p, p]));
        emit(Op::s("pattern.match", &[p, p]));
    }
    let per_pat = if thorough { 60 } else { 6 };
    for p in &pats {
        // the base as the model would read it is unknown to the generator: derive from text
        let base: String = p.chars().take_while(|c| *c != '<' && *c != '>').collect();
        for _ in 0..per_pat {
            let k = if rng.chance(1, 2) { 0 } else { rng.below(11) };
            let name = match rng.below(10) {
                0 => variant(&base, k),
                1 => format!("{}-{}-{}", variant(&base, k), rng.pick(&vers), rng.pick(&vers)),
                _ => format!("{}-{}", variant(&base, k), rng.pick(&vers)),
            };
            emit(Op::s("dewey.match", &[p, &name]));
            emit(Op::s("pattern.match", &[p, &name]));
        }
    }
}

pub const PIECES18: [&str; 17] = [
    "", "a", "-", "nb", "nb1", "nb12", "1.0", "anb", "nbnb3", "é", "123456789012345678", "NB4", "NB", "nB2",
    ".tgz", ",", "\0",
];

fn gen_c18(tier: &str, rng: &mut Rng, emit: &mut dyn FnMut(Op)) {
    let thorough = tier == "thorough";
    let mut names: Vec<String> = vec![];
    let depth = if thorough { 4 } else { 3 };
    fn rec(cur: String, d: usize, out: &mut Vec<String>) {
        out.push(cur.clone());
        if d == 0 {
            return;
        }
        for p in PIECES18.iter().skip(1) {
            rec(format!("{}{}", cur, p), d - 1, out);
        }
    }
    rec(String::new(), depth, &mut names);
    names.sort();
    names.dedup();
    for n in &names {
        emit(Op::s("pkgname.new", &[n]));
        emit(Op::s("summary.pkgsplit", &[n]));
        emit(Op::s("pkgname.dewey", &[n]));
    }
    let extra = ["mktool-1.3-2", "a-1-1nb2", "p5-x-1-2", "x-11-1", "nb+2", "nb-3", "1nb", "1.0nb99999999999999999999", "x-1nb2nb", "x-nb5alpha", "x-1nNb3", "x-1nb3-", "-", "--", "a-b-c-1.0nb3"];
    for n in extra {
        emit(Op::s("pkgname.new", &[n]));
        emit(Op::s("summary.pkgsplit", &[n]));
        emit(Op::s("pkgname.dewey", &[n]));
    }
    // names longer than 16-bit offsets can address, the last '-' on either side of 65535/65536
    for k in [65534usize, 65535, 65536, 65537, 70000] {
        for tail in ["-1.0nb3", "-1.0", "-", "nb2"] {
            let n = format!("{}{}", "a".repeat(k), tail);
            emit(Op::s("pkgname.new", &[&n]));
            emit(Op::s("summary.pkgsplit", &[&n]));
            let n2 = format!("p-{}{}", "1".repeat(3) + &".0".repeat(k / 2), "nb7");
            emit(Op::s("pkgname.new", &[&n2]));
        }
    }
    // versions far longer than any fixed buffer: the revision at their very end is THE revision
    for k in [500usize, 511, 512, 1020, 1024, 3000] {
        for tail in ["nb7", "nb12", ""] {
            let v = format!("1{}{}", ".0".repeat(k), tail);
            emit(Op::s("pkgname.dewey", &[&format!("p-{}", v)]));
            emit(Op::s("pkgname.new", &[&format!("p-{}", v)]));
            emit(Op::s("dewey.match", &[&format!("p>=1{}nb8", ".0".repeat(k)), &format!("p-{}", v)]));
        }
    }
    for (p, n) in [("foo<2", "foo-bar-1.0"), ("foo>=0", "foo-bar-1.0"), ("foo-bar>=0", "foo-bar-1.0"), ("pkg>=1.0nb3", "pkg-1.0nb9-0.5nb1"),
        ("pkg-1.0nb9>=0", "pkg-1.0nb9-0.5nb1"), ("php56>=5", "php56-mysql-5.6"), ("a>=0", "a--1")] {
        emit(Op::s("dewey.match", &[p, n]));
    }
    // "the revision the version comparison uses": a name and a bound whose components tie under
    // padding (1 = 1.0 = 1pl = 1_) are decided by the two revisions, whichever side is longer
    let spell = ["1", "1.0", "1pl", "1_", "1.0.0", "2.5", "2.5.0", "1a", "1.0a"];
    let revs = ["", "nb1", "nb3", "nb5", "nb05", "NB3", "nb3nb", "nb"];
    for v in spell {
        for w in spell {
            for k in revs {
                for j in revs {
                    for o2 in [">", ">=", "<", "<="] {
                        emit(Op::s("dewey.match", &[&format!("pkg{}{}{}", o2, w, j), &format!("pkg-{}{}", v, k)]));
                    }
                    if thorough {
                        let o = *rng.pick(&[">", ">=", "<", "<="]);
                        emit(Op::s("dewey.match", &[&format!("pkg>=0{}{}{}", o, w, j), &format!("pkg-{}{}", v, k)]));
                    }
                }
            }
        }
    }
    // the LAST '-' among its look-alikes: ',' '.' '+' are one bit away, U+00AD ends in the byte AD;
    // names of every length up to three machine words
    {
        let alpha: [&str; 8] = ["-", ",", ".", "+", "a", "1", "\u{ad}", "m"];
        for _ in 0..(if thorough { 60000 } else { 6000 }) {
            let n = rng.range(1, 26);
            let mut s = String::new();
            for _ in 0..n {
                s.push_str(*rng.pick::<&str>(&alpha));
            }
            emit(Op::s("pkgname.new", &[&s]));
            emit(Op::s("summary.pkgsplit", &[&s]));
        }
        for name in ["foo-bar-,1.0", "foo-bar-,", "abcdefg-,1", "-,------", "a-,b-,c-,d-,e", "xxxxxxx-,", "xxxxxxxx-,1"] {
            emit(Op::s("pkgname.new", &[name]));
            emit(Op::s("summary.pkgsplit", &[name]));
        }
    }
    // a tie in version AND revision (no "nb" = "nb0" = "nb") goes to the byte-wise smaller name
    for v in ["1.0", "2", "1.0rc1"] {
        for (x, y) in [("", "nb0"), ("", "nb"), ("nb0", "nb000"), ("", "nb00"), ("nb1", "nb01"), ("nb", "nb0")] {
            emit(Op::s("pattern.best", &["pkg-[0-9]*", &format!("pkg-{}{}", v, x), &format!("pkg-{}{}", v, y)]));
            emit(Op::s("pattern.best", &["pkg-[0-9]*", &format!("pkg-{}{}", v, y), &format!("pkg-{}{}", v, x)]));
        }
    }
    // best_match takes the version (and its revision) from the text after the LAST '-': bases that
    // contain '-', digits or "nb" themselves
    for (b1, b2) in [("app-a", "app-b"), ("a-nb5x", "a-nb5x"), ("foo-1", "foo-1"), ("x-2.0-y", "x-2.0-y"), ("app-b", "app-a"), ("p-nb2", "p-nb3"), ("nb-nb", "nb-nb")] {
        for v1 in ["1.0", "1.0nb2", "0.5", "2", "1.0alpha", "1", "1.0nb10"] {
            for v2 in ["1.0", "1.0nb2", "0.5", "2", "1.0alpha", "1", "1.0nb10"] {
                emit(Op::s("pattern.best", &["*-[0-9]*", &format!("{}-{}", b1, v1), &format!("{}-{}", b2, v2)]));
            }
        }
    }
    for n in ["mktool-1.3.2NB2", "x-1nB", "dnb-2.0-SNB", "x-1Nb7", "x-1nb7NB8", "x-1NB7nb8", "x-NB", "NB1", "x-1.0nb\u{ff11}", "x-1.0nb1\u{212A}"] {
        emit(Op::s("pkgname.new", &[n]));
        emit(Op::s("summary.pkgsplit", &[n]));
        emit(Op::s("pkgname.dewey", &[n]));
    }
    for _ in 0..(if thorough { 20000 } else { 1000 }) {
        let k = rng.range(1, 6);
        let mut s = String::new();
        for _ in 0..k {
            s.push_str(*rng.pick::<&str>(&PIECES18));
        }
        emit(Op::s("pkgname.new", &[&s]));
        emit(Op::s("summary.pkgsplit", &[&s]));
        emit(Op::s("pkgname.dewey", &[&s]));
        // the matcher's own split agrees: p>=0 matches iff base == "p..." — use the name's base
        if let Some((b, _)) = s.rsplit_once('-') {
            if !b.contains(|c| "<>{}".contains(c)) {
                emit(Op::s("dewey.match", &[&format!("{}>=0", b), &s]));
            }
        }
        // ... and a base that stops at an EARLIER dash is not the name's PKGBASE: no match,
        // whatever the bound
        for (i, _) in s.match_indices('-') {
            let b = &s[..i];
            if !b.is_empty() && !b.contains(|c| "<>{}".contains(c)) {
                emit(Op::s("dewey.match", &[&format!("{}>=0", b), &s]));
                emit(Op::s("dewey.match", &[&format!("{}<99999999", b), &s]));
            }
        }
    }
}

pub const SEGS19: [&str; 8] = ["..", ".", "a", "b", "", ".. ", "...", "buildlink3.mk"];

fn gen_c19(tier: &str, rng: &mut Rng, emit: &mut dyn FnMut(Op)) {
    let thorough = tier == "thorough";
    let maxseg = if thorough { 6 } else { 4 };
    let mut paths: Vec<String> = vec![];
    fn rec(cur: Vec<&'static str>, d: usize, out: &mut Vec<String>) {
        if !cur.is_empty() {
            out.push(cur.join("/"));
            out.push(format!("/{}", cur.join("/")));
        }
        if d == 0 {
            return;
        }
        for s in SEGS19 {
            let mut n = cur.clone();
            n.push(s);
            rec(n, d - 1, out);
        }
    }
    rec(vec![], maxseg, &mut paths);
    paths.push(String::new());
    paths.sort();
    paths.dedup();
    for p in &paths {
        emit(Op::s("pkgpath.new", &[p]));
        emit(Op::new("path.comps", &[p.as_bytes()]));
    }
    for p in ["foo/bar", "foo//bar//", "../../foo/bar/", "\0", "é/ü", "../../é/ü", "a/b\n", " a/b", "a/ b",
        // names are taken as they are: trailing dots, blanks and line ends belong to the name
        "cat/pkg.", "cat/pkg..", "cat/...", "cat./pkg", "../../cat/pkg.", "cat/.pkg", "cat/pkg/.", "cat/pkg./", "cat/pkg\n", "cat/pkg/\n",
        "cat/\n", "cat/pkg\r\n", "cat/pkg\r", "cat/pkg ", "cat/pkg\t", "\ncat/pkg", "cat/pkg/ ", "../../cat/pkg\n", "cat/pkg\n\n"] {
        emit(Op::s("pkgpath.new", &[p]));
        emit(Op::new("path.comps", &[p.as_bytes()]));
    }
    // equality of spellings
    let goods = ["a/b", "../../a/b", "a//b", "a/./b", "a/b/", "a/b/.", "..//..//a//b//", "../.././a/b", "b/a", "../../b/a", "a/a", "a/b/c",
        "a/b.", "../../a/b.", "a/b..", "a./b", "a/b\n", "a/b "];
    for x in goods {
        for y in goods {
            emit(Op::s("pkgpath.eq", &[x, y]));
        }
    }
    for _ in 0..(if thorough { 5000 } else { 500 }) {
        let x = rng.pick(&paths).clone();
        let y = rng.pick(&paths).clone();
        emit(Op::s("pkgpath.eq", &[&x, &y]));
    }
    // depend: {valid, invalid} pattern x {valid, invalid} path x 0..3 colons
    let pats = ["foo-[0-9]*", "foo>=1", "{a,b}-1", "foo", "", "foo>1>2", "foo-[0-9", "{a", "a}b{", "foo<1<2<3", "é*"];
    let pths = ["a/b", "../../a/b", "a//b/", "a", "", "../a/b", "a/b/c", "./a/b", "/a/b", "a/..",
        // the path half is parsed exactly like PkgPath::new parses it on its own
        "../../../../a/b", "../..//a/b", "..//../a/b", "../../a/b/", "../../../a/b", "../../a", "../../a/b/c", "../../a/./b",
        // line ends and blanks after the path are part of it
        "a/b\n", "a/b/\n", "a/\n", "a/b\r\n", "a/b\r", "a/b ", "a/b.", "../../a/b\n", "a/b/ ", "\na/b"];
    for q in &paths {
        // every PKGPATH spelling of the C19 path generator also as the path half of a Depend
        emit(Op::s("depend.new", &[&format!("foo>=1:{}", q)]));
    }
    for p in pats {
        for q in pths {
            emit(Op::s("depend.new", &[&format!("{}:{}", p, q)]));
            emit(Op::s("depend.new", &[&format!("{}{}", p, q)]));
            emit(Op::s("depend.new", &[&format!("{}::{}", p, q)]));
            emit(Op::s("depend.new", &[&format!("{}:{}:", p, q)]));
            emit(Op::s("depend.new", &[&format!(":{}:{}", p, q)]));
            emit(Op::s("depend.new", &[&format!("{}:{}:{}:{}", p, q, p, q)]));
        }
    }
    emit(Op::s("depend.new", &[":"]));
    emit(Op::s("depend.new", &[""]));
    // a comparison pattern is valid whether or not any version can satisfy it; every ':' counts
    for pat in ["pkg>=2<1", "pkg>1<1", "pkg>=1.0<1.0rc1", "pkg>=1<=1", "pkg-[0-9:]*", "a[:]b", "pkg-[[:digit:]]*"] {
        for q in ["cat/pkg", "../../cat/pkg", "cat/p[k:]g"] {
            emit(Op::s("depend.new", &[&format!("{}:{}", pat, q)]));
        }
    }
    // a brace pattern is valid as soon as its braces balance, whatever its expansions compile to
    for pat in ["{mysql,mariadb}-client>=8.0>8.1", "{a,b}-[0-9", "mysql-client-{[0-9]***,8.0}", "{a,b}>=1", "{a,{b,c}}-[0-9]*"] {
        for q in ["databases/mysql80-client", "../../databases/mysql80-client", "x"] {
            emit(Op::s("depend.new", &[&format!("{}:{}", pat, q)]));
        }
    }
    for q in ["devel/zlib/buildlink3.mk", "../../devel/zlib/buildlink3.mk", "devel/buildlink3.mk", "../../buildlink3.mk/x", "devel/zlib/Makefile"] {
        emit(Op::s("pkgpath.new", &[q]));
        emit(Op::s("depend.new", &[&format!("zlib>=1.2:{}", q)]));
    }
    // the pattern's base may be the very name of the package directory (the usual case in the
    // wild): the exposed parts are still exactly what parsing each half gives
    for (pat, dir) in [("pkg>=1.0", "pkg"), ("pkg-[0-9]*", "pkg"), ("pkg", "pkg"), ("{pkg,pkg2}>=1", "pkg"), ("pkg>=1<2", "pkg"),
        ("pkg<3", "pkg"), ("cat>=1", "pkg"), ("p5-Foo>=0", "p5-Foo")] {
        for q in [format!("../../cat/{}", dir), format!("cat/{}", dir), format!("../../cat/{}/", dir)] {
            emit(Op::s("depend.new", &[&format!("{}:{}", pat, q)]));
        }
    }
}

// ---------------------------------------------------------------- C04

#[derive(Clone, Debug)]
enum Item {
    Lit(String),
    Grp(Vec<Vec<Item>>),
}

fn render(seq: &[Item]) -> String {
    let mut s = String::new();
    for it in seq {
        match it {
            Item::Lit(l) => s.push_str(l),
            Item::Grp(alts) => {
                s.push('{');
                s.push_str(&alts.iter().map(|a| render(a)).collect::<Vec<_>>().join(","));
                s.push('}');
            }
        }
    }
    s
}

fn expand(seq: &[Item]) -> Vec<String> {
    let mut acc = vec![String::new()];
    for it in seq {
        let opts: Vec<String> = match it {
            Item::Lit(l) => vec![l.clone()],
            Item::Grp(alts) => alts.iter().flat_map(|a| expand(a)).collect(),
        };
        let mut next = vec![];
        for a in &acc {
            for o in &opts {
                if next.len() < 4096 {
                    next.push(format!("{}{}", a, o));
                }
            }
        }
        acc = next;
    }
    acc
}

fn rand_seq(rng: &mut Rng, depth: usize, groups_left: &mut usize, top: bool) -> Vec<Item> {
    let lits: [&str; 15] = ["a", "b", "c", "-1.0", ">=1", "*", "[0-9]", "<2", "-", "", "x-", "1", " ", " b", "a "];
    let n = rng.range(if top { 1 } else { 0 }, 3);
    let mut seq = vec![];
    for _ in 0..n {
        if *groups_left > 0 && depth > 0 && rng.chance(1, 2) {
            *groups_left -= 1;
            let k = rng.range(1, 3);
            let alts = (0..k).map(|_| rand_seq(rng, depth - 1, groups_left, false)).collect();
            seq.push(Item::Grp(alts));
        } else {
            let mut l = rng.pick(&lits).to_string();
            // a ',' outside any group is an ordinary character
            if top && rng.chance(1, 12) {
                l.push(',');
            }
            seq.push(Item::Lit(l));
        }
    }
    seq
}

/// every string obtained by pairing some '{' with some later '}' textually and
/// substituting one comma-piece — the family of the mis-pairing defect
fn mispairings(p: &str) -> Vec<String> {
    let b = p.as_bytes();
    let mut out = vec![];
    for i in 0..b.len() {
        if b[i] != b'{' {
            continue;
        }
        for j in i + 1..b.len() {
            if b[j] != b'}' {
                continue;
            }
            let inner = &p[i + 1..j];
            for m in inner.split(',') {
                out.push(format!("{}{}{}", &p[..i], m, &p[j + 1..]));
            }
        }
    }
    out
}

fn gen_c04(tier: &str, rng: &mut Rng, emit: &mut dyn FnMut(Op)) {
    let thorough = tier == "thorough";
    let fixed = [
        ("{a{b,c},d}-1.0", vec!["ad-1.0", "ab-1.0", "ac-1.0", "d-1.0", "a-1.0", "abd-1.0"]),
        ("a-{b,c}-{d{e,f},g}-h>=1", vec!["a-b-de-h-2", "a-c-g-h-2", "a-b-d-h-2", "a-b-dg-h-2", "a-a-g-h-2"]),
        ("{,a}b", vec!["b", "ab", "a", ""]),
        ("{}", vec!["", "{}"]),
        ("a{}b", vec!["ab", "a{}b"]),
        ("{a,b},{c,d}", vec!["a,c", "b,d", "a", "ac"]),
        ("{{a,b},c}", vec!["a", "b", "c", "{a", "a,b", "ac"]),
        ("{a,{b,{c,d}}}x", vec!["ax", "bx", "cx", "dx", "x", "abx", "b,cx"]),
        ("{a,b}{c,d}{e,f}", vec!["ace", "bdf", "acf", "ac", "abe"]),
        ("{foo,bar}-[0-9]*", vec!["foo-1", "bar-2.0", "baz-1", "foo-", "foobar-1"]),
        ("{foo>=1,bar<2}", vec!["foo-1", "foo-0", "bar-1", "bar-2"]),
        ("{a>1<2,b}", vec!["a-1.5", "a-2", "b"]),
        ("{a,b>1>2}", vec!["a", "b-3"]),
        ("{a,[}", vec!["a", "["]),
        // blanks are ordinary characters of an alternative, never trimmed
        ("x{a, b}-1", vec!["xa-1", "x b-1", "xb-1", "xa,-1"]),
        ("{ a,b }", vec![" a", "b ", "a", "b"]),
        ("py{ ,3}-foo>=1", vec!["py -foo-1", "py3-foo-2", "py-foo-1"]),
        ("{a,\tb}c", vec!["ac", "\tbc", "bc"]),
        // an expansion whose text after the group is part of a version bound
        ("pkg>={1,2}0", vec!["pkg-15", "pkg-9", "pkg-25", "pkg-20"]),
        ("pkg-{1,2}.0", vec!["pkg-1.0", "pkg-2.0", "pkg-3.0"]),
        // the SAME group text twice: each occurrence is expanded on its own (all four products)
        ("lib{a,b}{a,b}-[0-9]*", vec!["libab-1.0", "libba-1.0", "libaa-1.0", "libbb-1.0", "liba-1.0"]),
        ("{p{x,y},q}-{r{x,y},s}>=1", vec!["px-ry-2", "py-rx-2", "px-rx-2", "q-s-2", "q-ry-2"]),
        ("{x,y}-{x,y}", vec!["x-y", "y-x", "x-x", "y-y"]),
        ("{,a}{,a}b", vec!["b", "ab", "aab", "aaab"]),
        ("{a,b}c{a,b}c{a,b}", vec!["acbca", "bcacb", "acacb", "acaca"]),
        // a group INSIDE an alternative of a leading group; a '*' on either side of a brace
        ("{ap{22,24}-php,php}-[0-9]*", vec!["php-8.3.1", "ap22-php-8", "ap24-php-8", "ap-php-8", "x-1"]),
        ("{a{b,c}d,e}f", vec!["ef", "abdf", "acdf", "adf"]),
        ("foo-{*,1.0}*", vec!["foo-2.0", "foo-1.0", "foo-1.0nb1", "foo-"]),
        ("{*,a}*-1", vec!["x-1", "a-1", "ab-1"]),
        // the "any PKGREVISION" idiom is a brace group like any other
        ("foo-1.0{,nb*}", vec!["foo-1.0", "foo-1.0nb1", "foo-1.0nb1nb2", "foo-1.0nbxnb", "foo-1.0.1"]),
        ("foo-1.0{,nb[0-9]*}", vec!["foo-1.0nb1nb2", "foo-1.0nb", "foo-1.0nb12"]),
        // an expansion that is a version-less name of a comparison pattern matches nothing
        ("{foo,bar}>=0", vec!["foo", "bar", "foo-0", "foo-"]),
        ("lib{x{,11},y}<2", vec!["libx", "libx11", "liby", "libx-1", "libx11-1.9"]),
    ];
    // many groups: every one of the 2^13 expansions counts, the last as much as the first (one
    // op only: each such match costs tens of milliseconds)
    {
        let big = format!("{}-1.0", "{a,b}".repeat(13));
        emit(Op::s("pattern.match", &[&big, "bbbbbbbbbbbbb-1.0"]));
    }
    for (p, names) in &fixed {
        emit(Op::s("pattern.new", &[p]));
        for n in names {
            emit(Op::s("pattern.match", &[p, n]));
            emit(Op::s("pattern.alt", &[p, n]));
        }
        for m in mispairings(p) {
            emit(Op::s("pattern.match", &[p, &m]));
        }
    }
    for p in ["{", "}", "}{", "{{}", "{}}", "a{b", "a}b", "{a}{", "{a,b}}>1.0", "foo}b{ar>1.0", "{{}{}}", "{{}}{"] {
        emit(Op::s("pattern.new", &[p]));
        emit(Op::s("pattern.match", &[p, "a"]));
    }
    // exhaustive scope: all patterns of length <= L over { } , a b  x  names of length <= 3 over a b
    let l = if thorough { 7 } else { 5 };
    let sigma = ['{', '}', ',', 'a', 'b'];
    let mut names: Vec<String> = vec![String::new()];
    for a in ["a", "b"] {
        names.push(a.into());
        for b2 in ["a", "b"] {
            names.push(format!("{}{}", a, b2));
            for c in ["a", "b"] {
                names.push(format!("{}{}{}", a, b2, c));
            }
        }
    }
    let mut cur: Vec<String> = vec![String::new()];
    for _ in 0..l {
        let mut next = vec![];
        for s in &cur {
            for c in sigma {
                let mut t = s.clone();
                t.push(c);
                next.push(t);
            }
        }
        for p in &next {
            if !p.contains('{') && !p.contains('}') {
                continue;
            }
            emit(Op::s("pattern.new", &[p]));
            // match only balanced ones (the others are compile errors), and sample the names
            let mut d: i32 = 0;
            let mut ok = true;
            for ch in p.chars() {
                if ch == '{' {
                    d += 1
                } else if ch == '}' {
                    d -= 1;
                    if d < 0 {
                        ok = false;
                        break;
                    }
                }
            }
            if ok && d == 0 {
                for n in &names {
                    if thorough || rng.chance(1, 3) {
                        emit(Op::s("pattern.match", &[p, n]));
                    }
                }
            }
        }
        cur = next;
    }
    // random item trees
    for _ in 0..(if thorough { 6000 } else { 500 }) {
        let mut groups = rng.range(1, 3);
        let seq = rand_seq(rng, 3, &mut groups, true);
        let p = render(&seq);
        if !p.contains('{') {
            continue;
        }
        emit(Op::s("pattern.new", &[&p]));
        let exps = expand(&seq);
        let mut cands: Vec<String> = vec![];
        for e in exps.iter().take(12) {
            // a name that the expansion (as a pattern of its own) should match
            let n = e
                .replace(">=1", "-1")
                .replace("<2", "-1")
                .replace("[0-9]", "5")
                .replace('*', "zz");
            cands.push(n);
            cands.push(e.clone());
        }
        for m in mispairings(&p).into_iter().take(12) {
            let n = m.replace(">=1", "-1").replace("<2", "-1").replace("[0-9]", "5").replace('*', "zz");
            cands.push(n);
        }
        // one-character mutations
        for i in 0..cands.len().min(6) {
            let c = cands[i].clone();
            let chars: Vec<char> = c.chars().collect();
            if !chars.is_empty() {
                let k = rng.below(chars.len());
                let mut d = chars.clone();
                d.remove(k);
                cands.push(d.into_iter().collect());
                let mut d = chars.clone();
                d[k] = *rng.pick(&['a', 'b', 'c', '-', '1']);
                cands.push(d.into_iter().collect());
            }
        }
        cands.sort();
        cands.dedup();
        for n in cands.iter().take(40) {
            emit(Op::s("pattern.match", &[&p, n]));
        }
    }
}

// ---------------------------------------------------------------- C05

fn gen_c05(tier: &str, rng: &mut Rng, emit: &mut dyn FnMut(Op)) {
    let thorough = tier == "thorough";
    let ptoks: [&str; 26] = [
        "a", "b", "-", ".", "1", "]", "*", "?", "[ab]", "[a-c]", "[!a]", "[]a]", "[!]]", "[a-]", "[-a]",
        "[a-c-e]", "[!a-c]", "[1-9]", "[b-a]", "[a]", "c", "[!-]",
        // '^' is an ordinary member of a set (only '!' negates)
        "[^a]", "[^]", "[a^]", "^",
    ];
    let bad: [&str; 12] = ["[", "[a", "[!", "[!]", "a[", "***", "[]", "a**", "**", "**/a", "a/**", "a/**/b"];
    let sigma = ["a", "b", "c", "-", "1", "]", "^"];
    let mut names: Vec<String> = vec![String::new()];
    {
        let mut cur = vec![String::new()];
        for _ in 0..(if thorough { 4 } else { 3 }) {
            let mut next = vec![];
            for s in &cur {
                for c in sigma {
                    next.push(format!("{}{}", s, c));
                }
            }
            names.extend(next.iter().cloned());
            cur = next;
        }
    }
    let mut pats: Vec<String> = vec![];
    for a in ptoks {
        pats.push(a.to_string());
        for b2 in ptoks {
            pats.push(format!("{}{}", a, b2));
        }
    }
    for _ in 0..(if thorough { 3000 } else { 300 }) {
        let k = rng.range(3, 5);
        let mut p = String::new();
        for _ in 0..k {
            p.push_str(*rng.pick::<&str>(&ptoks));
        }
        pats.push(p);
    }
    for b2 in bad {
        pats.push(b2.to_string());
        pats.push(format!("a{}", b2));
        pats.push(format!("{}a", b2));
    }
    pats.extend(["foo-[0-9]*", "fo?-[0-9]*", "*oo-[0-9]*", "é*", "*é", "[é]x", "[!é]x", "?", "*", "a*b*c", "*a*",
        "foo-[^0-9]*", "a-[0-9]*", "a-b-[0-9]*"].map(String::from));
    // whole-name match: the trailing '*' of base-[0-9]* takes any run, further hyphens included
    for (p, n) in [("foo-[0-9]*", "foo-1.0-rc1"), ("foo-[0-9]*", "foo-1-2"), ("foo-[0-9]*", "foo-1-"),
        ("foo-[0-9]*", "foo-2024-01-01"), ("foo-[0-9]*", "foo-bar-1"), ("a-[0-9]*", "a-1-1"), ("a-b-[0-9]*", "a-b-1-c"),
        ("foo-[^0-9]*", "foo-1.0"), ("foo-[^0-9]*", "foo-^1"), ("foo-[^0-9]*", "foo-a1"), ("foo-[^]", "foo-^")] {
        emit(Op::s("pattern.match", &[p, n]));
        emit(Op::s("glob.match", &[p, n]));
    }
    pats.sort();
    pats.dedup();
    let per = if thorough { 120 } else { 14 };
    for p in &pats {
        let has_meta = p.contains(|c| "*?[]".contains(c));
        emit(Op::s("pattern.new", &[p]));
        emit(Op::s("glob.new", &[p]));
        for _ in 0..per {
            let n = rng.pick(&names);
            emit(Op::s("pattern.match", &[p, n]));
            emit(Op::s("glob.match", &[p, n]));
            emit(Op::s("pattern.quick", &[p, n]));
        }
        // quick-test probes: the literal skeleton of the pattern with position 0/1 altered
        let skel: String = p
            .replace("[ab]", "a").replace("[a-c]", "b").replace("[!a]", "b").replace("[]a]", "]")
            .replace("[!]]", "a").replace("[a-]", "-").replace("[-a]", "-").replace("[a-c-e]", "e")
            .replace("[!a-c]", "1").replace("[1-9]", "1").replace("[a]", "a").replace("[!-]", "a")
            .replace('*', "").replace('?', "b");
        let sk: Vec<char> = skel.chars().collect();
        let mut probes = vec![skel.clone(), String::new()];
        for pos in 0..2usize {
            if sk.len() > pos {
                for r in ['a', 'b', '-', '1', 'A', 'é'] {
                    let mut d = sk.clone();
                    d[pos] = r;
                    probes.push(d.into_iter().collect());
                }
                probes.push(sk[..pos + 1].iter().collect());
            }
        }
        for n in probes {
            emit(Op::s("pattern.match", &[p, &n]));
            if has_meta {
                emit(Op::s("glob.match", &[p, &n]));
            }
            emit(Op::s("pattern.quick", &[p, &n]));
        }
    }
    // star-free globs against names with multi-byte characters ('?' and a set take ONE character)
    for (p, ns) in [("caf?-1.0", vec!["café-1.0", "cafe-1.0", "caf\u{1F496}-1.0", "caf-1.0", "cafée-1.0"]),
        ("na[!a-z]ve-[0-9]", vec!["naïve-1", "naive-1", "na€ve-1", "naïve-x"]),
        ("café-1.?", vec!["café-1.0", "café-1.", "café-1.00", "cafe-1.0"]),
        ("[é]?[é]", vec!["éaé", "ééé", "éa", "eae"]), ("??", vec!["é", "éé", "ab", "a", "€€", "€"]),
        ("?", vec!["é", "€", "\u{1F496}", "", "ab"]), ("[a-é]x", vec!["bx", "éx", "êx"])] {
        emit(Op::s("pattern.new", &[p]));
        emit(Op::s("glob.new", &[p]));
        for n in ns {
            emit(Op::s("pattern.match", &[p, n]));
            emit(Op::s("glob.match", &[p, n]));
            emit(Op::s("pattern.quick", &[p, n]));
        }
    }
    // the whole name takes part in the match: file-name like endings are ordinary text
    for (p, ns) in [("foo-1.0", vec!["foo-1.0.tgz", "foo-1.0", "foo-1.0.tar.gz", "foo-1.0 ", "foo-1.0\n"]),
        ("foo-1.0.tgz", vec!["foo-1.0.tgz", "foo-1.0", "foo-1.0.tgz.tgz"]),
        ("foo-1.?", vec!["foo-1.0.tgz", "foo-1.0", "foo-1.0 "]), ("*.tgz", vec!["foo-1.0.tgz", "foo-1.0", ".tgz", "tgz"]),
        ("foo-1.0.tg?", vec!["foo-1.0.tgz", "foo-1.0.tg", "foo-1.0"]), ("foo-[0-9]*", vec!["foo-1.0.tgz", "foo-1.tgz"]),
        (".tgz", vec![".tgz", ""]), ("", vec![".tgz", ""]), ("a ", vec!["a", "a ", "a  "]), ("a?", vec!["a", "a ", "a\n"])] {
        emit(Op::s("pattern.new", &[p]));
        for n in ns {
            emit(Op::s("pattern.match", &[p, n]));
            emit(Op::s("pattern.quick", &[p, n]));
            if p.contains(|c| "*?[".contains(c)) {
                emit(Op::s("glob.match", &[p, n]));
            }
        }
    }
    // several '*' with literal pieces between them: every pattern over {a, b, *} of length <= 5
    // (no "**") against every name over {a, b} of length <= 4 (thorough: 6 / 5) — the pieces of a
    // name may not overlap (`a*b*b` does not match `ab`)
    {
        let (pl, nl) = if thorough { (6, 5) } else { (5, 4) };
        let mut ps: Vec<String> = vec![String::new()];
        let mut cur = vec![String::new()];
        for _ in 0..pl {
            let mut next = vec![];
            for q in &cur {
                for c in ["a", "b", "*"] {
                    if c == "*" && q.ends_with('*') {
                        continue;
                    }
                    next.push(format!("{}{}", q, c));
                }
            }
            ps.extend(next.iter().cloned());
            cur = next;
        }
        let mut ns: Vec<String> = vec![String::new()];
        let mut cur = vec![String::new()];
        for _ in 0..nl {
            let mut next = vec![];
            for q in &cur {
                for c in ["a", "b"] {
                    next.push(format!("{}{}", q, c));
                }
            }
            ns.extend(next.iter().cloned());
            cur = next;
        }
        for q in ps.iter().filter(|q| q.matches('*').count() >= 2) {
            for n in &ns {
                emit(Op::s("pattern.match", &[q, n]));
            }
        }
        for (q, n) in [("*-1.*.1", "foo-1.1"), ("lib*-dev*-dev", "libfoo-dev"), ("x*abc*c", "xabc"), ("*nb*nb1", "foo-1.0nb1"),
            ("*-1.*.1", "foo-1.1.1"), ("lib*-dev*-dev", "libfoo-dev-dev"), ("*.*.*", "1.0"), ("*.*.*", "1.0.0"), ("*a*a*a", "aa")] {
            emit(Op::s("pattern.match", &[q, n]));
            emit(Op::s("glob.match", &[q, n]));
        }
    }
    // ':' and '/' are ordinary pattern text; a leading '.' of the name is an ordinary character
    for (q, ns) in [("foo-1.0:../../devel/foo", vec!["foo-1.0", "foo-1.0:../../devel/foo"]), ("foo-[0-9]*:../../devel/foo", vec!["foo-1.0", "foo-1:../../devel/foo"]),
        ("*-1.0", vec![".foo-1.0", "foo-1.0", ".-1.0"]), ("*", vec![".", "..", ".a", ""]), ("[!a]b*", vec![".b-1", "xb-1", "ab-1"]),
        ("?foo-1.0", vec![".foo-1.0", "xfoo-1.0"]), ("[.]x*", vec![".x1", "ax"]), ("a/*", vec!["a/.b", "a/b"]), ("a/?b", vec!["a/.b"])] {
        emit(Op::s("pattern.new", &[q]));
        for n in ns {
            emit(Op::s("pattern.match", &[q, n]));
            if q.contains(|c| "*?[".contains(c)) {
                emit(Op::s("glob.match", &[q, n]));
            }
        }
    }
    // nine and more '*' (also as set members) are still a well-formed glob
    for (q, ns) in [("*a*b*c*d*e*f*g*h*", vec!["abcdefgh", "xaxbxcxdxexfxgxhx", "abcdefg"]), ("lib*-*.*.*.*.*.*.*.*", vec!["libx-1.2.3.4.5.6.7.8", "libx-1.2.3"]),
        ("[*][*][*]-*-[*][*][*]-*-?*", vec!["***-a-***-b-c", "***-a-**-b-c"]), ("*-*-*-*-*-*-*-*-*-*", vec!["1-2-3-4-5-6-7-8-9-0", "1-2-3"])] {
        emit(Op::s("pattern.new", &[q]));
        emit(Op::s("glob.new", &[q]));
        for n in ns {
            emit(Op::s("pattern.match", &[q, n]));
            emit(Op::s("glob.match", &[q, n]));
        }
    }
    // plain patterns
    for p in ["foo-1.0", "a", "", "ab", "é", "a-b", "-", "A1", "foo", "mutt"] {
        emit(Op::s("pattern.new", &[p]));
        for n in ["foo-1.0", "foo-1.1", "a", "", "ab", "b", "ac", "é", "a-b", "-", "A1", "a1", "A"] {
            emit(Op::s("pattern.match", &[p, n]));
            emit(Op::s("pattern.quick", &[p, n]));
        }
        // a plain pattern is not a PKGBASE: the name followed by a version does not match it
        for tail in ["-1", "-1.0", "-0nb1", "-", "-a", "-1.0-2", "-[0-9]*", "1", " "] {
            let n = format!("{}{}", p, tail);
            emit(Op::s("pattern.match", &[p, &n]));
            emit(Op::s("pattern.best", &[p, &n, p]));
        }
    }
}

// ---------------------------------------------------------------- C06

fn bracketings(rng: &mut Rng, n: usize) -> Vec<u8> {
    // random binary tree over a random permutation of 0..n, as a postfix program
    let mut perm: Vec<usize> = (0..n).collect();
    rng.shuffle(&mut perm);
    fn build(rng: &mut Rng, items: &[usize], out: &mut Vec<u8>) {
        if items.len() == 1 {
            out.push(b'0' + items[0] as u8);
            return;
        }
        let k = rng.range(1, items.len() - 1);
        build(rng, &items[..k], out);
        build(rng, &items[k..], out);
        out.push(b'm');
    }
    let mut out = vec![];
    build(rng, &perm, &mut out);
    out
}

fn gen_c06(tier: &str, rng: &mut Rng, emit: &mut dyn FnMut(Op)) {
    let thorough = tier == "thorough";
    let pats = ["foo-[0-9]*", "foo>=1", "foo>1<3", "{foo,bar}-[0-9]*", "{foo,bar}>=1", "foo-1.0", "*-[0-9]*", "*", "{foo,bar,baz}-*", "f*",
        // patterns that accept names WITHOUT a '-' (their version is the empty text)
        "foo*", "{foo,foo-[0-9]*}", "{foo,bar}*", "[fb]*", "fo?*",
        // alternates one of whose expansions does not compile: the others still count
        "foo-{[0-9]*,[0-9}", "{foo<5,bar,foo}>=1", "{foo-[0-9]*,bar-[}", "foo-{1*,[}"];
    let bases = ["foo", "bar", "baz", "fo", "foo-x", "foo1", "fooa", "foo1.0"];
    let vers = ["1", "1.0", "1.0.0", "1.0nb1", "1.1", "2", "2.0", "3", "0.5", "1a", "1.5", "1.0alpha", "1.0rc1", "1_0", "1.0pl", "10", "1.97", "1.0a",
        // pre = rc = -1 (one component each); characters that only LOOK like letters are ignored
        "1.0pre1", "1.0pre2", "1.0rc2", "1.0PRE1", "1.0\u{212A}", "1.0\u{130}", "1.0\u{17F}", "1.0k",
        // a later "nb" without (usable) digits resets the revision to 0; several nb tokens
        "1.0nb2", "1.0nb3", "1.0nb3nb", "1.0nb4nb", "1.0nb", "1.0nb3nb1", "1.0nb3nb99999999999999999999", "1.0nb3nbx",
        // long digit runs: by value when they fit (leading zeros), i64::MAX when they do not
        "00000000000000000002", "000000000000000000010", "1.000000000000000000007", "1.7",
        "99999999999999999999", "9223372036854775807", "1.0nb00000000000000000003",
        // file-name like endings are part of the version text
        "1.0.tgz", "1.0.tar.gz", "1.0 ", "1.0\n",
        // ignored characters (NUL included) are skipped, what follows them still counts; "nb0" is a
        // revision of 0, as is a bare "nb"
        "1\0.5", "1.0\0nb3", "2\0rc1", "1.0\0", "1.0nb0", "1.0nb000", "1.2",
        // "nb" is followed by DIGITS: a sign is an ignored character and the digits after it are a
        // component; an earlier nb<N> stays in force until a later one replaces it
        "v2.0", "V3", "v2", "v", "2v1", "1.0nb+5", "1.0nb-3", "1.0.1", "1nb3.0", "1nb3.0nb1", "1nb3.0nb3", "1nb3_0nb2", "1nb3.0nb4",
        // a version may START with a modifier (below zero), next to the largest numbers
        "alpha1", "rc1", "beta", "pre2", "9223372036854775806", "9223372036854775805", "9223372036854775804",
        // every '.' is a component of its own: empty fields between, before and after dots
        "1..2", ".5", "1.", "1..", "..1", "1.0.3", "1.0.4nb1", "1...", ".", "1._2", "1.0.2",
        // very long names (offsets beyond 16 bits)
        ];
    let mk = |rng: &mut Rng| -> String {
        match rng.below(12) {
            0 => rng.pick(&bases).to_string(),
            1 => format!("{}-", rng.pick(&bases)),
            _ => format!("{}-{}", rng.pick(&bases), rng.pick(&vers)),
        }
    };
    for p in pats {
        for _ in 0..(if thorough { 3000 } else { 150 }) {
            let n1 = mk(rng);
            let n2 = if rng.chance(1, 8) { n1.clone() } else { mk(rng) };
            emit(Op::s("pattern.best", &[p, &n1, &n2]));
            emit(Op::s("pattern.best", &[p, &n2, &n1]));
        }
        for _ in 0..(if thorough { 2000 } else { 100 }) {
            let k = rng.range(2, 5);
            let cands: Vec<String> = (0..k).map(|_| mk(rng)).collect();
            for _ in 0..(if thorough { 6 } else { 3 }) {
                let prog = bracketings(rng, k);
                let mut args: Vec<&[u8]> = vec![p.as_bytes(), &prog];
                for c in &cands {
                    args.push(c.as_bytes());
                }
                emit(Op::new("pattern.reduce", &args));
            }
        }
    }
    // EVERY ordered pair of the version pool under one pattern (the random pairs above thin out
    // as the pool grows; which two versions expose a wrong comparison is not known in advance)
    for v1 in vers {
        for v2 in vers {
            emit(Op::s("pattern.best", &["foo-[0-9.]*", &format!("foo-{}", v1), &format!("foo-{}", v2)]));
        }
    }
    // a leading letter is version text like any other (ignored by the tokeniser, never stripped)
    for v1 in ["v2.0", "V3", "v2", "v", "2v1", "v1.0nb2", "r5"] {
        for v2 in ["1", "1.0", "2", "2.0", "2.5", "3", "0.5", "", "10"] {
            emit(Op::s("pattern.best", &["foo-*", &format!("foo-{}", v1), &format!("foo-{}", v2)]));
            emit(Op::s("pattern.best", &["foo-*", &format!("foo-{}", v2), &format!("foo-{}", v1)]));
        }
    }
    // each candidate is split at ITS OWN last '-': the second candidate's base may extend the first's
    for (p, a, b2) in [("font-adobe-[0-9]*", "font-adobe-1.1", "font-adobe-100dpi-1.0"), ("foo-[0-9]*", "foo-1.1", "foo-100x-1.0"),
        ("foo-[0-9]*", "foo-2", "foo-3rc-1"), ("{foo,foo-9}-[0-9]*", "foo-5", "foo-9-1"), ("foo-*", "foo-1", "foo-bar-0.5"), ("foo-*", "foo-1", "foo-2-0.5")] {
        emit(Op::s("pattern.best", &[p, a, b2]));
        emit(Op::s("pattern.best", &[p, b2, a]));
    }
    // a glob's '*' takes further hyphens too: such a candidate matches and takes part in the ranking
    for p in ["foo-[0-9]*", "{foo,bar}-[0-9]*", "foo-*", "foo-[0-9]*-*"] {
        for a in ["foo-1-2", "foo-1.0-rc1", "foo-2024-01-01", "foo-1-", "foo-1-2-3"] {
            for b2 in ["foo-0.5", "foo-1.5", "foo-3", "bar-1.0", "foo-1", "foo-2"] {
                emit(Op::s("pattern.best", &[p, a, b2]));
                emit(Op::s("pattern.best", &[p, b2, a]));
            }
        }
    }
    // hyphenated bases (also with "nb" or digits inside): the version is the text after the LAST '-'
    for (b1, b2) in [("app-a", "app-b"), ("a-nb5x", "a-nb5x"), ("foo-1", "foo-1"), ("x-2.0-y", "x-2.0-y"), ("app-b", "app-a"), ("p-nb2", "p-nb3")] {
        for v1 in ["1.0", "1.0nb2", "0.5", "2", "1.0alpha", "1"] {
            for v2 in ["1.0", "1.0nb2", "0.5", "2", "1.0alpha", "1"] {
                emit(Op::s("pattern.best", &["*-[0-9]*", &format!("{}-{}", b1, v1), &format!("{}-{}", b2, v2)]));
                emit(Op::s("pattern.best", &["{app,a,foo,x,p}-*-[0-9]*", &format!("{}-{}", b1, v1), &format!("{}-{}", b2, v2)]));
            }
        }
    }
    // a candidate without '-' has the empty version, whatever its name looks like
    for p in ["foo*", "*", "{foo,foo-[0-9]*}", "{rc,rc-[0-9]*}", "f*", "{foo,bar}*"] {
        for a in ["foo", "foo1", "foo2.0", "fooz", "rc", "bar", "bar9"] {
            for b2 in ["foo-0.1", "foo-0", "foo-", "rc-0", "foo-1.0alpha", "bar-0.1", "foo", "foo9", "rc"] {
                emit(Op::s("pattern.best", &[p, a, b2]));
                emit(Op::s("pattern.best", &[p, b2, a]));
            }
        }
    }
    // the F3 witness and friends (letters against numbers)
    for (p, a, b2) in [("foo-[0-9]*", "foo-1a", "foo-1.5"), ("foo-[0-9]*", "foo-1.0a", "foo-1.0.1"), ("{foo,bar}-[0-9]*", "foo-1.0", "bar-1.0")] {
        emit(Op::s("pattern.best", &[p, a, b2]));
        emit(Op::s("pattern.best", &[p, b2, a]));
    }
}

pub fn gen(id: &str, tier: &str, rng: &mut Rng, emit: &mut dyn FnMut(Op)) {
    match id {
        "C17" => {
            for (p, ns) in [("foo-1.0{,nb[0-9]*}", vec!["foo-1.0nb", "foo-1.0n", "foo-1.0", "foo-1.0nb1", "foo-1.", ""]),
                ("foo-1.0{,nb*}", vec!["foo-1.0nb", "foo-1.0n", "foo-1.0nbnb"]), ("a{,nb[0-9]*}", vec!["anb", "an", "a", "anb1"]),
                ("{,nb[0-9]*}", vec!["nb", "n", "", "nb1"])] {
                for n in ns {
                    emit(Op::s("pattern.match", &[p, n]));
                    emit(Op::s("pattern.best", &[p, n, n]));
                }
            }
            // characters with the Unicode Numeric / Digit property that are not ASCII digits, in
            // every position of a version, a bound, a base and a dependency
            for ch in ["\u{b2}", "\u{bd}", "\u{663}", "\u{2460}", "\u{ff11}", "\u{2167}", "\u{1d7d9}", "\u{96f}", "\u{3007}"] {
                for v in [format!("1{}", ch), format!("1.0{}", ch), ch.to_string(), format!("{}1", ch), format!("1.0nb{}", ch), format!("1.0nb2{}", ch)] {
                    emit(Op::s("dewey.comps", &[&v]));
                    emit(Op::s("pattern.new", &[&format!("pkg>={}", v)]));
                    emit(Op::s("dewey.new", &[&format!("pkg>={}<{}", v, v)]));
                    emit(Op::s("pattern.match", &["pkg>=1.0", &format!("pkg-{}", v)]));
                    emit(Op::s("pattern.match", &[&format!("pkg{}>=1", ch), &format!("pkg{}-{}", ch, v)]));
                    emit(Op::s("pattern.best", &["pkg-[0-9]*", &format!("pkg-{}", v), "pkg-1.0"]));
                    emit(Op::s("pkgname.new", &[&format!("pkg-{}", v)]));
                    emit(Op::s("depend.new", &[&format!("pkg>={}:../../cat/pkg", v)]));
                }
            }
            // mutations of every other generator's ops (and the ops themselves, sampled)
            let mut pool: Vec<Op> = vec![];
            for pid in ["C01", "C02", "C03", "C04", "C05", "C06", "C18", "C19"] {
                let mut sub = Rng::new(rng.next());
                let mut n = 0usize;
                gen(pid, "quick", &mut sub, &mut |op: Op| {
                    n += 1;
                    if n % 7 == 0 || pool.len() < 400 {
                        pool.push(op);
                    }
                });
            }
            // files are exercised by their own properties; C17 is about parsers and matchers
            pool.retain(|o| !matches!(o.name.as_str(), "distinfo.verify" | "entry.verify" | "pkgdb.iter"));
            let n = if tier == "thorough" { 60000 } else { 4000 };
            fuzz(&pool, n, rng, emit);
        }
        "C01" => with_oracle_fuzz(tier, rng, emit, &gen_c01),
        "C02" => with_oracle_fuzz(tier, rng, emit, &gen_c02),
        "C03" => with_oracle_fuzz(tier, rng, emit, &gen_c03),
        "C04" => with_oracle_fuzz(tier, rng, emit, &gen_c04),
        "C05" => with_oracle_fuzz(tier, rng, emit, &gen_c05),
        "C06" => with_oracle_fuzz(tier, rng, emit, &gen_c06),
        "C18" => with_oracle_fuzz(tier, rng, emit, &gen_c18),
        "C19" => with_oracle_fuzz(tier, rng, emit, &gen_c19),
        _ => {
            eprintln!("pat: unknown property {}", id);
            std::process::exit(2);
        }
    }
}
