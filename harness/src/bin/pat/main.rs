//! Cluster `pat`: dewey, pattern, pkgname, pkgpath, depend (properties C01–C06, C18, C19).
use harness::*;
use pkgsrc::summary::Summary;
use pkgsrc::verif_hooks as hk;
use pkgsrc::{Depend, DependError, Dewey, Pattern, PatternError, PkgName, PkgPath};
use std::os::unix::ffi::OsStrExt;
use std::path::{Component, Path};

mod gen;

const OPS4: [&str; 4] = ["gt", "ge", "lt", "le"];
const OPSYM: [&str; 4] = [">", ">=", "<", "<="];

fn char_pos(s: &str, bytepos: usize) -> usize {
    // convert a byte offset reported by the code into a scalar-value offset
    s.char_indices().take_while(|(i, _)| *i < bytepos).count()
}

fn parse_parts(s: &str) -> Option<(Vec<i64>, i64)> {
    let (v, r) = s.split_once(';')?;
    let vs: Vec<i64> = if v.is_empty() {
        vec![]
    } else {
        v.split(',').map(|x| x.parse().ok()).collect::<Option<Vec<_>>>()?
    };
    Some((vs, r.parse().ok()?))
}

fn glob_err(e: &glob::PatternError) -> String {
    let k = if e.msg.starts_with("wildcards") {
        "w"
    } else if e.msg.starts_with("recursive") {
        "r"
    } else {
        "g"
    };
    format!("{}:{}", k, e.pos)
}

fn pattern_new(p: &str) -> String {
    match Pattern::new(p) {
        Ok(pat) => format!("ok:{}", pat.verif_kind()),
        Err(PatternError::Alternate) => "err:alternate".into(),
        Err(PatternError::Dewey(e)) => {
            let k = if e.msg.starts_with("No dewey") {
                "noops"
            } else if e.msg.starts_with("Unsupported") {
                "order"
            } else {
                "toomany"
            };
            format!("err:dewey:{}:{}", k, char_pos(p, e.pos))
        }
        Err(PatternError::Glob(e)) => format!("err:glob:{}", glob_err(&e)),
    }
}

fn comps(p: &Path) -> String {
    let mut v = vec![];
    for c in p.components() {
        v.push(match c {
            Component::RootDir => "R".to_string(),
            Component::CurDir => "C".to_string(),
            Component::ParentDir => "P".to_string(),
            Component::Normal(n) => format!("N{}", hex(n.as_bytes())),
            Component::Prefix(_) => "X".to_string(),
        });
    }
    v.join(",")
}

fn pkgpath_desc(p: &PkgPath) -> String {
    format!(
        "{}:{}",
        hex(p.as_path().as_os_str().as_bytes()),
        hex(p.as_full_path().as_os_str().as_bytes())
    )
}

pub fn vcmp_api(w: &str, v: &str) -> String {
    let mut out = String::new();
    for o in OPSYM {
        let p = format!("p{}{}", o, v);
        match Pattern::new(&p) {
            Ok(pat) => out.push_str(b(pat.matches(&format!("p-{}", w)))),
            Err(_) => out.push('e'),
        }
    }
    out
}

fn exec(op: &Op) -> String {
    let a = |i: usize| op.str(i);
    match op.name.as_str() {
        "dewey.comps" => {
            let Some(s) = a(0) else { return "BAD-UTF8".into() };
            let (v, r) = hk::dewey_parts(s);
            format!("{};{}", ints(&v), r)
        }
        "dewey.rawcmp" => {
            let (Some(l), Some(r)) = (a(0).and_then(parse_parts), a(1).and_then(parse_parts)) else {
                return "BAD-ARG".into();
            };
            OPS4.iter()
                .map(|o| b(hk::dewey_cmp_parts((&l.0, l.1), o, (&r.0, r.1))))
                .collect()
        }
        "dewey.vcmp" => {
            let (Some(w), Some(v)) = (a(0), a(1)) else { return "BAD-UTF8".into() };
            OPS4.iter().map(|o| b(hk::dewey_cmp_str(w, o, v))).collect()
        }
        "api.vcmp" => {
            let (Some(w), Some(v)) = (a(0), a(1)) else { return "BAD-UTF8".into() };
            vcmp_api(w, v)
        }
        "api.laws" => {
            // all ordered pairs of (A,B,C) under the four operators, through the public API,
            // then the two-bound pattern p>=X<Y (and p>X<=Y) on p-Z against its halves
            let (Some(x), Some(y), Some(z)) = (a(0), a(1), a(2)) else { return "BAD-UTF8".into() };
            let vs = [x, y, z];
            let mut out = String::new();
            for l in vs {
                for r in vs {
                    out.push_str(&vcmp_api(l, r));
                }
            }
            out.push('|');
            for (o1, o2) in [(">=", "<"), (">", "<="), (">", "<"), (">=", "<=")] {
                let both = Pattern::new(&format!("p{}{}{}{}", o1, x, o2, y));
                let h1 = Pattern::new(&format!("p{}{}", o1, x));
                let h2 = Pattern::new(&format!("p{}{}", o2, y));
                let n = format!("p-{}", z);
                match (both, h1, h2) {
                    (Ok(bp), Ok(p1), Ok(p2)) => {
                        out.push_str(b(bp.matches(&n)));
                        out.push_str(b(p1.matches(&n)));
                        out.push_str(b(p2.matches(&n)));
                    }
                    _ => out.push_str("eee"),
                }
            }
            out
        }
        "dewey.new" => {
            let Some(p) = a(0) else { return "BAD-UTF8".into() };
            match Dewey::new(p) {
                Ok(d) => {
                    let (base, ms) = d.verif_describe();
                    let mut s = format!("ok:{}", hex(base.as_bytes()));
                    for (o, v, r) in ms {
                        s.push_str(&format!("|{}:{};{}", o, ints(&v), r));
                    }
                    s
                }
                Err(e) => {
                    let k = if e.msg.starts_with("No dewey") {
                        "noops"
                    } else if e.msg.starts_with("Unsupported") {
                        "order"
                    } else {
                        "toomany"
                    };
                    format!("err:{}:{}", k, char_pos(p, e.pos))
                }
            }
        }
        "dewey.match" => {
            let (Some(p), Some(n)) = (a(0), a(1)) else { return "BAD-UTF8".into() };
            match Dewey::new(p) {
                Ok(d) => b(d.matches(n)).into(),
                Err(_) => "err".into(),
            }
        }
        "pattern.new" => {
            let Some(p) = a(0) else { return "BAD-UTF8".into() };
            pattern_new(p)
        }
        "pattern.match" => {
            let (Some(p), Some(n)) = (a(0), a(1)) else { return "BAD-UTF8".into() };
            match Pattern::new(p) {
                Ok(pat) => {
                    let r = pat.matches(n);
                    // a copy made with clone() or clone_from() (over a pattern of another kind) is
                    // the same pattern
                    for other in ["zz-[0-9]*", "zz>=1", "{zz,yy}-1", "zz"] {
                        if let Ok(mut d) = Pattern::new(other) {
                            d.clone_from(&pat);
                            if d.matches(n) != r || d != pat || pat.clone().matches(n) != r {
                                return "CLONE-DIFFERS".into();
                            }
                        }
                    }
                    b(r).into()
                }
                Err(_) => "err".into(),
            }
        }
        "pattern.quick" => {
            let (Some(p), Some(n)) = (a(0), a(1)) else { return "BAD-UTF8".into() };
            b(Pattern::verif_quick_pkg_match(p, n)).into()
        }
        "pattern.alt" => {
            let (Some(p), Some(n)) = (a(0), a(1)) else { return "BAD-UTF8".into() };
            b(Pattern::verif_alternate_match(p, n)).into()
        }
        "pattern.best" => {
            let (Some(p), Some(n1), Some(n2)) = (a(0), a(1), a(2)) else { return "BAD-UTF8".into() };
            match Pattern::new(p) {
                Ok(pat) => {
                    let r = pat.best_match(n1, n2).map(str::to_string);
                    // the answer depends on the TEXT of the candidates, not on where they are stored:
                    // ask again with both candidates borrowed from one buffer when one is a prefix
                    // of the other
                    let (short, long, swapped) = if n2.starts_with(n1) { (n1, n2, false) } else { (n2, n1, true) };
                    if long.starts_with(short) {
                        let buf = long.to_string();
                        let (a1, a2) = (&buf[..short.len()], &buf[..]);
                        let r2 = if swapped { pat.best_match(a2, a1) } else { pat.best_match(a1, a2) };
                        if r2.map(str::to_string) != r {
                            return "ALIASING-DIFFERS".into();
                        }
                    }
                    match r {
                        Some(s) => format!("some:{}", hex(s.as_bytes())),
                        None => "none".into(),
                    }
                }
                Err(_) => "err".into(),
            }
        }
        "pattern.reduce" => {
            // arg0 = pattern, arg1 = bracketing program, args 2.. = candidates.
            // program: bytes; a stack machine: b'0'+i pushes candidate i, b'm' pops two and
            // pushes best_match (None-aware: best of None and x is x if x matches else None).
            let Some(p) = a(0) else { return "BAD-UTF8".into() };
            // protocol-level rejects first (same order as the Lean driver decodes its arguments)
            let cands: Vec<&str> = match (2..op.args.len()).map(|i| a(i)).collect::<Option<Vec<_>>>() {
                Some(c) => c,
                None => return "BAD-UTF8".into(),
            };
            let Ok(pat) = Pattern::new(p) else { return "err".into() };
            let prog = &op.args[1];
            let mut st: Vec<Option<&str>> = vec![];
            for &c in prog {
                if c == b'm' {
                    let (Some(y), Some(x)) = (st.pop(), st.pop()) else { return "BAD-PROG".into() };
                    st.push(match (x, y) {
                        (Some(x), Some(y)) => pat.best_match(x, y),
                        (Some(x), None) => if pat.matches(x) { Some(x) } else { None },
                        (None, Some(y)) => if pat.matches(y) { Some(y) } else { None },
                        (None, None) => None,
                    });
                } else {
                    let i = (c - b'0') as usize;
                    if i >= cands.len() {
                        return "BAD-PROG".into();
                    }
                    // a leaf is a candidate only if it matches on its own
                    st.push(if pat.matches(cands[i]) { Some(cands[i]) } else { None });
                }
            }
            match st.pop() {
                Some(Some(s)) => format!("some:{}", hex(s.as_bytes())),
                Some(None) => "none".into(),
                None => "BAD-PROG".into(),
            }
        }
        "glob.new" => {
            let Some(p) = a(0) else { return "BAD-UTF8".into() };
            match glob::Pattern::new(p) {
                Ok(_) => "ok".into(),
                Err(e) => format!("err:{}", glob_err(&e)),
            }
        }
        "glob.match" => {
            let (Some(p), Some(n)) = (a(0), a(1)) else { return "BAD-UTF8".into() };
            match glob::Pattern::new(p) {
                Ok(g) => b(g.matches(n)).into(),
                Err(_) => "err".into(),
            }
        }
        "pkgname.new" => {
            let Some(s) = a(0) else { return "BAD-UTF8".into() };
            let n = PkgName::new(s);
            format!(
                "{}:{}:{}:{}",
                hex(n.pkgname().as_bytes()),
                hex(n.pkgbase().as_bytes()),
                hex(n.pkgversion().as_bytes()),
                match n.pkgrevision() {
                    Some(r) => r.to_string(),
                    None => "none".into(),
                }
            )
        }
        "pkgname.dewey" => {
            let Some(s) = a(0) else { return "BAD-UTF8".into() };
            let n = PkgName::new(s);
            let (_, r) = hk::dewey_parts(n.pkgversion());
            format!(
                "{}:{}",
                match n.pkgrevision() {
                    Some(r) => r.to_string(),
                    None => "none".into(),
                },
                r
            )
        }
        "summary.pkgsplit" => {
            let Some(s) = a(0) else { return "BAD-UTF8".into() };
            // ONE Summary object lives across all ops of the process: every op is a further step
            // of a long setter/getter history on it (set_pkgname replaces the name, so the answer
            // must depend on the current name only); the accessors are also called before the
            // setter, as a caller that looks at an entry and then updates it would
            thread_local! {
                static SUM: std::cell::RefCell<Summary> = std::cell::RefCell::new(Summary::new());
            }
            SUM.with(|cell| {
                let mut sum = match cell.try_borrow_mut() {
                    Ok(g) => g,
                    Err(_) => return "BAD-STATE".to_string(),
                };
                let _ = (sum.pkgbase().map(str::len), sum.pkgversion().map(str::len));
                // the other variables of the entry are what a real entry would carry (a PKGPATH
                // whose directory is the name's first word, a comment that repeats the name), set
                // before or after the name: the split looks at PKGNAME alone
                let dir = format!("misc/{}", s.split('-').next().unwrap_or(""));
                if s.len() % 2 == 0 {
                    sum.set_pkgpath(&dir);
                    sum.set_comment(s);
                }
                sum.set_pkgname(s);
                if s.len() % 2 == 1 {
                    sum.set_pkgpath(&dir);
                    sum.set_prev_pkgpath(&dir);
                }
                let f = |o: Option<&str>| match o {
                    Some(x) => format!("some{}", hex(x.as_bytes())),
                    None => "none".to_string(),
                };
                format!("{}:{}", f(sum.pkgbase()), f(sum.pkgversion()))
            })
        }
        "pkgpath.new" => {
            let Some(s) = a(0) else { return "BAD-UTF8".into() };
            match PkgPath::new(s) {
                Ok(p) => {
                    // re-parse both accessors' text: must give an equal value
                    let re = |path: &Path| match path.to_str().map(PkgPath::new) {
                        Some(Ok(q)) => b(q == p),
                        _ => "e",
                    };
                    format!(
                        "ok:{}|{}|{}|{}{}",
                        pkgpath_desc(&p),
                        comps(p.as_path()),
                        comps(p.as_full_path()),
                        re(p.as_path()),
                        re(p.as_full_path())
                    )
                }
                Err(_) => "err".into(),
            }
        }
        "pkgpath.eq" => {
            let (Some(x), Some(y)) = (a(0), a(1)) else { return "BAD-UTF8".into() };
            match (PkgPath::new(x), PkgPath::new(y)) {
                (Ok(p), Ok(q)) => b(p == q).into(),
                _ => "err".into(),
            }
        }
        "depend.new" => {
            let Some(s) = a(0) else { return "BAD-UTF8".into() };
            // `str::parse::<Depend>()` is the same function as `Depend::new`
            {
                let (x, y) = (Depend::new(s), s.parse::<Depend>());
                let same = match (&x, &y) {
                    (Ok(p), Ok(q)) => p == q,
                    (Err(e), Err(f)) => std::mem::discriminant(e) == std::mem::discriminant(f),
                    _ => false,
                };
                if !same {
                    return "FROMSTR-DIFFERS-FROM-NEW".into();
                }
            }
            match Depend::new(s) {
                Ok(d) => {
                    // halves parsed directly must equal the exposed parts
                    let v: Vec<&str> = s.split(':').collect();
                    let eqp = v.len() == 2 && Pattern::new(v[0]).map(|p| &p == d.pattern()).unwrap_or(false);
                    let eqq = v.len() == 2 && PkgPath::new(v[1]).map(|p| &p == d.pkgpath()).unwrap_or(false);
                    format!(
                        "ok:{}:{}:{}|{}{}",
                        hex(d.pattern().pattern().as_bytes()),
                        d.pattern().verif_kind(),
                        pkgpath_desc(d.pkgpath()),
                        b(eqp),
                        b(eqq)
                    )
                }
                Err(DependError::Invalid) => "err:invalid".into(),
                Err(DependError::Pattern(_)) => "err:pattern".into(),
                Err(DependError::PkgPath(_)) => "err:pkgpath".into(),
            }
        }
        "path.comps" => {
            let p = Path::new(std::ffi::OsStr::from_bytes(&op.args[0]));
            format!(
                "{}|{}",
                comps(p),
                match p.file_name() {
                    Some(n) => format!("some{}", hex(n.as_bytes())),
                    None => "none".into(),
                }
            )
        }
        _ => "UNKNOWN-OP".into(),
    }
}

fn main() {
    main_with(&exec, &gen::gen);
}
