//! Generators for cluster `plist`.
use harness::*;

const CMDS: [&str; 18] = [
    "@cwd", "@src", "@cd", "@exec", "@unexec", "@option", "@mode", "@owner", "@group", "@comment",
    "@ignore", "@name", "@pkgdep", "@blddep", "@pkgcfl", "@pkgdir", "@dirrm", "@display",
];

fn arg_variants() -> Vec<Vec<u8>> {
    vec![
        b"".to_vec(),                      // absent
        b" ".to_vec(),                     // empty (space only)
        b"   ".to_vec(),                   // blank only
        b" \t ".to_vec(),
        b" arg".to_vec(),
        b"   arg with spaces ".to_vec(),
        b" preserve".to_vec(),
        b" preserve ".to_vec(),
        b" caf\xc3\xa9".to_vec(),          // UTF-8
        b" \xf0\x9f\x92\x96".to_vec(),
        b" caf\xe9".to_vec(),              // not UTF-8
        b" \xf8".to_vec(),
        b" \xa0x".to_vec(),                // 0xA0 counts as a blank (Latin-1 reading)
        b"\t/x".to_vec(),                  // tab instead of space: part of the command word
        b" /".to_vec(),
        b" /usr/pkg/".to_vec(),
        b" 0644".to_vec(),
        // arguments are kept byte for byte: numbers are not re-spelt, names not normalised
        b" 644".to_vec(), b" 0".to_vec(), b" +644".to_vec(), b" 00644".to_vec(), b" 7777".to_vec(), b" 10000".to_vec(),
        b" ./x//y/".to_vec(), b" A b  c ".to_vec(),
        // truncated multi-byte sequences are not UTF-8, however many bytes of them are there
        b" pkg-1.0\xf0\x9f\x92".to_vec(), b" x\xe2\x82".to_vec(), b" \xc3".to_vec(), b" \xf0\x9f".to_vec(), b" \xed\xa0\x80".to_vec(), b" a\xf0\x9f\x92b".to_vec(),
        // an argument is an argument, whatever shell idiom it spells
        b" rmdir %D/share/foo 2>/dev/null || true".to_vec(), b" /bin/rmdir %D/share/foo".to_vec(), b" rmdir %D/x".to_vec(),
        // dependency / conflict arguments are TEXT here: whether they compile as patterns is not
        // the packing list's business
        b" png-[0-9".to_vec(), b" {foo,bar-[0-9]*".to_vec(), b" perl>=5.0<5.30<6".to_vec(), b" lib**".to_vec(), b" foo}b{ar>1.0".to_vec(),
        b" $NetBSD: PLIST,v 1.2 2024/01/01 00:00:00 x Exp $".to_vec(), b" $NetBSD$".to_vec(),
    ]
}

fn rand_line(rng: &mut Rng) -> Vec<u8> {
    match rng.below(16) {
        0 => vec![],
        1 => b"   ".to_vec(),
        2 => b"\t\r".to_vec(),
        3 => vec![*rng.pick(&[b'a', b'@', b'x', b'1', 0x85, 0xa0, 0xe9, b'/'])],
        4 => b"ab".to_vec(),
        5 => {
            let n = rng.range(1, 40);
            (0..n).map(|_| *rng.pick(&[b'a', b'b', b'/', b'.', b' ', 0xe9, 0x85, 0xa0, b'@', b'-'])).collect()
        }
        6 => {
            let mut l = b"  ".to_vec();
            l.extend(b"bin/foo");
            l
        }
        7 => b"bin/foo ".to_vec(),
        8 => b"@".to_vec(),
        9 => b"@x".to_vec(),
        10 => b"@unknown arg".to_vec(),
        11 => rng.pick::<&[u8]>(&[b"\xef\xbb\xbfbin/foo", b"\xef\xbb\xbf@name x", b"\xef\xbb\xbf", b"\xef\xbb\xbf@bogus",
            b"\xef\xbb\xbf@ignore", b"\xef\xbb\xbf ", b"\xff\xfe@cwd /x", b"@caf\xe9 x", b"@\xff", b"@name\xf8 x", b"@cwd\xa0/x",
            b"@caf\xc3\xa9 x", b"\x00@cwd /x", b"@cwd /x\x00"]).to_vec(),
        _ => {
            let mut l = rng.pick(&CMDS).as_bytes().to_vec();
            l.extend(rng.pick(&arg_variants()).clone());
            l
        }
    }
}

fn gen_c14(tier: &str, rng: &mut Rng, emit: &mut dyn FnMut(Op)) {
    let thorough = tier == "thorough";
    // every command x every argument variant, as a single entry and as a one-line document
    for c in CMDS {
        for a in arg_variants() {
            let mut l = c.as_bytes().to_vec();
            l.extend(a);
            emit(Op::new("plist.entry", &[&l]));
            emit(Op::new("plist.parse", &[&l]));
            let mut d = l.clone();
            d.push(b'\n');
            emit(Op::new("plist.parse", &[&d]));
        }
    }
    // every single-byte line, with and without newline, and after leading blanks
    for x in 0..=255u8 {
        emit(Op::new("plist.entry", &[&[x]]));
        emit(Op::new("plist.parse", &[&[x]]));
        emit(Op::new("plist.parse", &[&[x, b'\n']]));
        emit(Op::new("plist.parse", &[&[b' ', x, b'\n']]));
        emit(Op::new("plist.parse", &[&[b'a', b'\n', x, b'\n', b'b']]));
    }
    // a byte order mark is three ordinary bytes: the first line is not special
    for d in [&b"\xef\xbb\xbfbin/foo\n"[..], b"\xef\xbb\xbf@name x\nbin/a\n", b"\xef\xbb\xbf@bogus\n", b"\xef\xbb\xbf\nbin/a\n", b"\xef\xbb\xbf",
        b"\xef\xbb\xbf\xef\xbb\xbf@cwd /x\n", b"bin/a\n\xef\xbb\xbf@name x\n", b"\xef\xbb\xbf \n@name x"] {
        emit(Op::new("plist.parse", &[d]));
    }
    for l in [&b"@cwd\t/x"[..], b" bin/foo", b"@ cwd", b"@cwd/x", b"@CWD /x", b"@cwd /x\r", b"@ignore x", b"@option", b"@option preserve x", b"@comment", b"@comment  two  words "] {
        emit(Op::new("plist.entry", &[l]));
        emit(Op::new("plist.parse", &[l]));
    }
    // a line that ends in a backslash is a line; arguments have no length limit
    for d in [&b"@exec echo one \\\nbin/two\nbin/three\n"[..], b"@unexec rm x \\\n@bogus\n", b"@exec a\\\\\nbin/b\n", b"bin/a\\\nbin/b\n", b"@comment c\\\nbin/b\n"] {
        emit(Op::new("plist.parse", &[d]));
    }
    for cmd in ["@cwd", "@src", "@cd", "@pkgdir", "@dirrm", "@display", "@exec", "@comment", "@name", "@pkgdep"] {
        for n in [1023usize, 1024, 1025, 5000] {
            let l = format!("{} {}", cmd, "p".repeat(n));
            emit(Op::new("plist.entry", &[l.as_bytes()]));
        }
    }
    // the first line is an entry like any other, also when it carries an expanded RCS Id
    for d in [&b"@comment $NetBSD: PLIST,v 1.2 2024/01/01 00:00:00 x Exp $\nbin/foo\n"[..], b"@comment $NetBSD$\nbin/foo\n",
        b"\n@comment $NetBSD: x $\n@comment $NetBSD: y $\n", b"@comment $NetBSD: only $", b"@name a-1\n@comment $NetBSD: second $\n"] {
        emit(Op::new("plist.parse", &[d]));
    }
    // an unparsable LAST line, terminated or not, after lines that parsed
    for bad in [&b"@pkgd"[..], b"@name", b"@ignore x", b"@name \xff", b"@option x", b"@"] {
        for pre in [&b"bin/foo\n"[..], b"@name a-1\nbin/foo\n", b""] {
            let mut d = pre.to_vec();
            d.extend(bad);
            emit(Op::new("plist.parse", &[&d]));
            d.push(b'\n');
            emit(Op::new("plist.parse", &[&d]));
        }
    }
    // documents of 0..8 lines, each with and without final newline, LF and CRLF
    for _ in 0..(if thorough { 30000 } else { 2500 }) {
        let n = rng.range(0, 8);
        let mut d: Vec<u8> = vec![];
        let crlf = rng.chance(1, 10);
        for i in 0..n {
            d.extend(rand_line(rng));
            if i + 1 < n || rng.chance(1, 2) {
                if crlf {
                    d.push(b'\r');
                }
                d.push(b'\n');
            }
        }
        emit(Op::new("plist.parse", &[&d]));
    }
}

fn gen_c15(tier: &str, rng: &mut Rng, emit: &mut dyn FnMut(Op)) {
    let thorough = tier == "thorough";
    let kinds: [&[u8]; 72] = [
        // the same directory in other spellings; dependencies / conflicts that match the own @name
        b"@cwd /usr//pkg", b"@cwd /usr/pkg/", b"@cwd /usr/pkg/.", b"@cwd /.", b"@cwd /opt//",
        b"@pkgcfl foo-[0-9]*", b"@pkgdep foo>=1", b"@pkgcfl {foo,bar}-1.0",
        // directories that contain one another; a file listed twice
        b"@dirrm share", b"@dirrm share/y/z", b"@pkgdir share", b"@dirrm /", b"x",
        // "first of theirs", returned as stored: trailing blanks are part of the argument
        b"@name foo-1.0 ", b"@name foo-1.0\t", b"@display MESSAGE ", b"@name  bar-2 \xc2\xa0", b"@cwd share",
        // the same directory named by @pkgdir and @dirrm; numeric @mode spellings
        b"@dirrm share/x", b"@pkgdir share/y", b"@mode 644", b"@mode 0", b"@mode +644", b"@mode 00644",
        // @cwd arguments combining features: non-UTF-8 AND a trailing '/', blanks, only '/'
        b"@cwd /opt/bl\xf8t/", b"@cwd \xe9/", b"@cwd /caf\xc3\xa9/", b"@cwd //", b"@cwd /a b/", b"@cwd /opt/bl\xf8t",
        // file entries named like package metadata files are ordinary files unless @ignore'd
        b"+DESC", b"+INSTALL", b"+CONTENTS", b"+COMMENT", b"+README", b"+BUILD_INFO", b"share/+DESC", b"+DEINSTALL",
        b"/etc/abs", b"/", b"bin/a/", b"@unexec rm -f %D/%F.bak", b"@exec ln %f %B", b"@unexec %B", b"@exec %D/%F", b"@unexec echo %f",
        b"bin/a", b"bin/b", b"lib/c", b"share/d", b"x", b"@ignore", b"@ignore", b"@ignore",
        b"@cwd /usr/pkg", b"@cwd /opt/", b"@cwd /", b"@cwd rel", b"@cwd /caf\xe9", b"@src /s", b"@cd /c",
        b"@exec echo hi", b"@unexec rm x", b"@mode 0644", b"@mode", b"@owner root", b"@group wheel",
        b"@pkgdir share/x", b"@dirrm share/y", b"@comment hello", b"@option preserve", b"@name foo-1.0",
    ];
    let rest: [&[u8]; 6] = [b"@pkgdep a>=1", b"@blddep b-1", b"@pkgcfl c-[0-9]*", b"@display MESSAGE", b"@name bar-2", b"@display OTHER"];
    let fixed: [&[u8]; 15] = [
        b"@cwd /opt/bl\xf8t/\nbin/foo\n@cwd /x/\nbin/bar\n",
        b"bin/foo\n+DESC\n+INSTALL\n@ignore\n+CONTENTS\n+README\n",
        b"@cwd \xff/\n+DESC\n@exec %D/%F\n@unexec %D/%F\n",
        b"@ignore\n+INSTALL\n@unexec rm -f %D/%F.bak\n@exec touch %F\nbin/a\n@unexec rm %F\n",
        b"@cwd /opt/pkg\n/etc/rc.d/foo\nbin/a\n",
        b"/abs\n@cwd rel\n/abs2\n",
        b"@ignore\nbin/a\n@mode 0644\n@owner o\n@group g\n@pkgdir d\n@dirrm e\n@cwd /c\n@exec x\n@unexec y\nbin/b\n",
        b"@ignore\n@ignore\nbin/a\nbin/b\n",
        b"bin/a\n@ignore\n",
        b"@ignore\n@cwd /x\nbin/a\nbin/b\n",
        b"@ignore\n@exec foo\n@ignore\nbin/a\n@mode\nbin/b\n@ignore",
        b"bin/a\n@cwd /p\nbin/b\n@cwd /q/\nbin/c\n",
        b"@cwd \xe9\nbin/a\n",
        b"",
        b"@name a\n@name b\n@display X\n@display Y\n@option preserve\n@option preserve\n",
    ];
    for f in fixed {
        emit(Op::new("plist.views", &[f]));
    }
    for _ in 0..(if thorough { 40000 } else { 3000 }) {
        let n = rng.range(0, 12);
        let mut d: Vec<u8> = vec![];
        for _ in 0..n {
            let l: &[u8] = if rng.chance(5, 6) { *rng.pick::<&[u8]>(&kinds) } else { *rng.pick::<&[u8]>(&rest) };
            d.extend(l);
            d.push(b'\n');
        }
        emit(Op::new("plist.views", &[&d]));
    }
}

pub fn gen(id: &str, tier: &str, rng: &mut Rng, emit: &mut dyn FnMut(Op)) {
    match id {
        "C17" => {
            // mutations of every other generator's ops (and the ops themselves, sampled)
            let mut pool: Vec<Op> = vec![];
            for pid in ["C14", "C15"] {
                let mut sub = Rng::new(rng.next());
                let mut n = 0usize;
                gen(pid, "quick", &mut sub, &mut |op: Op| {
                    n += 1;
                    if n % 7 == 0 || pool.len() < 400 {
                        pool.push(op);
                    }
                });
            }
            // files are exercised by their own properties; C17 is about parsers and matchers
            pool.retain(|o| !matches!(o.name.as_str(), "distinfo.verify" | "entry.verify" | "pkgdb.iter"));
            let n = if tier == "thorough" { 60000 } else { 4000 };
            fuzz(&pool, n, rng, emit);
            // small scope, exhaustive: every line of up to 4 (thorough: 5) bytes over blanks of
            // all kinds, '@', a letter and a high byte — through the entry parser directly and
            // through the document scanner (index arithmetic on short / blank-only lines)
            let alpha: [u8; 9] = [b' ', b'\t', b'\r', b'\n', 0x0b, 0xa0, b'a', b'@', 0x0c];
            let maxlen = if tier == "thorough" { 5 } else { 4 };
            let mut cur: Vec<Vec<u8>> = vec![vec![]];
            for _ in 0..maxlen {
                let mut next = vec![];
                for w in &cur {
                    for &c in &alpha {
                        let mut v = w.clone();
                        v.push(c);
                        emit(Op::new("plist.entry", &[&v]));
                        if tier == "thorough" || v.len() <= 3 {
                            emit(Op::new("plist.parse", &[&v]));
                        }
                        next.push(v);
                    }
                }
                cur = next;
            }
            // SIZE: long runs of lines of one kind (blank, blank-ish, comments, files) — whatever a
            // parser does per skipped or kept line, it does not do it on the stack
            for (line, count) in [(&b""[..], 200000usize), (b" \t", 100000), (b"\r", 100000), (b"@comment x", 3000), (b"bin/x", 3000)] {
                let mut d: Vec<u8> = b"@name foo-1.0\n".to_vec();
                for _ in 0..count {
                    d.extend(line);
                    d.push(b'\n');
                }
                d.extend(b"bin/last\n");
                emit(Op::new("plist.parse", &[&d]));
            }
        }
        "C14" => with_oracle_fuzz(tier, rng, emit, &gen_c14),
        "C15" => with_oracle_fuzz(tier, rng, emit, &gen_c15),
        _ => {
            eprintln!("plist: unknown property {}", id);
            std::process::exit(2);
        }
    }
}
