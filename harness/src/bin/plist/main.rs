//! Cluster `plist`: packing lists (properties C14, C15).
use harness::*;
use pkgsrc::plist::{Plist, PlistEntry, PlistError, PlistOption};
use std::ffi::OsStr;
use std::os::unix::ffi::OsStrExt;

mod gen;

fn ho(o: &OsStr) -> String {
    hex(o.as_bytes())
}
fn opt_s(o: &Option<String>) -> String {
    match o {
        Some(s) => format!("+{}", hex(s.as_bytes())),
        None => "-".into(),
    }
}

fn show_entry(e: &PlistEntry) -> String {
    match e {
        PlistEntry::File(f) => format!("F{}", ho(f)),
        PlistEntry::Cwd(d) => format!("W{}", ho(d)),
        PlistEntry::Exec(d) => format!("E{}", ho(d)),
        PlistEntry::UnExec(d) => format!("U{}", ho(d)),
        PlistEntry::Mode(o) => format!("M{}", opt_s(o)),
        PlistEntry::PkgOpt(PlistOption::Preserve) => "O:preserve".into(),
        PlistEntry::Owner(o) => format!("o{}", opt_s(o)),
        PlistEntry::Group(o) => format!("g{}", opt_s(o)),
        PlistEntry::Comment(o) => match o {
            Some(s) => format!("C+{}", ho(s)),
            None => "C-".into(),
        },
        PlistEntry::Ignore => "I".into(),
        PlistEntry::Name(s) => format!("N{}", hex(s.as_bytes())),
        PlistEntry::PkgDir(d) => format!("D{}", ho(d)),
        PlistEntry::DirRm(d) => format!("R{}", ho(d)),
        PlistEntry::Display(d) => format!("Y{}", ho(d)),
        PlistEntry::PkgDep(s) => format!("P{}", hex(s.as_bytes())),
        PlistEntry::BldDep(s) => format!("B{}", hex(s.as_bytes())),
        PlistEntry::PkgCfl(s) => format!("X{}", hex(s.as_bytes())),
    }
}

fn show_err(e: &PlistError) -> &'static str {
    match e {
        PlistError::UnsupportedCommand(_) => "err:unsupported",
        PlistError::IncorrectArguments(_) => "err:incorrect",
        PlistError::Utf8(_) => "err:utf8",
    }
}

fn exec(op: &Op) -> String {
    match op.name.as_str() {
        "plist.parse" => match Plist::from_bytes(&op.args[0]) {
            Ok(p) => format!(
                "ok:{}",
                p.verif_entries().iter().map(show_entry).collect::<Vec<_>>().join(";")
            ),
            Err(e) => show_err(&e).into(),
        },
        "plist.entry" => match PlistEntry::from_bytes(&op.args[0]) {
            Ok(e) => format!("ok:{}", show_entry(&e)),
            Err(e) => show_err(&e).into(),
        },
        "plist.views" => match Plist::from_bytes(&op.args[0]) {
            Err(e) => show_err(&e).into(),
            Ok(p) => {
                let j = |v: Vec<String>| v.join(",");
                let os = |v: Vec<&OsStr>| j(v.into_iter().map(ho).collect());
                let ss = |v: Vec<&str>| j(v.into_iter().map(|s| hex(s.as_bytes())).collect());
                format!(
                    "files={}|prefixed={}|install={}|uninstall={}|depends={}|blddep={}|conflicts={}|pkgdirs={}|rmdirs={}|name={}|display={}|preserve={}",
                    os(p.files()),
                    j(p.files_prefixed().iter().map(|s| ho(s)).collect()),
                    p.install_cmds().into_iter().map(show_entry).collect::<Vec<_>>().join(";"),
                    p.uninstall_cmds().into_iter().map(show_entry).collect::<Vec<_>>().join(";"),
                    ss(p.depends()),
                    ss(p.build_depends()),
                    ss(p.conflicts()),
                    os(p.pkgdirs()),
                    os(p.pkgrmdirs()),
                    match p.pkgname() { Some(s) => format!("+{}", hex(s.as_bytes())), None => "-".into() },
                    match p.display() { Some(s) => format!("+{}", ho(s)), None => "-".into() },
                    b(p.is_preserve())
                )
            }
        },
        _ => "UNKNOWN-OP".into(),
    }
}

fn main() {
    main_with(&exec, &gen::gen);
}
