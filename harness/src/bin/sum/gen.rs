//! Generators for cluster `sum`.
use super::{KINDS, NAMES};
use harness::*;

const REQUIRED: [usize; 11] = [0, 1, 2, 5, 11, 12, 13, 15, 16, 17, 21];

fn str_value(rng: &mut Rng) -> String {
    match rng.below(18) {
        0 => String::new(),
        // values are text, not paths or names: nothing is normalised on the way in
        16 => rng.pick(&["../../pkgtools/testpkg", "../../a/b", "a/b/", "./a/b", "a//b", "../../a/b/"]).to_string(),
        17 => rng.pick(&["foo-1.0nb0", "FOO", "x86_64 ", "9223372036854775808", "-0", "+5", "1e3",
            // look like things other modules parse: a digest line, a dependency, a bad pattern
            "sha1 a4801e9b26eeb5b8bd1f54bac1c8e89dec67786a", "BLAKE2S abc", "Sha256 x", "md5 0", "SHA1",
            "mutt-[0-9]*:../../mail/mutt", "a>=1:../../c/d", "x:y/z", "foo-[0-9", "gcc}-4.8", "old<1>0", "a>=1<2<3", "foo**"]).to_string(),
        12 => "\u{feff}bom".into(),
        13 => "nul\0in".into(),
        14 => "trail \u{3000}".into(),
        15 => "\u{feff}".into(),
        1 => "x".into(),
        2 => "a=b".into(),
        3 => "=".into(),
        4 => "é€𐀀".into(),
        5 => " padded ".into(),
        6 => "x".repeat(500),
        7 => "foo-1.0nb2".into(),
        8 => "a b\tc".into(),
        9 => "ÿ".into(),
        _ => {
            let n = rng.range(1, 12);
            (0..n).map(|_| *rng.pick(&['a', 'b', 'Z', '0', '9', '-', '.', '_', '/', ' ', '=', 'é'])).collect()
        }
    }
}
fn int_value(rng: &mut Rng) -> i64 {
    match rng.below(7) {
        0 => 0,
        1 => 1,
        2 => -1,
        3 => i64::MIN,
        4 => i64::MAX,
        _ => rng.next() as i64 >> rng.below(60),
    }
}

#[derive(Clone, Debug)]
enum Val {
    S(String),
    I(i64),
    A(Vec<String>),
}

fn call_set(var: usize, v: &Val) -> Vec<u8> {
    match v {
        Val::S(s) => {
            let mut c = vec![0u8, var as u8];
            c.extend(s.as_bytes());
            c
        }
        Val::I(i) => {
            let mut c = vec![1u8, var as u8];
            c.extend(i.to_string().as_bytes());
            c
        }
        Val::A(a) => {
            let mut c = vec![2u8, var as u8, a.len() as u8];
            for s in a {
                c.extend(s.as_bytes());
                c.push(0);
            }
            c
        }
    }
}
fn call_push(var: usize, s: &str) -> Vec<u8> {
    let mut c = vec![3u8, var as u8];
    c.extend(s.as_bytes());
    c
}

fn rand_val(rng: &mut Rng, var: usize) -> Val {
    match KINDS[var] {
        0 => Val::S(str_value(rng)),
        1 => Val::I(int_value(rng)),
        _ => {
            let n = rng.range(1, 3);
            Val::A((0..n).map(|_| str_value(rng)).collect())
        }
    }
}

/// PKGPATH and PREV_PKGPATH given the same text, DEPENDS equal to CONFLICTS, ...: a value is
/// never special because another variable happens to hold it too
fn alias_values(rng: &mut Rng, asg: &mut Vec<(usize, Val)>) {
    if rng.chance(1, 4) {
        let kinds = |k: u8| -> Vec<usize> { (0..asg.len()).filter(|&i| KINDS[asg[i].0] == k).collect() };
        let k = *rng.pick(&[0u8, 0, 2]);
        let idx = kinds(k);
        if idx.len() >= 2 {
            let a = *rng.pick(&idx);
            let b2 = *rng.pick(&idx);
            let v = asg[a].1.clone();
            asg[b2].1 = v;
        }
    }
    // the pair the summary itself relates: PKGPATH (16) and PREV_PKGPATH (18)
    if rng.chance(1, 4) {
        if let Some(v) = asg.iter().find(|(i, _)| *i == 16).map(|(_, v)| v.clone()) {
            asg.retain(|(i, _)| *i != 18);
            asg.push((18, v));
            asg.sort_by_key(|(i, _)| *i);
        }
    }
}

fn assignment(rng: &mut Rng, all_required: bool) -> Vec<(usize, Val)> {
    let mut vars: Vec<usize> = vec![];
    for v in 0..23 {
        let req = REQUIRED.contains(&v);
        if (req && (all_required || rng.chance(9, 10))) || (!req && rng.chance(1, 2)) {
            vars.push(v);
        }
    }
    let mut asg: Vec<(usize, Val)> = vars.into_iter().map(|v| (v, rand_val(rng, v))).collect();
    alias_values(rng, &mut asg);
    asg
}

/// a call history ending in the given final values: optional junk first, arrays by set / pushes /
/// set-then-push, calls of different variables interleaved at random (per-variable order kept)
fn history(rng: &mut Rng, asg: &[(usize, Val)]) -> Vec<Vec<u8>> {
    let mut per: Vec<Vec<Vec<u8>>> = vec![];
    for (var, val) in asg {
        let mut calls = vec![];
        if rng.chance(1, 3) {
            calls.push(call_set(*var, &rand_val(rng, *var)));
            if KINDS[*var] == 2 && rng.chance(1, 2) {
                calls.push(call_push(*var, "junk"));
            }
        }
        match val {
            Val::A(items) => match rng.below(3) {
                0 => calls.push(call_set(*var, val)),
                1 if !calls.is_empty() => {
                    // an earlier junk value must be overwritten by a set first
                    calls.push(call_set(*var, &Val::A(vec![items[0].clone()])));
                    for it in &items[1..] {
                        calls.push(call_push(*var, it));
                    }
                }
                1 => {
                    for it in items {
                        calls.push(call_push(*var, it));
                    }
                }
                _ => {
                    let k = rng.range(0, items.len());
                    calls.push(call_set(*var, &Val::A(items[..k].to_vec())));
                    for it in &items[k..] {
                        calls.push(call_push(*var, it));
                    }
                }
            },
            _ => {
                calls.push(call_set(*var, val));
                if rng.chance(1, 4) {
                    calls.push(call_set(*var, val)); // repetition
                }
            }
        }
        per.push(calls);
    }
    // random interleaving
    let mut out = vec![];
    let mut idx = vec![0usize; per.len()];
    loop {
        let live: Vec<usize> = (0..per.len()).filter(|&i| idx[i] < per[i].len()).collect();
        if live.is_empty() {
            break;
        }
        let i = *rng.pick(&live);
        out.push(per[i][idx[i]].clone());
        idx[i] += 1;
    }
    out
}

fn canonical_calls(asg: &[(usize, Val)]) -> Vec<Vec<u8>> {
    asg.iter().map(|(v, val)| call_set(*v, val)).collect()
}

fn print_asg(asg: &[(usize, Val)]) -> String {
    let mut s = String::new();
    for (v, val) in asg {
        match val {
            Val::S(x) => s.push_str(&format!("{}={}\n", NAMES[*v], x)),
            Val::I(i) => s.push_str(&format!("{}={}\n", NAMES[*v], i)),
            Val::A(a) => {
                for x in a {
                    s.push_str(&format!("{}={}\n", NAMES[*v], x));
                }
            }
        }
    }
    s
}

fn emit_ops(emit: &mut dyn FnMut(Op), calls: &[Vec<u8>]) {
    let refs: Vec<&[u8]> = calls.iter().map(|c| c.as_slice()).collect();
    emit(Op::new("summary.ops", &refs));
}

/// the same history with observations (print + getters, call kind 4) interleaved: printing must
/// depend on the current values only, not on whether the entry was looked at before
fn with_observations(rng: &mut Rng, calls: &[Vec<u8>]) -> Vec<Vec<u8>> {
    let mut out = vec![];
    // the entry may come from `Summary::default()` instead of `Summary::new()` (kind 7, first)
    if rng.chance(1, 3) {
        out.push(vec![7u8, 0u8]);
    }
    for c in calls {
        match rng.below(9) {
            0 | 1 | 2 => out.push(vec![4u8, 0u8]),
            // replaced by a clone of itself / moved out with mem::take and moved back
            3 => out.push(vec![5u8, 0u8]),
            4 => out.push(vec![6u8, 0u8]),
            _ => {}
        }
        out.push(c.clone());
    }
    out
}

fn gen_c07(tier: &str, rng: &mut Rng, emit: &mut dyn FnMut(Op)) {
    let thorough = tier == "thorough";
    // an untouched entry, however it was obtained, has nothing set
    emit_ops(emit, &[vec![7u8, 0u8]]);
    emit_ops(emit, &[vec![6u8, 0u8]]);
    emit_ops(emit, &[vec![7u8, 0u8], call_set(0, &Val::S("x".into())), vec![6u8, 0u8], vec![5u8, 0u8]]);
    // every text variable holds ANY text: values that look like something another module parses
    // (digest lines, dependencies, paths, patterns, sizes) are stored, printed and read back verbatim
    for v in 0..23 {
        for val in ["sha1 a4801e9b26eeb5b8bd1f54bac1c8e89dec67786a", "BLAKE2S abc", "Sha256 x", "md5 0", "SHA1", "rmd160  two  blanks",
            "mutt-[0-9]*:../../mail/mutt", "a>=1:../../c/d", "../../pkgtools/testpkg", "a/b/", "foo-[0-9", "gcc}-4.8", "old<1>0",
            "foo-1.0.tgz", "\"quoted\"", "'q'", "IGNORE", "$NetBSD$", "007", "+5", "1e3", " lead", "trail ", "x\u{a0}",
            "/opt/pkg/lib//libfoo.so.1", "/usr/lib/./libc.so.12", "/opt/pkg/lib/foo/", "/", "//", "ends with backslash\\"] {
            match KINDS[v] {
                0 => emit_ops(emit, &[call_set(v, &Val::S(val.into()))]),
                2 => {
                    emit_ops(emit, &[call_push(v, val), call_push(v, "second")]);
                    emit_ops(emit, &[call_set(v, &Val::A(vec![val.into()]))]);
                }
                _ => {}
            }
        }
    }
    // list lines that are patterns matching the entry's OWN name are lines like any other,
    // whichever of PKGNAME and the list is set first
    for lv in [3usize, 4, 22, 19, 20] {
        for pat in ["foo-[0-9]*", "foo<2.1", "{foo,bar}-2.0", "foo-2.0", "foo>=2"] {
            let name = call_set(15, &Val::S("foo-2.0".into()));
            emit_ops(emit, &[name.clone(), call_push(lv, pat), call_push(lv, "other-[0-9]*")]);
            emit_ops(emit, &[call_push(lv, pat), name.clone(), call_push(lv, pat)]);
            emit_ops(emit, &[name.clone(), call_set(lv, &Val::A(vec![pat.into(), pat.into()]))]);
        }
    }
    // a list that grew by pushes (spare capacity) and is then REPLACED by a longer / shorter / equal one
    for lv in [3usize, 4, 5, 19, 20, 22] {
        for (npush, nset) in [(1usize, 2usize), (2, 5), (2, 3), (3, 8), (3, 4), (5, 7), (2, 1), (4, 4), (9, 17)] {
            let mut calls: Vec<Vec<u8>> = (0..npush).map(|i| call_push(lv, &format!("p{}", i))).collect();
            calls.push(call_set(lv, &Val::A((0..nset).map(|i| format!("s{}", i)).collect())));
            emit_ops(emit, &calls);
            calls.push(call_push(lv, "after"));
            calls.push(call_set(lv, &Val::A((0..nset + 3).map(|i| format!("t{}", i)).collect())));
            emit_ops(emit, &calls);
        }
    }
    // the last lines of DESCRIPTION are lines like any other, whatever HOMEPAGE (or any other
    // variable) holds — the +DESC trailer pkgsrc appends is DATA here
    for url in ["https://docs.rs/pkgsrc/", "x"] {
        for descr in [vec!["A test description", "", "Homepage:", url], vec!["", "Homepage:", url], vec!["a", "b", "", "Homepage:", url, ""],
            vec!["a", "Homepage:", url], vec!["a", "", "Homepage:", "other"], vec![url], vec!["a", url]] {
            let mut asg = assignment(rng, true);
            asg.retain(|(v, _)| *v != 5 && *v != 9);
            asg.push((5, Val::A(descr.iter().map(|x| x.to_string()).collect())));
            asg.push((9, Val::S(url.to_string())));
            asg.sort_by_key(|(v, _)| *v);
            emit_ops(emit, &canonical_calls(&asg));
            emit(Op::s("summary.parse", &[&print_asg(&asg)]));
            // every other single-line variable holding the same text as the last DESCRIPTION line
            for other in [2usize, 7, 10, 16] {
                let mut a2 = asg.clone();
                a2.retain(|(v, _)| *v != other);
                a2.push((other, Val::S(descr[descr.len() - 1].to_string())));
                a2.sort_by_key(|(v, _)| *v);
                emit(Op::s("summary.parse", &[&print_asg(&a2)]));
            }
        }
    }
    // every variable alone, set and (for arrays) pushed: both name tables, all 23 rows
    for v in 0..23 {
        let val = match KINDS[v] {
            0 => Val::S("v".into()),
            1 => Val::I(-42),
            _ => Val::A(vec!["one".into(), "two".into()]),
        };
        emit_ops(emit, &[call_set(v, &val)]);
        if KINDS[v] == 2 {
            emit_ops(emit, &[call_push(v, "one"), call_push(v, "two")]);
            emit_ops(emit, &[call_set(v, &Val::A(vec![]))]);
        }
        emit(Op::s("summary.parse", &[&format!("{}=1\n", NAMES[v])]));
    }
    for _ in 0..(if thorough { 8000 } else { 500 }) {
        let asg = assignment(rng, true);
        emit_ops(emit, &canonical_calls(&asg));
        for _ in 0..3 {
            emit_ops(emit, &history(rng, &asg));
        }
        let h = history(rng, &asg);
        emit_ops(emit, &with_observations(rng, &h));
        // canonical text -> parse -> print
        emit(Op::s("summary.parse", &[&print_asg(&asg)]));
    }
    // incomplete assignments print and re-parse too (re-parse reports what is missing)
    for _ in 0..(if thorough { 1000 } else { 100 }) {
        let asg = assignment(rng, false);
        emit_ops(emit, &history(rng, &asg));
    }
}

fn mutate_name(rng: &mut Rng, name: &str) -> String {
    let mut c: Vec<char> = name.chars().collect();
    match rng.below(6) {
        0 => {
            let i = rng.below(c.len());
            c[i] = c[i].to_ascii_lowercase();
        }
        1 => {
            let i = rng.below(c.len());
            c.remove(i);
        }
        2 => {
            let i = rng.below(c.len());
            let x = c[i];
            c.insert(i, x);
        }
        3 => c.push(' '),
        4 => c.insert(0, ' '),
        _ => {
            let i = rng.below(c.len());
            c[i] = if c[i] == '_' { '-' } else { '_' };
        }
    }
    c.into_iter().collect()
}

fn gen_c08(tier: &str, rng: &mut Rng, emit: &mut dyn FnMut(Op)) {
    let thorough = tier == "thorough";
    let base = |rng: &mut Rng| -> Vec<String> {
        // a complete entry, one line per value, in random order, with repetitions
        let asg = assignment(rng, true);
        let mut lines: Vec<String> = print_asg(&asg).lines().map(|l| l.to_string()).collect();
        if rng.chance(1, 2) {
            // repeat some variables (single-valued: last wins; arrays: accumulate)
            for _ in 0..rng.range(1, 3) {
                let v = rng.below(23);
                let val = rand_val(rng, v);
                lines.extend(print_asg(&[(v, val)]).lines().map(|l| l.to_string()));
            }
        }
        if rng.chance(2, 3) {
            rng.shuffle(&mut lines);
        }
        lines
    };
    let join = |lines: &[String], rng: &mut Rng| -> String {
        let mut s = lines.join("\n");
        if rng.chance(4, 5) {
            s.push('\n');
        }
        s
    };
    // the four error kinds of test_err and the complete example shape
    for t in ["BUILD_DATE", "BILD_DATE=", "FILE_SIZE=NaN", "FILE_SIZE=1234", "", "\n", "=", "=x", "BUILD_DATE=\n"] {
        emit(Op::s("summary.parse", &[t]));
    }
    // each required variable removed in turn, from entries in enum order and shuffled
    for r in REQUIRED {
        for _ in 0..(if thorough { 20 } else { 3 }) {
            let mut asg = assignment(rng, true);
            asg.retain(|(v, _)| *v != r);
            let mut lines: Vec<String> = print_asg(&asg).lines().map(|l| l.to_string()).collect();
            if rng.chance(1, 2) {
                rng.shuffle(&mut lines);
            }
            emit(Op::s("summary.parse", &[&join(&lines, rng)]));
        }
    }
    // every name at edit distance 1, as the only fault
    for v in 0..23 {
        for _ in 0..(if thorough { 12 } else { 3 }) {
            let mut lines = base(rng);
            let bad = format!("{}=1", mutate_name(rng, NAMES[v]));
            let pos = rng.range(0, lines.len());
            lines.insert(pos, bad);
            emit(Op::s("summary.parse", &[&join(&lines, rng)]));
        }
    }
    // malformed lines and bad integers
    let bad_lines = ["novalue", "", " ", "\r", "FILE_SIZE", "# comment", "é"];
    let bad_ints = ["", "+5", "-0", "007", "1e3", " 5", "5 ", "9223372036854775808", "-9223372036854775809", "0x10", "１", "--1", "+", "-"];
    for _ in 0..(if thorough { 3000 } else { 300 }) {
        let mut lines = base(rng);
        match rng.below(4) {
            0 => {
                let pos = rng.range(0, lines.len());
                lines.insert(pos, rng.pick(&bad_lines).to_string());
            }
            1 => {
                let pos = rng.range(0, lines.len());
                let var = if rng.chance(1, 2) { "FILE_SIZE" } else { "SIZE_PKG" };
                lines.insert(pos, format!("{}={}", var, rng.pick(&bad_ints)));
            }
            2 => {
                // two faults: which one is reported is decided by line order
                let p1 = rng.range(0, lines.len());
                lines.insert(p1, "garbage".to_string());
                let p2 = rng.range(0, lines.len());
                lines.insert(p2, "NOPE=1".to_string());
            }
            _ => {}
        }
        let mut t = join(&lines, rng);
        if rng.chance(1, 10) {
            t = t.replace('\n', "\r\n");
        }
        emit(Op::s("summary.parse", &[&t]));
    }
    // is_completed() through the setter API: "set" means the variable has a value, an empty line
    // list included; every required variable left out in turn, set again, emptied again
    for _ in 0..(if thorough { 1500 } else { 150 }) {
        let full = rng.chance(2, 3);
        let asg = assignment(rng, full);
        let mut calls = history(rng, &asg);
        for _ in 0..rng.range(0, 3) {
            let v = *rng.pick(&[3usize, 4, 5, 19, 20, 22, 5, 5]);
            let pos = rng.range(0, calls.len());
            calls.insert(pos, call_set(v, &Val::A(vec![])));
            if rng.chance(1, 3) {
                let at = rng.range(pos + 1, calls.len());
                calls.insert(at, call_push(v, "again"));
            }
        }
        emit_ops(emit, &with_observations(rng, &calls));
    }
    for r in REQUIRED {
        let mut asg = assignment(rng, true);
        asg.retain(|(v, _)| *v != r);
        emit_ops(emit, &canonical_calls(&asg));
    }
    // repeated integer variables: EVERY occurrence must be an integer, not only the last
    for _ in 0..(if thorough { 600 } else { 80 }) {
        let mut lines = base(rng);
        let var = if rng.chance(1, 2) { "FILE_SIZE" } else { "SIZE_PKG" };
        let p1 = rng.range(0, lines.len());
        lines.insert(p1, format!("{}={}", var, rng.pick(&bad_ints)));
        let p2 = rng.range(0, lines.len());
        lines.insert(p2, format!("{}={}", var, rng.pick(&["1", "4321", "-5"])));
        emit(Op::s("summary.parse", &[&join(&lines, rng)]));
    }
    // std `lines()` model
    for t in ["", "a", "a\n", "a\n\n", "\n", "a\r\n", "a\r", "a\r\nb\r", "\r\n", "a\n\rb", "a\r\r\n", "\n\n\n"] {
        emit(Op::s("str.lines", &[t]));
    }
}

fn entry_text(rng: &mut Rng, ascii: bool) -> String {
    let mut asg = assignment(rng, true);
    if ascii {
        for (_, v) in asg.iter_mut() {
            match v {
                Val::S(s) => *s = s.chars().filter(|c| c.is_ascii()).take(20).collect(),
                Val::A(a) => a.iter_mut().for_each(|s| *s = s.chars().filter(|c| c.is_ascii()).take(20).collect()),
                _ => {}
            }
        }
    } else {
        // keep entries short, put multi-byte characters at line ends / before the separator
        for (i, (_, v)) in asg.iter_mut().enumerate() {
            let tail = ["é", "€", "𐀀", "", "x", "\u{feff}", " ", "\u{3000}", "\t"][i % 9];
            match v {
                Val::S(s) => *s = format!("{}{}", s.chars().take(6).collect::<String>(), tail),
                Val::A(a) => a.iter_mut().for_each(|s| *s = format!("{}{}", s.chars().take(4).collect::<String>(), tail)),
                _ => {}
            }
        }
    }
    // empty values are fine; empty LINES are not part of a well-formed entry
    print_asg(&asg)
}

fn emit_stream(emit: &mut dyn FnMut(Op), chunks: &[&[u8]]) {
    emit(Op::new("stream.write", chunks));
}

fn partitions(rng: &mut Rng, s: &[u8], thorough: bool, emit: &mut dyn FnMut(Op)) {
    let n = s.len();
    emit_stream(emit, &[s]);
    // every single cut
    for i in 0..=n {
        emit_stream(emit, &[&s[..i], &s[i..]]);
    }
    // pairs of cuts: exhaustive for short streams in thorough, sampled otherwise
    if thorough && n <= 200 {
        for i in 0..=n {
            for j in i..=n {
                emit_stream(emit, &[&s[..i], &s[i..j], &s[j..]]);
            }
        }
    } else {
        for _ in 0..(if thorough { 2000 } else { 150 }) {
            let i = rng.range(0, n);
            let j = rng.range(i, n);
            emit_stream(emit, &[&s[..i], &s[i..j], &s[j..]]);
        }
    }
    // fixed chunk sizes 1..9 (1 = byte at a time)
    for k in 1..=9usize {
        let chunks: Vec<&[u8]> = s.chunks(k).collect();
        emit_stream(emit, &chunks);
    }
    // random partitions
    for _ in 0..(if thorough { 200 } else { 30 }) {
        let mut cuts: Vec<usize> = (0..rng.range(1, 8)).map(|_| rng.range(0, n)).collect();
        cuts.sort();
        let mut chunks: Vec<&[u8]> = vec![];
        let mut prev = 0;
        for c in cuts {
            chunks.push(&s[prev..c]);
            prev = c;
        }
        chunks.push(&s[prev..]);
        emit_stream(emit, &chunks);
    }
}

fn gen_c09(tier: &str, rng: &mut Rng, emit: &mut dyn FnMut(Op)) {
    let thorough = tier == "thorough";
    // utf8 validation model: every 1- and 2-byte string over boundary bytes, then random
    let bb: [u8; 22] = [0x00, 0x0a, 0x41, 0x7f, 0x80, 0xbf, 0xc0, 0xc1, 0xc2, 0xdf, 0xe0, 0xe1, 0xec, 0xed, 0xee, 0xef, 0xf0, 0xf1, 0xf3, 0xf4, 0xf5, 0xff];
    let cc: [u8; 8] = [0x7f, 0x80, 0x8f, 0x90, 0x9f, 0xa0, 0xbf, 0xc0];
    for a in bb {
        emit(Op::new("utf8.scan", &[&[a]]));
        for b2 in bb.iter().chain(cc.iter()) {
            emit(Op::new("utf8.scan", &[&[a, *b2]]));
            for c in cc {
                emit(Op::new("utf8.scan", &[&[a, *b2, c]]));
                emit(Op::new("utf8.scan", &[&[0x41, a, *b2, c, 0x80]]));
            }
        }
    }
    for _ in 0..(if thorough { 20000 } else { 1500 }) {
        let n = rng.range(0, 8);
        let v: Vec<u8> = (0..n)
            .map(|_| if rng.chance(1, 2) { *rng.pick(&bb) } else { *rng.pick(&cc) })
            .collect();
        emit(Op::new("utf8.scan", &[&v]));
    }
    // well-formed streams
    let nstreams = if thorough { 12 } else { 3 };
    for k in 0..nstreams {
        let entries = 1 + (k % 4);
        let mut s = String::new();
        for _ in 0..entries {
            s.push_str(&entry_text(rng, k % 2 == 1));
            s.push('\n');
        }
        partitions(rng, s.as_bytes(), thorough, emit);
    }
    // a record larger than 64 KiB (a long DESCRIPTION), written in one call, in 4 KiB pieces, cut
    // right after the previous separator and again beyond 64 KiB, and in pieces of 64 KiB + 1
    {
        let small = "BUILD_DATE=d\nCATEGORIES=c\nCOMMENT=x\nDESCRIPTION=first\nMACHINE_ARCH=x\nOPSYS=x\nOS_VERSION=x\nPKGNAME=a-1\nPKGPATH=a/b\nPKGTOOLS_VERSION=1\nSIZE_PKG=1\n\n";
        let mut big = String::from("BUILD_DATE=d\nCATEGORIES=c\nCOMMENT=x\n");
        for i in 0..900 {
            big.push_str(&format!("DESCRIPTION=line {} of a very long description, padded to about eighty bytes ........\n", i));
        }
        big.push_str("MACHINE_ARCH=x\nOPSYS=x\nOS_VERSION=x\nPKGNAME=big-1\nPKGPATH=a/b\nPKGTOOLS_VERSION=1\nSIZE_PKG=1\n\n");
        let stream = format!("{}{}{}", small, big, small);
        let b = stream.as_bytes();
        emit(Op::new("stream.write", &[b]));
        for size in [4096usize, 65537, 30000] {
            let chunks: Vec<&[u8]> = b.chunks(size).collect();
            emit(Op::new("stream.write", &chunks));
        }
        let cut1 = small.len();
        for cut2 in [cut1 + 65536, cut1 + 65537, cut1 + 70000] {
            if cut2 < b.len() {
                emit(Op::new("stream.write", &[&b[..cut1], &b[cut1..cut2], &b[cut2..]]));
            }
        }
    }
    // streams of 1, 2 and 4 MiB written in one call and in 64 KiB pieces (compared in the harness)
    for kib in ["1025", "2100", if thorough { "4500" } else { "1100" }] {
        emit(Op::s("stream.big", &[kib]));
    }
    // repeated lines of a multi-line variable are all kept (the same library required twice), and
    // a list line may be a pattern that matches the entry's own PKGNAME
    {
        let dup = "BUILD_DATE=d\nCATEGORIES=c\nCOMMENT=x\nCONFLICTS=foo-[0-9]*\nCONFLICTS=foo-[0-9]*\nDESCRIPTION=x\nDESCRIPTION=x\nMACHINE_ARCH=x\nOPSYS=x\nOS_VERSION=x\nPKGNAME=foo-2.0\nPKGPATH=a/b\nPKGTOOLS_VERSION=1\nPROVIDES=/lib/a.so\nPROVIDES=/lib/a.so\nREQUIRES=/lib/c.so\nREQUIRES=/lib/d.so\nREQUIRES=/lib/c.so\nSIZE_PKG=1\nSUPERSEDES=foo<2.1\nSUPERSEDES={foo,bar}-2.0\n\n";
        let two = format!("{}{}", dup, dup);
        partitions(rng, two.as_bytes(), false, emit);
    }
    // values that look like something another module normalises are text: a PKGPATH spelled from
    // the pkgsrc root, a DESCRIPTION that ends in the +DESC trailer repeating HOMEPAGE
    {
        let e1 = "BUILD_DATE=d\nCATEGORIES=c\nCOMMENT=x\nDESCRIPTION=A tool\nDESCRIPTION=\nDESCRIPTION=Homepage:\nDESCRIPTION=https://example.org/\nHOMEPAGE=https://example.org/\nMACHINE_ARCH=x\nOPSYS=x\nOS_VERSION=x\nPKGNAME=a-1\nPKGPATH=../../pkgtools/testpkg\nPKGTOOLS_VERSION=1\nPREV_PKGPATH=./a//b/\nSIZE_PKG=1\n\n";
        let e2 = "BUILD_DATE=d\nCATEGORIES=c\nCOMMENT=x\nDESCRIPTION=x\nMACHINE_ARCH=x\nOPSYS=x\nOS_VERSION=x\nPKGNAME=b-1\nPKGPATH=pkgtools/../pkgtools/b\nPKGTOOLS_VERSION=1\nSIZE_PKG=1\n\n";
        let both = format!("{}{}", e1, e2);
        partitions(rng, both.as_bytes(), false, emit);
        emit(Op::s("summary.parse", &[&e1[..e1.len() - 1]]));
        emit(Op::s("summary.parse", &[&e2[..e2.len() - 1]]));
    }
    // a tiny hand-made stream with cuts inside é, €, 𐀀 and inside the separator
    let small = "BUILD_DATE=é\nCATEGORIES=€\nCOMMENT=𐀀\nDESCRIPTION=é\nMACHINE_ARCH=x\nOPSYS=x\nOS_VERSION=x\nPKGNAME=a-1\nPKGPATH=a/b\nPKGTOOLS_VERSION=1\nSIZE_PKG=1\n\n";
    let two = format!("{}{}", small, small);
    partitions(rng, two.as_bytes(), thorough, emit);
    // byte order marks are ordinary characters wherever they stand (start of the stream, start of
    // a line, start of a value: every cut right before one); blanks at the end of the last line
    // of a record belong to its value
    let bom = "BUILD_DATE=\u{feff}d\nCATEGORIES=c\nCOMMENT=caf\u{e9} \u{feff}tool\nDESCRIPTION=\u{feff}\nMACHINE_ARCH=x\nOPSYS=x\nOS_VERSION=x\nPKGNAME=a-1\nPKGPATH=a/b\nPKGTOOLS_VERSION=1\nSIZE_PKG=1\nSUPERSEDES=old-[0-9]* \nSUPERSEDES=older<1 \t\u{3000}\n\n";
    let bom2 = format!("{}{}", bom, small);
    partitions(rng, bom2.as_bytes(), thorough, emit);
    // a size that is not exactly a decimal integer makes its record malformed: every padded or
    // signed spelling, in a record of its own between two good ones (deterministic)
    {
        let base = "BUILD_DATE=d\nCATEGORIES=c\nCOMMENT=x\nDESCRIPTION=x\nMACHINE_ARCH=x\nOPSYS=x\nOS_VERSION=x\nPKGNAME=a-1\nPKGPATH=a/b\nPKGTOOLS_VERSION=1\n";
        let goodrec = format!("{}SIZE_PKG=1\n\n", base);
        for (var, other) in [("FILE_SIZE", "SIZE_PKG=1\n"), ("SIZE_PKG", "")] {
            for bad in [" 1234", "1234 ", "\t7", "7\t", "-", "+", "1_000", "\u{a0}5", "5\u{a0}", " ", "0x10", "1e3", "12 34"] {
                let rec = format!("{}{}{}={}\n\n", base, other, var, bad);
                let s = format!("{}{}{}", goodrec, rec, goodrec);
                emit_stream(emit, &[s.as_bytes()]);
                let chunks: Vec<&[u8]> = s.as_bytes().chunks(7).collect();
                emit_stream(emit, &chunks);
            }
        }
    }
    // malformed streams: one bad entry at each position, every kind of fault
    let good = |rng: &mut Rng| -> String { format!("{}\n", entry_text(rng, false)) };
    let faults: Vec<Box<dyn Fn(&mut Rng) -> Vec<u8>>> = vec![
        Box::new(|_| b"garbage line\n\n".to_vec()),
        Box::new(|_| b"NOPE=1\n\n".to_vec()),
        Box::new(|_| b"BUILD_DATE=x\n\n".to_vec()), // incomplete
        Box::new(|rng| {
            let mut e = entry_text(rng, true).into_bytes();
            e.extend(b"FILE_SIZE=abc\n\n");
            e
        }),
        Box::new(|rng| {
            let mut e = entry_text(rng, true).into_bytes();
            let pos = rng.range(0, e.len() - 1);
            e.insert(pos, 0xff); // definitely invalid byte
            e.push(b'\n');
            e
        }),
        Box::new(|rng| {
            let mut e = entry_text(rng, true).into_bytes();
            let pos = rng.range(0, e.len() - 1);
            e.insert(pos, 0xc3); // lead byte followed by ASCII: invalid
            e.push(b'\n');
            e
        }),
        // a size that is not exactly a decimal integer: blanks around it, a bare sign
        Box::new(|rng| {
            let mut e = entry_text(rng, true).into_bytes();
            e.extend(*rng.pick::<&[u8]>(&[b"FILE_SIZE= 1234\n\n", b"FILE_SIZE=1234 \n\n", b"FILE_SIZE=\t7\n\n", b"FILE_SIZE=-\n\n", b"FILE_SIZE=+\n\n", b"FILE_SIZE=1_000\n\n"]));
            e
        }),
        Box::new(|_| b"\n".to_vec()), // an empty record: "\n\n\n"
    ];
    for (fi, f) in faults.iter().enumerate() {
        for pos in 0..3usize {
            let mut s: Vec<u8> = vec![];
            for _ in 0..pos {
                s.extend(good(rng).as_bytes());
            }
            s.extend(f(rng));
            if rng.chance(1, 2) {
                s.extend(good(rng).as_bytes());
            }
            if thorough || (fi + pos) % 2 == 0 {
                partitions(rng, &s, false, emit);
            } else {
                emit_stream(emit, &[&s]);
                for k in [1usize, 3, 7] {
                    let chunks: Vec<&[u8]> = s.chunks(k).collect();
                    emit_stream(emit, &chunks);
                }
            }
        }
    }
}

pub fn gen(id: &str, tier: &str, rng: &mut Rng, emit: &mut dyn FnMut(Op)) {
    match id {
        "C17" => {
            // mutations of every other generator's ops (and the ops themselves, sampled)
            let mut pool: Vec<Op> = vec![];
            for pid in ["C07", "C08", "C09"] {
                let mut sub = Rng::new(rng.next());
                let mut n = 0usize;
                gen(pid, "quick", &mut sub, &mut |op: Op| {
                    n += 1;
                    if n % 7 == 0 || pool.len() < 400 {
                        pool.push(op);
                    }
                });
            }
            // files are exercised by their own properties; C17 is about parsers and matchers
            pool.retain(|o| !matches!(o.name.as_str(), "distinfo.verify" | "entry.verify" | "pkgdb.iter"));
            let n = if tier == "thorough" { 60000 } else { 4000 };
            fuzz(&pool, n, rng, emit);
            // random Summary call sequences (all setters, pushers, then every getter)
            for _ in 0..(if tier == "thorough" { 5000 } else { 400 }) {
                let k = rng.range(0, 40);
                let mut calls: Vec<Vec<u8>> = vec![];
                for _ in 0..k {
                    let var = rng.below(23);
                    let v = rand_val(rng, var);
                    if KINDS[var] == 2 && rng.chance(1, 2) {
                        calls.push(call_push(var, &str_value(rng)));
                    } else {
                        calls.push(call_set(var, &v));
                    }
                }
                emit_ops(emit, &calls);
            }
        }
        "C07" => with_oracle_fuzz(tier, rng, emit, &gen_c07),
        "C08" => with_oracle_fuzz(tier, rng, emit, &gen_c08),
        "C09" => with_oracle_fuzz(tier, rng, emit, &gen_c09),
        _ => {
            eprintln!("sum: unknown property {}", id);
            std::process::exit(2);
        }
    }
}
