//! Cluster `sum`: pkg_summary entries and streams (properties C07, C08, C09).
use harness::*;
use pkgsrc::summary::{MissingVariable, Summary, SummaryError, SummaryStream};
use std::io::Write;
use std::str::FromStr;

mod gen;

pub const NAMES: [&str; 23] = [
    "BUILD_DATE", "CATEGORIES", "COMMENT", "CONFLICTS", "DEPENDS", "DESCRIPTION", "FILE_CKSUM",
    "FILE_NAME", "FILE_SIZE", "HOMEPAGE", "LICENSE", "MACHINE_ARCH", "OPSYS", "OS_VERSION",
    "PKG_OPTIONS", "PKGNAME", "PKGPATH", "PKGTOOLS_VERSION", "PREV_PKGPATH", "PROVIDES", "REQUIRES",
    "SIZE_PKG", "SUPERSEDES",
];
/// 0 = string, 1 = int, 2 = array
pub const KINDS: [u8; 23] = [0, 0, 0, 2, 2, 2, 0, 0, 1, 0, 0, 0, 0, 0, 0, 0, 0, 0, 0, 2, 2, 1, 2];

fn gs(o: Option<&str>) -> String {
    match o {
        Some(s) => format!("s{}", hex(s.as_bytes())),
        None => "-".into(),
    }
}
fn gi(o: Option<i64>) -> String {
    match o {
        Some(i) => format!("i{}", i),
        None => "-".into(),
    }
}
fn ga(o: Option<&[String]>) -> String {
    match o {
        Some(a) => format!("a:{}", a.iter().map(|s| hex(s.as_bytes())).collect::<Vec<_>>().join(",")),
        None => "-".into(),
    }
}

/// all 23 getters in enum order
fn getters(s: &Summary) -> String {
    [
        gs(s.build_date()),
        gs(s.categories()),
        gs(s.comment()),
        ga(s.conflicts()),
        ga(s.depends()),
        ga(s.description()),
        gs(s.file_cksum()),
        gs(s.file_name()),
        gi(s.file_size()),
        gs(s.homepage()),
        gs(s.license()),
        gs(s.machine_arch()),
        gs(s.opsys()),
        gs(s.os_version()),
        gs(s.pkg_options()),
        gs(s.pkgname()),
        gs(s.pkgpath()),
        gs(s.pkgtools_version()),
        gs(s.prev_pkgpath()),
        ga(s.provides()),
        ga(s.requires()),
        gi(s.size_pkg()),
        ga(s.supersedes()),
    ]
    .join(";")
}

fn parse_result(text: &str, full: bool) -> String {
    match Summary::from_str(text) {
        Ok(s) => {
            if full {
                format!("ok:{}|{}|{}", getters(&s), b(s.is_completed()), hex(s.to_string().as_bytes()))
            } else {
                format!("ok:{}", getters(&s))
            }
        }
        Err(SummaryError::ParseLine(l)) => format!("err:parseline:{}", hex(l.as_bytes())),
        Err(SummaryError::ParseVariable(k)) => format!("err:parsevar:{}", hex(k.as_bytes())),
        Err(SummaryError::ParseInt(_)) => "err:parseint".into(),
        Err(SummaryError::Incomplete(v)) => format!(
            "err:incomplete:{}",
            match v {
                MissingVariable::BuildDate => "BUILD_DATE",
                MissingVariable::Categories => "CATEGORIES",
                MissingVariable::Comment => "COMMENT",
                MissingVariable::Description => "DESCRIPTION",
                MissingVariable::MachineArch => "MACHINE_ARCH",
                MissingVariable::Opsys => "OPSYS",
                MissingVariable::OsVersion => "OS_VERSION",
                MissingVariable::Pkgname => "PKGNAME",
                MissingVariable::Pkgpath => "PKGPATH",
                MissingVariable::PkgtoolsVersion => "PKGTOOLS_VERSION",
                MissingVariable::SizePkg => "SIZE_PKG",
            }
        ),
        Err(SummaryError::Io(_)) => "err:io".into(),
    }
}

fn set_str(s: &mut Summary, var: usize, v: &str) {
    match var {
        0 => s.set_build_date(v),
        1 => s.set_categories(v),
        2 => s.set_comment(v),
        6 => s.set_file_cksum(v),
        7 => s.set_file_name(v),
        9 => s.set_homepage(v),
        10 => s.set_license(v),
        11 => s.set_machine_arch(v),
        12 => s.set_opsys(v),
        13 => s.set_os_version(v),
        14 => s.set_pkg_options(v),
        15 => s.set_pkgname(v),
        16 => s.set_pkgpath(v),
        17 => s.set_pkgtools_version(v),
        18 => s.set_prev_pkgpath(v),
        _ => {}
    }
}
fn set_int(s: &mut Summary, var: usize, v: i64) {
    match var {
        8 => s.set_file_size(v),
        21 => s.set_size_pkg(v),
        _ => {}
    }
}
fn set_arr(s: &mut Summary, var: usize, v: &[String]) {
    match var {
        3 => s.set_conflicts(v),
        4 => s.set_depends(v),
        5 => s.set_description(v),
        19 => s.set_provides(v),
        20 => s.set_requires(v),
        22 => s.set_supersedes(v),
        _ => {}
    }
}
fn push(s: &mut Summary, var: usize, v: &str) {
    match var {
        3 => s.push_conflicts(v),
        4 => s.push_depends(v),
        5 => s.push_description(v),
        19 => s.push_provides(v),
        20 => s.push_requires(v),
        22 => s.push_supersedes(v),
        _ => {}
    }
}

/// one call, encoded as bytes: [kind, var, payload..]
/// kind 0 = set string, 1 = set int (decimal text), 2 = set array (count byte, then
/// NUL-terminated strings), 3 = push string
fn apply_call(s: &mut Summary, call: &[u8]) -> Option<()> {
    let kind = *call.first()?;
    let var = *call.get(1)? as usize;
    let payload = &call[2..];
    match kind {
        0 => set_str(s, var, std::str::from_utf8(payload).ok()?),
        1 => set_int(s, var, std::str::from_utf8(payload).ok()?.parse().ok()?),
        2 => {
            let n = *payload.first()? as usize;
            let mut items = vec![];
            let mut rest = &payload[1..];
            for _ in 0..n {
                let end = rest.iter().position(|&c| c == 0)?;
                items.push(std::str::from_utf8(&rest[..end]).ok()?.to_string());
                rest = &rest[end + 1..];
            }
            set_arr(s, var, &items);
        }
        3 => push(s, var, std::str::from_utf8(payload).ok()?),
        4 => {
            // an observation in the middle of the history: print the entry and read every
            // getter, discard the results (what is printed LATER must not depend on it)
            let _ = s.to_string();
            let _ = getters(s);
            let _ = s.is_completed();
        }
        5 => {
            // the entry is replaced by a clone of itself: same values
            let c = s.clone();
            *s = c;
        }
        6 => {
            // moved out with mem::take (leaving `Summary::default()` behind) and moved back in
            let t = std::mem::take(s);
            let _ = (s.is_completed(), s.to_string().len());
            *s = t;
        }
        7 => {}    // constructor choice, handled by the caller (only meaningful as the first call)
        _ => return None,
    }
    Some(())
}

fn exec(op: &Op) -> String {
    match op.name.as_str() {
        "summary.parse" => {
            let Some(t) = op.str(0) else { return "BAD-UTF8".into() };
            parse_result(t, true)
        }
        "summary.ops" => {
            // kind 7 as the first call: the entry is `Summary::default()`, not `Summary::new()`
            let mut s = if op.args.first().and_then(|c| c.first()) == Some(&7u8) { Summary::default() } else { Summary::new() };
            for c in &op.args {
                if apply_call(&mut s, c).is_none() {
                    return "BAD-CALL".into();
                }
            }
            let text = s.to_string();
            // description_as_str() is the DESCRIPTION lines joined by newlines
            if s.description_as_str() != s.description().map(|d| d.join("\n")) {
                return "DESCRIPTION-AS-STR-DIFFERS".into();
            }
            format!(
                "{}|{}|{}|{}",
                getters(&s),
                b(s.is_completed()),
                hex(text.as_bytes()),
                parse_result(&text, false)
            )
        }
        "stream.write" => {
            let mut st = SummaryStream::new();
            let mut rs = vec![];
            for c in &op.args {
                let r = st.write(c);
                let n = st.entries().len();
                rs.push(match r {
                    Ok(k) => format!("ok{}/{}", k, n),
                    Err(e) if e.kind() == std::io::ErrorKind::InvalidData => format!("err/{}", n),
                    Err(_) => format!("errother/{}", n),
                });
            }
            // flush() has nothing to do and entries_mut() is the same list
            if std::io::Write::flush(&mut st).is_err() {
                return "FLUSH-FAILED".into();
            }
            if st.entries_mut().len() != st.entries().len() {
                return "ENTRIES-MUT-DIFFERS".into();
            }
            format!(
                "{}|{}|{}|{}",
                rs.join(","),
                st.entries().len(),
                st.entries().iter().map(|e| hex(e.to_string().as_bytes())).collect::<Vec<_>>().join(";"),
                hex(st.to_string().as_bytes())
            )
        }
        "stream.big" => {
            // arg: size in KiB.  A well-formed stream of that size is built here, written in ONE call
            // and again in 64 KiB pieces: both must take every byte and collect the same entries
            // (too large to send through the model: the harness compares the two runs itself)
            let Some(kib) = op.str(0).and_then(|s| s.parse::<usize>().ok()) else { return "BAD-ARG".into() };
            if kib > 8192 {
                return "BAD-ARG".into();
            }
            let rec = "BUILD_DATE=d\nCATEGORIES=c\nCOMMENT=caf\u{e9}\nDESCRIPTION=some text that makes the record a little longer\nMACHINE_ARCH=x\nOPSYS=x\nOS_VERSION=x\nPKGNAME=a-1\nPKGPATH=a/b\nPKGTOOLS_VERSION=1\nSIZE_PKG=1\n\n";
            let mut s = String::new();
            while s.len() < kib * 1024 {
                s.push_str(rec);
            }
            let want = s.len() / rec.len();
            let mut one = SummaryStream::new();
            let r1 = one.write(s.as_bytes());
            let mut many = SummaryStream::new();
            let mut ok_all = true;
            for c in s.as_bytes().chunks(65536) {
                match many.write(c) {
                    Ok(n) if n == c.len() => {}
                    _ => ok_all = false,
                }
            }
            let good = matches!(r1, Ok(n) if n == s.len()) && ok_all && one.entries().len() == want && many.entries().len() == want;
            if good { "ok".into() } else { format!("BIG-WRITE-DIFFERS:one={:?}/{} many={}/{} want={}", r1.ok(), one.entries().len(), ok_all, many.entries().len(), want) }
        }
        "utf8.scan" => match std::str::from_utf8(&op.args[0]) {
            Ok(_) => format!("{}:complete", op.args[0].len()),
            Err(e) => format!(
                "{}:{}",
                e.valid_up_to(),
                if e.error_len().is_some() { "invalid" } else { "incomplete" }
            ),
        },
        "str.lines" => {
            let Some(t) = op.str(0) else { return "BAD-UTF8".into() };
            t.lines().map(|l| hex(l.as_bytes())).collect::<Vec<_>>().join(",")
        }
        _ => "UNKNOWN-OP".into(),
    }
}

fn main() {
    main_with(&exec, &gen::gen);
}
