//! Shared plumbing of the correspondence harness: PRNG, hex, op lines, main loop.
//!
//! Every binary in src/bin/ implements `exec` (run one op against the real pkgsrc
//! code, in-process, under catch_unwind) and `gen` (produce the op stream for a
//! property / tier / seed).  Line protocol: `<op> <hexarg>* => <result>`.

use std::io::{BufRead, Write};
use std::panic;

/// splitmix64 — every random choice derives from one seed so a run replays exactly.
pub struct Rng(pub u64);

impl Rng {
    pub fn new(seed: u64) -> Rng {
        Rng(seed.wrapping_mul(0x9E3779B97F4A7C15) ^ 0xD1B54A32D192ED03)
    }
    pub fn next(&mut self) -> u64 {
        self.0 = self.0.wrapping_add(0x9E3779B97F4A7C15);
        let mut z = self.0;
        z = (z ^ (z >> 30)).wrapping_mul(0xBF58476D1CE4E5B9);
        z = (z ^ (z >> 27)).wrapping_mul(0x94D049BB133111EB);
        z ^ (z >> 31)
    }
    pub fn below(&mut self, n: usize) -> usize {
        if n == 0 {
            0
        } else {
            (self.next() % (n as u64)) as usize
        }
    }
    pub fn range(&mut self, lo: usize, hi: usize) -> usize {
        lo + self.below(hi - lo + 1)
    }
    pub fn chance(&mut self, num: usize, den: usize) -> bool {
        self.below(den) < num
    }
    pub fn pick<'a, T>(&mut self, v: &'a [T]) -> &'a T {
        &v[self.below(v.len())]
    }
    pub fn shuffle<T>(&mut self, v: &mut [T]) {
        for i in (1..v.len()).rev() {
            let j = self.below(i + 1);
            v.swap(i, j);
        }
    }
}

pub fn hex(b: &[u8]) -> String {
    if b.is_empty() {
        return "-".to_string();
    }
    let mut s = String::with_capacity(b.len() * 2);
    for x in b {
        s.push_str(&format!("{:02x}", x));
    }
    s
}

pub fn unhex(s: &str) -> Option<Vec<u8>> {
    if s == "-" {
        return Some(vec![]);
    }
    if s.len() % 2 != 0 {
        return None;
    }
    let b = s.as_bytes();
    let mut out = Vec::with_capacity(b.len() / 2);
    for i in (0..b.len()).step_by(2) {
        let h = (b[i] as char).to_digit(16)?;
        let l = (b[i + 1] as char).to_digit(16)?;
        if (b[i] as char).is_ascii_uppercase() || (b[i + 1] as char).is_ascii_uppercase() {
            return None;
        }
        out.push((h * 16 + l) as u8);
    }
    Some(out)
}

#[derive(Clone, Debug, PartialEq, Eq, Hash)]
pub struct Op {
    pub name: String,
    pub args: Vec<Vec<u8>>,
}

impl Op {
    pub fn new(name: &str, args: &[&[u8]]) -> Op {
        Op {
            name: name.to_string(),
            args: args.iter().map(|a| a.to_vec()).collect(),
        }
    }
    pub fn s(name: &str, args: &[&str]) -> Op {
        Op {
            name: name.to_string(),
            args: args.iter().map(|a| a.as_bytes().to_vec()).collect(),
        }
    }
    pub fn line(&self) -> String {
        let mut s = self.name.clone();
        for a in &self.args {
            s.push(' ');
            s.push_str(&hex(a));
        }
        s
    }
    pub fn parse(line: &str) -> Option<Op> {
        let lhs = line.split(" => ").next()?;
        let mut it = lhs.split(' ').filter(|w| !w.is_empty());
        let name = it.next()?.to_string();
        let mut args = vec![];
        for w in it {
            args.push(unhex(w)?);
        }
        Some(Op { name, args })
    }
    /// argument i as &str (ops on `&str` APIs are only generated with valid UTF-8)
    pub fn str(&self, i: usize) -> Option<&str> {
        self.args.get(i).and_then(|a| std::str::from_utf8(a).ok())
    }
}

pub fn b(v: bool) -> &'static str {
    if v {
        "1"
    } else {
        "0"
    }
}

pub fn ints(v: &[i64]) -> String {
    v.iter().map(|x| x.to_string()).collect::<Vec<_>>().join(",")
}

/// Run one op under catch_unwind; a panic is the canonical result `PANIC`.
pub fn guarded(exec: &dyn Fn(&Op) -> String, op: &Op) -> String {
    let r = panic::catch_unwind(panic::AssertUnwindSafe(|| exec(op)));
    match r {
        Ok(s) => s,
        Err(_) => "PANIC".to_string(),
    }
}

/// `gen <ID> <tier> <seed>` | `run` (ops on stdin)
pub fn main_with(
    exec: &dyn Fn(&Op) -> String,
    gen: &dyn Fn(&str, &str, &mut Rng, &mut dyn FnMut(Op)),
) {
    panic::set_hook(Box::new(|_| {}));
    let args: Vec<String> = std::env::args().collect();
    let stdout = std::io::stdout();
    let mut out = std::io::BufWriter::new(stdout.lock());
    match args.get(1).map(|s| s.as_str()) {
        Some("gen") => {
            let id = args.get(2).expect("gen <ID> <tier> <seed>").clone();
            let tier = args.get(3).cloned().unwrap_or("quick".into());
            let seed: u64 = args.get(4).and_then(|s| s.parse().ok()).unwrap_or(1);
            let mut rng = Rng::new(seed);
            let mut emit = |op: Op| {
                let r = guarded(exec, &op);
                writeln!(out, "{} => {}", op.line(), r).unwrap();
            };
            gen(&id, &tier, &mut rng, &mut emit);
        }
        Some("run") => {
            let stdin = std::io::stdin();
            for line in stdin.lock().lines() {
                let line = line.unwrap();
                let line = line.trim_end();
                if line.is_empty() || line.starts_with('#') {
                    continue;
                }
                match Op::parse(line) {
                    Some(op) => {
                        let r = guarded(exec, &op);
                        writeln!(out, "{} => {}", op.line(), r).unwrap();
                    }
                    None => {
                        writeln!(out, "{} => BAD-OP-LINE", line).unwrap();
                    }
                }
            }
        }
        _ => {
            eprintln!("usage: gen <ID> <tier> <seed> | run < ops");
            std::process::exit(2);
        }
    }
}
