//! Shared plumbing of the correspondence harness: PRNG, hex, op lines, main loop.
//!
//! Every binary in src/bin/ implements `exec` (run one op against the real pkgsrc
//! code, in-process, under catch_unwind) and `gen` (produce the op stream for a
//! property / tier / seed).  Line protocol: `<op> <hexarg>* => <result>`.

use std::io::{BufRead, Write};
use std::panic;

/// splitmix64 — every random choice derives from one seed so a run replays exactly.
pub struct Rng(pub u64);

impl Rng {
    pub fn new(seed: u64) -> Rng {
        Rng(seed.wrapping_mul(0x9E3779B97F4A7C15) ^ 0xD1B54A32D192ED03)
    }
    pub fn next(&mut self) -> u64 {
        self.0 = self.0.wrapping_add(0x9E3779B97F4A7C15);
        let mut z = self.0;
        z = (z ^ (z >> 30)).wrapping_mul(0xBF58476D1CE4E5B9);
        z = (z ^ (z >> 27)).wrapping_mul(0x94D049BB133111EB);
        z ^ (z >> 31)
    }
    pub fn below(&mut self, n: usize) -> usize {
        if n == 0 {
            0
        } else {
            (self.next() % (n as u64)) as usize
        }
    }
    pub fn range(&mut self, lo: usize, hi: usize) -> usize {
        lo + self.below(hi - lo + 1)
    }
    pub fn chance(&mut self, num: usize, den: usize) -> bool {
        self.below(den) < num
    }
    pub fn pick<'a, T>(&mut self, v: &'a [T]) -> &'a T {
        &v[self.below(v.len())]
    }
    pub fn shuffle<T>(&mut self, v: &mut [T]) {
        for i in (1..v.len()).rev() {
            let j = self.below(i + 1);
            v.swap(i, j);
        }
    }
}

pub fn hex(b: &[u8]) -> String {
    if b.is_empty() {
        return "-".to_string();
    }
    let mut s = String::with_capacity(b.len() * 2);
    for x in b {
        s.push_str(&format!("{:02x}", x));
    }
    s
}

pub fn unhex(s: &str) -> Option<Vec<u8>> {
    if s == "-" {
        return Some(vec![]);
    }
    if s.len() % 2 != 0 {
        return None;
    }
    let b = s.as_bytes();
    let mut out = Vec::with_capacity(b.len() / 2);
    for i in (0..b.len()).step_by(2) {
        let h = (b[i] as char).to_digit(16)?;
        let l = (b[i + 1] as char).to_digit(16)?;
        if (b[i] as char).is_ascii_uppercase() || (b[i + 1] as char).is_ascii_uppercase() {
            return None;
        }
        out.push((h * 16 + l) as u8);
    }
    Some(out)
}

#[derive(Clone, Debug, PartialEq, Eq, Hash)]
pub struct Op {
    pub name: String,
    pub args: Vec<Vec<u8>>,
}

impl Op {
    pub fn new(name: &str, args: &[&[u8]]) -> Op {
        Op {
            name: name.to_string(),
            args: args.iter().map(|a| a.to_vec()).collect(),
        }
    }
    pub fn s(name: &str, args: &[&str]) -> Op {
        Op {
            name: name.to_string(),
            args: args.iter().map(|a| a.as_bytes().to_vec()).collect(),
        }
    }
    pub fn line(&self) -> String {
        let mut s = self.name.clone();
        for a in &self.args {
            s.push(' ');
            s.push_str(&hex(a));
        }
        s
    }
    pub fn parse(line: &str) -> Option<Op> {
        let lhs = line.split(" => ").next()?;
        let mut it = lhs.split(' ').filter(|w| !w.is_empty());
        let name = it.next()?.to_string();
        let mut args = vec![];
        for w in it {
            args.push(unhex(w)?);
        }
        Some(Op { name, args })
    }
    /// argument i as &str (ops on `&str` APIs are only generated with valid UTF-8)
    pub fn str(&self, i: usize) -> Option<&str> {
        self.args.get(i).and_then(|a| std::str::from_utf8(a).ok())
    }
}

pub fn b(v: bool) -> &'static str {
    if v {
        "1"
    } else {
        "0"
    }
}

pub fn ints(v: &[i64]) -> String {
    v.iter().map(|x| x.to_string()).collect::<Vec<_>>().join(",")
}

/// Run one op under catch_unwind; a panic is the canonical result `PANIC`.
pub fn guarded(exec: &dyn Fn(&Op) -> String, op: &Op) -> String {
    let t0 = std::time::Instant::now();
    let r = panic::catch_unwind(panic::AssertUnwindSafe(|| exec(op)));
    let dt = t0.elapsed();
    if dt.as_millis() > 2000 {
        // "promptly": anything slower than 2 s on these small inputs is reported as a hang
        return format!("HANG:{}ms", dt.as_millis());
    }
    match r {
        Ok(s) => s,
        Err(_) => "PANIC".to_string(),
    }
}

/// Mutate one argument.  If the argument is valid UTF-8 the result stays valid UTF-8 with
/// probability ~3/4 (so that `&str` entry points are still reached), otherwise raw bytes.
pub fn mutate_arg(rng: &mut Rng, a: &[u8]) -> Vec<u8> {
    let specials: [&[u8]; 64] = [
        b"\xef\xbb\xbf", b".tgz", b".tar.gz", b"00000000000000000000", b"%F", b"%D", b"DEPENDS=", b"Size", b"SIZE", b"nb0", b"NB1",
        b"//", b"/./", b":", b"bytes", b"\n ", 
        b"", b"\0", b"\n", b"\r\n", b" ", b"\t", b"-", b"=", b":", b"/", b"..", b"{", b"}", b",", b"*", b"?", b"[", b"]",
        b"<", b">", b">=", b"99999999999999999999", b"nb", b"@",
        b"^", b"$", b"!", b"\\", b"#", b"(", b")", b"+", b"~", b"\x0b", b"\x0c", b"\r", b"pre", b"rc", b"alpha", b"pl",
        b"$NetBSD", b"PKGNAME=", b"../", b"./", b"\n\n", b"nb1", b"0", b"_",
    ];
    // words that mean something to SOME module of the library (or to pkgsrc tooling): wherever only
    // text is expected they must stay text
    let domain: [&[u8]; 44] = [
        b"IGNORE", b"ignore", b"none", b"NULL", b"$NetBSD$", b"$NetBSD: x,v 1.1 $", b"NetBSD", b"sha1 ", b"SHA1 ", b"BLAKE2S", b"md5",
        b"Size", b"bytes", b"@comment ", b"@ignore", b"@cwd /", b"+DESC", b"+CONTENTS", b"PKGNAME=", b"ALL_DEPENDS=", b"DESCRIPTION=",
        b"../../cat/pkg", b"cat/pkg", b":../../a/b", b"-[0-9]*", b">=1.0", b"<2", b"{a,b}", b"nb0", b"nb", b"pre", b"alpha", b".tgz",
        b".tbz", b".txz", b".tar.", b"patch-", b"emul-", b"\"", b"'", b"1048577", b"65536", b"4294967296", b"9223372036854775807",
    ];
    let high: [&[u8]; 8] = [b"\xff", b"\xc3", b"\xe2\x82", b"\x80", b"\xa0", b"\x85", b"\xc3\xa9", b"\xf0\x9f\x92\x96"];
    let as_str = std::str::from_utf8(a).ok();
    let keep_utf8 = as_str.is_some() && rng.chance(3, 4);
    // cut positions: char boundaries when keeping UTF-8
    let cuts: Vec<usize> = match (keep_utf8, as_str) {
        (true, Some(s)) => s.char_indices().map(|(i, _)| i).chain([s.len()]).collect(),
        _ => (0..=a.len()).collect(),
    };
    let pick_cut = |rng: &mut Rng| -> usize { cuts[rng.below(cuts.len())] };
    let mut out = a.to_vec();
    match rng.below(18) {
        16 => {
            // a domain word inserted somewhere, or at the very start / end
            let ins: &[u8] = *rng.pick::<&[u8]>(&domain);
            let c = match rng.below(3) { 0 => 0, 1 => out.len(), _ => pick_cut(rng) };
            out.splice(c..c, ins.iter().cloned());
        }
        17 => {
            // the whole argument replaced by a domain word (optionally followed by the old text)
            let ins: &[u8] = *rng.pick::<&[u8]>(&domain);
            let old = std::mem::take(&mut out);
            out.extend(ins);
            if rng.chance(1, 2) {
                out.extend(old);
            }
        }
        12 => {
            // something at the very start or the very end (prefix / suffix handling)
            let ins: &[u8] = *rng.pick::<&[u8]>(&[b"\xef\xbb\xbf", b" ", b"\n", b"\r\n", b"\t", b".tgz", b"/", b":", b"\0", b"-", b"\xc2\xa0", b"\xe3\x80\x80", b"@", b"="]);
            if rng.chance(1, 2) {
                out.splice(0..0, ins.iter().cloned());
            } else {
                out.extend(ins);
            }
        }
        13 => {
            // flip the case of one run of ASCII letters (keywords are matched exactly or not)
            let c = pick_cut(rng);
            let mut i = c;
            while i < out.len() && !out[i].is_ascii_alphabetic() {
                i += 1;
            }
            let upper = rng.chance(1, 2);
            let one = rng.chance(1, 3);
            while i < out.len() && out[i].is_ascii_alphabetic() {
                out[i] = if upper { out[i].to_ascii_uppercase() } else { out[i].to_ascii_lowercase() };
                i += 1;
                if one {
                    break;
                }
            }
        }
        14 => {
            // leading zeros in front of a digit run: the value is unchanged, the length is not
            let c = pick_cut(rng);
            let mut i = c;
            while i < out.len() && !out[i].is_ascii_digit() {
                i += 1;
            }
            if i < out.len() {
                let n = *rng.pick(&[1usize, 2, 18, 19, 20, 40]);
                out.splice(i..i, std::iter::repeat(b'0').take(n));
            }
        }
        15 => {
            // repeat one "word" (up to the next blank / separator) right after itself
            let c = pick_cut(rng);
            let mut j = c;
            while j < out.len() && !b" \t\n=:,/-".contains(&out[j]) {
                j += 1;
            }
            if keep_utf8 && std::str::from_utf8(&out[c..j]).is_err() {
                j = c;
            }
            let w = out[c..j].to_vec();
            out.splice(j..j, w);
        }
        0 => {
            let c = pick_cut(rng);
            out.truncate(c);
        }
        1 => {
            let c = pick_cut(rng);
            out = a[c..].to_vec();
        }
        2 => {
            // duplicate a chunk
            let (x, y) = (pick_cut(rng), pick_cut(rng));
            let (lo, hi) = (x.min(y), x.max(y));
            let chunk = a[lo..hi].to_vec();
            out.splice(hi..hi, chunk);
        }
        3 => {
            // splice: swap two halves
            let c = pick_cut(rng);
            out = [&a[c..], &a[..c]].concat();
        }
        4 | 5 => {
            let c = pick_cut(rng);
            let ins: &[u8] = *rng.pick::<&[u8]>(&specials);
            out.splice(c..c, ins.iter().cloned());
        }
        6 => {
            let c = pick_cut(rng);
            if keep_utf8 {
                let ins: &str = *rng.pick::<&str>(&["é€𐀀\u{212A}\u{a0}", "\u{212A}", "\u{130}", "\u{17F}", "\u{85}", "\u{2003}", "é", "\u{3000}"]);
                out.splice(c..c, ins.as_bytes().iter().cloned());
            } else {
                let ins: &[u8] = *rng.pick::<&[u8]>(&high);
                out.splice(c..c, ins.iter().cloned());
            }
        }
        7 => {
            // delete a chunk
            let (x, y) = (pick_cut(rng), pick_cut(rng));
            let (lo, hi) = (x.min(y), x.max(y));
            out.drain(lo..hi);
        }
        8 => {
            // a very long run
            let c = pick_cut(rng);
            let ch = *rng.pick(&[b'a', b'9', b' ', b'-', b'\n', b'=']);
            let n = *rng.pick(&[100usize, 1000, 8000]);
            out.splice(c..c, std::iter::repeat(ch).take(n));
        }
        9 => {
            // random printable noise
            let n = rng.range(0, 20);
            out = (0..n).map(|_| *rng.pick(b"ab-1.{}<>=*?[]:/ @\n+_nb")).collect();
        }
        10 => {
            let n = rng.range(0, 12);
            out = (0..n).map(|_| rng.next() as u8).collect();
        }
        _ => {
            // digits blown up
            let digits: Vec<u8> = (0..rng.range(19, 40)).map(|_| b'0' + rng.below(10) as u8).collect();
            let c = pick_cut(rng);
            out.splice(c..c, digits);
        }
    }
    out
}

/// Run a property's own generator and append mutations of a sample of its ops ("oracle fuzz"):
/// the property's oracle judges whatever it can of the mutated inputs (out-of-domain ones are
/// `na`), which widens the input space far beyond what the hand-written families cover.
pub fn with_oracle_fuzz(
    tier: &str,
    rng: &mut Rng,
    emit: &mut dyn FnMut(Op),
    g: &dyn Fn(&str, &mut Rng, &mut dyn FnMut(Op)),
) {
    let mut pool: Vec<Op> = vec![];
    let mut k = 0usize;
    g(tier, rng, &mut |op: Op| {
        k += 1;
        if k % 5 == 0 || pool.len() < 300 {
            pool.push(op.clone());
        }
        emit(op);
    });
    // ops whose extra arguments are derived from the data (reference hashes) or that build
    // directory trees are not mutated
    pool.retain(|o| !matches!(o.name.as_str(), "distinfo.verify" | "entry.verify" | "pkgdb.iter"));
    let n = if tier == "thorough" { 15000 } else { 1500 };
    fuzz(&pool, n, rng, emit);
}

/// Fuzz stream for C17: mutations of the ops of every other generator of the cluster.
/// Inherently exponential inputs are capped (brace groups, glob stars, total size).
pub fn fuzz(pool: &[Op], n: usize, rng: &mut Rng, emit: &mut dyn FnMut(Op)) {
    if pool.is_empty() {
        return;
    }
    let mut made = 0;
    let mut tries = 0;
    while made < n && tries < n * 4 {
        tries += 1;
        let mut op = pool[rng.below(pool.len())].clone();
        if op.args.is_empty() {
            continue;
        }
        // arguments that are protocol control words (algorithm index, mode, read schedule,
        // fault offset, metadata entry index) are left alone: only DATA is fuzzed
        let data_args: Vec<usize> = match op.name.as_str() {
            "digest.hash" => vec![3],
            "scanindex.read" => vec![0],
            "metadata.read" => (0..op.args.len()).filter(|i| i % 2 == 1).collect(),
            "metadata.name" => vec![],
            // encoded component vectors for the comparison hook: protocol, not data
            "dewey.rawcmp" => vec![],
            "distinfo.verify" => vec![0, 1, 2],
            // the bracketing program of a reduction is a control word
            "pattern.reduce" => (0..op.args.len()).filter(|i| *i != 1).collect(),
            _ => (0..op.args.len()).collect(),
        };
        if data_args.is_empty() {
            continue;
        }
        if rng.chance(1, 16) {
            // the whole argument wrapped in a matching pair of quotes / brackets
            let i = data_args[rng.below(data_args.len())];
            let (l, r): (&[u8], &[u8]) = *rng.pick(&[(&b"'"[..], &b"'"[..]), (b"\"", b"\""), (b"(", b")"), (b"[", b"]"), (b"<", b">"), (b"`", b"`"), (b" ", b" "), (b"{", b"}")]);
            let mut v = l.to_vec();
            v.extend(&op.args[i]);
            v.extend(r);
            op.args[i] = v;
        }
        if data_args.len() >= 2 && rng.chance(1, 12) {
            // one argument becomes a copy of another (a name spelled like the pattern, a path equal
            // to the recorded name, ...), optionally followed by an ordinary mutation
            let i = data_args[rng.below(data_args.len())];
            let j = data_args[rng.below(data_args.len())];
            if i != j {
                op.args[i] = op.args[j].clone();
            }
        }
        for _ in 0..rng.range(1, 3) {
            let i = data_args[rng.below(data_args.len())];
            op.args[i] = mutate_arg(rng, &op.args[i]);
        }
        let total: usize = op.args.iter().map(|a| a.len()).sum();
        let braces = op.args.iter().map(|a| a.iter().filter(|c| **c == b'{').count()).max().unwrap_or(0);
        let commas = op.args.iter().map(|a| a.iter().filter(|c| **c == b',').count()).max().unwrap_or(0);
        let stars = op.args.iter().map(|a| a.iter().filter(|c| **c == b'*').count()).max().unwrap_or(0);
        if total > 150_000 || braces > 10 || (braces > 0 && commas > 40) || stars > 8 {
            continue;
        }
        emit(op);
        made += 1;
    }
}

/// `gen <ID> <tier> <seed>` | `run` (ops on stdin)
pub fn main_with(
    exec: &dyn Fn(&Op) -> String,
    gen: &dyn Fn(&str, &str, &mut Rng, &mut dyn FnMut(Op)),
) {
    panic::set_hook(Box::new(|_| {}));
    let args: Vec<String> = std::env::args().collect();
    let stdout = std::io::stdout();
    let mut out = std::io::BufWriter::new(stdout.lock());
    match args.get(1).map(|s| s.as_str()) {
        Some("gen") => {
            let id = args.get(2).expect("gen <ID> <tier> <seed>").clone();
            let tier = args.get(3).cloned().unwrap_or("quick".into());
            let seed: u64 = args.get(4).and_then(|s| s.parse().ok()).unwrap_or(1);
            let mut rng = Rng::new(seed);
            let mut emit = |op: Op| {
                let r = guarded(exec, &op);
                writeln!(out, "{} => {}", op.line(), r).unwrap();
            };
            gen(&id, &tier, &mut rng, &mut emit);
        }
        Some("ops") => {
            // the op stream only, nothing executed: the caller runs it through `run`, where a
            // process that dies or never returns costs one op, not the whole stream
            let id = args.get(2).expect("ops <ID> <tier> <seed>").clone();
            let tier = args.get(3).cloned().unwrap_or("quick".into());
            let seed: u64 = args.get(4).and_then(|s| s.parse().ok()).unwrap_or(1);
            let mut rng = Rng::new(seed);
            let mut emit = |op: Op| {
                writeln!(out, "{}", op.line()).unwrap();
            };
            gen(&id, &tier, &mut rng, &mut emit);
        }
        Some("run") => {
            let stdin = std::io::stdin();
            for line in stdin.lock().lines() {
                let line = line.unwrap();
                let line = line.trim_end();
                if line.is_empty() || line.starts_with('#') {
                    continue;
                }
                match Op::parse(line) {
                    Some(op) => {
                        let r = guarded(exec, &op);
                        writeln!(out, "{} => {}", op.line(), r).unwrap();
                    }
                    None => {
                        writeln!(out, "{} => BAD-OP-LINE", line).unwrap();
                    }
                }
                // one line per op, delivered at once: the parent sees which op a process that
                // dies or never returns was working on
                out.flush().unwrap();
            }
        }
        _ => {
            eprintln!("usage: gen <ID> <tier> <seed> | run < ops");
            std::process::exit(2);
        }
    }
}
