import PkgsrcVerif.Driver.Dig

def main (args : List String) : IO Unit := do
  let prop := args.headD "none"
  let stdin ← IO.getStdin
  let stdout ← IO.getStdout
  Proto.loop stdin stdout (DriverDig.handler prop)
