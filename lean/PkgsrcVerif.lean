-- root of the library: everything `lake build` (setup) compiles
import PkgsrcVerif.Props.C01
import PkgsrcVerif.Props.C02
import PkgsrcVerif.Props.C03
import PkgsrcVerif.Props.C04
import PkgsrcVerif.Props.C05
import PkgsrcVerif.Props.C06
import PkgsrcVerif.Props.C07
import PkgsrcVerif.Props.C08
import PkgsrcVerif.Props.C09
import PkgsrcVerif.Props.C14
import PkgsrcVerif.Props.C15
import PkgsrcVerif.Props.C18
import PkgsrcVerif.Props.C19
import PkgsrcVerif.Driver.Pat
import PkgsrcVerif.Driver.Sum
import PkgsrcVerif.Driver.Plist
