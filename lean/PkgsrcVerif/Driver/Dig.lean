/-
Driver/Dig.lean — line-protocol handler for cluster `dig` (C13).  The six standard
algorithms are the Lean reference implementations of Spec/Hashes.lean (written from
RFC 1321, RFC 3174, FIPS 180-4, the RIPEMD-160 paper, RFC 7693; self-tested there
with #guard on the published vectors).
-/
import PkgsrcVerif.Driver.Proto
import PkgsrcVerif.Model.Digest
import PkgsrcVerif.Spec.Hashes
import PkgsrcVerif.Spec.DigestRef
open Proto M

namespace DriverDig

/-- a lawful streaming hasher built from a whole-message reference function -/
def refHasher (f : Bytes → Bytes) : Hasher :=
  { State := Bytes, init := [], update := fun s b => s ++ b, final := f }

def reference := S.reference

def bstr (x : Bytes) : String := String.ofList (x.map fun c => Char.ofNat c.toNat)

/-- turn a schedule and the data into the reader's event list -/
def events (sched : List String) (data : Bytes) : List ReadEvent :=
  let rec go (fuel : Nat) (sched : List String) (data : Bytes) : List ReadEvent :=
    match fuel with
    | 0 => []
    | fuel + 1 =>
      match sched with
      | [] => if data.isEmpty then [.eof] else [.data data, .eof]
      | "i" :: rest => .interrupted :: go fuel rest data
      | n :: rest =>
        if n.startsWith "e" then [.error] else
        let k := Nat.max 1 (n.toNat?.getD 0)
        if data.isEmpty then [.eof] else .data (data.take k) :: go fuel rest (data.drop k)
  go (sched.length + data.length + 2) sched data

/-- hash_patch over a reader: BufReader absorbs the chunking, Interrupted is retried; a hard
    error before EOF is returned as an error -/
def hashPatchEvents (H : Hasher) (evs : List ReadEvent) : Option Bytes :=
  if evs.contains .error then none
  else some (hashPatch H (evs.flatMap fun | .data b => b | _ => []))

def filterPatch := S.filterPatch

def model (op : String) (args : List Bytes) : Option String := do
  match op with
  | "digest.hash" =>
    let i ← (← args[0]?) |> bstr |>.toNat?
    let d ← Digest.all[i]?
    let mode ← args[1]?
    let sched ← args[2]?
    let data ← args[3]?
    let sl := if sched.isEmpty then [] else (bstr sched).splitOn ","
    let H := refHasher (reference d)
    let evs := events sl data
    let r := if mode == [102] then hashFile H H.init evs
      else if mode == [112] then hashPatchEvents H evs
      else some (hashStr H data)
    pure (match r with | some h => bstr h | none => "err")
  | "digest.name" =>
    let s ← args[0]?
    pure (match Digest.ofName s with
      | some d => s!"{Digest.all.idxOf d}:{d.name}"
      | none => "none")
  | _ => none

def oracleC13 (op : String) (args : List Bytes) (impl : String) : String × String :=
  match op with
  | "digest.hash" =>
    match args with
    | [a, mode, sched, data] =>
      match (bstr a).toNat?.bind (Digest.all[·]?) with
      | none => ("na", "")
      | some d =>
        let sl := if sched.isEmpty then [] else (bstr sched).splitOn ","
        -- does a hard error occur before the data is exhausted and EOF is seen?
        let evs := events sl data
        let hasErr := evs.contains .error
        let content := if mode == [112] then filterPatch data else data
        let exp := if hasErr then "err" else bstr (hexLower (reference d content))
        let reads := sl.length
        let nt := if data.length ≥ 64 && (reads ≥ 3 || sl.contains "i" || hasErr) then "nt" else ""
        if impl == exp then ("ok", nt) else (s!"fail:standard-digest={exp}", nt)
    | _ => ("na", "")
  | "digest.name" =>
    match args[0]? with
    | some s =>
      -- case-insensitive over the six canonical spellings; prints canonically
      let canon := ["BLAKE2s", "MD5", "RMD160", "SHA1", "SHA256", "SHA512"]
      let str := (String.fromUTF8? s.toByteArray).getD ""
      let lowered := str.toLower
      -- Unicode lower-casing beyond ASCII: only U+212A (Kelvin) maps to an ASCII letter
      let lowered := lowered.replace "K" "k"
      let exp := match canon.findIdx? (fun c => c.toLower == lowered) with
        | some i => s!"{i}:{canon[i]!}"
        | none => "none"
      if impl == exp then ("ok", if exp != "none" && !canon.contains str then "nt" else "") else (s!"fail:name-table={exp}", "")
    | none => ("na", "")
  | _ => ("na", "")

def handler (prop : String) : Handler := fun op args impl =>
  match model op args with
  | none => none
  | some m =>
    let (o, t) := match prop with
      | "C13" => oracleC13 op args impl
      | "C17" => oracleC17 args impl
      | _ => ("na", "")
    some (m, o, t)

end DriverDig
