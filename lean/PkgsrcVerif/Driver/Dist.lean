/-
Driver/Dist.lean — line-protocol handlers for cluster `dist` (C10, C11, C12).
-/
import PkgsrcVerif.Driver.Proto
import PkgsrcVerif.Model.Distinfo
import PkgsrcVerif.Spec.Distinfo
import PkgsrcVerif.Spec.DigestRef
open Proto M

namespace DriverDist

def b (v : Bool) : String := if v then "1" else "0"
def bstr (x : Bytes) : String := String.ofList (x.map fun c => Char.ofNat c.toNat)

def showType : EntryType → String | .distfile => "D" | .patchfile => "P"

def showEntry (e : Entry) : String :=
  s!"{hexEncode e.filename}/{showType e.filetype}/{match e.size with | some n => toString n | none => "-"}/{",".intercalate (e.checksums.map fun c => c.1.name ++ "=" ++ hexEncode c.2)}"

def dump (d : Distinfo) : String :=
  s!"rcsid={match d.rcsid with | some s => "+" ++ hexEncode s | none => "-"}|D[{";".intercalate (d.distfiles.map fun kv => showEntry kv.2)}]|P[{";".intercalate (d.patchfiles.map fun kv => showEntry kv.2)}]"

def showLine : Line → String
  | .rcsId s => "rcsid:" ++ hexEncode s
  | .size p n => s!"size:{hexEncode p}:{n}"
  | .checksum d p h => s!"checksum:{d.name}:{hexEncode p}:{hexEncode h}"
  | .none => "none"

def splitNul (p : Bytes) : List Bytes := splitOn (0 : UInt8) p

inductive Call
  | rcsid (s : Bytes)
  | insert (e : Entry)

def decodePairs : List Bytes → Option (List (Digest × Bytes))
  | [] => some []
  | n :: h :: rest => do
    let d ← Digest.ofName n
    if !isUtf8' h then none
    let r ← decodePairs rest
    pure ((d, h) :: r)
  | _ => none

def decodeCall (c : Bytes) : Option Call :=
  match c with
  | 0 :: payload => some (.rcsid payload)
  | 1 :: payload =>
    match splitNul payload with
    | name :: sz :: pairs => do
      let size ← if sz == [45] then some none else (parseU64? (sz.map fun x => Char.ofNat x.toNat)).map some
      let sums ← decodePairs pairs
      pure (.insert (entryNew name [] sums size))
    | _ => none
  | 2 :: payload =>
    -- Entry::new with a FILEPATH (where the file was hashed from): it is carried along, the
    -- entry is classified and keyed by its distinfo NAME
    match splitNul payload with
    | name :: fp :: sz :: pairs => do
      let size ← if sz == [45] then some none else (parseU64? (sz.map fun x => Char.ofNat x.toNat)).map some
      let sums ← decodePairs pairs
      pure (.insert (entryNew name fp sums size))
    | _ => none
  | _ => none

def applyCalls (calls : List Call) : Distinfo × String :=
  calls.foldl (fun (acc : Distinfo × String) c =>
    match c with
    | .rcsid s => ({ acc.1 with rcsid := some s }, acc.2)
    | .insert e => let (d, r) := acc.1.insert e; (d, acc.2 ++ b r)) ({}, "")

def showVErr : VErr → String
  | .notFound => "err:notfound"
  | .io => "err:io"
  | .size e a => s!"err:size:{e}:{a}"
  | .missingSize => "err:missingsize"
  | .checksum _ e a => s!"err:checksum:{hexEncode e}:{hexEncode a}"
  | .missingChecksum _ => "err:missing"

def parseHashes (x : Bytes) : List Bytes := splitOn (44 : UInt8) x

/-- protocol of `entry.verify`: an optional 7th argument lists (as digits) the digests whose
    recorded hash is replaced by the empty string through the entry's public fields -/
def blankSums (blank : Option Bytes) (cs : List (Digest × Bytes)) : List (Digest × Bytes) :=
  match blank with
  | none => cs
  | some bl => cs.map fun c => if bl.contains (48 + (Digest.all.idxOf c.1).toUInt8) then (c.1, []) else c

def model (op : String) (args : List Bytes) : Option String := do
  match op with
  | "distinfo.line" => let x ← args[0]?; pure (showLine (lineFromBytesNl x))
  | "distinfo.parse" => let x ← args[0]?; pure (dump (distinfoFromBytes x))
  | "distinfo.roundtrip" => let x ← args[0]?; pure (hexEncode (distinfoFromBytes x).asBytes)
  | "distinfo.build" =>
    let calls ← args.mapM decodeCall
    let (d, rets) := applyCalls calls
    let out := d.asBytes
    let ents := (d.distfiles ++ d.patchfiles).map fun kv => hexEncode kv.2.asBytes
    pure s!"{rets}|{dump d}|{hexEncode out}|{dump (distinfoFromBytes out)}|{";".intercalate ents}"
  | "entrytype" => let x ← args[0]?; pure (showType (entryType x))
  | "distinfo.find" =>
    let x ← args[0]?; let p ← args[1]?
    match findEntry (distinfoFromBytes x) p with
    | some e => pure ("found:" ++ showEntry e)
    | none => pure "err:notfound"
  | "distinfo.verify" =>
    let x ← args[0]?; let p ← args[1]?; let content ← args[2]?; let ex ← args[3]?
    let plain ← args[4]?; let patch ← args[5]?
    let d := distinfoFromBytes x
    let full := ascii "f/" ++ p
    let fileExists := ex == [49]
    let hp := parseHashes plain
    let hq := parseHashes patch
    let idx (dg : Digest) : Nat := Digest.all.idxOf dg
    let hashOf (dg : Digest) (pm : Bool) : Option Bytes :=
      if !fileExists then none else (if pm then hq else hp)[idx dg]?
    let flen : Option Nat := if fileExists then some content.length else none
    let ent := findEntry d full
    let size := match ent with
      | none => "err:notfound"
      | some e => match e.verifySize flen with | .ok n => s!"ok:{n}" | .error er => showVErr er
    let sums := Digest.all.map fun dg => match ent with
      | none => "err:notfound"
      | some e => match e.verifyChecksum hashOf dg with | .ok _ => "ok" | .error er => showVErr er
    let all := match ent with
      | none => ["err:notfound"]
      | some e => e.checksums.map fun c => match e.verifyChecksum hashOf c.1 with
        | .ok dg => "ok:" ++ dg.name | .error er => showVErr er
    let pm := entryType full == .patchfile
    let calcs := Digest.all.map fun dg => match hashOf dg pm with | some h => bstr h | none => "err"
    let csize := match flen with | some n => toString n | none => "err"
    pure s!"size={size}|sums={",".intercalate sums}|all={",".intercalate all}|calc={",".intercalate calcs}|csize={csize}"
  | "entry.verify" =>
    let x ← args[0]?; let en ← args[1]?; let _fn ← args[2]?; let content ← args[3]?
    let plain ← args[4]?; let patch ← args[5]?
    let d := distinfoFromBytes x
    let hp := parseHashes plain
    let hq := parseHashes patch
    let hashOf (dg : Digest) (pm : Bool) : Option Bytes := (if pm then hq else hp)[Digest.all.idxOf dg]?
    match (d.distfiles.get en).orElse (fun _ => d.patchfiles.get en) with
    | none => pure "noentry"
    | some e0 =>
      let e := { e0 with checksums := blankSums (args[6]?) e0.checksums }
      let size := match e.verifySize (some content.length) with | .ok n => s!"ok:{n}" | .error er => showVErr er
      let sums := Digest.all.map fun dg =>
        match e.verifyChecksum hashOf dg with | .ok _ => "ok" | .error er => showVErr er
      let all := e.checksums.map fun c => match e.verifyChecksum hashOf c.1 with
        | .ok dg => "ok:" ++ dg.name | .error er => showVErr er
      pure s!"size={size}|sums={",".intercalate sums}|all={",".intercalate all}"
  | _ => none

/-! ### oracles -/

def showGroup (g : S.Group) : String :=
  s!"{hexEncode g.name}/{showType g.kind}/{match g.size with | some n => toString n | none => "-"}/{",".intercalate (g.sums.map fun c => c.1.name ++ "=" ++ hexEncode c.2)}"

def specDump (r : Option Bytes × List S.Group) : String :=
  let ds := r.2.filter (·.kind == .distfile)
  let ps := r.2.filter (·.kind == .patchfile)
  s!"rcsid={match r.1 with | some s => "+" ++ hexEncode s | none => "-"}|D[{";".intercalate (ds.map showGroup)}]|P[{";".intercalate (ps.map showGroup)}]"

def highByte (x : Bytes) : Bool := x.any (· ≥ 128)

def oracleC10 (op : String) (args : List Bytes) (impl : String) : String × String :=
  match op with
  | "distinfo.roundtrip" =>
    match args[0]? with
    | none => ("na", "")
    | some f =>
      if !S.canonicalDistinfo f then ("na", "not-canonical")
      else
        let groups := (S.distinfoDocument f).2
        let nt := if groups.length ≥ 2 && highByte f then "nt" else ""
        if impl == hexEncode f then ("ok", nt) else ("fail:canonical-file-does-not-round-trip", nt)
  | "distinfo.build" =>
    match args.mapM decodeCall with
    | none => ("na", "bad-call")
    | some calls =>
      -- Writable: rcsid absent or '$NetBSD: ' without '\n'; every inserted entry has a checksum or a
      -- size; patch entries have no size; names/hashes clean; distinct files
      -- the ASSEMBLED value: inserting a name that is already there replaces that entry in place
      -- (and `insert` returns false); the last `set_rcsid` wins
      let inserted := calls.filterMap fun | .insert e => some e | _ => none
      let (ents, news) := inserted.foldl (fun (acc : List Entry × List Bool) e =>
        if acc.1.any (fun x => S.sameFile x.filename e.filename) then
          (acc.1.map (fun x => if S.sameFile x.filename e.filename then e else x), acc.2 ++ [false])
        else (acc.1 ++ [e], acc.2 ++ [true])) ([], [])
      let rc := (calls.filterMap fun | .rcsid s => some s | _ => none).getLast?.toList
      let names := ents.map (·.filename)
      let writable := rc.all (fun s => (ascii "$NetBSD: ").isPrefixOf s && !s.contains 10) &&
        ents.all (fun e => (!e.checksums.isEmpty || e.size.isSome) &&
          (S.entryType e.filename == .distfile || e.size.isNone) && S.cleanName e.filename &&
          e.checksums.all fun c => S.cleanHash c.2)
      let nt := if ents.length ≥ 2 && names.any highByte then "nt" else ""
      if !writable then ("na", "not-writable")
      else
        match impl.splitOn "|" with
        | rets :: rest =>
          -- rest = dump(d) (3 parts), hex, dump(reparsed) (3 parts), entries
          match rest with
          | [r1, d1, p1, _, r2, d2, p2, _] =>
            if rets != String.join (news.map fun x => if x then "1" else "0") then
              ("fail:insert-return-value-is-not-whether-the-file-was-new", nt)
            else if r1 == r2 && d1 == d2 && p1 == p2 then ("ok", nt)
            else ("fail:write-then-parse-differs-from-the-assembled-value", nt)
          | _ => ("fail:malformed-result", nt)
        | _ => ("fail:malformed-result", nt)
  | "entrytype" =>
    match args[0]? with
    | some p => if impl == showType (S.entryType p) then ("ok", "") else ("fail:classification", "")
    | none => ("na", "")
  | _ => ("na", "")

def oracleC11 (op : String) (args : List Bytes) (impl : String) : String × String :=
  match op with
  | "entrytype" =>
    match args[0]? with
    | some p =>
      let exp := showType (S.entryType p)
      if impl == exp then ("ok", "nt") else (s!"fail:classification={exp}", "nt")
    | none => ("na", "")
  | "distinfo.line" =>
    match args[0]? with
    | some l =>
      if l.contains 10 then ("na", "multi-line") else
      let exp := match S.recognise l with
        | none => "none"
        | some (.rcsid s) => "rcsid:" ++ hexEncode s
        | some (.size n v) => s!"size:{hexEncode n}:{v}"
        | some (.sum d n h) => s!"checksum:{d.name}:{hexEncode n}:{hexEncode h}"
      if impl == exp then ("ok", if highByte l then "nt" else "") else (s!"fail:recognised-line={exp}", "")
    | none => ("na", "")
  | "distinfo.parse" =>
    match args[0]? with
    | some f =>
      let r := S.distinfoDocument f
      let exp := specDump r
      let lines := splitNl' f
      let recs := lines.map S.recognise
      -- non-trivial: >= 2 files and an ignored line between two lines of the same file
      let files := r.2.length
      let ignoredBetween := (recs.zip (recs.drop 1)).any fun (a, c) => a.isSome && c.isNone
      let nt := if files ≥ 2 && ignoredBetween then "nt" else ""
      if impl == exp then ("ok", nt) else (s!"fail:grouping={exp}", nt)
    | none => ("na", "")
  | _ => ("na", "")

def oracleC12 (op : String) (args : List Bytes) (impl : String) : String × String :=
  match op with
  | "distinfo.find" =>
    match args[0]?, args[1]? with
    | some f, some p =>
      let groups := (S.distinfoDocument f).2
      let exp := match S.find groups p with
        | some g => "found:" ++ showGroup g
        | none => "err:notfound"
      let cands := (S.trailing p).filter fun t => groups.any fun g => bcomps g.name == t
      let nt := if cands.length ≥ 2 then "nt" else ""
      if impl == exp then ("ok", nt) else (s!"fail:shortest-trailing-sub-path={exp}", nt)
    | _, _ => ("na", "")
  | "distinfo.verify" =>
    match args with
    | [f, p, content, ex, plain, patch] =>
      let groups := (S.distinfoDocument f).2
      let full := ascii "f/" ++ p
      let fileExists := ex == [49]
      if !fileExists then ("na", "file-absent") else
      let hp := parseHashes plain
      let hq := parseHashes patch
      let g := S.find groups full
      let isPatch := S.entryType full == .patchfile
      let digestOf (dg : Digest) (pm : Bool) : Bytes := ((if pm then hq else hp)[Digest.all.idxOf dg]?).getD []
      -- the digests themselves are not taken on trust from the implementation: for every
      -- algorithm the found entry records, the standard digest of the (patch-filtered) content
      -- is recomputed with the Lean reference implementation
      let refBad : Bool := match g with
        | none => false
        | some (g : S.Group) => g.sums.any fun (c : Digest × Bytes) =>
            digestOf c.1 (g.kind == EntryType.patchfile) != S.fileDigest c.1 (g.kind == EntryType.patchfile) content
      if refBad then ("fail:digest-of-the-file-is-not-the-standard-digest-of-its-content", "nt") else
      let expSize := match g with
        | none => "err:notfound"
        | some g => match g.size with
          | none => "err:missingsize"
          | some n => if n == content.length then s!"ok:{n}" else s!"err:size:{n}:{content.length}"
      let expSums := Digest.all.map fun dg => match g with
        | none => "err:notfound"
        | some g => match g.sums.find? (fun c => c.1 == dg) with
          | none => "err:missing"
          | some c =>
            let act := digestOf dg (g.kind == .patchfile)
            if c.2 == act then "ok" else s!"err:checksum:{hexEncode c.2}:{hexEncode act}"
      let expCalc := Digest.all.map fun dg => bstr (digestOf dg isPatch)
      let parts := impl.splitOn "|"
      let get (k : String) : String := ((parts.find? (·.startsWith (k ++ "="))).map (·.drop (k.length + 1)) |>.map toString).getD "?"
      let corrupt := expSums.any (·.startsWith "err:checksum") || expSize.startsWith "err:size"
      let nt := if corrupt then "nt" else ""
      if get "size" != expSize then (s!"fail:size-verification={expSize}", nt)
      else if get "sums" != ",".intercalate expSums then (s!"fail:checksum-verification={",".intercalate expSums}", nt)
      else if get "calc" != ",".intercalate expCalc then ("fail:calculate_checksum-mode", nt)
      else if get "csize" != toString content.length then ("fail:calculate_size", nt)
      else ("ok", nt)
    | _ => ("na", "")
  | "entry.verify" =>
    -- Entry-level API: the file on disk may be named differently from the entry; what is
    -- hashed is decided by the ENTRY's kind, never by the name of the file that is checked
    match args with
    | f :: en :: fname :: content :: plain :: patch :: more =>
      let groups := ((S.distinfoDocument f).2).map fun g => { g with sums := blankSums more.head? g.sums }
      let hp := parseHashes plain
      let hq := parseHashes patch
      let digestOf (dg : Digest) (pm : Bool) : Bytes := ((if pm then hq else hp)[Digest.all.idxOf dg]?).getD []
      match groups.find? (fun g => g.name == en) with
      | none => if impl == "noentry" then ("ok", "") else ("na", "entry-spelled-differently")
      | some g =>
        let expSize := match g.size with
          | none => "err:missingsize"
          | some n => if n == content.length then s!"ok:{n}" else s!"err:size:{n}:{content.length}"
        let expSums := Digest.all.map fun dg => match g.sums.find? (fun c => c.1 == dg) with
          | none => "err:missing"
          | some c =>
            let act := digestOf dg (g.kind == .patchfile)
            if c.2 == act then "ok" else s!"err:checksum:{hexEncode c.2}:{hexEncode act}"
        let refBad : Bool := g.sums.any fun (c : Digest × Bytes) =>
          digestOf c.1 (g.kind == EntryType.patchfile) != S.fileDigest c.1 (g.kind == EntryType.patchfile) content
        if refBad then ("fail:digest-of-the-file-is-not-the-standard-digest-of-its-content", "nt") else
        let parts := impl.splitOn "|"
        let get (k : String) : String := ((parts.find? (·.startsWith (k ++ "="))).map (·.drop (k.length + 1)) |>.map toString).getD "?"
        let renamed := (S.entryType fname == .patchfile) != (g.kind == .patchfile) && !g.sums.isEmpty
        let nt := if renamed then "nt" else ""
        if get "size" != expSize then (s!"fail:entry-size-verification={expSize}", nt)
        else if get "sums" != ",".intercalate expSums then (s!"fail:entry-checksum-verification={",".intercalate expSums}", nt)
        else ("ok", nt)
    | _ => ("na", "")
  | _ => ("na", "")

def handler (prop : String) : Handler := fun op args impl =>
  match model op args with
  | none => none
  | some m =>
    let (o, t) := match prop with
      | "C10" => oracleC10 op args impl
      | "C11" => oracleC11 op args impl
      | "C12" => oracleC12 op args impl
      | "C17" => oracleC17 args impl
      | _ => ("na", "")
    some (m, o, t)

end DriverDist
