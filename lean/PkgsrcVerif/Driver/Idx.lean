/-
Driver/Idx.lean — line-protocol handlers for cluster `idx` (C16, C20).
-/
import PkgsrcVerif.Driver.Proto
import PkgsrcVerif.Model.PkgDB
import PkgsrcVerif.Spec.ScanIndex
import PkgsrcVerif.Spec.DeweyPat
open Proto M

namespace DriverIdx

def b (v : Bool) : String := if v then "1" else "0"
def hexS (s : Str) : String := hexOfStr s
def opt (o : Option Str) : String := match o with | some s => "+" ++ hexS s | none => "-"
def pp (p : PkgPath) : String := s!"{hexS p.short}:{hexS p.full}"

def showIndex (i : ScanIndex) : String :=
  s!"name={hexS i.pkgname.pkgname}/{hexS i.pkgname.pkgbase}/{hexS i.pkgname.pkgversion}|loc={match i.pkgLocation with | some p => "+" ++ pp p | none => "-"}|alldep={",".intercalate (i.allDepends.map fun d => hexS d.pattern.pattern ++ ":" ++ pp d.pkgpath)}|skip={opt i.pkgSkipReason}|fail={opt i.pkgFailReason}|nobin={opt i.noBinOnFtp}|restr={opt i.restricted}|cat={opt i.categories}|maint={opt i.maintainer}|destdir={opt i.useDestdir}|boot={opt i.bootstrapPkg}|ug={opt i.usergroupPhase}|scandep={",".intercalate (i.scanDepends.map hexS)}|weight={opt i.pbulkWeight}|multi={",".intercalate (i.multiVersion.map hexS)}|deps=0"

def showResult (r : Option (List ScanIndex)) : String :=
  match r with
  | none => "err"
  | some l => "ok:" ++ ";;".intercalate (l.map showIndex)

def ov (o : Option (List Str)) : String :=
  match o with | some v => "+[" ++ ",".intercalate (v.map hexS) ++ "]" | none => "-"
def oi (o : Option Int) : String := match o with | some i => s!"+{i}" | none => "-"

def showMetadata (m : Metadata) : String :=
  s!"bi={ov m.buildInfo}|bv={ov m.buildVersion}|comment={hexS m.comment}|contents={hexS m.contents}|deinstall={opt m.deinstall}|desc={hexS m.desc}|display={opt m.display}|install={opt m.install}|ii={ov m.installedInfo}|mtree={ov m.mtreeDirs}|preserve={ov m.preserve}|reqby={ov m.requiredBy}|sizeall={oi m.sizeAll}|sizepkg={oi m.sizePkg}|valid={b m.isValid}"

def toStr? (x : Bytes) : Option Str := bytesToStr? x
def toString? (x : Bytes) : Option String := String.fromUTF8? x.toByteArray

def decodeNode (a : Bytes) : Option (Bytes × Node) :=
  match a with
  | kind :: rest =>
    let parts := splitOn (0 : UInt8) rest
    match parts with
    | name :: kvs =>
      if kind == 102 || kind == 108 then some (name, .file)   -- 'f' plain file; 'l' dangling symbolic link: neither is a package directory
      else
        let rec pairs : List Bytes → List (String × Bytes)
          | k :: v :: more => (match toString? k with | some s => (s, v) :: pairs more | none => pairs more)
          | _ => []
        some (name, .dir (pairs kvs))
    | [] => none
  | [] => none

/-- protocol: the content `01 44` stands for "this entry is a directory" — it exists, but
    `read_to_string` on it fails -/
def isDirMarker (c : Bytes) : Bool := c == [1, 68]

def showRead (o : Option Bytes) : String :=
  match o with
  | some c => if isDirMarker c then "err" else if (utf8 c).2 == .complete then "+" ++ hexEncode c else "err"
  | none => "err"

def showItem (o : Option Package) : String :=
  match o with
  | none => "err"
  | some p => s!"ok:{hexS p.pkgname}:{hexS p.pkgbase}:{hexS p.pkgversion}:{showRead (p.readMetadata .comment)}:{showRead (p.readMetadata .sizePkg)}"

/-- insertion sort on strings (the harness sorts the items, readdir order is not modelled) -/
def sortStrings (l : List String) : List String :=
  l.foldl (fun acc s =>
    let (lo, hi) := acc.span (· < s)
    lo ++ s :: hi) []

def model (op : String) (args : List Bytes) : Option String := do
  match op with
  | "scanindex.read" =>
    let x ← args[0]?
    let f ← args[1]?
    -- an error injected at an offset < len is reached before EOF; at offset >= len never
    let failAt : Option Nat := if f == [45] then none else (String.ofList (f.map fun c => Char.ofNat c.toNat)).toNat?
    let io := match failAt with | some k => k < x.length || k == x.length | none => false
    pure (showResult (fromReader x io))
  | "metadata.name" =>
    let i ← (← args[0]?) |> toString? |>.bind String.toNat?
    let e ← MEntry.all[i]?
    let f := e.toFilename
    pure s!"{hexEncode f.toUTF8.toList}|{match MEntry.fromFilename f with | some e2 => toString (MEntry.all.idxOf e2) | none => "none"}"
  | "metadata.from" =>
    let s ← (← args[0]?) |> toString?
    pure (match MEntry.fromFilename s with | some e => toString (MEntry.all.idxOf e) | none => "none")
  | "metadata.read" =>
    -- a rejected value is reported (its position) and leaves the object unchanged; the calls go on
    let rec go (m : Metadata) (idx : Nat) (errs : List Nat) : List Bytes → Option (Metadata × List Nat)
      | k :: v :: rest => do
        let i ← (toString? k).bind String.toNat?
        let e ← MEntry.all[i]?
        let vs ← toStr? v
        match m.read e vs with
        | none => go m (idx + 1) (errs ++ [idx]) rest
        | some m' => go m' (idx + 1) errs rest
      | _ => some (m, errs)
    let (m, errs) ← go {} 0 [] args
    let es := if errs.isEmpty then "-" else ",".intercalate (errs.map toString)
    pure s!"e={es}|{showMetadata m}"
  | "pkgdb.iter" =>
    let nodes ← args.mapM decodeNode
    pure (";".intercalate (sortStrings ((pkgdbIter nodes).map showItem)))
  | _ => none

/-! ### oracles -/

def specRecord (blk : List Str) : Option String := do
  -- a block must carry PKGNAME; ALL_DEPENDS items and PKG_LOCATION must be valid
  let name ← S.scalar blk "PKGNAME"
  let deps ← (S.items blk "ALL_DEPENDS").mapM fun s => match dependNew s with | .ok d => some d | .error _ => none
  let loc ← match S.scalar blk "PKG_LOCATION" with
    | none => some none
    | some v => (pkgPathNew v).map some
  let n := pkgNameNew name
  pure s!"name={hexS n.pkgname}/{hexS n.pkgbase}/{hexS n.pkgversion}|loc={match loc with | some p => "+" ++ pp p | none => "-"}|alldep={",".intercalate (deps.map fun d => hexS d.pattern.pattern ++ ":" ++ pp d.pkgpath)}|skip={opt (S.scalar blk "PKG_SKIP_REASON")}|fail={opt (S.scalar blk "PKG_FAIL_REASON")}|nobin={opt (S.scalar blk "NO_BIN_ON_FTP")}|restr={opt (S.scalar blk "RESTRICTED")}|cat={opt (S.scalar blk "CATEGORIES")}|maint={opt (S.scalar blk "MAINTAINER")}|destdir={opt (S.scalar blk "USE_DESTDIR")}|boot={opt (S.scalar blk "BOOTSTRAP_PKG")}|ug={opt (S.scalar blk "USERGROUP_PHASE")}|scandep={",".intercalate ((S.items blk "SCAN_DEPENDS").map hexS)}|weight={opt (S.scalar blk "PBULK_WEIGHT")}|multi={",".intercalate ((S.items blk "MULTI_VERSION").map hexS)}|deps=0"

def oracleC16 (op : String) (args : List Bytes) (impl : String) : String × String :=
  match op, args[0]?, args[1]? with
  | "scanindex.read", some x, some f =>
    let io := f != [45]
    match readerLines x with
    | none => if impl == "err" then ("ok", "nt") else ("fail:invalid-utf8-must-fail-the-read", "nt")
    | some ls =>
      let blks := S.blocks ls
      let recs := blks.map specRecord
      let exp := if recs.all (·.isSome) then "ok:" ++ ";;".intercalate (recs.filterMap id) else "err"
      -- non-trivial: >= 2 records where a key is present in one and absent in its neighbour
      let keysOf (blk : List Str) : List Str := blk.filterMap fun l => if l.contains '=' then some (trim (l.takeWhile (· != '='))) else none
      let ks := blks.map keysOf
      let nt := if (ks.zip (ks.drop 1)).any (fun (a, c) => a.any fun k => !c.contains k) || exp == "err" || io then "nt" else ""
      if io then
        -- an I/O error before EOF: the read fails as a whole (an error exactly at EOF is never reached)
        let failAt := (String.ofList (f.map fun c => Char.ofNat c.toNat)).toNat?.getD 0
        if failAt ≤ x.length then (if impl == "err" then ("ok", nt) else ("fail:io-error-swallowed", nt))
        else if impl == exp then ("ok", nt) else (s!"fail:records={exp}", nt)
      else if impl == exp then ("ok", nt) else (s!"fail:records={exp}", nt)
  | _, _, _ => ("na", "")

def oracleC20 (op : String) (args : List Bytes) (impl : String) : String × String :=
  match op with
  | "metadata.name" =>
    -- bijection: from_filename(to_filename(e)) = e, names start with '+', pairwise distinct
    match impl.splitOn "|" with
    | [nameHex, back] =>
      let i := ((args[0]?).bind toString? |>.bind String.toNat?).getD 99
      if back != toString i then ("fail:from_filename(to_filename(e))!=e", "nt")
      else if !nameHex.startsWith "2b" then ("fail:file-name-must-start-with-plus", "nt")
      else ("ok", "nt")
    | _ => ("fail:malformed-result", "")
  | "metadata.from" =>
    match (args[0]?).bind toString? with
    | some s =>
      let known := ["+BUILD_INFO", "+BUILD_VERSION", "+COMMENT", "+CONTENTS", "+DEINSTALL", "+DESC", "+DISPLAY",
        "+INSTALL", "+INSTALLED_INFO", "+MTREE_DIRS", "+PRESERVE", "+REQUIRED_BY", "+SIZE_ALL", "+SIZE_PKG"]
      let exp := match known.idxOf? s with | some i => toString i | none => "none"
      if impl == exp then ("ok", "") else (s!"fail:from_filename={exp}", "")
    | none => ("na", "")
  | "metadata.read" =>
    -- is_valid iff comment, contents and description are all non-empty (read off the implementation's own dump)
    if impl == "PANIC" then ("fail:panic", "nt")
    else
      let parts := impl.splitOn "|"
      let get (k : String) : String := ((parts.find? (·.startsWith (k ++ "="))).map (·.drop (k.length + 1)) |>.map toString).getD "?"
      let nonEmpty := get "comment" != "-" && get "contents" != "-" && get "desc" != "-"
      if get "valid" == b nonEmpty then ("ok", if nonEmpty then "nt" else "") else ("fail:is_valid", "nt")
  | "pkgdb.iter" =>
    match args.mapM decodeNode with
    | none => ("na", "")
    | some nodes =>
      -- exactly the sub-directories holding +COMMENT, +CONTENTS and +DESC, each once, split at the last '-'
      let want := nodes.filterMap fun (name, node) =>
        match node with
        | .file => none
        | .dir fs =>
          if ["+COMMENT", "+CONTENTS", "+DESC"].all (fun f => fs.any (·.1 == f)) then
            match toStr? name with
            | none => some "err"
            | some p =>
              let (base, ver) := match S.splitLastDash p with | some bv => bv | none => (p, [])
              let rd (f : String) : String := match fs.find? (·.1 == f) with
                | some (_, c) => if isDirMarker c then "err" else if (utf8 c).2 == .complete then "+" ++ hexEncode c else "err"
                | none => "err"
              some s!"ok:{hexS p}:{hexS base}:{hexS ver}:{rd "+COMMENT"}:{rd "+SIZE_PKG"}"
          else none
      let exp := ";".intercalate (sortStrings want)
      let incomplete := nodes.any fun (_, node) => match node with | .dir fs => !(["+COMMENT", "+CONTENTS", "+DESC"].all fun f => fs.any (·.1 == f)) | .file => false
      let multiDash := nodes.any fun (name, _) => name.count 45 ≥ 2
      let nt := if incomplete && multiDash then "nt" else ""
      if impl == exp then ("ok", nt) else (s!"fail:listing={exp}", nt)
  | _ => ("na", "")

def handler (prop : String) : Handler := fun op args impl =>
  match model op args with
  | none => none
  | some m =>
    let (o, t) := match prop with
      | "C16" => oracleC16 op args impl
      | "C20" => oracleC20 op args impl
      | "C17" => oracleC17 args impl
      | _ => ("na", "")
    some (m, o, t)

end DriverIdx
