/-
Driver/Pat.lean — line-protocol handlers for cluster `pat`
(dewey, pattern, pkgname, pkgpath, depend; properties C01–C06, C18, C19).
For every op: the MODEL's result in the harness' canonical format, and — depending
on the property being checked — the ORACLE's verdict on the IMPLEMENTATION's result.
-/
import PkgsrcVerif.Driver.Proto
import PkgsrcVerif.Model.Pattern
import PkgsrcVerif.Model.DeweyIdx
import PkgsrcVerif.Spec.Dewey
import PkgsrcVerif.Spec.DeweyPat
import PkgsrcVerif.Spec.Brace
import PkgsrcVerif.Spec.Glob
import PkgsrcVerif.Spec.Best
open Proto M

namespace DriverPat

def b (v : Bool) : String := if v then "1" else "0"
def ops4 : List Op := [.gt, .ge, .lt, .le]
def opName : Op → String
  | .gt => "gt" | .ge => "ge" | .lt => "lt" | .le => "le"

def hexS (s : Str) : String := hexOfStr s

def showDV (d : DV) : String := s!"{showInts d.version};{d.rev}"

def parseParts (s : String) : Option (List Int × Int) :=
  match s.splitOn ";" with
  | [v, r] => do
    let vs ← parseInts? v
    let rr ← parseInt? r
    pure (vs, rr)
  | _ => none

def bits (f : Op → Bool) : String := String.join (ops4.map fun o => b (f o))

def showDeweyErr : DeweyErr → String
  | .noOps => "noops:0"
  | .order p => s!"order:{p}"
  | .tooMany p => s!"toomany:{p}"

def showGlobErr : GlobErr → String
  | .wildcards p => s!"w:{p}"
  | .recursive p => s!"r:{p}"
  | .range p => s!"g:{p}"

def kindName : Kind → String
  | .alternate => "alternate" | .dewey => "dewey" | .glob => "glob" | .simple => "simple"

def patternNewStr (p : Str) : String :=
  match patternNew p with
  | .ok pat => s!"ok:{kindName pat.kind}"
  | .error .alternate => "err:alternate"
  | .error (.dewey e) => s!"err:dewey:{showDeweyErr e}"
  | .error (.glob e) => s!"err:glob:{showGlobErr e}"

def matchStr (p n : Str) : String :=
  match patternNew p with
  | .ok pat => b (patternMatches pat n)
  | .error _ => "err"

def vcmpApi (w v : Str) : String :=
  String.join <| [">", ">=", "<", "<="].map fun o =>
    match matchStr (['p'] ++ o.toList ++ v) (['p', '-'] ++ w) with
    | "err" => "e"
    | r => r

def showComp : Comp UInt8 → String
  | .root => "R" | .cur => "C" | .parent => "P"
  | .normal n => "N" ++ hexEncode n

def showCompC : Comp Char → String
  | .root => "R" | .cur => "C" | .parent => "P"
  | .normal n => "N" ++ hexS n

def showOptHex (o : Option Str) : String :=
  match o with
  | some x => "some" ++ hexS x
  | none => "none"

def pkgPathStr (s : Str) : String :=
  match pkgPathNew s with
  | none => "err"
  | some p =>
    let re (t : Str) : String := match pkgPathNew t with
      | some q => b (q.eqv p)
      | none => "e"
    s!"ok:{hexS p.short}:{hexS p.full}|{",".intercalate ((pcomps p.short).map showCompC)}|{",".intercalate ((pcomps p.full).map showCompC)}|{re p.short}{re p.full}"

def dependStr (s : Str) : String :=
  match dependNew s with
  | .error .invalid => "err:invalid"
  | .error (.pattern _) => "err:pattern"
  | .error .pkgpath => "err:pkgpath"
  | .ok d => s!"ok:{hexS d.pattern.pattern}:{kindName d.pattern.kind}:{hexS d.pkgpath.short}:{hexS d.pkgpath.full}|11"

/-- `pattern.reduce`: the harness' stack machine over the model's best_match -/
def reduce (pat : Pattern) (prog : List UInt8) (cands : Array Str) : Option (Option Str) :=
  let step (st : Option (List (Option Str))) (c : UInt8) : Option (List (Option Str)) :=
    match st with
    | none => none
    | some st =>
      if c == 'm'.toNat.toUInt8 then
        match st with
        | y :: x :: rest =>
          let r := match x, y with
            | some x, some y => bestMatch pat x y
            | some x, none => if patternMatches pat x then some x else none
            | none, some y => if patternMatches pat y then some y else none
            | none, none => none
          some (r :: rest)
        | _ => none
      else
        let i := c.toNat - '0'.toNat
        match cands[i]? with
        | some n => some ((if patternMatches pat n then some n else none) :: st)
        | none => none
  match prog.foldl step (some []) with
  | some (r :: _) => some r
  | _ => none

def showBest (o : Option Str) : String :=
  match o with
  | some s => "some:" ++ hexS s
  | none => "none"

/-- the model's result for an op; `none` = unknown op / undecodable argument -/
def model (op : String) (args : List (List UInt8)) : Option String := do
  let strs := args.map bytesToStr?
  let a (i : Nat) : Option Str := (strs[i]?).join
  match op with
  | "dewey.comps" =>
    -- evaluated through the BYTE-INDEXED model (C17_dewey_tokeniser_index_safe proves it equal to
    -- `deweyVersion`); the UTF-8 length/encoding model it rests on is checked against the bytes
    -- the implementation actually received
    let s ← a 0
    let raw := (args[0]?).getD []
    if encode s != raw.map (·.toNat) || bytesLen s != raw.length then pure "UTF8-MODEL-MISMATCH"
    else
      match tokensIdx s (bytesLen s + 1) 0 with
      | none => pure "PANIC"
      | some ts => pure (showDV { version := ts.flatMap Tok.comps, rev := lastRev ts 0 })
  | "dewey.rawcmp" =>
    let l ← (← a 0) |> String.ofList |> parseParts
    let r ← (← a 1) |> String.ofList |> parseParts
    pure (bits fun o => cmpVec o l.2 r.2 l.1 r.1)
  | "dewey.vcmp" =>
    let w ← a 0; let v ← a 1
    pure (bits fun o => deweyCmp (deweyVersion w) o (deweyVersion v))
  | "api.vcmp" => let w ← a 0; let v ← a 1; pure (vcmpApi w v)
  | "api.laws" =>
    let x ← a 0; let y ← a 1; let z ← a 2
    let vs := [x, y, z]
    let m := String.join (vs.flatMap fun l => vs.map fun r => vcmpApi l r)
    let two := String.join <| [(">=", "<"), (">", "<="), (">", "<"), (">=", "<=")].map fun (o1, o2) =>
      let both := patternNew (['p'] ++ o1.toList ++ x ++ o2.toList ++ y)
      let h1 := patternNew (['p'] ++ o1.toList ++ x)
      let h2 := patternNew (['p'] ++ o2.toList ++ y)
      let n := ['p', '-'] ++ z
      match both, h1, h2 with
      | .ok bp, .ok p1, .ok p2 => b (patternMatches bp n) ++ b (patternMatches p1 n) ++ b (patternMatches p2 n)
      | _, _, _ => "eee"
    pure (m ++ "|" ++ two)
  | "dewey.new" =>
    let p ← a 0
    match deweyNew p with
    | .ok d =>
      pure ("ok:" ++ hexS d.pkgname ++ String.join (d.matches_.map fun (o, v) => s!"|{opName o}:{showDV v}"))
    | .error e => pure ("err:" ++ showDeweyErr e)
  | "dewey.match" =>
    let p ← a 0; let n ← a 1
    match deweyNew p with
    | .ok d => pure (b (deweyMatches d n))
    | .error _ => pure "err"
  | "pattern.new" => let p ← a 0; pure (patternNewStr p)
  | "pattern.match" => let p ← a 0; let n ← a 1; pure (matchStr p n)
  | "pattern.quick" => let p ← a 0; let n ← a 1; pure (b (quickPkgMatch p n))
  | "pattern.alt" => let p ← a 0; let n ← a 1; pure (b (altMatch p n))
  | "pattern.best" =>
    let p ← a 0; let n1 ← a 1; let n2 ← a 2
    match patternNew p with
    | .ok pat => pure (showBest (bestMatch pat n1 n2))
    | .error _ => pure "err"
  | "pattern.reduce" =>
    let p ← a 0
    let prog ← args[1]?
    let cands ← (strs.drop 2).mapM id
    match patternNew p with
    | .error _ => pure "err"
    | .ok pat =>
      match reduce pat prog cands.toArray with
      | some r => pure (showBest r)
      | none => pure "BAD-PROG"
  | "glob.new" =>
    let p ← a 0
    match globNew p with
    | .ok _ => pure "ok"
    | .error e => pure ("err:" ++ showGlobErr e)
  | "glob.match" =>
    let p ← a 0; let n ← a 1
    match globNew p with
    | .ok g => pure (b (globMatches g n))
    | .error _ => pure "err"
  | "pkgname.new" =>
    let s ← a 0
    let n := pkgNameNew s
    let r := match n.pkgrevision with | some r => toString r | none => "none"
    pure s!"{hexS n.pkgname}:{hexS n.pkgbase}:{hexS n.pkgversion}:{r}"
  | "pkgname.dewey" =>
    let s ← a 0
    let n := pkgNameNew s
    let r := match n.pkgrevision with | some r => toString r | none => "none"
    pure s!"{r}:{(deweyVersion n.pkgversion).rev}"
  | "summary.pkgsplit" =>
    let s ← a 0
    pure s!"{showOptHex (summaryPkgbase s)}:{showOptHex (summaryPkgversion s)}"
  | "pkgpath.new" => let s ← a 0; pure (pkgPathStr s)
  | "pkgpath.eq" =>
    let x ← a 0; let y ← a 1
    match pkgPathNew x, pkgPathNew y with
    | some p, some q => pure (b (p.eqv q))
    | _, _ => pure "err"
  | "depend.new" => let s ← a 0; pure (dependStr s)
  | "path.comps" =>
    let p ← args[0]?
    let cs := components (47 : UInt8) (46 : UInt8) p
    let fn := match fileName (47 : UInt8) (46 : UInt8) p with
      | some n => "some" ++ hexEncode n
      | none => "none"
    pure s!"{",".intercalate (cs.map showComp)}|{fn}"
  | _ => none

/-! ### oracles: the property's own words, applied to the implementation's result -/

def hasAny (s : Str) (cs : String) : Bool := s.any (fun c => cs.toList.contains c)

/-- a version text that can be written after `p<op>` in a pattern and after `p-` in a name
    without changing how either is split (the precondition of the `api.*` ops) -/
def apiOkW (w : Str) : Bool := !(w.any fun c => c == '-' || c == '<' || c == '>' || c == '{' || c == '}')
def apiOkV (v : Str) : Bool := apiOkW v && v.head? != some '='

/-- C01 on `dewey.vcmp` / `api.vcmp`: the rule's verdicts -/
def oracleC01 (op : String) (a : Nat → Option Str) (impl mdl : String) : String × String :=
  match op with
  | "dewey.comps" =>
    match a 0 with
    | some s =>
      if !S.InDomain s then ("na", "out-of-domain")
      else
        let v := S.version s
        let exp := s!"{showInts (S.encode v.1)};{v.2}"
        let nt := if v.1.any (fun c => c.2 || c.1 < 0) || v.2 != 0 then "nt" else ""
        if impl == exp then ("ok", nt) else (s!"fail:rule-components={exp}", nt)
    | none => ("na", "")
  | "dewey.rawcmp" =>
    match (a 0).bind (fun s => parseParts (String.ofList s)), (a 1).bind (fun s => parseParts (String.ofList s)) with
    | some l, some r =>
      let exp := bits fun o => S.testOrd (S.padCmp l.2 r.2 l.1 r.1) o
      let nt := if l.1 != r.1 && l.1.length != r.1.length then "nt" else ""
      if impl == exp then ("ok", nt) else (s!"fail:padded-lex={exp}", nt)
    | _, _ => ("na", "")
  | "dewey.vcmp" | "api.vcmp" =>
    match a 0, a 1 with
    | some w, some v =>
      if op == "api.vcmp" && !(apiOkW w && apiOkV v) then ("na", "not-expressible-through-the-api")
      else if !(S.InDomain w && S.InDomain v) then ("na", "out-of-domain")
      else
        let exp := bits fun o => S.verdict w o v
        let vw := S.version w
        let vv := S.version v
        let differ := vw != vv
        let special := (vw.1 ++ vv.1).any (fun c => c.2 || c.1 < 0) || vw.1.length != vv.1.length
          || vw.2 != 0 || vv.2 != 0
        let nt := if differ && special then "nt" else ""
        if impl == exp then ("ok", nt)
        else if !S.LetterAligned w v && impl == mdl then ("known:F3", nt)
        else (s!"fail:rule-verdicts={exp}", nt)
    | _, _ => ("na", "")
  | "dewey.match" | "pattern.match" =>
    -- "a pattern bound against a package's version": for a brace-free comparison pattern the
    -- answer is  base = PKGBASE  and every bound holds UNDER THE RULE for the text after the
    -- name's last '-'
    match a 0, a 1 with
    | some p, some n =>
      if hasAny p "{}" || !hasAny p "<>" then ("na", "not-a-comparison-pattern")
      else
        match S.parsePattern p, S.splitLastDash n with
        | .ok (base, bs), some (pre, ver) =>
          if pre != base then ("na", "other-base")
          else if !(S.InDomain ver && bs.all fun (_, bd) => S.InDomain bd) then ("na", "out-of-domain")
          else
            let exp := b (bs.all fun (o, bd) => S.verdict ver o bd)
            let nt := if bs.length == 2 then "nt" else ""
            if impl == exp then ("ok", nt)
            else if !(bs.all fun (_, bd) => S.LetterAligned ver bd) && impl == mdl then ("known:F3", nt)
            else (s!"fail:rule-verdict-of-the-bounds={exp}", nt)
        | _, _ => ("na", "")
    | _, _ => ("na", "")
  | _ => ("na", "")

def nthBits (s : String) (k : Nat) : List Char := (s.toList.drop (4 * k)).take 4


/-- C03 on `api.laws`: relations between the implementation's own verdicts -/
def oracleC03 (op : String) (a : Nat → Option Str) (impl : String) : String × String :=
  match op with
  | "api.laws" =>
    if !([a 0, a 1, a 2].all fun x => match x with | some v => apiOkV v | none => false) then ("na", "not-expressible-through-the-api") else
    match impl.splitOn "|" with
    | [m, two] =>
      if m.length != 36 || m.toList.contains 'e' || two.toList.contains 'e' then ("fail:compile-error-in-laws", "")
      else
        let v (i j : Nat) : List Bool := (nthBits m (3 * i + j)).map (· == '1')
        let gt (i j) := (v i j).getD 0 false
        let ge (i j) := (v i j).getD 1 false
        let lt (i j) := (v i j).getD 2 false
        let le (i j) := (v i j).getD 3 false
        let idx := [0, 1, 2]
        let pairs := idx.flatMap fun i => idx.map fun j => (i, j)
        let tri := pairs.all fun (i, j) =>
          ([lt i j, gt i j, le i j && ge i j].filter id).length == 1
        let dual := pairs.all fun (i, j) => le i j == !gt i j && ge i j == !lt i j
        let refl := idx.all fun i => le i i && ge i i
        let swap := pairs.all fun (i, j) => lt i j == gt j i && le i j == ge j i
        let trans := idx.all fun i => idx.all fun j => idx.all fun k =>
          !(le i j && le j k) || le i k
        let tb := two.toList.map (· == '1')
        let rec chk : List Bool → Bool
          | both :: h1 :: h2 :: rest => (both == (h1 && h2)) && chk rest
          | [] => true
          | _ => false
        let twoOk := chk tb
        let fails := (if tri then [] else ["trichotomy"]) ++ (if dual then [] else ["duality"]) ++
          (if refl then [] else ["reflexivity"]) ++ (if swap then [] else ["swap"]) ++
          (if trans then [] else ["transitivity"]) ++ (if twoOk then [] else ["two-bounds"])
        let nt := match a 0, a 1, a 2 with
          | some x, some y, some z =>
            let dx := deweyVersion x; let dy := deweyVersion y; let dz := deweyVersion z
            if dx != dy && dy != dz && dx != dz &&
              (dx.version.length != dy.version.length || dy.version.length != dz.version.length) then "nt" else ""
          | _, _, _ => ""
        if fails.isEmpty then ("ok", nt) else ("fail:" ++ ",".intercalate fails, nt)
    | _ => ("fail:malformed-result", "")
  | _ => ("na", "")

/-- C02: grammar + last-dash split -/
def oracleC02 (op : String) (a : Nat → Option Str) (impl : String) : String × String :=
  match op with
  | "dewey.new" | "pattern.new" =>
    match a 0 with
    | some p =>
      if hasAny p "{}" then ("na", "brace")
      else if op == "pattern.new" && !hasAny p "<>" then ("na", "not-dewey")
      else
        let pre := if op == "pattern.new" then "err:dewey:" else "err:"
        match S.parsePattern p with
        | .ok (base, bs) =>
          let exp := "ok:" ++ hexS base ++ String.join (bs.map fun (o, v) => s!"|{opName o}:{showDV (deweyVersion v)}")
          let nt := if bs.length == 2 then "nt" else ""
          if op == "pattern.new" then (if impl == "ok:dewey" then ("ok", nt) else ("fail:should-compile", nt))
          else if impl == exp then ("ok", nt) else (s!"fail:grammar={exp}", nt)
        | .error r =>
          let k := match r with | .noOps => "noops" | .order => "order" | .tooMany => "toomany"
          if impl.startsWith (pre ++ k) then ("ok", "nt") else (s!"fail:should-reject-{k}", "nt")
    | none => ("na", "")
  | "dewey.match" | "pattern.match" =>
    match a 0, a 1 with
    | some p, some n =>
      if hasAny p "{}" then ("na", "brace")
      else if op == "pattern.match" && !hasAny p "<>" then ("na", "not-dewey")
      else
        match S.parsePattern p with
        | .ok pb =>
          let exp := b (S.patMatches pb n)
          let nt := match S.splitLastDash n with
            | some (pre, _) => if pre == pb.1 || pre.isPrefixOf pb.1 || pb.1.isPrefixOf pre then "nt" else ""
            | none => ""
          if impl == exp then ("ok", nt) else (s!"fail:spec={exp}", nt)
        | .error _ => if impl == "err" then ("ok", "") else ("fail:should-reject", "")
    | _, _ => ("na", "")
  | _ => ("na", "")

/-- C04: compile ⇔ properly nested; match ⇔ some csh expansion matches -/
def oracleC04 (op : String) (a : Nat → Option Str) (impl : String) : String × String :=
  match op with
  | "pattern.new" =>
    match a 0 with
    | some p =>
      if !hasAny p "{}" then ("na", "no-brace")
      else
        let nested := S.properlyNested (p.length + 1) p
        let exp := if nested then "ok:alternate" else "err:alternate"
        if impl == exp then ("ok", if nested then "" else "nt") else (s!"fail:nesting={exp}", "")
    | none => ("na", "")
  | "pattern.match" | "pattern.alt" =>
    match a 0, a 1 with
    | some p, some n =>
      if !hasAny p "{}" then ("na", "no-brace")
      else if !S.properlyNested (p.length + 1) p then
        (if op == "pattern.alt" then ("na", "unbalanced") else if impl == "err" then ("ok", "") else ("fail:should-reject", ""))
      else
        match S.parseTree p with
        | none => ("fail:oracle-parser-rejected-balanced-pattern", "")
        | some t =>
          if !(t.wf false && t.render == p) then ("fail:oracle-parser-self-check", "")
          else
            let ex := t.expand
            if ex.length > 20000 then ("na", "too-many-expansions")
            else
              -- `pattern.alt` is alternate_match alone: no quick test on the unexpanded pattern
              let exp := b (ex.any (S.expansionMatches · n))
              let nt := if t.groups ≥ 2 then "nt" else ""
              if impl == exp then ("ok", nt) else (s!"fail:union-of-expansions={exp}", nt)
    | _, _ => ("na", "")
  | _ => ("na", "")

/-- C05: glob / plain semantics on raw text, dispatch, inert quick test -/
def oracleC05 (op : String) (a : Nat → Option Str) (impl : String) : String × String :=
  match op with
  | "pattern.new" =>
    match a 0 with
    | some p =>
      if hasAny p "{}<>" then ("na", "other-kind")
      else if hasAny p "*?[]" then
        if !S.noDoubleStar p then ("na", "double-star")
        else
          let wf := S.globWF (p.length + 1) p
          if wf then (if impl == "ok:glob" then ("ok", "") else ("fail:well-formed-glob-must-compile", ""))
          else (if impl.startsWith "err:glob" then ("ok", "nt") else ("fail:malformed-glob-must-be-reported", "nt"))
      else (if impl == "ok:simple" then ("ok", "") else ("fail:plain-pattern-kind", ""))
    | none => ("na", "")
  | "pattern.match" | "glob.match" =>
    match a 0, a 1 with
    | some p, some n =>
      if op == "pattern.match" && hasAny p "{}<>" then ("na", "other-kind")
      else if hasAny p "*?[]" || op == "glob.match" then
        if !S.noDoubleStar p then ("na", "double-star")
        else if !S.globWF (p.length + 1) p then (if impl == "err" then ("ok", "") else ("fail:malformed-glob", ""))
        else
          let exp := S.globMatches p n
          -- non-trivial: a star or a set and a positive verdict, or a name one edit away
          let nt := if exp && hasAny p "*[" then "nt" else if !exp && p.length == n.length then "nt" else ""
          if impl == b exp then ("ok", nt) else (s!"fail:glob-relation={b exp}", nt)
      else
        let exp := p == n
        if impl == b exp then ("ok", if exp then "nt" else "") else (s!"fail:plain-equality={b exp}", "")
    | _, _ => ("na", "")
  | "pattern.quick" =>
    -- inertness is checked on the full answers (`pattern.match`); here only: the
    -- shortcut may say "no" only if the pattern (of any brace-free kind) does not match
    match a 0, a 1 with
    | some p, some n =>
      if hasAny p "{}<>" then ("na", "other-kind")
      else if impl == "1" then ("ok", "")
      else
        let full := if hasAny p "*?[]" then
            (if S.noDoubleStar p && S.globWF (p.length + 1) p then S.globMatches p n else false)
          else p == n
        if full then ("fail:quick-reject-of-a-matching-name", "nt") else ("ok", "nt")
    | _, _ => ("na", "")
  | _ => ("na", "")

/-- C06: the maximal matching candidate under the rule's order, ties to the smaller name -/
def oracleC06 (op : String) (args : List (List UInt8)) (a : Nat → Option Str) (impl mdl : String) : String × String :=
  let go (p : Str) (cands : List Str) : String × String :=
    match patternNew p with
    | .error _ => if impl == "err" then ("ok", "") else ("fail:should-reject", "")
    | .ok pat =>
      let exp := showBest (S.best S.cmp pat cands)
      let ms := cands.filter (patternMatches pat)
      let vs := ms.map S.versionOf
      let nt := if ms.length ≥ 2 && (vs.any fun x => vs.any fun y => x != y && (S.cmp x y == .eq ||
          (S.version x).1.length != (S.version y).1.length)) then "nt" else ""
      if !(vs.all S.InDomain) then ("na", "out-of-domain")
      else if impl == exp then ("ok", nt)
      else
        let misaligned := vs.any fun x => vs.any fun y => !S.LetterAligned x y
        if misaligned && impl == mdl then ("known:F3", nt) else (s!"fail:best={exp}", nt)
  match op with
  | "pattern.best" =>
    match a 0, a 1, a 2 with
    | some p, some n1, some n2 => go p [n1, n2]
    | _, _, _ => ("na", "")
  | "pattern.reduce" =>
    match a 0, ((args.drop 2).map bytesToStr?).mapM id with
    | some p, some cands => go p cands
    | _, _ => ("na", "")
  | _ => ("na", "")

def isDigits (s : Str) : Bool := !s.isEmpty && s.all isDigit

/-- trailing `nb<digits>`: `some digits` when the version is `p ++ "nb" ++ d`, d non-empty digits -/
def trailingNb (v : Str) : Option Str :=
  let d := (v.reverse.takeWhile isDigit).reverse
  let pre := (v.reverse.dropWhile isDigit).reverse
  if !d.isEmpty && ['n', 'b'].isSuffixOf pre then some d else none

def containsNb : Str → Bool
  | 'n' :: 'b' :: _ => true
  | _ :: rest => containsNb rest
  | [] => false

def unhexStr (s : String) : Option Str := (hexDecode s).bind bytesToStr?

/-- C18: lossless split, revision clauses, agreement of the splitters -/
def oracleC18 (op : String) (a : Nat → Option Str) (impl : String) : String × String :=
  match op, a 0 with
  | "pkgname.new", some s =>
    match impl.splitOn ":" with
    | [n, bs, vs, r] =>
      match unhexStr n, unhexStr bs, unhexStr vs with
      | some name, some base, some ver =>
        let dashes := s.count '-'
        let nt := if dashes ≥ 2 || (S.splitLastDash s).isSome && containsNb (ver.drop 2) && (trailingNb ver).isSome then "nt" else ""
        let rebuild := if s.contains '-' then base ++ ['-'] ++ ver == s && !ver.contains '-'
          else base == s && ver.isEmpty
        let revOk := match trailingNb ver with
          | some d => if d.length ≤ 18 then r == toString (digitsVal d) else true
          | none => if !containsNb ver then r == "none" else true
        if name != s then ("fail:pkgname-not-preserved", nt)
        else if !rebuild then ("fail:base-dash-version-does-not-rebuild-name", nt)
        else if !revOk then ("fail:pkgrevision", nt)
        else ("ok", nt)
      | _, _, _ => ("fail:malformed-result", "")
    | _ => ("fail:malformed-result", "")
  | "pkgname.dewey", some s =>
    let ver := match S.splitLastDash s with | some (_, v) => v | none => []
    match trailingNb ver, impl.splitOn ":" with
    | some d, [r, dr] =>
      if d.length ≤ 18 then
        (if r == toString (digitsVal d) && dr == r then ("ok", "nt") else ("fail:revision-used-by-comparison-differs", "nt"))
      else ("na", "long-revision")
    | _, _ => ("na", "no-trailing-nb")
  | "summary.pkgsplit", some s =>
    match S.splitLastDash s with
    | some (base, ver) =>
      if !base.isEmpty && !ver.isEmpty then
        let exp := s!"some{hexS base}:some{hexS ver}"
        if impl == exp then ("ok", if s.count '-' ≥ 2 then "nt" else "") else (s!"fail:summary-split={exp}", "")
      else ("na", "empty-part")
    | none => ("na", "no-dash")
  | "dewey.match", some p =>
    -- generated as  <prefix of the name up to one of its dashes> <op> <bound>: the matcher must
    -- split the name at its LAST '-' like PkgName does — a pattern whose base is not the
    -- name's PKGBASE never matches, and  PKGBASE>=0  always does
    match a 1 with
    | some name =>
      -- the probe is  BASE>=0  or  BASE<99999999  with an operator-free BASE; anything else
      -- (mutated probes) is judged only for "compiles iff the model's grammar accepts it"
      match deweyNew p with
      | .error _ => if impl == "err" then ("ok", "") else ("fail:should-reject", "")
      | .ok d =>
      let pb := p.takeWhile fun c => c != '<' && c != '>'
      match S.splitLastDash name with
      | some (base, ver) =>
        if pb == base then
          -- same base: the verdict is the bounds' verdict on the text after the LAST dash
          let exp := d.matches_.all fun m => deweyCmp (deweyVersion ver) m.1 m.2
          (if impl == b exp then ("ok", "nt") else ("fail:matcher-split-disagrees", "nt"))
        else (if impl == "0" then ("ok", "nt") else ("fail:matched-with-a-base-that-is-not-PKGBASE", "nt"))
      | none => if impl == "0" then ("ok", "") else ("fail:matched-a-name-without-version", "")
    | none => ("na", "")
  | _, _ => ("na", "")

/-- the accepted PKGPATH forms, stated on '/'-separated segments -/
def specSegs (s : Str) : List Str × Bool :=
  -- (meaningful segments, absolute?) : empty segments and non-leading "." are ignored
  let segs := splitOn '/' s
  let abs := s.head? == some '/'
  let indexed := segs.zipIdx
  let kept := indexed.filter fun (seg, i) =>
    !seg.isEmpty && !(seg == ['.'] && (i > 0 || abs))
  (kept.map (·.1), abs)

def isName (seg : Str) : Bool := !seg.isEmpty && seg != ['.'] && seg != ['.', '.']

def specPkgPath (s : Str) : Option (Str × Str) :=
  match specSegs s with
  | ([x, y], false) => if isName x && isName y then some (x, y) else none
  | ([u1, u2, x, y], false) =>
    if u1 == ['.', '.'] && u2 == ['.', '.'] && isName x && isName y then some (x, y) else none
  | _ => none

def oracleC19 (op : String) (a : Nat → Option Str) (impl : String) : String × String :=
  match op, a 0 with
  | "pkgpath.new", some s =>
    let nt := if hasAny s "." || (splitOn '/' s).any (·.isEmpty) then "nt" else ""
    match specPkgPath s with
    | some (x, y) =>
      let short := "N" ++ hexS x ++ ",N" ++ hexS y
      let full := "P,P," ++ short
      match impl.splitOn "|" with
      | [_, sc, fc, re] =>
        if sc != short then ("fail:short-path-components", nt)
        else if fc != full then ("fail:full-path-components", nt)
        else if re != "11" then ("fail:reparse-of-accessor-not-equal", nt)
        else ("ok", nt)
      | _ => ("fail:should-accept", nt)
    | none => if impl == "err" then ("ok", nt) else ("fail:should-reject", nt)
  | "pkgpath.eq", some x =>
    match a 1 with
    | some y =>
      match specPkgPath x, specPkgPath y with
      | some p, some q => if impl == b (p == q) then ("ok", "nt") else ("fail:spelling-equality", "nt")
      | _, _ => if impl == "err" then ("ok", "") else ("fail:should-reject", "")
    | none => ("na", "")
  | "depend.new", some s =>
    let parts := splitOn ':' s
    let nt := if parts.length != 2 then "nt" else ""
    match parts with
    | [p, q] =>
      match patternNew p, specPkgPath q with
      | .ok _, some _ => if impl.startsWith "ok:" && impl.endsWith "|11" then ("ok", "nt") else ("fail:should-accept-with-equal-parts", "nt")
      | .error _, _ => if impl == "err:pattern" then ("ok", nt) else ("fail:bad-pattern-half", nt)
      | .ok _, none => if impl == "err:pkgpath" then ("ok", nt) else ("fail:bad-pkgpath-half", nt)
    | _ => if impl == "err:invalid" then ("ok", nt) else ("fail:colon-count", nt)
  | _, _ => ("na", "")

def handler (prop : String) : Handler := fun op args impl =>
  let strs := args.map bytesToStr?
  let a (i : Nat) : Option Str := (strs[i]?).join
  match model op args with
  | none => none
  | some m =>
    let (o, t) := match prop with
      | "C01" =>
        -- "also through best_match": the two-candidate selection is judged by the C06 oracle
        if op == "pattern.best" then oracleC06 op args a impl m else oracleC01 op a impl m
      | "C02" => oracleC02 op a impl
      | "C03" => oracleC03 op a impl
      | "C04" => oracleC04 op a impl
      | "C05" => oracleC05 op a impl
      | "C06" => oracleC06 op args a impl m
      | "C18" =>
        -- "consistently across the library": best_match must rank by the text after the LAST '-'
        -- and the revision found there — judged by the C06 best-match oracle
        if op == "pattern.best" then oracleC06 op args a impl m else oracleC18 op a impl
      | "C19" => oracleC19 op a impl
      | "C17" => oracleC17 args impl
      | _ => ("na", "")
    some (m, o, t)

end DriverPat
