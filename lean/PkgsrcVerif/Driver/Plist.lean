/-
Driver/Plist.lean — line-protocol handlers for cluster `plist` (C14, C15).
-/
import PkgsrcVerif.Driver.Proto
import PkgsrcVerif.Model.Plist
import PkgsrcVerif.Spec.Plist
open Proto M

namespace DriverPlist

def b (v : Bool) : String := if v then "1" else "0"

def optS : Option Bytes → String
  | some s => "+" ++ hexEncode s
  | none => "-"

def showEntry : PEntry → String
  | .file f => "F" ++ hexEncode f
  | .cwd d => "W" ++ hexEncode d
  | .exec d => "E" ++ hexEncode d
  | .unexec d => "U" ++ hexEncode d
  | .mode o => "M" ++ optS o
  | .pkgoptPreserve => "O:preserve"
  | .owner o => "o" ++ optS o
  | .group o => "g" ++ optS o
  | .comment o => "C" ++ optS o
  | .ignore => "I"
  | .name s => "N" ++ hexEncode s
  | .pkgdir d => "D" ++ hexEncode d
  | .dirrm d => "R" ++ hexEncode d
  | .display d => "Y" ++ hexEncode d
  | .pkgdep s => "P" ++ hexEncode s
  | .blddep s => "B" ++ hexEncode s
  | .pkgcfl s => "X" ++ hexEncode s

def showErr : PErr → String
  | .unsupported => "err:unsupported"
  | .incorrect => "err:incorrect"
  | .utf8 => "err:utf8"

def showParse (r : Except PErr (List PEntry)) : String :=
  match r with
  | .ok es => "ok:" ++ ";".intercalate (es.map showEntry)
  | .error e => showErr e

def hexes (l : List Bytes) : String := ",".intercalate (l.map hexEncode)

def showViews (files prefixed : List Bytes) (inst uninst : List PEntry) (es : List PEntry) : String :=
  s!"files={hexes files}|prefixed={hexes prefixed}|install={";".intercalate (inst.map showEntry)}|uninstall={";".intercalate (uninst.map showEntry)}|depends={hexes (depends es)}|blddep={hexes (buildDepends es)}|conflicts={hexes (conflicts es)}|pkgdirs={hexes (pkgdirs es)}|rmdirs={hexes (pkgrmdirs es)}|name={optS (plistPkgname es)}|display={optS (plistDisplay es)}|preserve={b (isPreserve es)}"

def model (op : String) (args : List Bytes) : Option String := do
  let x ← args[0]?
  match op with
  | "plist.parse" => pure (showParse (plistFromBytes x))
  | "plist.entry" =>
    pure (match entryFromBytes x with | .ok e => "ok:" ++ showEntry e | .error e => showErr e)
  | "plist.views" =>
    match plistFromBytes x with
    | .error e => pure (showErr e)
    | .ok es => pure (showViews (files es) (filesPrefixed es) (installCmds es) (uninstallCmds es) es)
  | _ => none

def oracleC14 (op : String) (args : List Bytes) (impl : String) : String × String :=
  match op, args[0]? with
  | "plist.parse", some x =>
    let exp := showParse (S.document x)
    let ls := S.splitNl x
    let nt := if ls.length ≥ 3 && (ls.any (fun l => (l.filter (fun c => !isWhiteByte c)).length == 1) ||
        (ls.dropLast.any fun l => !S.nonBlank l)) then "nt" else ""
    if impl == exp then ("ok", nt) else (s!"fail:one-entry-per-non-blank-line={exp}", nt)
  | "plist.entry", some x =>
    -- `PlistEntry::from_bytes` on arbitrary bytes (may contain '\n'): the spec speaks of lines
    if x.contains 10 then ("na", "not-a-line")
    else
      let exp := match S.entry x with | .ok e => "ok:" ++ showEntry e | .error e => showErr e
      if impl == exp then ("ok", "") else (s!"fail:command-table={exp}", "")
  | _, _ => ("na", "")

def oracleC15 (op : String) (args : List Bytes) (impl : String) : String × String :=
  match op, args[0]? with
  | "plist.views", some x =>
    match S.document x with
    | .error e => if impl == showErr e then ("ok", "") else ("fail:should-be-error", "")
    | .ok es =>
      let firstOf (f : PEntry → Option Bytes) : Option Bytes := (es.filterMap f).head?
      let allOf (f : PEntry → Option Bytes) : List Bytes := es.filterMap f
      let exp := s!"files={hexes (S.filesSpec es)}|prefixed={hexes (S.prefixedSpec es)}|install={";".intercalate ((S.cmdsSpec isInstallKind es).map showEntry)}|uninstall={";".intercalate ((S.cmdsSpec isUninstallKind es).map showEntry)}|depends={hexes (allOf fun | .pkgdep s => some s | _ => none)}|blddep={hexes (allOf fun | .blddep s => some s | _ => none)}|conflicts={hexes (allOf fun | .pkgcfl s => some s | _ => none)}|pkgdirs={hexes (allOf fun | .pkgdir s => some s | _ => none)}|rmdirs={hexes (allOf fun | .dirrm s => some s | _ => none)}|name={optS (firstOf fun | .name s => some s | _ => none)}|display={optS (firstOf fun | .display s => some s | _ => none)}|preserve={b (es.any (· == .pkgoptPreserve))}"
      -- non-trivial: an @ignore not immediately before a file, or >= 2 @cwd
      let pairs := es.zip (es.drop 1)
      let ignNotBeforeFile := pairs.any (fun (a, c) => a == .ignore && !S.isFile c) || es.getLast? == some .ignore
      let cwds := (es.filter fun | .cwd _ => true | _ => false).length
      let nt := if ignNotBeforeFile || cwds ≥ 2 then "nt" else ""
      if impl == exp then ("ok", nt) else (s!"fail:views={exp}", nt)
  | _, _ => ("na", "")

def handler (prop : String) : Handler := fun op args impl =>
  match model op args with
  | none => none
  | some m =>
    let (o, t) := match prop with
      | "C14" => oracleC14 op args impl
      | "C15" => oracleC15 op args impl
      | "C17" => oracleC17 args impl
      | _ => ("na", "")
    some (m, o, t)

end DriverPlist
