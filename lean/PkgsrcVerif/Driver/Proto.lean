/-
Driver/Proto.lean — line protocol shared by the drivers.
  input  line:  <op> <hexarg>* => <impl result>
  output line:  <model result>\t<oracle verdict>\t<tags>
Arguments are lower-case hex of the raw bytes, `-` for the empty string.
-/
namespace Proto

def hexDigit (c : Char) : Option Nat :=
  if '0' ≤ c ∧ c ≤ '9' then some (c.toNat - '0'.toNat)
  else if 'a' ≤ c ∧ c ≤ 'f' then some (c.toNat - 'a'.toNat + 10)
  else none

def hexDecodeList : List Char → Option (List UInt8)
  | [] => some []
  | a :: b :: rest => do
    let x ← hexDigit a
    let y ← hexDigit b
    let r ← hexDecodeList rest
    pure (UInt8.ofNat (x * 16 + y) :: r)
  | _ => none

def hexDecode (s : String) : Option (List UInt8) :=
  if s == "-" then some [] else hexDecodeList s.toList

def hexNib (n : Nat) : Char :=
  if n < 10 then Char.ofNat (n + '0'.toNat) else Char.ofNat (n - 10 + 'a'.toNat)

def hexEncode (b : List UInt8) : String :=
  if b.isEmpty then "-" else
  String.ofList (b.flatMap fun x => [hexNib (x.toNat / 16), hexNib (x.toNat % 16)])

def bytesToStr? (b : List UInt8) : Option (List Char) :=
  (String.fromUTF8? b.toByteArray).map String.toList

def strToBytes (s : List Char) : List UInt8 := (String.ofList s).toUTF8.toList

def hexOfStr (s : List Char) : String := hexEncode (strToBytes s)

def showInts (l : List Int) : String := ",".intercalate (l.map toString)

def parseInt? (s : String) : Option Int := s.toInt?

def parseInts? (s : String) : Option (List Int) :=
  if s.isEmpty then some [] else (s.splitOn ",").mapM parseInt?

/-- C17: the implementation returned normally and promptly (a panic is the canonical result
    `PANIC`, more than 2 s on these inputs is `HANG:<ms>`); non-trivial = an input of at least
    8 bytes (it gets past the first parser stage) -/
def oracleC17 (args : List (List UInt8)) (impl : String) : String × String :=
  let n := (args.map List.length).foldl (· + ·) 0
  let nt := if n ≥ 8 then "nt" else ""
  if impl == "PANIC" then ("fail:panic", nt)
  else if impl.startsWith "HANG" then ("fail:hang=" ++ impl, nt)
  else ("ok", nt)

/-- a handler gets the op, decoded args and the implementation's result; it returns
    (model result, oracle verdict, tags) -/
abbrev Handler := String → List (List UInt8) → String → Option (String × String × String)

partial def loop (h : IO.FS.Stream) (out : IO.FS.Stream) (handler : Handler) : IO Unit := do
  let line ← h.getLine
  if line.isEmpty then return ()
  let line := (line.dropEndWhile (fun c => c == '\n' || c == '\r')).toString
  if line.isEmpty then
    loop h out handler
  else
    let (lhs, impl) := match line.splitOn " => " with
      | [l] => (l, "")
      | l :: rest => (l, " => ".intercalate rest)
      | [] => ("", "")
    let words := (lhs.splitOn " ").filter (· ≠ "")
    match words with
    | [] => out.putStrLn "?\tna\tbad-line"
    | op :: hexargs =>
      match hexargs.mapM hexDecode with
      | none => out.putStrLn "?\tna\tbad-hex"
      | some args =>
        match handler op args impl with
        | some (m, o, t) => out.putStrLn s!"{m}\t{o}\t{t}"
        | none => out.putStrLn "?\tna\tunknown-op"
    loop h out handler

end Proto
