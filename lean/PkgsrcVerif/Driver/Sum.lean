/-
Driver/Sum.lean — line-protocol handlers for cluster `sum` (C07, C08, C09).
-/
import PkgsrcVerif.Driver.Proto
import PkgsrcVerif.Model.Summary
import PkgsrcVerif.Spec.Summary
open Proto M

namespace DriverSum

def b (v : Bool) : String := if v then "1" else "0"

def showVal : Option Value → String
  | none => "-"
  | some (.s x) => "s" ++ hexEncode x
  | some (.i n) => "i" ++ toString n
  | some (.a l) => "a:" ++ ",".intercalate (l.map hexEncode)

def getters (s : Var → Option Value) : String := ";".intercalate (Var.all.map fun v => showVal (s v))

def showErr : SumErr → String
  | .parseLine l => "err:parseline:" ++ hexEncode l
  | .parseVariable k => "err:parsevar:" ++ hexEncode k
  | .parseInt => "err:parseint"
  | .incomplete v => "err:incomplete:" ++ v.name

def parseResult (r : Except SumErr Summary) (full : Bool) (printer : Summary → Bytes)
    (completed : Summary → Bool) : String :=
  match r with
  | .error e => showErr e
  | .ok s =>
    if full then s!"ok:{getters s}|{b (completed s)}|{hexEncode (printer s)}" else s!"ok:{getters s}"

def varOfIndex (i : Nat) : Option Var := Var.all[i]?

/-- decode NUL-terminated strings -/
def splitNul (n : Nat) (p : Bytes) : Option (List Bytes) :=
  match n with
  | 0 => some []
  | n + 1 =>
    let item := p.takeWhile (· != 0)
    match p.dropWhile (· != 0) with
    | [] => none
    | _ :: rest => (splitNul n rest).map (item :: ·)

inductive Call
  | set (v : Var) (x : Value)
  | push (v : Var) (x : Bytes)
  | nop                      -- the harness ignores a call whose variable does not fit its kind

/-- decode one call exactly as the harness does (`none` = BAD-CALL) -/
def decodeCall (c : Bytes) : Option Call :=
  match c with
  | kind :: var :: payload =>
    let v? := varOfIndex var.toNat
    let fits (k : VKind) : Option Var := match v? with | some v => if v.kind == k then some v else none | none => none
    match kind.toNat with
    | 0 =>
      if (utf8 payload).2 != .complete then none
      else some (match fits .str with | some v => .set v (.s payload) | none => .nop)
    | 1 =>
      if (utf8 payload).2 != .complete then none
      else match parseI64? (bytesToAsciiStr payload) with
        | none => none
        | some n => some (match fits .int with | some v => .set v (.i n) | none => .nop)
    | 2 =>
      match payload with
      | n :: rest =>
        match splitNul n.toNat rest with
        | none => none
        | some l =>
          if l.any (fun x => (utf8 x).2 != .complete) then none
          else some (match fits .arr with | some v => .set v (.a l) | none => .nop)
      | [] => none
    | 3 =>
      if (utf8 payload).2 != .complete then none
      else some (match fits .arr with | some v => .push v payload | none => .nop)
    | 4 => some .nop      -- an observation (print + getters) in the middle of the history
    | 5 => some .nop      -- replaced by a clone of itself
    | 6 => some .nop      -- moved out with mem::take and moved back in
    | 7 => some .nop      -- constructor choice (Summary::default instead of Summary::new)
    | _ => none
  | _ => none

/-- the model on a call sequence; `none` = a panic site was reached -/
def applyCalls (s : Summary) : List Call → Option Summary
  | [] => some s
  | .set v x :: cs => applyCalls (s.set v x) cs
  | .push v x :: cs => (s.push v x).bind (applyCalls · cs)
  | .nop :: cs => applyCalls s cs

/-- abstract semantics of a call history (C07's "current values"): an association
    list, last set wins, pushes append -/
def finalValues (calls : List Call) : Var → Option Value := fun v =>
  let mine := calls.filter fun
    | .set w _ => w == v
    | .push w _ => w == v
    | .nop => false
  mine.foldl (fun acc c =>
    match c, acc with
    | .set _ x, _ => some x
    | .push _ x, some (.a l) => some (.a (l ++ [x]))
    | .push _ x, _ => some (.a [x])
    | .nop, acc => acc) none

def streamRun (chunks : List Bytes) : Stream × List String :=
  chunks.foldl (fun (acc : Stream × List String) c =>
    let (st, rs) := acc
    let (st', ok) := st.write c
    let r := if ok then s!"ok{c.length}/{st'.entries.length}" else s!"err/{st'.entries.length}"
    (st', rs ++ [r])) (Stream.init, [])

def showScan (r : Nat × ScanEnd) : String :=
  s!"{r.1}:" ++ match r.2 with | .complete => "complete" | .incomplete => "incomplete" | .invalid => "invalid"

def model (op : String) (args : List Bytes) : Option String :=
  match op with
  | "summary.parse" => do
    let t ← args[0]?
    pure (parseResult (Summary.parse t) true Summary.print Summary.isCompleted)
  | "summary.ops" => do
    let calls ← args.mapM decodeCall
    match applyCalls Summary.empty calls with
    | none => pure "PANIC"
    | some s =>
      let text := s.print
      pure s!"{getters s}|{b s.isCompleted}|{hexEncode text}|{parseResult (Summary.parse text) false Summary.print Summary.isCompleted}"
  | "stream.write" =>
    let (st, rs) := streamRun args
    some s!"{",".intercalate rs}|{st.entries.length}|{";".intercalate (st.entries.map fun e => hexEncode e.print)}|{hexEncode st.print}"
  | "stream.big" => some "ok"   -- the harness compares a one-call write with 64 KiB pieces itself
  | "utf8.scan" => do let x ← args[0]?; pure (showScan (utf8 x))
  | "str.lines" => do let x ← args[0]?; pure (",".intercalate ((lines x).map hexEncode))
  | _ => none

/-! ### oracles -/

def oracleC07 (op : String) (args : List Bytes) (impl : String) : String × String :=
  match op with
  | "summary.ops" =>
    match args.mapM decodeCall with
    | none => ("na", "bad-call")
    | some calls =>
      let fin := finalValues calls
      let text := S.print fin
      let vars := (calls.filterMap fun | .set v _ => some v | .push v _ => some v | .nop => none)
      let optional := vars.any fun v => !S.required.contains v
      let multi := S.table.any fun (v, _) => match fin v with | some (.a l) => l.length ≥ 2 | _ => false
      let sortedByIdx := (vars.zip (vars.drop 1)).all fun (a, c) => S.varIndex a ≤ S.varIndex c
      let nt := if optional && multi && !sortedByIdx then "nt" else ""
      match impl.splitOn "|" with
      | [g, comp, txt, re] =>
        let complete := S.required.all fun v => (fin v).isSome
        if g != getters fin then (s!"fail:getters-differ-from-final-values={getters fin}", nt)
        else if comp != b complete then ("fail:is_completed", nt)
        else if txt != hexEncode text then (s!"fail:printed-form-not-function-of-values={hexEncode text}", nt)
        else if complete && S.roundTrippable fin && re != "ok:" ++ getters fin then
          ("fail:print-then-parse-does-not-round-trip", nt)
        else ("ok", nt)
      | _ => (if impl == "PANIC" then "fail:panic" else "fail:malformed-result", nt)
  | "summary.parse" =>
    match args[0]? with
    | none => ("na", "")
    | some t =>
      if !S.canonical t then ("na", "not-canonical")
      else
        match S.parse t with
        | .error _ => ("na", "canonical-but-incomplete")
        | .ok _ =>
          match impl.splitOn "|" with
          | [_, _, txt] => if txt == hexEncode t then ("ok", "nt") else ("fail:parse-then-print-differs-from-canonical-text", "nt")
          | _ => ("fail:canonical-complete-entry-rejected", "nt")
  | _ => ("na", "")

def oracleC08 (op : String) (args : List Bytes) (impl : String) : String × String :=
  match op with
  | "summary.parse" =>
    match args[0]? with
    | none => ("na", "")
    | some t =>
      let exp := match S.parse t with
        | .error e => showErr e
        | .ok s => s!"ok:{getters s}|{b (S.required.all fun v => (s v).isSome)}"
      let cls := (S.textLines t).map S.classify
      let vars := cls.filterMap fun | .ok v _ => some v | _ => none
      let repeated := vars.any fun v => (vars.filter (· == v)).length ≥ 2
      let faultKinds := (cls.filter fun | .ok _ _ => false | _ => true).length
      let nt := if repeated || faultKinds ≥ 1 then "nt" else ""
      -- compare everything except the printed text (that is C07's business)
      let implCore := match impl.splitOn "|" with
        | [g, c, _] => g ++ "|" ++ c
        | _ => impl
      if implCore == exp then ("ok", nt) else (s!"fail:spec={exp}", nt)
  | "summary.ops" =>
    -- is_completed() through the setter API: true exactly when the eleven have a value
    match args.mapM decodeCall with
    | none => ("na", "bad-call")
    | some calls =>
      let fin := finalValues calls
      let complete := S.required.all fun v => (fin v).isSome
      let emptied := S.table.any fun (v, _) => match fin v with | some (.a l) => l.isEmpty | _ => false
      let nt := if emptied || !complete then "nt" else ""
      match impl.splitOn "|" with
      | [_, comp, _, _] => if comp == b complete then ("ok", nt) else ("fail:is_completed", nt)
      | _ => (if impl == "PANIC" then "fail:panic" else "fail:malformed-result", nt)
  | "str.lines" =>
    match args[0]? with
    | some t =>
      let exp := ",".intercalate ((S.textLines t).map hexEncode)
      if impl == exp then ("ok", "") else (s!"fail:lines={exp}", "")
    | none => ("na", "")
  | _ => ("na", "")

def cumulative (chunks : List Bytes) : List Nat :=
  (chunks.foldl (fun (acc : Nat × List Nat) c => (acc.1 + c.length, acc.2 ++ [acc.1 + c.length])) (0, [])).2

/-- does some cut fall strictly inside a multi-byte character or inside a "\n\n" separator -/
def interestingCut (s : Bytes) (cuts : List Nat) : Bool :=
  cuts.any fun k =>
    k > 0 && k < s.length &&
      ((match s[k]? with | some x => isCont x | none => false) ||
       (s[k - 1]? == some 10 && s[k]? == some 10))

def oracleC09 (op : String) (args : List Bytes) (impl : String) : String × String :=
  match op with
  | "utf8.scan" => ("na", "std-model")
  | "stream.big" =>
    -- one write of a multi-megabyte well-formed stream and its 64 KiB pieces: every byte taken,
    -- the same entries collected (compared by the harness, which reports what differed)
    if impl == "ok" then ("ok", "nt") else ("fail:large-write-not-chunk-independent", "nt")
  | "stream.write" =>
    let s := args.flatten
    let cum := cumulative args
    let nt := if interestingCut s cum then "nt" else ""
    let (recs, rest) := S.records s
    match impl.splitOn "|" with
    | [rsS, nS, entS, disp] =>
      let rs := if rsS.isEmpty then [] else rsS.splitOn ","
      let firstBad := recs.findIdx? (fun r => !S.goodRecord r)
      match firstBad with
      | none =>
        if !rest.isEmpty then
          -- trailing unterminated data: complete records must all be collected, writes succeed
          -- unless the tail is definitely invalid UTF-8 (then nothing is claimed)
          ("na", "unterminated-tail")
        else
          let expW := args.map fun c => s!"ok{c.length}/"
          let okW := rs.length == expW.length && (rs.zip expW).all fun (r, e) => r.startsWith e
          let expEnt := recs.map fun r => match S.parse r with
            | .ok v => hexEncode (S.print v) | .error _ => "?"
          let allCanon := recs.all fun r => S.canonical (r ++ [10])
          if !okW then ("fail:a-write-of-a-well-formed-stream-did-not-succeed-with-full-length", nt)
          else if nS != toString recs.length then (s!"fail:entry-count={recs.length}", nt)
          else if entS != ";".intercalate expEnt then ("fail:entries-differ-from-stream-entries", nt)
          else if allCanon && disp != hexEncode s then ("fail:printing-does-not-reproduce-the-stream", nt)
          else ("ok", nt)
      | some j =>
        -- end offset of the bad record's terminator
        let endBad := (recs.take (j + 1)).foldl (fun a r => a + r.length + 2) 0
        match cum.findIdx? (· ≥ endBad) with
        | none => ("na", "bad-entry-not-completed")
        | some w =>
          let failIdx := rs.findIdx? (fun r => r.startsWith "err")
          match failIdx with
          | none => ("fail:malformed-entry-never-reported", "nt")
          | some f =>
            if f > w then ("fail:malformed-entry-reported-too-late", "nt")
            else
              let before := rs.take f
              let okBefore := (before.zip (args.take f)).all fun (r, c) => r.startsWith s!"ok{c.length}/"
              let cnt := ((rs[f]?.getD "").splitOn "/")[1]?.getD ""
              if !okBefore then ("fail:a-write-before-the-malformed-entry-failed", "nt")
              else if (rs[f]?.getD "").startsWith "errother" then ("fail:error-kind-is-not-InvalidData", "nt")
              else if cnt != toString j then (s!"fail:entries-at-failure-should-be-{j}", "nt")
              else ("ok", "nt")
    | _ => ("fail:malformed-result", nt)
  | _ => ("na", "")

def handler (prop : String) : Handler := fun op args impl =>
  match model op args with
  | none => none
  | some m =>
    let (o, t) := match prop with
      | "C07" => oracleC07 op args impl
      | "C08" => oracleC08 op args impl
      | "C09" => oracleC09 op args impl
      | "C17" => oracleC17 args impl
      | _ => ("na", "")
    some (m, o, t)

end DriverSum
