/-
Lemmas/Best.lean — best_match is "maximum under a total preorder (dewey order of the
versions) refined by an antisymmetric order (byte-wise smaller name wins)"; hence
commutative, and any pairwise reduction of any arrangement of a candidate list
yields the same winner.
-/
import PkgsrcVerif.Lemmas.DeweyCmp
import PkgsrcVerif.Model.Pattern
namespace L
open M S

/-! ### strLt is a strict total order -/

theorem strLt_irrefl (a : Str) : strLt a a = false := by
  induction a with
  | nil => rfl
  | cons c a ih => simp [strLt, ih]

theorem strLt_asymm (a b : Str) (h : strLt a b = true) : strLt b a = false := by
  induction a generalizing b with
  | nil => cases b <;> simp_all [strLt]
  | cons c a ih =>
    cases b with
    | nil => simp [strLt] at h
    | cons d b =>
      simp only [strLt] at h ⊢
      by_cases h1 : c.toNat < d.toNat
      · have : ¬ d.toNat < c.toNat := by omega
        simp [this, h1]
      · by_cases h2 : c.toNat > d.toNat
        · simp [h1, h2] at h
        · simp only [h1, h2, if_false] at h
          have : ¬ d.toNat < c.toNat := by omega
          have h3 : ¬ d.toNat > c.toNat := by omega
          simp only [this, h3, if_false]
          exact ih b h

theorem strLt_total (a b : Str) (h1 : strLt a b = false) (h2 : strLt b a = false) : a = b := by
  induction a generalizing b with
  | nil => cases b <;> simp_all [strLt]
  | cons c a ih =>
    cases b with
    | nil => simp [strLt] at h2
    | cons d b =>
      simp only [strLt] at h1 h2
      by_cases hlt : c.toNat < d.toNat
      · simp [hlt] at h1
      · by_cases hgt : c.toNat > d.toNat
        · have : d.toNat < c.toNat := hgt
          simp [this] at h2
        · have heq : c.toNat = d.toNat := by omega
          have hc : c = d := Char.toNat_inj.mp heq
          subst hc
          simp only [Nat.lt_irrefl, if_false, gt_iff_lt] at h1 h2
          rw [ih b h1 h2]

theorem strLt_trans (a b c : Str) (h1 : strLt a b = true) (h2 : strLt b c = true) : strLt a c = true := by
  induction a generalizing b c with
  | nil =>
    cases b with
    | nil => simp [strLt] at h1
    | cons _ _ => cases c <;> simp_all [strLt]
  | cons x a ih =>
    cases b with
    | nil => simp [strLt] at h1
    | cons y b =>
      cases c with
      | nil => simp [strLt] at h2
      | cons z c =>
        simp only [strLt] at h1 h2 ⊢
        by_cases hxy : x.toNat < y.toNat
        · by_cases hyz : y.toNat < z.toNat
          · have : x.toNat < z.toNat := by omega
            simp [this]
          · by_cases hyz' : y.toNat > z.toNat
            · simp [hyz, hyz'] at h2
            · have : x.toNat < z.toNat := by omega
              simp [this]
        · by_cases hxy' : x.toNat > y.toNat
          · simp [hxy, hxy'] at h1
          · simp only [hxy, hxy', if_false] at h1
            have hxe : x.toNat = y.toNat := by omega
            by_cases hyz : y.toNat < z.toNat
            · have : x.toNat < z.toNat := by omega
              simp [this]
            · by_cases hyz' : y.toNat > z.toNat
              · simp [hyz, hyz'] at h2
              · simp only [hyz, hyz', if_false] at h2
                have h3 : ¬ x.toNat < z.toNat := by omega
                have h4 : ¬ x.toNat > z.toNat := by omega
                simp only [h3, h4, if_false]
                exact ih b c h1 h2

/-! ### the version preorder on names -/

def dvOf (n : Str) : DV := deweyVersion (pkgNameNew n).pkgversion

/-- version of `a` ≤ version of `b` in the library's dewey order -/
def vle (a b : Str) : Prop := padCmp (dvOf a).rev (dvOf b).rev (dvOf a).version (dvOf b).version ≠ .gt

instance (a b : Str) : Decidable (vle a b) := by unfold vle; exact inferInstance

theorem vle_total (a b : Str) : vle a b ∨ vle b a := by
  unfold vle
  rw [padCmp_swap (dvOf b).rev (dvOf a).rev]
  cases padCmp (dvOf a).rev (dvOf b).rev (dvOf a).version (dvOf b).version <;> simp [Ordering.swap]

theorem vle_trans (a b c : Str) (h1 : vle a b) (h2 : vle b c) : vle a c :=
  padCmp_trans_le _ _ _ _ _ _ h1 h2

theorem vle_refl (a : Str) : vle a a := by simp [vle, padCmp_refl]

theorem gt_iff_not_vle (a b : Str) : deweyCmp (dvOf a) .gt (dvOf b) = true ↔ ¬ vle a b := by
  simp only [deweyCmp, cmpVec_spec, testOrd, vle, beq_iff_eq, ne_eq, Decidable.not_not]

theorem lt_iff_not_vle (a b : Str) : deweyCmp (dvOf a) .lt (dvOf b) = true ↔ ¬ vle b a := by
  simp only [deweyCmp, cmpVec_spec, testOrd, vle, beq_iff_eq, ne_eq, Decidable.not_not]
  rw [padCmp_swap (dvOf b).rev (dvOf a).rev]
  cases padCmp (dvOf a).rev (dvOf b).rev (dvOf a).version (dvOf b).version <;> simp [Ordering.swap]

/-- `w` is at least as good a candidate as `x`: not a lower version, and on a version tie
    not the byte-wise larger name -/
def geq (w x : Str) : Prop := vle x w ∧ (vle w x → strLt x w = false)

theorem geq_refl (w : Str) : geq w w := ⟨vle_refl w, fun _ => strLt_irrefl w⟩

theorem geq_total (a b : Str) : geq a b ∨ geq b a := by
  unfold geq
  by_cases h1 : vle a b <;> by_cases h2 : vle b a
  · by_cases h3 : strLt b a = true
    · right; exact ⟨h1, fun _ => strLt_asymm b a h3⟩
    · left; exact ⟨h2, fun _ => by simpa using h3⟩
  · right; exact ⟨h1, fun h => absurd h h2⟩
  · left; exact ⟨h2, fun h => absurd h h1⟩
  · rcases vle_total a b with h | h <;> contradiction

theorem geq_trans (a b c : Str) (h1 : geq a b) (h2 : geq b c) : geq a c := by
  unfold geq at *
  refine ⟨vle_trans c b a h2.1 h1.1, ?_⟩
  intro hac
  -- a ≤ c ≤ b ≤ a : all three tie
  have hab : vle a b := vle_trans a c b hac h2.1
  have hbc : vle b c := vle_trans b a c h1.1 hac
  have s1 := h1.2 hab
  have s2 := h2.2 hbc
  cases h : strLt c a with
  | false => rfl
  | true =>
    -- c < a by name; b ≥ a or ... derive contradiction via totality of strLt
    by_cases hba : strLt b a = true
    · simp [hba] at s1
    · by_cases hcb : strLt c b = true
      · simp [hcb] at s2
      · -- ¬ b<a, ¬ c<b : so a ≤ b ≤ c by name, contradiction with c < a
        have hba' : strLt b a = false := by simpa using hba
        have hcb' : strLt c b = false := by simpa using hcb
        by_cases hab' : strLt a b = true
        · have := strLt_trans c a b h hab'; simp [this] at hcb'
        · have e1 : a = b := strLt_total a b (by simpa using hab') hba'
          subst e1
          simp [h] at hcb'

theorem geq_antisymm (a b : Str) (h1 : geq a b) (h2 : geq b a) : a = b :=
  (strLt_total a b (h2.2 h1.1) (h1.2 h2.1))

/-- `best_match` on two matching names returns one of them, at least as good as both -/
theorem bestMatch_both (pat : Pattern) (a b : Str)
    (ha : patternMatches pat a = true) (hb : patternMatches pat b = true) :
    ∃ w, bestMatch pat a b = some w ∧ (w = a ∨ w = b) ∧ geq w a ∧ geq w b := by
  simp only [bestMatch, ha, hb]
  have hg := gt_iff_not_vle a b
  have hl := lt_iff_not_vle a b
  simp only [dvOf] at hg hl
  by_cases h1 : deweyCmp (deweyVersion (pkgNameNew a).pkgversion) .gt (deweyVersion (pkgNameNew b).pkgversion) = true
  · have nab : ¬ vle a b := hg.mp h1
    have hba : vle b a := by rcases vle_total a b with h | h; exact absurd h nab; exact h
    simp only [h1, if_true]
    exact ⟨a, rfl, Or.inl rfl, geq_refl a, ⟨hba, fun h => absurd h nab⟩⟩
  · have hab : vle a b := by
      by_cases h : vle a b
      · exact h
      · exact absurd (hg.mpr h) h1
    simp only [h1, Bool.false_eq_true, if_false]
    by_cases h2 : deweyCmp (deweyVersion (pkgNameNew a).pkgversion) .lt (deweyVersion (pkgNameNew b).pkgversion) = true
    · have nba : ¬ vle b a := hl.mp h2
      simp only [h2, if_true]
      exact ⟨b, rfl, Or.inr rfl, ⟨hab, fun h => absurd h nba⟩, geq_refl b⟩
    · have hba : vle b a := by
        by_cases h : vle b a
        · exact h
        · exact absurd (hl.mpr h) h2
      simp only [h2, Bool.false_eq_true, if_false]
      by_cases h3 : strLt a b = true
      · simp only [h3, if_true]
        exact ⟨a, rfl, Or.inl rfl, geq_refl a, ⟨hba, fun _ => strLt_asymm a b h3⟩⟩
      · simp only [h3, Bool.false_eq_true, if_false]
        exact ⟨b, rfl, Or.inr rfl, ⟨hab, fun _ => by simpa using h3⟩, geq_refl b⟩

end L
