/-
Lemmas/BlockBuffer.lean — every block-buffered hasher (eager or BLAKE2-style lazy, any block
size, any compression function) satisfies the streaming law that the C13 theorems assume,
and streaming a message in any pieces equals the one-shot computation.
-/
import PkgsrcVerif.Model.BlockBuffer
namespace L
open M

theorem ready_append (B : BlockHash) (x y : Bytes) (h : B.ready x = true) : B.ready (x ++ y) = true := by
  simp only [BlockHash.ready] at h ⊢
  split at h <;> simp_all <;> omega

theorem ready_blk_le (B : BlockHash) (x : Bytes) (h : B.ready x = true) : B.blk ≤ x.length := by
  simp only [BlockHash.ready] at h
  split at h <;> simp at h <;> omega

/-- absorbing `x ++ y` = absorbing `x`, then absorbing what is left of it followed by `y` -/
theorem absorb_append (B : BlockHash) (n : Nat) : ∀ (x : Bytes), x.length ≤ n → ∀ (h : B.Chain) (y : Bytes),
    B.absorb h (x ++ y) = B.absorb (B.absorb h x).1 ((B.absorb h x).2 ++ y) := by
  induction n with
  | zero =>
    intro x hx h y
    have : x = [] := List.eq_nil_of_length_eq_zero (by omega)
    subst this
    have hr : B.ready [] = false := by
      have := B.blk_pos
      simp only [BlockHash.ready]; split <;> simp <;> omega
    rw [BlockHash.absorb.eq_1 B h []]
    simp [hr]
  | succ n ih =>
    intro x hx h y
    by_cases hr : B.ready x = true
    · have hle := ready_blk_le B x hr
      have hp := B.blk_pos
      rw [BlockHash.absorb.eq_1 B h (x ++ y), BlockHash.absorb.eq_1 B h x]
      simp only [ready_append B x y hr, hr, if_true]
      have e1 : (x ++ y).take B.blk = x.take B.blk := by
        rw [List.take_append_of_le_length hle]
      have e2 : (x ++ y).drop B.blk = x.drop B.blk ++ y := by
        rw [List.drop_append_of_le_length hle]
      rw [e1, e2]
      exact ih (x.drop B.blk) (by simp only [List.length_drop]; omega) _ y
    · have hr' : B.ready x = false := by simpa using hr
      rw [BlockHash.absorb.eq_1 B h x]
      simp [hr']

theorem absorb_idem (B : BlockHash) (h : B.Chain) (l : Bytes) :
    B.absorb (B.absorb h l).1 (B.absorb h l).2 = B.absorb h l := by
  have := absorb_append B l.length l (Nat.le_refl _) h []
  simp only [List.append_nil] at this
  exact this.symm

theorem absorb_nil_rest (B : BlockHash) (h : B.Chain) (l : Bytes) (hr : B.ready l = false) :
    B.absorb h l = (h, l) := by
  rw [BlockHash.absorb.eq_1]; simp [hr]

/-- what `absorb` leaves is never "ready" -/
theorem absorb_not_ready (B : BlockHash) (n : Nat) : ∀ (l : Bytes), l.length ≤ n → ∀ h : B.Chain,
    B.ready (B.absorb h l).2 = false := by
  induction n with
  | zero =>
    intro l hl h
    have : l = [] := List.eq_nil_of_length_eq_zero (by omega)
    subst this
    have hr : B.ready [] = false := by
      have := B.blk_pos
      simp only [BlockHash.ready]; split <;> simp <;> omega
    rw [absorb_nil_rest B h [] hr]; exact hr
  | succ n ih =>
    intro l hl h
    by_cases hr : B.ready l = true
    · have hle := ready_blk_le B l hr
      have hp := B.blk_pos
      rw [BlockHash.absorb.eq_1]
      simp only [hr, if_true]
      exact ih _ (by simp only [List.length_drop]; omega) _
    · have hr' : B.ready l = false := by simpa using hr
      rw [absorb_nil_rest B h l hr']; exact hr'

/-- **the streaming law holds for every block-buffered hasher** -/
theorem blockHasher_lawful (B : BlockHash) (s0 : BlockState B) (hs0 : B.ready s0.buf = false) :
    (∀ a b, B.hasher.update (B.hasher.update s0 a) b = B.hasher.update s0 (a ++ b)) := by
  intro a b
  simp only [BlockHash.hasher]
  have := absorb_append B (s0.buf ++ a).length (s0.buf ++ a) (Nat.le_refl _) s0.chain b
  rw [List.append_assoc] at this
  simp only [this, List.length_append, Nat.add_assoc]

/-- every state reachable from `init` keeps a non-ready buffer -/
def Reach (B : BlockHash) (s : BlockState B) : Prop := B.ready s.buf = false

theorem reach_init (B : BlockHash) : Reach B B.hasher.init := by
  have := B.blk_pos
  simp only [Reach, BlockHash.hasher, BlockHash.ready]; split <;> simp <;> omega

theorem reach_update (B : BlockHash) (s : BlockState B) (d : Bytes) : Reach B (B.hasher.update s d) := by
  simp only [Reach, BlockHash.hasher]
  exact absorb_not_ready B _ _ (Nat.le_refl _) _

theorem update_nil (B : BlockHash) (s : BlockState B) (hs : Reach B s) : B.hasher.update s [] = s := by
  simp only [BlockHash.hasher, List.append_nil, List.length_nil, Nat.add_zero]
  rw [absorb_nil_rest B s.chain s.buf hs]

/-- streaming the message in ANY pieces, then finalising = the one-shot computation -/
theorem stream_eq_oneShot (B : BlockHash) (chunks : List Bytes) :
    B.hasher.final (chunks.foldl B.hasher.update B.hasher.init) = B.oneShot chunks.flatten := by
  have key : ∀ (cs : List Bytes) (s : B.hasher.State), Reach B s →
      cs.foldl B.hasher.update s = B.hasher.update s cs.flatten := by
    intro cs
    induction cs with
    | nil => intro s hs; rw [List.foldl_nil, List.flatten_nil]; exact (update_nil B s hs).symm
    | cons c cs ih =>
      intro s hs
      rw [List.foldl_cons, List.flatten_cons, ih _ (reach_update B s c)]
      exact blockHasher_lawful B s hs c cs.flatten
  rw [key chunks _ (reach_init B)]
  simp [BlockHash.hasher, BlockHash.oneShot]

end L

namespace L
open M

/-- the hasher on its reachable states (buffer never holds a due block) -/
@[reducible] def hasherR (B : BlockHash) : Hasher where
  State := { s : BlockState B // Reach B s }
  init := ⟨B.hasher.init, reach_init B⟩
  update s d := ⟨B.hasher.update s.1 d, reach_update B s.1 d⟩
  final s := B.hasher.final s.1

theorem hasherR_lawful (B : BlockHash) : (hasherR B).Lawful := by
  refine ⟨?_, ?_⟩
  · intro s a b
    apply Subtype.ext
    exact blockHasher_lawful B s.1 s.2 a b
  · intro s
    apply Subtype.ext
    exact update_nil B s.1 s.2

theorem hasherR_final_update (B : BlockHash) (msg : Bytes) :
    (hasherR B).final ((hasherR B).update (hasherR B).init msg) = B.oneShot msg := by
  simp [hasherR, BlockHash.hasher, BlockHash.oneShot]

end L
