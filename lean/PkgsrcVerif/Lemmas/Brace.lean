/-
Lemmas/Brace.lean — csh brace expansion over parse trees: replacing the right-most
group by each of its alternatives enumerates exactly the expansions (semantic core of
C04), and what the rendering of a tree looks like as text.
-/
import PkgsrcVerif.Spec.Brace
namespace S
open M (Str)

def lits : Str → Seq
  | [] => .nil
  | c :: cs => .cons (.lit c) (lits cs)

/-- the alternatives of a flat group as strings (only meaningful when `a.groups = 0`) -/
def Alts.strings : Alts → List Str
  | .one s => [s.render]
  | .more s r => s.render :: r.strings

def Seq.app : Seq → Seq → Seq
  | .nil, t => t
  | .cons i s, t => .cons i (Seq.app s t)

-- Replace the group whose `{` is right-most in the rendering by the literal text `m`
-- (look to the right first; descend into a group only if nothing to its right has one).
mutual
def Item.subst (m : Str) : Item → Seq      -- an item becomes a sequence
  | .lit c => .cons (.lit c) .nil
  | .grp a => if a.groups = 0 then lits m else .cons (.grp (a.subst m)) .nil
def Alts.subst (m : Str) : Alts → Alts
  | .one s => .one (s.subst m)
  | .more s r => if r.groups = 0 then .more (s.subst m) r else .more s (r.subst m)
def Seq.subst (m : Str) : Seq → Seq
  | .nil => .nil
  | .cons i s => if s.groups = 0 then Seq.app (i.subst m) s else .cons i (s.subst m)
end


-- strings of the alternatives of the right-most group
mutual
def Item.last : Item → List Str
  | .lit _ => []
  | .grp a => if a.groups = 0 then a.strings else a.last
def Alts.last : Alts → List Str
  | .one s => s.last
  | .more s r => if r.groups = 0 then s.last else r.last
def Seq.last : Seq → List Str
  | .nil => []
  | .cons i s => if s.groups = 0 then i.last else s.last
end

theorem expand_lits (m : Str) : (lits m).expand = [m] := by
  induction m with
  | nil => simp [lits, Seq.expand]
  | cons c cs ih => simp [lits, Seq.expand, Item.expand, ih]

theorem expand_app : (s t : Seq) →
    (Seq.app s t).expand = s.expand.flatMap (fun x => t.expand.map (x ++ ·))
  | .nil, t => by simp [Seq.app, Seq.expand]
  | .cons i s, t => by
    simp only [Seq.app, Seq.expand, expand_app s t, List.flatMap_assoc, List.flatMap_map,
      List.map_flatMap, List.map_map]
    congr; funext x; congr; funext y; simp [Function.comp, List.append_assoc]

theorem Alts.strings_ne : (a : Alts) → a.strings ≠ []
  | .one _ => by simp [Alts.strings]
  | .more _ _ => by simp [Alts.strings]

mutual
theorem Item.last_ne : (i : Item) → 0 < i.groups → i.last ≠ []
  | .lit _, h => by simp [Item.groups] at h
  | .grp a, _ => by
    by_cases ha : a.groups = 0
    · simp [Item.last, ha, Alts.strings_ne]
    · simp [Item.last, ha, Alts.last_ne a (by omega)]
theorem Alts.last_ne : (a : Alts) → 0 < a.groups → a.last ≠ []
  | .one s, h => by simp only [Alts.groups] at h; simp [Alts.last, Seq.last_ne s h]
  | .more s r, h => by
    simp only [Alts.groups] at h
    by_cases hr : r.groups = 0
    · simp [Alts.last, hr, Seq.last_ne s (by omega)]
    · simp [Alts.last, hr, Alts.last_ne r (by omega)]
theorem Seq.last_ne : (s : Seq) → 0 < s.groups → s.last ≠ []
  | .nil, h => by simp [Seq.groups] at h
  | .cons i s, h => by
    simp only [Seq.groups] at h
    by_cases hs : s.groups = 0
    · simp [Seq.last, hs, Item.last_ne i (by omega)]
    · simp [Seq.last, hs, Seq.last_ne s (by omega)]
end

-- a group-free sequence expands to exactly its rendering
mutual
theorem Item.expand_flat : (i : Item) → i.groups = 0 → i.expand = [i.render]
  | .lit c, _ => by simp [Item.expand, Item.render]
  | .grp a, h => by simp [Item.groups] at h
theorem Seq.expand_flat : (s : Seq) → s.groups = 0 → s.expand = [s.render]
  | .nil, _ => by simp [Seq.expand, Seq.render]
  | .cons i s, h => by
    simp only [Seq.groups] at h
    have hi := Item.expand_flat i (by omega)
    have hs := Seq.expand_flat s (by omega)
    simp [Seq.expand, Seq.render, hi, hs]
end

theorem Alts.expand_flat : (a : Alts) → a.groups = 0 → a.expand = a.strings
  | .one s, h => by simp [Alts.groups] at h; simp [Alts.expand, Alts.strings, Seq.expand_flat s h]
  | .more s r, h => by
    simp only [Alts.groups] at h
    simp [Alts.expand, Alts.strings, Seq.expand_flat s (by omega), Alts.expand_flat r (by omega)]

-- L5: the expansions of x are exactly the expansions of x with its right-most group replaced by
-- each of that group's alternatives.
mutual
theorem Item.expand_subst : (i : Item) → 0 < i.groups → ∀ e,
    e ∈ i.expand ↔ ∃ m ∈ i.last, e ∈ (i.subst m).expand
  | .lit c, h, _ => by simp [Item.groups] at h
  | .grp a, _, e => by
    by_cases ha : a.groups = 0
    · simp [Item.expand, Item.last, Item.subst, ha, expand_lits, Alts.expand_flat a ha]
    · have := Alts.expand_subst a (by omega) e
      simp [Item.expand, Item.last, Item.subst, ha, Seq.expand, this]
theorem Alts.expand_subst : (a : Alts) → 0 < a.groups → ∀ e,
    e ∈ a.expand ↔ ∃ m ∈ a.last, e ∈ (a.subst m).expand
  | .one s, h, e => by
    simp only [Alts.groups] at h
    simpa [Alts.expand, Alts.last, Alts.subst] using Seq.expand_subst s h e
  | .more s r, h, e => by
    simp only [Alts.groups] at h
    by_cases hr : r.groups = 0
    · have := Seq.expand_subst s (by omega) e
      obtain ⟨m0, hm0⟩ := List.exists_mem_of_ne_nil _ (Seq.last_ne s (by omega))
      simp only [Alts.expand, Alts.last, Alts.subst, hr, if_true, List.mem_append, this]
      constructor
      · rintro (⟨m, hm, he⟩ | he)
        · exact ⟨m, hm, Or.inl he⟩
        · exact ⟨m0, hm0, Or.inr he⟩
      · rintro ⟨m, hm, he | he⟩
        · exact Or.inl ⟨m, hm, he⟩
        · exact Or.inr he
    · have := Alts.expand_subst r (by omega) e
      obtain ⟨m0, hm0⟩ := List.exists_mem_of_ne_nil _ (Alts.last_ne r (by omega))
      simp only [Alts.expand, Alts.last, Alts.subst, hr, if_false, List.mem_append, this]
      constructor
      · rintro (he | ⟨m, hm, he⟩)
        · exact ⟨m0, hm0, Or.inl he⟩
        · exact ⟨m, hm, Or.inr he⟩
      · rintro ⟨m, hm, he | he⟩
        · exact Or.inl he
        · exact Or.inr ⟨m, hm, he⟩
theorem Seq.expand_subst : (s : Seq) → 0 < s.groups → ∀ e,
    e ∈ s.expand ↔ ∃ m ∈ s.last, e ∈ (s.subst m).expand
  | .nil, h, _ => by simp [Seq.groups] at h
  | .cons i s, h, e => by
    simp only [Seq.groups] at h
    by_cases hs : s.groups = 0
    · have := Item.expand_subst i (by omega)
      simp only [Seq.expand, Seq.last, Seq.subst, hs, if_true, expand_app, List.mem_flatMap,
        List.mem_map]
      constructor
      · rintro ⟨x, hx, y, hy, rfl⟩
        obtain ⟨m, hm, hx'⟩ := (this x).mp hx
        exact ⟨m, hm, x, hx', y, hy, rfl⟩
      · rintro ⟨m, hm, x, hx, y, hy, rfl⟩
        exact ⟨x, (this x).mpr ⟨m, hm, hx⟩, y, hy, rfl⟩
    · have := Seq.expand_subst s (by omega)
      simp only [Seq.expand, Seq.last, Seq.subst, hs, if_false, List.mem_flatMap, List.mem_map]
      constructor
      · rintro ⟨x, hx, y, hy, rfl⟩
        obtain ⟨m, hm, hy'⟩ := (this y).mp hy
        exact ⟨m, hm, x, hx, y, hy', rfl⟩
      · rintro ⟨m, hm, x, hx, y, hy, rfl⟩
        exact ⟨x, hx, y, (this y).mpr ⟨m, hm, hy⟩, rfl⟩
end



end S

namespace S
open M (Str balanced)

-- the rendering of a well-formed tree is brace-balanced, in any context
mutual
theorem Item.balanced_render : (i : Item) → (g : Bool) → i.wf g = true → ∀ rest d,
    balanced (i.render ++ rest) d = balanced rest d
  | .lit c, g, h, rest, d => by
    simp only [Item.wf, Bool.and_eq_true, bne_iff_ne, ne_eq] at h
    have h1 : (c == '{') = false := by simpa using h.1.1
    have h2 : (c == '}') = false := by simpa using h.1.2
    simp [Item.render, balanced, h1, h2]
  | .grp a, g, h, rest, d => by
    simp only [Item.wf] at h
    have := Alts.balanced_render a h ('}' :: rest) (d + 1)
    simp only [Item.render, List.cons_append, List.append_assoc, List.nil_append, balanced,
      beq_self_eq_true, if_true, this]
    have hne : ('}' == '{') = false := by decide
    simp [hne]
theorem Alts.balanced_render : (a : Alts) → a.wf = true → ∀ rest d,
    balanced (a.render ++ rest) d = balanced rest d
  | .one s, h, rest, d => by
    simp only [Alts.wf] at h
    simpa [Alts.render] using Seq.balanced_render s true h rest d
  | .more s r, h, rest, d => by
    simp only [Alts.wf, Bool.and_eq_true] at h
    have h1 := Seq.balanced_render s true h.1 (',' :: (r.render ++ rest)) d
    have h2 := Alts.balanced_render r h.2 rest d
    have c1 : (',' == '{') = false := by decide
    have c2 : (',' == '}') = false := by decide
    simp only [Alts.render, List.append_assoc, List.cons_append, h1, balanced, c1, c2,
      Bool.false_eq_true, if_false, h2]
theorem Seq.balanced_render : (s : Seq) → (g : Bool) → s.wf g = true → ∀ rest d,
    balanced (s.render ++ rest) d = balanced rest d
  | .nil, _, _, rest, d => by simp [Seq.render]
  | .cons i s, g, h, rest, d => by
    simp only [Seq.wf, Bool.and_eq_true] at h
    have h1 := Item.balanced_render i g h.1 (s.render ++ rest) d
    have h2 := Seq.balanced_render s g h.2 rest d
    simp only [Seq.render, List.append_assoc, h1, h2]
end

-- a group-free well-formed tree renders without braces
mutual
theorem Item.render_no_brace : (i : Item) → (g : Bool) → i.wf g = true → i.groups = 0 →
    ∀ c ∈ i.render, c ≠ '{' ∧ c ≠ '}'
  | .lit c, g, h, _, x, hx => by
    simp only [Item.wf, Bool.and_eq_true, bne_iff_ne, ne_eq] at h
    simp only [Item.render, List.mem_singleton] at hx
    subst hx; exact ⟨h.1.1, h.1.2⟩
  | .grp a, _, _, hg, _, _ => by simp [Item.groups] at hg
theorem Seq.render_no_brace : (s : Seq) → (g : Bool) → s.wf g = true → s.groups = 0 →
    ∀ c ∈ s.render, c ≠ '{' ∧ c ≠ '}'
  | .nil, _, _, _, x, hx => by simp [Seq.render] at hx
  | .cons i s, g, h, hg, x, hx => by
    simp only [Seq.wf, Bool.and_eq_true] at h
    simp only [Seq.groups] at hg
    simp only [Seq.render, List.mem_append] at hx
    rcases hx with hx | hx
    · exact Item.render_no_brace i g h.1 (by omega) x hx
    · exact Seq.render_no_brace s g h.2 (by omega) x hx
end

end S
