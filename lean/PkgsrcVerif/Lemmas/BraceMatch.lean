/-
Lemmas/BraceMatch.lean — `alternate_match` on the rendering of a well-formed tree decides
"some csh expansion of the tree matches" (C04, soundness and completeness).
-/
import PkgsrcVerif.Lemmas.BraceText
namespace L
open M S




theorem patternNew_pattern (e : Str) (pat : Pattern) (h : patternNew e = .ok pat) : pat.pattern = e := by
  unfold patternNew at h
  split at h
  · split at h
    · injection h with h; rw [← h]
    · cases h
  · split at h
    · split at h
      · injection h with h; rw [← h]
      · cases h
    · split at h
      · split at h
        · injection h with h; rw [← h]
        · cases h
      · injection h with h; rw [← h]

theorem altMatch_eq (p n : Str) :
    altMatch p n = match splitLastBrace p with
      | none => false
      | some (first, alts, last) => alts.any fun m => expansionMatches (first ++ m ++ last) n := by
  rw [altMatch]
  split
  · rename_i h; simp [h]
  · rename_i first alts last h
    simp only [h]
    conv => rhs; rw [← List.attach_map_subtype_val alts, List.any_map]
    congr 1
    funext x
    simp only [Function.comp, expansionMatches]
    cases hp : patternNew (first ++ x.val ++ last) with
    | error e => rfl
    | ok pat =>
      simp only [patternMatches, patternNew_pattern _ _ hp]

theorem expansionMatches_quick (e n : Str) (h : expansionMatches e n = true) : quickPkgMatch e n = true := by
  unfold expansionMatches at h
  cases hp : patternNew e with
  | error x => simp [hp] at h
  | ok pat =>
    simp only [hp, patternMatches, Bool.and_eq_true, patternNew_pattern _ _ hp] at h
    exact h.1

theorem expansionMatches_alt (r n : Str)
    (hnew : patternNew r = .ok { kind := .alternate, pattern := r }) :
    expansionMatches r n = (quickPkgMatch r n && altMatch r n) := by
  unfold expansionMatches
  simp only [hnew, patternMatches, beq_self_eq_true, if_true]

theorem any_congr_mem {α} (l : List α) (f g : α → Bool) (h : ∀ a ∈ l, f a = g a) : l.any f = l.any g := by
  induction l with
  | nil => rfl
  | cons a l ih =>
    simp only [List.any_cons, h a (by simp), ih fun x hx => h x (by simp [hx])]

theorem isSimple_open : isSimpleChar '{' = false := by decide

/-- the quick pre-filter, applied to a pattern that still contains groups, never rejects a name
    that one of the pattern's expansions accepts: it only looks at leading literal characters,
    which every expansion shares -/
theorem quick_of_expansion (t : Seq) (e n : Str) (he : e ∈ t.expand)
    (hq : quickPkgMatch e n = true) : quickPkgMatch t.render n = true := by
  cases t with
  | nil => simp [Seq.render, quickPkgMatch]
  | cons i s =>
    cases i with
    | grp a => simp [Seq.render, Item.render, quickPkgMatch, isSimple_open]
    | lit c =>
      simp only [Seq.expand, Item.expand, List.flatMap_cons, List.flatMap_nil, List.append_nil, List.mem_map] at he
      obtain ⟨e', he', rfl⟩ := he
      simp only [Seq.render, Item.render, List.singleton_append, List.cons_append, List.nil_append] at hq ⊢
      by_cases hc : isSimpleChar c = true
      · cases n with
        | nil => simp [quickPkgMatch, hc] at hq
        | cons k0 kr =>
          by_cases hk : c = k0
          · subst hk
            cases s with
            | nil => simp [quickPkgMatch, hc, Seq.render]
            | cons i2 s2 =>
              cases i2 with
              | grp a => simp [quickPkgMatch, hc, Seq.render, Item.render, isSimple_open]
              | lit c1 =>
                simp only [Seq.expand, Item.expand, List.flatMap_cons, List.flatMap_nil, List.append_nil,
                  List.mem_map] at he'
                obtain ⟨e'', _, rfl⟩ := he'
                simp only [List.singleton_append] at hq
                simpa [quickPkgMatch, hc, Seq.render, Item.render] using hq
          · have : (c != k0) = true := by simpa using hk
            simp [quickPkgMatch, hc, this] at hq
      · have : isSimpleChar c = false := by simpa using hc
        simp [quickPkgMatch, this]

theorem render_has_open (t : Seq) (hg : 0 < t.groups) : t.render.contains '{' = true := by
  rw [Seq.render_split t hg]; simp

/-- **C04**: on the rendering of any well-formed tree with at least one group, the implementation's
    substitute-recompile-recurse loop accepts a name iff some csh expansion of the tree does -/
theorem altMatch_tree (k : Nat) : ∀ t : Seq, t.groups = k + 1 → t.wf false = true → ∀ n,
    altMatch t.render n = t.expand.any (expansionMatches · n) := by
  induction k with
  | zero =>
    intro t hk hw n
    have hg : 0 < t.groups := by omega
    rw [altMatch_eq, splitLastBrace_render t hw hg]
    simp only
    have hcand : ∀ m ∈ t.last, expansionMatches (t.pre ++ m ++ t.post) n =
        (t.subst m).expand.any (expansionMatches · n) := by
      intro m hm
      have hplain := last_plain t hw hg m hm
      obtain ⟨_, hgr⟩ := Seq.subst_ok t false hw hg m hplain
      have hflat : (t.subst m).groups = 0 := by omega
      rw [Seq.expand_flat _ hflat, Seq.render_subst t hg m]
      simp
    rw [any_congr_mem _ _ _ hcand]
    apply Bool.eq_iff_iff.mpr
    simp only [List.any_eq_true]
    constructor
    · rintro ⟨m, hm, e, he, hx⟩
      exact ⟨e, (Seq.expand_subst t hg e).mpr ⟨m, hm, he⟩, hx⟩
    · rintro ⟨e, he, hx⟩
      obtain ⟨m, hm, he'⟩ := (Seq.expand_subst t hg e).mp he
      exact ⟨m, hm, e, he', hx⟩
  | succ k ih =>
    intro t hk hw n
    have hg : 0 < t.groups := by omega
    rw [altMatch_eq, splitLastBrace_render t hw hg]
    simp only
    have hcand : ∀ m ∈ t.last, expansionMatches (t.pre ++ m ++ t.post) n =
        (t.subst m).expand.any (expansionMatches · n) := by
      intro m hm
      have hplain := last_plain t hw hg m hm
      obtain ⟨hwf, hgr⟩ := Seq.subst_ok t false hw hg m hplain
      have hgk : (t.subst m).groups = k + 1 := by omega
      have hrec := ih (t.subst m) hgk hwf n
      rw [← Seq.render_subst t hg m]
      have hopen := render_has_open (t.subst m) (by omega)
      have hbal := Seq.balanced_render (t.subst m) false hwf [] 0
      simp only [List.append_nil, balanced, beq_self_eq_true] at hbal
      have hnew : patternNew (t.subst m).render = .ok { kind := .alternate, pattern := (t.subst m).render } := by
        simp only [patternNew, hopen, Bool.true_or, if_true, hbal]
      rw [expansionMatches_alt _ n hnew, hrec]
      -- the quick pre-filter is implied by any accepting expansion
      cases hany : (t.subst m).expand.any (expansionMatches · n) with
      | false => simp
      | true =>
        obtain ⟨e, he, hx⟩ := List.any_eq_true.mp hany
        have hq := quick_of_expansion (t.subst m) e n he (expansionMatches_quick e n hx)
        simp [hq]
    rw [any_congr_mem _ _ _ hcand]
    apply Bool.eq_iff_iff.mpr
    simp only [List.any_eq_true]
    constructor
    · rintro ⟨m, hm, e, he, hx⟩
      exact ⟨e, (Seq.expand_subst t hg e).mpr ⟨m, hm, he⟩, hx⟩
    · rintro ⟨e, he, hx⟩
      obtain ⟨m, hm, he'⟩ := (Seq.expand_subst t hg e).mp he
      exact ⟨m, hm, e, he', hx⟩

end L
