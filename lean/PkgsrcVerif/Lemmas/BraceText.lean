/-
Lemmas/BraceText.lean — the textual step of `alternate_match` on the rendering of a parse
tree: `rfind('{')`, the first '}' after it and `split(',')` find the right-most group and its
alternatives, and `format!("{first}{m}{last}")` is the rendering of the tree with that group
replaced by `m`.
-/
import PkgsrcVerif.Lemmas.Brace
namespace S
open M (Str)

-- text before the right-most group's '{', its inside, and the text after its '}'
mutual
def Item.pre : Item → Str
  | .lit _ => []
  | .grp a => if a.groups = 0 then [] else '{' :: a.pre
def Alts.pre : Alts → Str
  | .one s => s.pre
  | .more s r => if r.groups = 0 then s.pre else s.render ++ ',' :: r.pre
def Seq.pre : Seq → Str
  | .nil => []
  | .cons i s => if s.groups = 0 then i.pre else i.render ++ s.pre
end

mutual
def Item.inner : Item → Str
  | .lit _ => []
  | .grp a => if a.groups = 0 then a.render else a.inner
def Alts.inner : Alts → Str
  | .one s => s.inner
  | .more s r => if r.groups = 0 then s.inner else r.inner
def Seq.inner : Seq → Str
  | .nil => []
  | .cons i s => if s.groups = 0 then i.inner else s.inner
end

mutual
def Item.post : Item → Str
  | .lit _ => []
  | .grp a => if a.groups = 0 then [] else a.post ++ ['}']
def Alts.post : Alts → Str
  | .one s => s.post
  | .more s r => if r.groups = 0 then s.post ++ ',' :: r.render else r.post
def Seq.post : Seq → Str
  | .nil => []
  | .cons i s => if s.groups = 0 then i.post ++ s.render else s.post
end

-- D1: the rendering is  pre ++ '{' ++ inner ++ '}' ++ post
mutual
theorem Item.render_split : (i : Item) → 0 < i.groups →
    i.render = i.pre ++ '{' :: (i.inner ++ '}' :: i.post)
  | .lit _, h => by simp [Item.groups] at h
  | .grp a, _ => by
    by_cases hg : a.groups = 0
    · simp [Item.render, Item.pre, Item.inner, Item.post, hg]
    · have := Alts.render_split a (by omega)
      simp only [Item.render, Item.pre, Item.inner, Item.post, hg, if_false]
      rw [this]; simp
theorem Alts.render_split : (a : Alts) → 0 < a.groups →
    a.render = a.pre ++ '{' :: (a.inner ++ '}' :: a.post)
  | .one s, h => by
    simp only [Alts.groups] at h
    simpa [Alts.render, Alts.pre, Alts.inner, Alts.post] using Seq.render_split s h
  | .more s r, h => by
    simp only [Alts.groups] at h
    by_cases hg : r.groups = 0
    · have := Seq.render_split s (by omega)
      simp only [Alts.render, Alts.pre, Alts.inner, Alts.post, hg, if_true]
      rw [this]; simp
    · have := Alts.render_split r (by omega)
      simp only [Alts.render, Alts.pre, Alts.inner, Alts.post, hg, if_false]
      rw [this]; simp
theorem Seq.render_split : (s : Seq) → 0 < s.groups →
    s.render = s.pre ++ '{' :: (s.inner ++ '}' :: s.post)
  | .nil, h => by simp [Seq.groups] at h
  | .cons i s, h => by
    simp only [Seq.groups] at h
    by_cases hg : s.groups = 0
    · have := Item.render_split i (by omega)
      simp only [Seq.render, Seq.pre, Seq.inner, Seq.post, hg, if_true]
      rw [this]; simp
    · have := Seq.render_split s (by omega)
      simp only [Seq.render, Seq.pre, Seq.inner, Seq.post, hg, if_false]
      rw [this]; simp
end

theorem render_lits (m : Str) : (lits m).render = m := by
  induction m with
  | nil => rfl
  | cons c m ih => simp [lits, Seq.render, Item.render, ih]

theorem render_app : (s t : Seq) → (Seq.app s t).render = s.render ++ t.render
  | .nil, t => by simp [Seq.app, Seq.render]
  | .cons i s, t => by simp [Seq.app, Seq.render, render_app s t]

-- D2: substituting `m` for the right-most group renders as  pre ++ m ++ post
mutual
theorem Item.render_subst : (i : Item) → 0 < i.groups → ∀ m,
    (i.subst m).render = i.pre ++ m ++ i.post
  | .lit _, h, _ => by simp [Item.groups] at h
  | .grp a, _, m => by
    by_cases hg : a.groups = 0
    · simp [Item.subst, Item.pre, Item.post, hg, render_lits]
    · have := Alts.render_subst a (by omega) m
      simp only [Item.subst, Item.pre, Item.post, hg, if_false, Seq.render, Item.render, this]
      simp
theorem Alts.render_subst : (a : Alts) → 0 < a.groups → ∀ m,
    (a.subst m).render = a.pre ++ m ++ a.post
  | .one s, h, m => by
    simp only [Alts.groups] at h
    simpa [Alts.subst, Alts.render, Alts.pre, Alts.post] using Seq.render_subst s h m
  | .more s r, h, m => by
    simp only [Alts.groups] at h
    by_cases hg : r.groups = 0
    · have := Seq.render_subst s (by omega) m
      simp only [Alts.subst, Alts.pre, Alts.post, hg, if_true, Alts.render, this]
      simp
    · have := Alts.render_subst r (by omega) m
      simp only [Alts.subst, Alts.pre, Alts.post, hg, if_false, Alts.render, this]
      simp
theorem Seq.render_subst : (s : Seq) → 0 < s.groups → ∀ m,
    (s.subst m).render = s.pre ++ m ++ s.post
  | .nil, h, _ => by simp [Seq.groups] at h
  | .cons i s, h, m => by
    simp only [Seq.groups] at h
    by_cases hg : s.groups = 0
    · have := Item.render_subst i (by omega) m
      simp only [Seq.subst, Seq.pre, Seq.post, hg, if_true, render_app, this]
      simp
    · have := Seq.render_subst s (by omega) m
      simp only [Seq.subst, Seq.pre, Seq.post, hg, if_false, Seq.render, this]
      simp
end


/-! ### flat (group-free) parts -/

open M (splitOn)

theorem splitOn_none (sep : Char) (a : Str) (h : sep ∉ a) : splitOn sep a = [a] := by
  induction a with
  | nil => rfl
  | cons c a ih =>
    simp only [List.mem_cons, not_or] at h
    have hc : (c == sep) = false := by simpa using fun e => h.1 e.symm
    simp [splitOn, hc, ih h.2]

theorem splitOn_append_sep (sep : Char) (a b : Str) (h : sep ∉ a) :
    splitOn sep (a ++ sep :: b) = a :: splitOn sep b := by
  induction a with
  | nil => simp [splitOn]
  | cons c a ih =>
    simp only [List.mem_cons, not_or] at h
    have hc : (c == sep) = false := by simpa using fun e => h.1 e.symm
    simp [splitOn, hc, ih h.2]

mutual
theorem Item.flat_no_comma : (i : Item) → i.wf true = true → i.groups = 0 → ',' ∉ i.render
  | .lit c, h, _ => by
    simp only [Item.wf, Bool.and_eq_true, Bool.not_eq_true', Bool.true_and] at h
    simp only [Item.render, List.mem_singleton]
    intro e; subst e; simp at h
  | .grp a, _, hg => by simp [Item.groups] at hg
theorem Seq.flat_no_comma : (s : Seq) → s.wf true = true → s.groups = 0 → ',' ∉ s.render
  | .nil, _, _ => by simp [Seq.render]
  | .cons i s, h, hg => by
    simp only [Seq.wf, Bool.and_eq_true] at h
    simp only [Seq.groups] at hg
    simp only [Seq.render, List.mem_append, not_or]
    exact ⟨Item.flat_no_comma i h.1 (by omega), Seq.flat_no_comma s h.2 (by omega)⟩
end

theorem Alts.flat_no_brace : (a : Alts) → a.wf = true → a.groups = 0 →
    ∀ c ∈ a.render, c ≠ '{' ∧ c ≠ '}'
  | .one s, h, hg, c, hc => by
    simp only [Alts.wf] at h
    simp only [Alts.groups] at hg
    exact Seq.render_no_brace s true h hg c (by simpa [Alts.render] using hc)
  | .more s r, h, hg, c, hc => by
    simp only [Alts.wf, Bool.and_eq_true] at h
    simp only [Alts.groups] at hg
    simp only [Alts.render, List.mem_append, List.mem_cons] at hc
    rcases hc with hc | rfl | hc
    · exact Seq.render_no_brace s true h.1 (by omega) c hc
    · exact ⟨by decide, by decide⟩
    · exact Alts.flat_no_brace r h.2 (by omega) c hc

theorem Alts.flat_split : (a : Alts) → a.wf = true → a.groups = 0 → splitOn ',' a.render = a.strings
  | .one s, h, hg => by
    simp only [Alts.wf] at h
    simp only [Alts.groups] at hg
    simp only [Alts.render, Alts.strings]
    exact splitOn_none ',' _ (Seq.flat_no_comma s h hg)
  | .more s r, h, hg => by
    simp only [Alts.wf, Bool.and_eq_true] at h
    simp only [Alts.groups] at hg
    simp only [Alts.render, Alts.strings]
    rw [splitOn_append_sep ',' _ _ (Seq.flat_no_comma s h.1 (by omega)), Alts.flat_split r h.2 (by omega)]

/-- everything the text search relies on -/
structure TextOk (inner post : Str) (last : List Str) : Prop where
  inner_open : '{' ∉ inner
  inner_close : '}' ∉ inner
  post_open : '{' ∉ post
  split : splitOn ',' inner = last

mutual
theorem Item.text_ok : (i : Item) → (g : Bool) → i.wf g = true → 0 < i.groups →
    TextOk i.inner i.post i.last
  | .lit _, _, _, h => by simp [Item.groups] at h
  | .grp a, _, hw, _ => by
    simp only [Item.wf] at hw
    by_cases hg : a.groups = 0
    · have nb := Alts.flat_no_brace a hw hg
      simp only [Item.inner, Item.post, Item.last, hg, if_true]
      exact ⟨fun h => (nb _ h).1 rfl, fun h => (nb _ h).2 rfl, by simp, Alts.flat_split a hw hg⟩
    · have := Alts.text_ok a hw (by omega)
      simp only [Item.inner, Item.post, Item.last, hg, if_false]
      refine ⟨this.inner_open, this.inner_close, ?_, this.split⟩
      simp only [List.mem_append, List.mem_singleton, not_or]
      exact ⟨this.post_open, by decide⟩
theorem Alts.text_ok : (a : Alts) → a.wf = true → 0 < a.groups → TextOk a.inner a.post a.last
  | .one s, hw, h => by
    simp only [Alts.wf] at hw
    simp only [Alts.groups] at h
    simpa [Alts.inner, Alts.post, Alts.last] using Seq.text_ok s true hw h
  | .more s r, hw, h => by
    simp only [Alts.wf, Bool.and_eq_true] at hw
    simp only [Alts.groups] at h
    by_cases hg : r.groups = 0
    · have := Seq.text_ok s true hw.1 (by omega)
      have nb := Alts.flat_no_brace r hw.2 hg
      simp only [Alts.inner, Alts.post, Alts.last, hg, if_true]
      refine ⟨this.inner_open, this.inner_close, ?_, this.split⟩
      simp only [List.mem_append, List.mem_cons, not_or]
      exact ⟨this.post_open, by decide, fun h => (nb _ h).1 rfl⟩
    · have := Alts.text_ok r hw.2 (by omega)
      simp only [Alts.inner, Alts.post, Alts.last, hg, if_false]
      exact this
theorem Seq.text_ok : (s : Seq) → (g : Bool) → s.wf g = true → 0 < s.groups → TextOk s.inner s.post s.last
  | .nil, _, _, h => by simp [Seq.groups] at h
  | .cons i s, g, hw, h => by
    simp only [Seq.wf, Bool.and_eq_true] at hw
    simp only [Seq.groups] at h
    by_cases hg : s.groups = 0
    · have := Item.text_ok i g hw.1 (by omega)
      have nb := Seq.render_no_brace s g hw.2 hg
      simp only [Seq.inner, Seq.post, Seq.last, hg, if_true]
      refine ⟨this.inner_open, this.inner_close, ?_, this.split⟩
      simp only [List.mem_append, not_or]
      exact ⟨this.post_open, fun h => (nb _ h).1 rfl⟩
    · have := Seq.text_ok s g hw.2 (by omega)
      simp only [Seq.inner, Seq.post, Seq.last, hg, if_false]
      exact this
end


/-! ### the textual step -/

open M (rsplitAt splitAtFirst splitLastBrace)

theorem rsplitAt_none (x : Char) (r : Str) (h : x ∉ r) : rsplitAt x r = none := by
  induction r with
  | nil => rfl
  | cons c r ih =>
    simp only [List.mem_cons, not_or] at h
    have hc : (c == x) = false := by simpa using fun e => h.1 e.symm
    simp [rsplitAt, ih h.2, hc]

theorem rsplitAt_last (x : Char) (pre rest : Str) (h : x ∉ rest) :
    rsplitAt x (pre ++ x :: rest) = some (pre, rest) := by
  induction pre with
  | nil => simp [rsplitAt, rsplitAt_none x rest h]
  | cons c pre ih => simp [rsplitAt, ih]

theorem splitAtFirst_first (x : Char) (inner post : Str) (h : x ∉ inner) :
    splitAtFirst x (inner ++ x :: post) = some (inner, post) := by
  induction inner with
  | nil => simp [splitAtFirst]
  | cons c inner ih =>
    simp only [List.mem_cons, not_or] at h
    have hc : (c == x) = false := by simpa using fun e => h.1 e.symm
    simp [splitAtFirst, hc, ih h.2]

/-- on the rendering of a well-formed tree with at least one group, the text search finds the
    right-most group: what precedes it, its alternatives, what follows it -/
theorem splitLastBrace_render (t : Seq) (hw : t.wf false = true) (hg : 0 < t.groups) :
    splitLastBrace t.render = some (t.pre, t.last, t.post) := by
  have ok := Seq.text_ok t false hw hg
  rw [Seq.render_split t hg]
  unfold splitLastBrace
  have hno : '{' ∉ t.inner ++ '}' :: t.post := by
    simp only [List.mem_append, List.mem_cons, not_or]
    exact ⟨ok.inner_open, by decide, ok.post_open⟩
  rw [rsplitAt_last '{' _ _ hno]
  simp only
  rw [splitAtFirst_first '}' _ _ ok.inner_close]
  simp only [ok.split]


/-! ### the substituted tree is again a well-formed tree with one group less -/

theorem splitOn_mem_sub (sep : Char) (l m : Str) (h : m ∈ splitOn sep l) : ∀ c ∈ m, c ∈ l ∧ c ≠ sep := by
  induction l generalizing m with
  | nil => simp only [splitOn, List.mem_singleton] at h; subst h; simp
  | cons x l ih =>
    by_cases hx : x = sep
    · subst hx
      simp only [splitOn, beq_self_eq_true, if_true, List.mem_cons] at h
      rcases h with rfl | h
      · simp
      · intro c hc
        have := ih m h c hc
        exact ⟨by simp [this.1], this.2⟩
    · have hxs : (x == sep) = false := by simpa using hx
      simp only [splitOn, hxs, Bool.false_eq_true, if_false] at h
      cases hs : splitOn sep l with
      | nil =>
        simp only [hs, List.mem_singleton] at h
        subst h
        intro c hc
        simp only [List.mem_singleton] at hc
        subst hc
        exact ⟨by simp, hx⟩
      | cons seg segs =>
        simp only [hs, List.mem_cons] at h
        rcases h with rfl | h
        · intro c hc
          simp only [List.mem_cons] at hc
          rcases hc with rfl | hc
          · exact ⟨by simp, hx⟩
          · have := ih seg (by rw [hs]; simp) c hc
            exact ⟨by simp [this.1], this.2⟩
        · intro c hc
          have := ih m (by rw [hs]; simp [h]) c hc
          exact ⟨by simp [this.1], this.2⟩

/-- an alternative of the right-most group is plain text: no brace, no comma -/
theorem last_plain (t : Seq) (hw : t.wf false = true) (hg : 0 < t.groups) (m : Str) (hm : m ∈ t.last) :
    ∀ c ∈ m, c ≠ '{' ∧ c ≠ '}' ∧ c ≠ ',' := by
  have ok := Seq.text_ok t false hw hg
  rw [← ok.split] at hm
  intro c hc
  have := splitOn_mem_sub ',' _ m hm c hc
  exact ⟨fun e => ok.inner_open (e ▸ this.1), fun e => ok.inner_close (e ▸ this.1), this.2⟩

theorem wf_lits (m : Str) (g : Bool) (h : ∀ c ∈ m, c ≠ '{' ∧ c ≠ '}' ∧ c ≠ ',') : (lits m).wf g = true := by
  induction m with
  | nil => rfl
  | cons c m ih =>
    have hc := h c (by simp)
    simp only [lits, Seq.wf, Item.wf, Bool.and_eq_true, bne_iff_ne, ne_eq, Bool.not_eq_true',
      Bool.and_eq_false_iff]
    refine ⟨⟨⟨hc.1, hc.2.1⟩, Or.inr (by simpa using hc.2.2)⟩, ih fun x hx => h x (by simp [hx])⟩

theorem groups_lits (m : Str) : (lits m).groups = 0 := by
  induction m with
  | nil => rfl
  | cons c m ih => simp [lits, Seq.groups, Item.groups, ih]

theorem wf_app : (s t : Seq) → (g : Bool) → (Seq.app s t).wf g = (s.wf g && t.wf g)
  | .nil, t, g => by simp [Seq.app, Seq.wf]
  | .cons i s, t, g => by simp [Seq.app, Seq.wf, wf_app s t g, Bool.and_assoc]

theorem groups_app : (s t : Seq) → (Seq.app s t).groups = s.groups + t.groups
  | .nil, t => by simp [Seq.app, Seq.groups]
  | .cons i s, t => by simp [Seq.app, Seq.groups, groups_app s t]; omega

mutual
theorem Item.subst_ok : (i : Item) → (g : Bool) → i.wf g = true → 0 < i.groups → ∀ m,
    (∀ c ∈ m, c ≠ '{' ∧ c ≠ '}' ∧ c ≠ ',') →
    (i.subst m).wf g = true ∧ (i.subst m).groups + 1 = i.groups
  | .lit _, _, _, h, _, _ => by simp [Item.groups] at h
  | .grp a, g, hw, _, m, hm => by
    simp only [Item.wf] at hw
    by_cases hg : a.groups = 0
    · simp only [Item.subst, hg, if_true, Item.groups]
      exact ⟨wf_lits m g hm, by rw [groups_lits]⟩
    · have := Alts.subst_ok a hw (by omega) m hm
      simp only [Item.subst, hg, if_false, Seq.wf, Item.wf, Seq.groups, Item.groups, Bool.and_true]
      exact ⟨this.1, by omega⟩
theorem Alts.subst_ok : (a : Alts) → a.wf = true → 0 < a.groups → ∀ m,
    (∀ c ∈ m, c ≠ '{' ∧ c ≠ '}' ∧ c ≠ ',') →
    (a.subst m).wf = true ∧ (a.subst m).groups + 1 = a.groups
  | .one s, hw, h, m, hm => by
    simp only [Alts.wf] at hw
    simp only [Alts.groups] at h
    simpa [Alts.subst, Alts.wf, Alts.groups] using Seq.subst_ok s true hw h m hm
  | .more s r, hw, h, m, hm => by
    simp only [Alts.wf, Bool.and_eq_true] at hw
    simp only [Alts.groups] at h
    by_cases hg : r.groups = 0
    · have := Seq.subst_ok s true hw.1 (by omega) m hm
      simp only [Alts.subst, hg, if_true, Alts.wf, Alts.groups, this.1, hw.2, Bool.and_self, true_and]
      omega
    · have := Alts.subst_ok r hw.2 (by omega) m hm
      simp only [Alts.subst, hg, if_false, Alts.wf, Alts.groups, this.1, hw.1, Bool.and_self, true_and]
      omega
theorem Seq.subst_ok : (s : Seq) → (g : Bool) → s.wf g = true → 0 < s.groups → ∀ m,
    (∀ c ∈ m, c ≠ '{' ∧ c ≠ '}' ∧ c ≠ ',') →
    (s.subst m).wf g = true ∧ (s.subst m).groups + 1 = s.groups
  | .nil, _, _, h, _, _ => by simp [Seq.groups] at h
  | .cons i s, g, hw, h, m, hm => by
    simp only [Seq.wf, Bool.and_eq_true] at hw
    simp only [Seq.groups] at h
    by_cases hg : s.groups = 0
    · have := Item.subst_ok i g hw.1 (by omega) m hm
      simp only [Seq.subst, hg, if_true, wf_app, groups_app, this.1, hw.2, Bool.and_self, true_and, Seq.groups]
      omega
    · have := Seq.subst_ok s g hw.2 (by omega) m hm
      simp only [Seq.subst, hg, if_false, Seq.wf, Seq.groups, this.1, hw.1, Bool.and_self, true_and]
      omega
end

end S
