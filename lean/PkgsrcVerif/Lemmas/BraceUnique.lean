/-
Lemmas/BraceUnique.lean — a well-formed brace tree is determined by its rendering: the parse
tree of a compiling alternate pattern is UNIQUE, so "the csh-style expansion of the pattern"
is a function of the pattern text.
-/
import PkgsrcVerif.Lemmas.BraceParse
namespace L
open M S

/-- scan to the end of the current sequence: the first '}' at depth 0 or, inside a group
    (`g`), the first ',' at depth 0; returns what was passed and what is left -/
def seqEnd (g : Bool) : Str → Nat → Str → Str × Str
  | [], _, acc => (acc.reverse, [])
  | c :: r, d, acc =>
    if c == '{' then seqEnd g r (d + 1) (c :: acc)
    else if c == '}' then
      (match d with
       | 0 => (acc.reverse, c :: r)
       | d' + 1 => seqEnd g r d' (c :: acc))
    else if g && c == ',' && d == 0 then (acc.reverse, c :: r)
    else seqEnd g r d (c :: acc)

theorem seqEnd_plain (g : Bool) (c : Char) (r : Str) (d : Nat) (acc : Str)
    (h1 : c ≠ '{') (h2 : c ≠ '}') (h3 : ¬ (g = true ∧ c = ',' ∧ d = 0)) :
    seqEnd g (c :: r) d acc = seqEnd g r d (c :: acc) := by
  have e1 : (c == '{') = false := by simpa using h1
  have e2 : (c == '}') = false := by simpa using h2
  have e3 : (g && c == ',' && d == 0) = false := by
    cases g <;> simp_all
  simp [seqEnd, e1, e2, e3]

-- the rendering of a well-formed tree is passed over as a whole
mutual
theorem Item.seqEnd_render : (i : Item) → (gi g : Bool) → i.wf gi = true → ∀ rest d acc,
    (gi = true ∨ g = false ∨ 0 < d) →
    seqEnd g (i.render ++ rest) d acc = seqEnd g rest d (i.render.reverse ++ acc)
  | .lit c, gi, g, h, rest, d, acc, hc => by
    simp only [Item.wf, Bool.and_eq_true, bne_iff_ne, ne_eq, Bool.not_eq_true', Bool.and_eq_false_iff,
      beq_eq_false_iff_ne] at h
    simp only [Item.render, List.singleton_append, List.reverse_cons, List.reverse_nil, List.nil_append]
    apply seqEnd_plain g c rest d acc h.1.1 h.1.2
    rintro ⟨hg, hcomma, hd⟩
    rcases hc with hgi | hgf | hpos
    · rcases h.2 with hx | hx
      · simp [hgi] at hx
      · exact hx hcomma
    · simp [hg] at hgf
    · omega
  | .grp a, gi, g, h, rest, d, acc, _ => by
    simp only [Item.wf] at h
    have ha := Alts.seqEnd_render a g h ('}' :: rest) (d + 1) ('{' :: acc) (Or.inr (by omega))
    simp only [Item.render, List.cons_append, List.append_assoc, List.nil_append]
    have o : ('{' == '{') = true := by decide
    conv => lhs; unfold seqEnd
    simp only [o, if_true]
    rw [ha]
    have c1 : ('}' == '{') = false := by decide
    have c2 : ('}' == '}') = true := by decide
    conv => lhs; unfold seqEnd
    simp only [c1, c2, Bool.false_eq_true, if_false, if_true]
    simp [List.reverse_append]
theorem Alts.seqEnd_render : (a : Alts) → (g : Bool) → a.wf = true → ∀ rest d acc,
    (g = false ∨ 0 < d) →
    seqEnd g (a.render ++ rest) d acc = seqEnd g rest d (a.render.reverse ++ acc)
  | .one s, g, h, rest, d, acc, _ => by
    simp only [Alts.wf] at h
    simpa [Alts.render] using Seq.seqEnd_render s true g h rest d acc (Or.inl rfl)
  | .more s r, g, h, rest, d, acc, hc => by
    simp only [Alts.wf, Bool.and_eq_true] at h
    have h1 := Seq.seqEnd_render s true g h.1 (',' :: (r.render ++ rest)) d acc (Or.inl rfl)
    have h2 := Alts.seqEnd_render r g h.2 rest d (',' :: (s.render.reverse ++ acc)) hc
    simp only [Alts.render, List.append_assoc, List.cons_append, h1]
    rw [seqEnd_plain g ',' _ d _ (by decide) (by decide)
      (by rintro ⟨hg, _, hd⟩; rcases hc with hf | hp
          · simp [hg] at hf
          · omega), h2]
    simp [List.reverse_append]
theorem Seq.seqEnd_render : (s : Seq) → (gs g : Bool) → s.wf gs = true → ∀ rest d acc,
    (gs = true ∨ g = false ∨ 0 < d) →
    seqEnd g (s.render ++ rest) d acc = seqEnd g rest d (s.render.reverse ++ acc)
  | .nil, _, _, _, rest, d, acc, _ => by simp [Seq.render]
  | .cons i s, gs, g, h, rest, d, acc, hc => by
    simp only [Seq.wf, Bool.and_eq_true] at h
    have h1 := Item.seqEnd_render i gs g h.1 (s.render ++ rest) d acc hc
    have h2 := Seq.seqEnd_render s gs g h.2 rest d (i.render.reverse ++ acc) hc
    simp only [Seq.render, List.append_assoc, h1, h2, List.reverse_append]
end

theorem Item.render_ne_nil : (i : Item) → i.render ≠ []
  | .lit _ => by simp [Item.render]
  | .grp _ => by simp [Item.render]

-- **uniqueness of the parse tree**: well-formed trees with the same rendering are equal
mutual
theorem Item.render_inj : (i j : Item) → (g : Bool) → i.wf g = true → j.wf g = true →
    ∀ r1 r2 : Seq, r1.wf g = true → r2.wf g = true →
    i.render ++ r1.render = j.render ++ r2.render → i = j ∧ r1.render = r2.render
  | .lit c, .lit c', _, _, _, _, _, _, _, h => by
    simp only [Item.render, List.singleton_append, List.cons.injEq] at h
    exact ⟨by rw [h.1], h.2⟩
  | .lit c, .grp a, g, hi, _, _, _, _, _, h => by
    simp only [Item.wf, Bool.and_eq_true, bne_iff_ne, ne_eq] at hi
    simp only [Item.render, List.singleton_append, List.cons_append, List.cons.injEq] at h
    exact absurd h.1 hi.1.1
  | .grp a, .lit c, g, _, hj, _, _, _, _, h => by
    simp only [Item.wf, Bool.and_eq_true, bne_iff_ne, ne_eq] at hj
    simp only [Item.render, List.singleton_append, List.cons_append, List.cons.injEq] at h
    exact absurd h.1.symm hj.1.1
  | .grp a, .grp b, g, hi, hj, r1, r2, _, _, h => by
    simp only [Item.wf] at hi hj
    simp only [Item.render, List.cons_append, List.append_assoc, List.nil_append, List.cons.injEq, true_and] at h
    -- split both sides at the '}' that closes the group (commas do not stop a scan with g = false)
    have s1 : seqEnd false (a.render ++ '}' :: r1.render) 0 [] = (a.render, '}' :: r1.render) := by
      have := Alts.seqEnd_render a false hi ('}' :: r1.render) 0 [] (Or.inl rfl)
      rw [this]
      have c1 : ('}' == '{') = false := by decide
      simp [seqEnd, c1]
    have s2 : seqEnd false (b.render ++ '}' :: r2.render) 0 [] = (b.render, '}' :: r2.render) := by
      have := Alts.seqEnd_render b false hj ('}' :: r2.render) 0 [] (Or.inl rfl)
      rw [this]
      have c1 : ('}' == '{') = false := by decide
      simp [seqEnd, c1]
    rw [h] at s1
    rw [s1] at s2
    simp only [Prod.mk.injEq, List.cons.injEq, true_and] at s2
    have := Alts.render_inj a b hi hj s2.1
    exact ⟨by rw [this], s2.2⟩
theorem Alts.render_inj : (a b : Alts) → a.wf = true → b.wf = true → a.render = b.render → a = b
  | .one s, .one s', ha, hb, h => by
    simp only [Alts.wf] at ha hb
    simp only [Alts.render] at h
    rw [Seq.render_inj s s' true ha hb h]
  | .more s r, .more s' r', ha, hb, h => by
    simp only [Alts.wf, Bool.and_eq_true] at ha hb
    simp only [Alts.render] at h
    have e1 := Seq.seqEnd_render s true true ha.1 (',' :: r.render) 0 [] (Or.inl rfl)
    have e2 := Seq.seqEnd_render s' true true hb.1 (',' :: r'.render) 0 [] (Or.inl rfl)
    have c1 : (',' == '{') = false := by decide
    have c2 : (',' == '}') = false := by decide
    rw [h] at e1
    rw [e1] at e2
    simp only [seqEnd, c1, c2, Bool.false_eq_true, if_false, Bool.true_and, beq_self_eq_true, if_true,
      List.append_nil, List.reverse_reverse, Prod.mk.injEq, List.cons.injEq, true_and] at e2
    rw [Seq.render_inj s s' true ha.1 hb.1 e2.1, Alts.render_inj r r' ha.2 hb.2 e2.2]
  | .one s, .more s' r', ha, hb, h => by
    simp only [Alts.wf, Bool.and_eq_true] at ha hb
    simp only [Alts.render] at h
    have e1 := Seq.seqEnd_render s true true ha [] 0 [] (Or.inl rfl)
    have e2 := Seq.seqEnd_render s' true true hb.1 (',' :: r'.render) 0 [] (Or.inl rfl)
    have c1 : (',' == '{') = false := by decide
    have c2 : (',' == '}') = false := by decide
    rw [List.append_nil, h] at e1
    rw [e1] at e2
    simp [seqEnd, c1, c2] at e2
  | .more s r, .one s', ha, hb, h => by
    simp only [Alts.wf, Bool.and_eq_true] at ha hb
    simp only [Alts.render] at h
    have e1 := Seq.seqEnd_render s' true true hb [] 0 [] (Or.inl rfl)
    have e2 := Seq.seqEnd_render s true true ha.1 (',' :: r.render) 0 [] (Or.inl rfl)
    have c1 : (',' == '{') = false := by decide
    have c2 : (',' == '}') = false := by decide
    rw [List.append_nil, ← h] at e1
    rw [e1] at e2
    simp [seqEnd, c1, c2] at e2
theorem Seq.render_inj : (s t : Seq) → (g : Bool) → s.wf g = true → t.wf g = true → s.render = t.render → s = t
  | .nil, .nil, _, _, _, _ => rfl
  | .nil, .cons j t, _, _, _, h => by
    simp only [Seq.render] at h
    have := Item.render_ne_nil j
    cases hj : j.render with
    | nil => exact absurd hj this
    | cons x xs => rw [hj] at h; simp at h
  | .cons i s, .nil, _, _, _, h => by
    simp only [Seq.render] at h
    have := Item.render_ne_nil i
    cases hi : i.render with
    | nil => exact absurd hi this
    | cons x xs => rw [hi] at h; simp at h
  | .cons i s, .cons j t, g, hs, ht, h => by
    simp only [Seq.wf, Bool.and_eq_true] at hs ht
    simp only [Seq.render] at h
    obtain ⟨e1, e2⟩ := Item.render_inj i j g hs.1 ht.1 s t hs.2 ht.2 h
    rw [e1, Seq.render_inj s t g hs.2 ht.2 e2]
end

end L
