/-
Lemmas/Decimal.lean — integer Display followed by integer parsing is the identity
(u64 sizes of distinfo, i64 sizes of pkg_summary).
-/
import PkgsrcVerif.Model.Basic
namespace L
open M

theorem digitsVal_eq_ofDigitChars (ds : List Char) (acc : Nat) :
    ds.foldl (fun n c => n * 10 + digitVal c) acc = Nat.ofDigitChars 10 ds acc := by
  induction ds generalizing acc with
  | nil => simp [Nat.ofDigitChars]
  | cons c ds ih =>
    simp only [List.foldl_cons, Nat.ofDigitChars_cons, ih]
    congr 1
    simp only [digitVal]
    omega

theorem digitsVal_toDigits (n : Nat) : digitsVal (Nat.toDigits 10 n) = n := by
  simp only [digitsVal, digitsVal_eq_ofDigitChars, Nat.ofDigitChars_ten_toDigits]

theorem isDigit_of_char_isDigit (c : Char) (h : c.isDigit = true) : isDigit c = true := by
  simp only [Char.isDigit, Bool.and_eq_true, decide_eq_true_eq] at h
  simp only [isDigit, decide_eq_true_eq, Char.toNat]
  obtain ⟨a, b⟩ := h
  exact ⟨UInt32.le_iff_toNat_le.mp a, UInt32.le_iff_toNat_le.mp b⟩

theorem toDigits_all_digits (n : Nat) : ∀ c ∈ Nat.toDigits 10 n, isDigit c = true := by
  intro c hc
  exact isDigit_of_char_isDigit c (Nat.isDigit_of_mem_toDigits (by decide) (by decide) hc)

theorem toDigits_ne_nil' (n : Nat) : Nat.toDigits 10 n ≠ [] := Nat.toDigits_ne_nil

theorem digit_not_sign (c : Char) (h : isDigit c = true) : c ≠ '+' ∧ c ≠ '-' := by
  constructor <;> (intro e; subst e; revert h; decide)

/-- `u64::from_str(&n.to_string()) == Ok(n)` -/
theorem parseU64_natToDec (n : Nat) (h : n ≤ u64Max) : parseU64? (natToDec n) = some n := by
  unfold parseU64? natToDec
  have hd := toDigits_all_digits n
  have hne := toDigits_ne_nil' n
  cases hs : Nat.toDigits 10 n with
  | nil => exact absurd hs hne
  | cons c r =>
    rw [hs] at hd
    have hc := digit_not_sign c (hd c (by simp))
    have hall : (c :: r).all isDigit = true := by simp only [List.all_eq_true]; exact hd
    have hv : digitsVal (c :: r) = n := by rw [← hs]; exact digitsVal_toDigits n
    split
    · rename_i heq; injection heq with e _; exact absurd e hc.1
    · rename_i heq
      simp only [List.isEmpty_cons, hall, Bool.not_true, Bool.or_false, Bool.false_eq_true, if_false, hv, h, if_true]

/-- `i64::from_str(&i.to_string()) == Ok(i)` -/
theorem parseI64_intToDec (i : Int) (h : InI64 i) : parseI64? (intToDec i) = some i := by
  obtain ⟨hlo, hhi⟩ := h
  unfold intToDec natToDec
  have hd := toDigits_all_digits i.natAbs
  have hne := toDigits_ne_nil' i.natAbs
  have hv := digitsVal_toDigits i.natAbs
  cases hs : Nat.toDigits 10 i.natAbs with
  | nil => exact absurd hs hne
  | cons c r =>
    rw [hs] at hd hv
    have hc := digit_not_sign c (hd c (by simp))
    have hall : (c :: r).all isDigit = true := by simp only [List.all_eq_true]; exact hd
    by_cases hneg : i < 0
    · simp only [hneg, if_true]
      unfold parseI64?
      simp only [List.isEmpty_cons, hall, Bool.not_true, Bool.or_false, Bool.false_eq_true, if_false,
        if_true, hv]
      have : (-(i.natAbs : Int)) = i := by omega
      simp only [this, hlo, hhi, and_self, if_true]
    · simp only [hneg, if_false]
      unfold parseI64?
      split
      rename_i x neg ds heq
      have hm : (neg, ds) = (false, c :: r) := by
        rw [← heq]
        split
        · rename_i heq; injection heq with e _; exact absurd e hc.2
        · rename_i heq; injection heq with e _; exact absurd e hc.1
        · rfl
      injection hm with e1 e2
      subst e1; subst e2
      simp only [List.isEmpty_cons, hall, Bool.not_true, Bool.or_false, Bool.false_eq_true, if_false, hv]
      have : ((i.natAbs : Nat) : Int) = i := by omega
      simp only [this, hlo, hhi, and_self, if_true]

end L
