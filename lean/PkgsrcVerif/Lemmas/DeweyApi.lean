/-
Lemmas/DeweyApi.lean — writing a single bound as pattern text `BASE OP V` and a package as
`BASE-A`: the compiled pattern's verdict on that package is the comparison `A OP V`.
-/
import PkgsrcVerif.Lemmas.DeweyPat
namespace L
open M S

def opText : Op → Str
  | .gt => ['>'] | .ge => ['>', '='] | .lt => ['<'] | .le => ['<', '=']

/-- text without comparison characters -/
def NoOp (t : Str) : Prop := '<' ∉ t ∧ '>' ∉ t

theorem lexOps_plain_append (t rest : Str) (h : NoOp t) :
    lexOps (t ++ rest) = (t ++ (lexOps rest).1, (lexOps rest).2) := by
  induction t with
  | nil => rfl
  | cons c t ih =>
    obtain ⟨h1, h2⟩ := h
    simp only [List.mem_cons, not_or] at h1 h2
    have ih' := ih ⟨h1.2, h2.2⟩
    have c1 : c ≠ '<' := fun e => h1.1 e.symm
    have c2 : c ≠ '>' := fun e => h2.1 e.symm
    rw [List.cons_append]
    conv => lhs; unfold lexOps
    split
    · rename_i heq; cases heq
    · rename_i heq; injection heq with e _; exact absurd e c2
    · rename_i heq; injection heq with e _; exact absurd e c1
    · rename_i heq; injection heq with e _; exact absurd e c2
    · rename_i heq; injection heq with e _; exact absurd e c1
    · rename_i heq
      injection heq with e1 e2
      subst e1 e2
      rw [ih']
      simp

theorem lexOps_plain (t : Str) (h : NoOp t) : lexOps t = (t, []) := by
  have := lexOps_plain_append t [] h
  simpa [lexOps] using this

theorem lexOps_op (op : Op) (B : Str) (hB : NoOp B) (he : B.head? ≠ some '=') :
    lexOps (opText op ++ B) = ([], [(op, B)]) := by
  have hp := lexOps_plain B hB
  cases op with
  | ge => simp only [opText, List.cons_append, List.nil_append]; conv => lhs; unfold lexOps
          simp [hp]
  | le => simp only [opText, List.cons_append, List.nil_append]; conv => lhs; unfold lexOps
          simp [hp]
  | gt =>
    simp only [opText, List.cons_append, List.nil_append]
    cases B with
    | nil => simp [lexOps]
    | cons b B' =>
      have hb : b ≠ '=' := by simpa using he
      conv => lhs; unfold lexOps
      split
      · rename_i heq; cases heq
      · rename_i heq; injection heq with _ e2; injection e2 with e3 _; exact absurd e3 hb
      · rename_i heq; injection heq with e1 _; cases e1
      · rename_i heq; injection heq with e1 e2; subst e2; simp [hp]
      · rename_i heq; injection heq with e1 _; cases e1
      · rename_i heq; injection heq with e1 e2; subst e1 e2; simp_all
  | lt =>
    simp only [opText, List.cons_append, List.nil_append]
    cases B with
    | nil => simp [lexOps]
    | cons b B' =>
      have hb : b ≠ '=' := by simpa using he
      conv => lhs; unfold lexOps
      split
      · rename_i heq; cases heq
      · rename_i heq; injection heq with e1 _; cases e1
      · rename_i heq; injection heq with _ e2; injection e2 with e3 _; exact absurd e3 hb
      · rename_i heq; injection heq with e1 _; cases e1
      · rename_i heq; injection heq with e1 e2; subst e2; simp [hp]
      · rename_i heq; injection heq with e1 e2; subst e1 e2; simp_all


/-- `BASE OP V` compiles to the single bound (OP, tokens of V) under BASE -/
theorem deweyNew_single (base B : Str) (op : Op) (hb : NoOp base) (hB : NoOp B) (he : B.head? ≠ some '=') :
    deweyNew (base ++ opText op ++ B) = .ok ⟨base, [(op, deweyVersion B)]⟩ := by
  have hl : lexOps (base ++ opText op ++ B) = (base, [(op, B)]) := by
    rw [List.append_assoc, lexOps_plain_append base _ hb, lexOps_op op B hB he]
    simp
  have hp : parsePattern (base ++ opText op ++ B) = .ok (base, [(op, B)]) := by
    simp only [parsePattern, hl]
  have := (deweyNew_eq_parse (base ++ opText op ++ B)).1 base [(op, B)] hp
  simpa using this

end L
