/-
Lemmas/DeweyCmp.lean — the three-branch `dewey_cmp` is padded lexicographic
comparison; padded lexicographic comparison is a total preorder.
-/
import PkgsrcVerif.Model.Dewey
import PkgsrcVerif.Spec.Dewey
namespace L
open M S

theorem test_cmp3 (a b : Int) (op : Op) : deweyTest a op b = testOrd (cmp3 a b) op := by
  cases op <;> grind [deweyTest, testOrd, cmp3]

theorem tailR_spec (op : Op) (lrev rrev : Int) (bs : List Int) :
    tailR op lrev rrev bs = testOrd (padCmp lrev rrev [] bs) op := by
  induction bs with
  | nil => simp [tailR, padCmp, test_cmp3]
  | cons b bs ih => grind [tailR, padCmp, test_cmp3, cmp3, Ordering.then]

theorem tailL_spec (op : Op) (lrev rrev : Int) (as : List Int) :
    tailL op lrev rrev as = testOrd (padCmp lrev rrev as []) op := by
  induction as with
  | nil => simp [tailL, padCmp, test_cmp3]
  | cons a as ih => grind [tailL, padCmp, test_cmp3, cmp3, Ordering.then]

theorem cmpVec_spec (op : Op) (lrev rrev : Int) (as bs : List Int) :
    cmpVec op lrev rrev as bs = testOrd (padCmp lrev rrev as bs) op := by
  fun_induction cmpVec op lrev rrev as bs <;>
    grind [padCmp, test_cmp3, cmp3, Ordering.then, tailR_spec, tailL_spec]

theorem padCmp_swap (lrev rrev : Int) (as bs : List Int) :
    padCmp lrev rrev as bs = (padCmp rrev lrev bs as).swap := by
  fun_induction padCmp lrev rrev as bs <;> grind [padCmp, cmp3, Ordering.then, Ordering.swap]

theorem padCmp_refl (r : Int) (as : List Int) : padCmp r r as as = .eq := by
  induction as with
  | nil => simp [padCmp, cmp3]
  | cons a as ih => simp [padCmp, cmp3, ih, Ordering.then]

/-- pad with zeros to length n -/
def pad (n : Nat) (l : List Int) : List Int := l ++ List.replicate (n - l.length) 0

/-- key of a version for the order: zero-padded components followed by the revision -/
def key (n : Nat) (l : List Int) (r : Int) : List Int := pad n l ++ [r]

/-- plain lexicographic three-way comparison of equal-length lists -/
def lex : List Int → List Int → Ordering
  | a :: as, b :: bs => (cmp3 a b).then (lex as bs)
  | _, _ => .eq

theorem padCmp_nil_left (lr rr : Int) (bs : List Int) (k : Nat) :
    padCmp lr rr [] bs = lex (List.replicate (bs.length + k) 0 ++ [lr]) (bs ++ List.replicate k 0 ++ [rr]) := by
  induction bs with
  | nil =>
    simp only [padCmp, List.length_nil, Nat.zero_add, List.nil_append]
    induction k with
    | zero => simp [lex, Ordering.then]; cases cmp3 lr rr <;> rfl
    | succ k ih => simp only [List.replicate_succ, List.cons_append, lex, ← ih]; simp [cmp3, Ordering.then]
  | cons b bs ih =>
    simp only [padCmp, List.length_cons, List.cons_append]
    have : bs.length + 1 + k = (bs.length + k) + 1 := by omega
    rw [this, List.replicate_succ]
    simp only [List.cons_append, lex, ih]

theorem padCmp_nil_right (lr rr : Int) (as : List Int) (k : Nat) :
    padCmp lr rr as [] = lex (as ++ List.replicate k 0 ++ [lr]) (List.replicate (as.length + k) 0 ++ [rr]) := by
  rw [padCmp_swap, padCmp_nil_left rr lr as k]
  generalize (List.replicate (as.length + k) 0 ++ [rr]) = x
  generalize (as ++ List.replicate k 0 ++ [lr]) = y
  induction x generalizing y with
  | nil => cases y <;> simp [lex, Ordering.swap]
  | cons a x ih =>
    cases y with
    | nil => simp [lex, Ordering.swap]
    | cons b y =>
      simp only [lex, ih y]
      grind [cmp3, Ordering.then, Ordering.swap]

/-- `padCmp` is lexicographic comparison of the padded keys, for any common length -/
theorem padCmp_eq_lex (lr rr : Int) (as bs : List Int) (n : Nat)
    (ha : as.length ≤ n) (hb : bs.length ≤ n) :
    padCmp lr rr as bs = lex (key n as lr) (key n bs rr) := by
  induction as generalizing bs n with
  | nil =>
    have h := padCmp_nil_left lr rr bs (n - bs.length)
    simp only [key, pad, List.length_nil, Nat.sub_zero, List.nil_append]
    rw [h]; congr 2
    · congr 1; omega
  | cons a as ih =>
    cases bs with
    | nil =>
      have h := padCmp_nil_right lr rr (a :: as) (n - (a :: as).length)
      simp only [key, pad, List.length_nil, Nat.sub_zero, List.nil_append]
      rw [h]; congr 2
      · congr 1; simp only [List.length_cons] at ha ⊢; omega
    | cons b bs =>
      cases n with
      | zero => simp at ha
      | succ n =>
        simp only [List.length_cons, Nat.add_le_add_iff_right] at ha hb
        simp only [padCmp, key, pad, List.length_cons, List.cons_append, lex, Nat.add_sub_add_right]
        rw [ih bs n ha hb]; rfl

theorem lex_trans_le : ∀ (x y z : List Int), x.length = y.length → y.length = z.length →
    lex x y ≠ .gt → lex y z ≠ .gt → lex x z ≠ .gt := by
  intro x
  induction x with
  | nil => intro y z h1 h2; cases y <;> cases z <;> simp_all [lex]
  | cons a x ih =>
    intro y z h1 h2
    cases y with
    | nil => simp at h1
    | cons b y =>
      cases z with
      | nil => simp at h2
      | cons c z =>
        simp only [List.length_cons, Nat.add_right_cancel_iff] at h1 h2
        have := ih y z h1 h2
        simp only [lex]
        grind [cmp3, Ordering.then]

/-- transitivity of `≤` for the padded order -/
theorem padCmp_trans_le (ra rb rc : Int) (as bs cs : List Int)
    (h1 : padCmp ra rb as bs ≠ .gt) (h2 : padCmp rb rc bs cs ≠ .gt) :
    padCmp ra rc as cs ≠ .gt := by
  let n := max as.length (max bs.length cs.length)
  have ha : as.length ≤ n := by omega
  have hb : bs.length ≤ n := by omega
  have hc : cs.length ≤ n := by omega
  rw [padCmp_eq_lex ra rb as bs n ha hb] at h1
  rw [padCmp_eq_lex rb rc bs cs n hb hc] at h2
  rw [padCmp_eq_lex ra rc as cs n ha hc]
  have len : ∀ (l : List Int) (r : Int), l.length ≤ n → (key n l r).length = n + 1 := by
    intro l r h; simp [key, pad]; omega
  exact lex_trans_le _ _ _ (by rw [len _ _ ha, len _ _ hb]) (by rw [len _ _ hb, len _ _ hc]) h1 h2

end L
