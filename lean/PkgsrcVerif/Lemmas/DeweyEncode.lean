/-
Lemmas/DeweyEncode.lean — the code stores a letter of rank r as r+96 (finding F3).
Where letters only meet letters, or meet numbers outside [1,122] (`S.aligned`),
the two encodings order identically.
-/
import PkgsrcVerif.Lemmas.DeweyCmp
namespace L
open M S

/-- letter components carry a rank in 1..26 -/
def RankOK (cs : List TComp) : Prop := ∀ c ∈ cs, c.2 = true → 1 ≤ c.1 ∧ c.1 ≤ 26

theorem RankOK_cons {c : TComp} {cs : List TComp} (h : RankOK (c :: cs)) :
    (c.2 = true → 1 ≤ c.1 ∧ c.1 ≤ 26) ∧ RankOK cs :=
  ⟨h c (by simp), fun d hd => h d (by simp [hd])⟩

def enc1 (c : TComp) : Int := if c.2 then c.1 + 96 else c.1

theorem encode_cons (c : TComp) (cs : List TComp) : encode (c :: cs) = enc1 c :: encode cs := by
  simp [encode, enc1]

theorem cmp3_aligned (a b : TComp) (h : alignedAt a b = true)
    (ha : a.2 = true → 1 ≤ a.1 ∧ a.1 ≤ 26) (hb : b.2 = true → 1 ≤ b.1 ∧ b.1 ≤ 26) :
    cmp3 (enc1 a) (enc1 b) = cmp3 a.1 b.1 := by
  obtain ⟨av, at'⟩ := a
  obtain ⟨bv, bt⟩ := b
  cases at' <;> cases bt <;> simp_all [alignedAt, enc1, cmp3] <;> grind

@[simp] theorem encode_nil : encode [] = [] := rfl

@[simp] theorem enc1_pad : enc1 (0, false) = 0 := by simp [enc1]

theorem padCmp_encode_nil_left (lr rr : Int) (tb : List TComp)
    (h : tb.all (fun b => alignedAt (0, false) b) = true) (hb : RankOK tb) :
    padCmp lr rr [] (encode tb) = padCmp lr rr [] (tb.map (·.1)) := by
  induction tb with
  | nil => simp [padCmp]
  | cons b bs ih =>
    simp only [List.all_cons, Bool.and_eq_true] at h
    have hb' := RankOK_cons hb
    have e := cmp3_aligned (0, false) b h.1 (by simp) hb'.1
    simp only [enc1_pad] at e
    simp only [encode_cons, List.map_cons, padCmp, e, ih h.2 hb'.2]

theorem padCmp_encode_nil_right (lr rr : Int) (ta : List TComp)
    (h : ta.all (fun a => alignedAt a (0, false)) = true) (ha : RankOK ta) :
    padCmp lr rr (encode ta) [] = padCmp lr rr (ta.map (·.1)) [] := by
  induction ta with
  | nil => simp [padCmp]
  | cons a as ih =>
    simp only [List.all_cons, Bool.and_eq_true] at h
    have ha' := RankOK_cons ha
    have e := cmp3_aligned a (0, false) h.1 ha'.1 (by simp)
    simp only [enc1_pad] at e
    simp only [encode_cons, List.map_cons, padCmp, e, ih h.2 ha'.2]

theorem padCmp_encode_aligned (lr rr : Int) (ta tb : List TComp)
    (h : aligned ta tb = true) (ha : RankOK ta) (hb : RankOK tb) :
    padCmp lr rr (encode ta) (encode tb) = padCmp lr rr (ta.map (·.1)) (tb.map (·.1)) := by
  induction ta generalizing tb with
  | nil =>
    simp only [aligned] at h
    simpa using padCmp_encode_nil_left lr rr tb h hb
  | cons a as ih =>
    cases tb with
    | nil =>
      simp only [aligned] at h
      have := padCmp_encode_nil_right lr rr (a :: as) (by simpa [List.all_cons] using h) ha
      simpa using this
    | cons b bs =>
      simp only [aligned, Bool.and_eq_true] at h
      have ha' := RankOK_cons ha
      have hb' := RankOK_cons hb
      have e := cmp3_aligned a b h.1 ha'.1 hb'.1
      simp only [encode_cons, List.map_cons, padCmp, e, ih bs h.2 ha'.2 hb'.2]

end L
