/-
Lemmas/DeweyIdx.lean — the byte-indexed loop of `DeweyVersion::new` (M.tokensIdx) never
slices off a character boundary, never unwraps an empty iterator, finishes within
`s.len() + 1` iterations, and produces exactly the tokens of the character-level model.
-/
import PkgsrcVerif.Model.DeweyIdx
import PkgsrcVerif.Lemmas.DeweyTokens
namespace L
open M

theorem utf8Len_pos (c : Char) : 0 < utf8Len c := by unfold utf8Len; split <;> (try split) <;> (try split) <;> omega

theorem utf8Len_ascii (c : Char) (h : c.toNat < 0x80) : utf8Len c = 1 := by simp [utf8Len, h]

theorem bytesLen_append (a b : Str) : bytesLen (a ++ b) = bytesLen a + bytesLen b := by
  induction a with
  | nil => simp [bytesLen]
  | cons c a ih => simp only [List.cons_append, bytesLen, ih]; omega

theorem sliceFrom_cons (c : Char) (rest : Str) (n : Nat) (h : 0 < n) :
    sliceFrom (c :: rest) n = if utf8Len c ≤ n then sliceFrom rest (n - utf8Len c) else none := by
  cases n with
  | zero => omega
  | succ k => simp [sliceFrom]

/-- slicing at the byte length of a prefix gives the rest: such an index is a char boundary -/
theorem sliceFrom_prefix (pre suf : Str) : sliceFrom (pre ++ suf) (bytesLen pre) = some suf := by
  induction pre with
  | nil => cases suf <;> simp [bytesLen, sliceFrom]
  | cons c pre ih =>
    have hp := utf8Len_pos c
    rw [List.cons_append, bytesLen, sliceFrom_cons _ _ _ (by omega)]
    simp only [Nat.le_add_right, if_true, Nat.add_sub_cancel_left]
    exact ih

theorem ascii_of_digit (c : Char) (h : isDigit c = true) : c.toNat < 0x80 := by
  have : 48 ≤ c.toNat ∧ c.toNat ≤ 57 := by simpa [isDigit] using h
  omega

theorem ascii_of_alpha (c : Char) (h : isAlpha c = true) : c.toNat < 0x80 := by
  simp only [isAlpha, isUpper, isLower, Bool.or_eq_true, decide_eq_true_eq] at h
  have e1 : 'A'.toNat = 65 := by decide
  have e2 : 'Z'.toNat = 90 := by decide
  have e3 : 'a'.toNat = 97 := by decide
  have e4 : 'z'.toNat = 122 := by decide
  omega

theorem bytesLen_all_ascii (l : Str) (h : ∀ c ∈ l, c.toNat < 0x80) : bytesLen l = l.length := by
  induction l with
  | nil => rfl
  | cons c l ih =>
    simp only [bytesLen, List.length_cons, utf8Len_ascii c (h c (by simp)),
      ih fun x hx => h x (by simp [hx])]
    omega

theorem mem_takeWhile_sat {α} (p : α → Bool) (l : List α) : ∀ c ∈ l.takeWhile p, p c = true := by
  induction l with
  | nil => simp
  | cons a l ih =>
    intro c hc
    rw [List.takeWhile_cons] at hc
    split at hc
    · rcases List.mem_cons.mp hc with rfl | h
      · assumption
      · exact ih c h
    · cases hc

theorem bytesLen_digits (l : Str) : bytesLen (l.takeWhile isDigit) = (l.takeWhile isDigit).length :=
  bytesLen_all_ascii _ fun c hc => ascii_of_digit c (mem_takeWhile_sat isDigit l c hc)

/-- lower-casing to an ASCII letter happens only from an ASCII character -/
theorem ascii_of_lower_eq (c w : Char) (hw : w.toNat < 0x80) (h : lower c = w) : c.toNat < 0x80 := by
  rcases lower_toNat_cases c with ⟨_, _, _, h4⟩ | ⟨_, h2⟩
  · omega
  · rw [h2] at h; rw [h]; exact hw

theorem lower_toNat_eq_lowerByte (c : Char) : (lower c).toNat = lowerByte c.toNat := by
  unfold lowerByte
  rcases lower_toNat_cases c with ⟨_, h2, h3, h4⟩ | ⟨h1, h2⟩
  · rw [h2, if_pos ⟨h3, h4⟩]
  · have : ¬ (65 ≤ c.toNat ∧ c.toNat ≤ 90) := by
      have := h1; simp only [isUpper, decide_eq_false_iff_not] at this
      have e1 : 'A'.toNat = 65 := by decide
      have e2 : 'Z'.toNat = 90 := by decide
      omega
    simp [h2, this]

theorem char_beq_iff_toNat (a b : Char) : (a == b) = (a.toNat == b.toNat) := by
  by_cases h : a = b
  · subst h; simp
  · have : a.toNat ≠ b.toNat := fun e => h (Char.toNat_inj.mp e)
    rw [beq_eq_false_iff_ne.mpr h, beq_eq_false_iff_ne.mpr this]

/-- the first byte of a non-ASCII character is >= 0xC0, so it is no ASCII letter in any case -/
theorem encodeChar_nonascii (c : Char) (h : ¬ c.toNat < 0x80) :
    ∃ b bs, encodeChar c = b :: bs ∧ 0xC0 ≤ b := by
  unfold encodeChar
  simp only [h, if_false]
  split
  · exact ⟨_, _, rfl, by omega⟩
  · split
    · exact ⟨_, _, rfl, by omega⟩
    · exact ⟨_, _, rfl, by omega⟩

/-- **the byte-level modifier test is the character-level one** (for a lower-case ASCII word):
    `s.len() >= w.len() && s.as_bytes()[..w.len()].eq_ignore_ascii_case(w)` -/
theorem bytesStartCI_encode (w : Str) (hw : ∀ x ∈ w, 97 ≤ x.toNat ∧ x.toNat ≤ 122) :
    ∀ s : Str, bytesStartCI (encode s) w = startsWithCI s w := by
  induction w with
  | nil => intro s; cases s <;> simp [bytesStartCI, startsWithCI]
  | cons x ws ih =>
    intro s
    have hx := hw x (by simp)
    have ihs := ih (fun y hy => hw y (by simp [hy]))
    cases s with
    | nil => simp [encode, bytesStartCI, startsWithCI]
    | cons c s' =>
      simp only [encode, List.flatMap_cons, startsWithCI]
      by_cases hc : c.toNat < 0x80
      · have he : encodeChar c = [c.toNat] := by simp [encodeChar, hc]
        rw [he, List.singleton_append, bytesStartCI]
        rw [show s'.flatMap encodeChar = encode s' from rfl, ihs s', char_beq_iff_toNat,
          lower_toNat_eq_lowerByte]
      · obtain ⟨b, bs, he, hb⟩ := encodeChar_nonascii c hc
        rw [he, List.cons_append, bytesStartCI]
        have h1 : (lowerByte b == x.toNat) = false := by
          have : lowerByte b = b := by unfold lowerByte; simp; omega
          rw [this]; simp; omega
        have h2 : (lower c == x) = false := by
          rw [char_beq_iff_toNat, lower_toNat_eq_lowerByte]
          have : lowerByte c.toNat = c.toNat := by unfold lowerByte; simp; omega
          rw [this]; simp; omega
        simp [h1, h2]

/-- a string that starts (case-insensitively) with an ASCII word starts with that many
    one-byte characters -/
theorem startsWithCI_split (w : Str) (hw : ∀ x ∈ w, x.toNat < 0x80) :
    ∀ s : Str, startsWithCI s w = true →
      s = s.take w.length ++ s.drop w.length ∧ bytesLen (s.take w.length) = w.length := by
  induction w with
  | nil => intro s _; simp [bytesLen]
  | cons x ws ih =>
    intro s h
    cases s with
    | nil => simp [startsWithCI] at h
    | cons c s' =>
      simp only [startsWithCI, Bool.and_eq_true, beq_iff_eq] at h
      obtain ⟨_, e2⟩ := ih (fun y hy => hw y (by simp [hy])) s' h.2
      have hc := ascii_of_lower_eq c x (hw x (by simp)) h.1
      refine ⟨by simp, ?_⟩
      simp only [List.length_cons, List.take_succ_cons, bytesLen, utf8Len_ascii c hc, e2]
      omega

theorem takeWhile_cons_digit (c : Char) (rest : Str) (h : isDigit c = true) :
    (c :: rest).dropWhile isDigit = rest.dropWhile isDigit := by simp [List.dropWhile_cons, h]

theorem drop_eq_of_split (s : Str) (k : Nat) (pre : Str) :
    pre ++ s = (pre ++ s.take k) ++ s.drop k := by simp [List.append_assoc]

/-- **main invariant**: started at the byte length of any prefix, with enough fuel for the rest,
    the byte-indexed loop yields the character-level tokens of the rest -/
theorem tokensIdx_from (n : Nat) : ∀ (suf pre : Str) (fuel : Nat), suf.length ≤ n → suf.length < fuel →
    tokensIdx (pre ++ suf) fuel (bytesLen pre) = some (tokens suf) := by
  induction n with
  | zero =>
    intro suf pre fuel hn hf
    have : suf = [] := List.eq_nil_of_length_eq_zero (by omega)
    subst this
    cases fuel with
    | zero => omega
    | succ f => simp [tokensIdx, tokens]
  | succ n ih =>
    intro suf pre fuel hn hf
    cases suf with
    | nil =>
      cases fuel with
      | zero => simp at hf
      | succ f => simp [tokensIdx, tokens]
    | cons c rest =>
      cases fuel with
      | zero => omega
      | succ f =>
        have hlt : bytesLen pre ≠ bytesLen (pre ++ c :: rest) := by
          rw [bytesLen_append, bytesLen]; have := utf8Len_pos c; omega
        -- a recursive call on a shorter suffix `suf'` after consuming `con`
        have hlen : rest.length ≤ n := by simpa using hn
        have step : ∀ (con suf' : Str) (k : Nat), c :: rest = con ++ suf' → suf'.length ≤ rest.length →
            k = bytesLen pre + bytesLen con →
            tokensIdx (pre ++ c :: rest) f k = some (tokens suf') := by
          intro con suf' k hsplit hl hk
          have := ih suf' (pre ++ con) f (by omega) (by simp at hf; omega)
          rw [bytesLen_append, List.append_assoc, ← hsplit, ← hk] at this
          exact this
        have hrr : rest.length ≤ rest.length := Nat.le_refl _
        unfold tokensIdx
        simp only [beq_iff_eq, hlt, if_false, sliceFrom_prefix]
        conv => rhs; unfold tokens
        by_cases hd : isDigit c = true
        · -- digit run
          have hne : ((c :: rest).takeWhile isDigit).isEmpty = false := by simp [List.takeWhile_cons, hd]
          simp only [hne, Bool.not_false, if_true, hd]
          have hsplit : c :: rest = (c :: rest).takeWhile isDigit ++ rest.dropWhile isDigit := by
            rw [← takeWhile_cons_digit c rest hd, List.takeWhile_append_dropWhile]
          have hl : (rest.dropWhile isDigit).length ≤ rest.length := length_dropWhile_le isDigit rest
          rw [step _ _ _ hsplit hl rfl]; rfl
        · have hne : ((c :: rest).takeWhile isDigit).isEmpty = true := by simp [List.takeWhile_cons, hd]
          simp only [hne, Bool.not_true, Bool.false_eq_true, if_false, hd]
          by_cases hs : (c == '.' || c == '_') = true
          · simp only [hs, if_true]
            have hc : c.toNat < 0x80 := by
              rcases Bool.or_eq_true_iff.mp hs with h | h
              · have : c = '.' := by simpa using h
                subst this; decide
              · have : c = '_' := by simpa using h
                subst this; decide
            rw [step [c] rest _ rfl hrr (by simp [bytesLen, utf8Len_ascii c hc])]; rfl
          · simp only [hs, Bool.false_eq_true, if_false]
            -- the byte-level prefix tests are the char-level ones
            rw [bytesStartCI_encode ['n', 'b'] (by decide),
              bytesStartCI_encode ['a', 'l', 'p', 'h', 'a'] (by decide),
              bytesStartCI_encode ['b', 'e', 't', 'a'] (by decide),
              bytesStartCI_encode ['p', 'r', 'e'] (by decide),
              bytesStartCI_encode ['r', 'c'] (by decide),
              bytesStartCI_encode ['p', 'l'] (by decide)]
            by_cases hnb : startsWithCI (c :: rest) ['n', 'b'] = true
            · simp only [hnb, if_true]
              obtain ⟨e1, e2⟩ := startsWithCI_split ['n', 'b'] (by decide) (c :: rest) hnb
              simp only [List.length_cons, List.length_nil, List.take_succ_cons, List.drop_succ_cons] at e1 e2
              -- second slice at idx + 2
              have hs2 : sliceFrom (pre ++ c :: rest) (bytesLen pre + 2) = some (rest.drop 1) := by
                have := sliceFrom_prefix (pre ++ (c :: rest.take 1)) (rest.drop 1)
                rw [bytesLen_append, e2, List.append_assoc, ← e1] at this
                exact this
              simp only [hs2]
              have hsplit : c :: rest = (c :: rest.take 1 ++ (rest.drop 1).takeWhile isDigit) ++
                  (rest.drop 1).dropWhile isDigit := by
                rw [List.append_assoc, List.takeWhile_append_dropWhile]; exact e1
              have hl : ((rest.drop 1).dropWhile isDigit).length ≤ rest.length := by
                have := length_dropWhile_le isDigit (rest.drop 1)
                rw [List.length_drop] at this; omega
              rw [step _ _ _ hsplit hl (by rw [bytesLen_append, e2, bytesLen_digits]; omega)]; rfl
            · simp only [hnb, Bool.false_eq_true, if_false]
              -- the five modifiers: k one-byte characters each
              have modcase : ∀ (w : Str) (tk : Tok), (∀ x ∈ w, x.toNat < 0x80) → 0 < w.length →
                  startsWithCI (c :: rest) w = true →
                  Option.map (fun x => tk :: x) (tokensIdx (pre ++ c :: rest) f (bytesLen pre + w.length)) =
                    some (tk :: tokens ((c :: rest).drop w.length)) := by
                intro w tk hw hpos hst
                obtain ⟨e1, e2⟩ := startsWithCI_split w hw (c :: rest) hst
                have hl : ((c :: rest).drop w.length).length ≤ rest.length := by
                  simp only [List.length_drop, List.length_cons]; omega
                rw [step _ _ _ e1 hl (by rw [e2])]; rfl
              by_cases h1 : startsWithCI (c :: rest) ['a', 'l', 'p', 'h', 'a'] = true
              · simp only [h1, if_true]
                exact modcase ['a', 'l', 'p', 'h', 'a'] (.mod (-3)) (by decide) (by decide) h1
              · simp only [h1, Bool.false_eq_true, if_false]
                by_cases h2 : startsWithCI (c :: rest) ['b', 'e', 't', 'a'] = true
                · simp only [h2, if_true]
                  exact modcase ['b', 'e', 't', 'a'] (.mod (-2)) (by decide) (by decide) h2
                · simp only [h2, Bool.false_eq_true, if_false]
                  by_cases h3 : startsWithCI (c :: rest) ['p', 'r', 'e'] = true
                  · simp only [h3, if_true]
                    exact modcase ['p', 'r', 'e'] (.mod (-1)) (by decide) (by decide) h3
                  · simp only [h3, Bool.false_eq_true, if_false]
                    by_cases h4 : startsWithCI (c :: rest) ['r', 'c'] = true
                    · simp only [h4, if_true]
                      exact modcase ['r', 'c'] (.mod (-1)) (by decide) (by decide) h4
                    · simp only [h4, Bool.false_eq_true, if_false]
                      by_cases h5 : startsWithCI (c :: rest) ['p', 'l'] = true
                      · simp only [h5, if_true]
                        exact modcase ['p', 'l'] (.mod 0) (by decide) (by decide) h5
                      · simp only [h5, Bool.false_eq_true, if_false]
                        by_cases ha : isAlpha c = true
                        · simp only [ha, if_true]
                          rw [step [c] rest _ rfl hrr
                            (by simp [bytesLen, utf8Len_ascii c (ascii_of_alpha c ha)])]; rfl
                        · simp only [ha, Bool.false_eq_true, if_false]
                          rw [step [c] rest _ rfl hrr (by simp [bytesLen])]; rfl

end L
