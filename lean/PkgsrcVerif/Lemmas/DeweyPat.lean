/-
Lemmas/DeweyPat.lean — `Dewey::new`'s index scan (M.scanOps + slices) reads the
grammar of C02 (S.lexOps); `rsplitn(2,'-')` is "split at the last '-'".
-/
import PkgsrcVerif.Spec.DeweyPat
namespace L
open M S

def symOf : Op → Str
  | .ge => ['>', '=']
  | .gt => ['>']
  | .le => ['<', '=']
  | .lt => ['<']

/-- the text a lexed pattern stands for -/
def renderLex (t0 : Str) : List (Op × Str) → Str
  | [] => t0
  | (o, t) :: l => t0 ++ symOf o ++ renderLex t l

/-- operator positions of a lexed pattern whose text starts at offset `i` -/
def offsets (i : Nat) (t0 : Str) : List (Op × Str) → List (Nat × Nat × Op)
  | [] => []
  | (o, t) :: l =>
    (i + t0.length, i + t0.length + (symOf o).length, o) ::
      offsets (i + t0.length + (symOf o).length) t l

theorem render_lexOps (p : Str) : renderLex (lexOps p).1 (lexOps p).2 = p := by
  fun_induction lexOps p with
  | case1 => simp [renderLex]
  | case2 rest t l h ih => simp only [h] at ih; simp [renderLex, symOf, ih]
  | case3 rest t l h ih => simp only [h] at ih; simp [renderLex, symOf, ih]
  | case4 rest _ t l h ih => simp only [h] at ih; simp [renderLex, symOf, ih]
  | case5 rest _ t l h ih => simp only [h] at ih; simp [renderLex, symOf, ih]
  | case6 c rest _ _ _ _ t l h ih =>
    simp only [h] at ih
    cases l with
    | nil => simp_all [renderLex]
    | cons x l => obtain ⟨o, t'⟩ := x; simp_all [renderLex]

theorem scanOps_lexOps (p : Str) (i : Nat) :
    scanOps p i = offsets i (lexOps p).1 (lexOps p).2 := by
  fun_induction lexOps p generalizing i with
  | case1 => simp [scanOps, offsets]
  | case2 rest t l h ih =>
    have ih1 := ih (i + 1 + 1)
    simp only [h] at ih1
    simp only [scanOps, beq_self_eq_true, if_true, offsets, List.length_nil, Nat.add_zero, symOf,
      List.length_cons]
    -- after ">" the scan continues at '=' which is not an operator
    have : ('=' == '>') = false := by decide
    have h2 : ('=' == '<') = false := by decide
    simp only [this, h2, Bool.false_eq_true, if_false, ih1]
  | case3 rest t l h ih =>
    have ih1 := ih (i + 1 + 1)
    simp only [h] at ih1
    have h0 : ('<' == '>') = false := by decide
    have h1 : ('=' == '>') = false := by decide
    have h2 : ('=' == '<') = false := by decide
    simp only [scanOps, h0, beq_self_eq_true, if_true, offsets, List.length_nil, Nat.add_zero, symOf,
      List.length_cons, h1, h2, Bool.false_eq_true, if_false, ih1]
  | case4 rest hne t l h ih =>
    have ih1 := ih (i + 1)
    simp only [h] at ih1
    simp only [scanOps, beq_self_eq_true, if_true, offsets, List.length_nil, Nat.add_zero, symOf,
      List.length_cons, ih1]
  | case5 rest hne t l h ih =>
    have ih1 := ih (i + 1)
    simp only [h] at ih1
    have h0 : ('<' == '>') = false := by decide
    simp only [scanOps, h0, beq_self_eq_true, if_true, offsets, List.length_nil, Nat.add_zero, symOf,
      List.length_cons, ih1, Bool.false_eq_true, if_false]
  | case6 c rest h1 h2 h3 h4 t l h ih =>
    have ih1 := ih (i + 1)
    simp only [h] at ih1
    have hg : (c == '>') = false := beq_eq_false_iff_ne.mpr h3
    have hl : (c == '<') = false := beq_eq_false_iff_ne.mpr h4
    simp only [scanOps, hg, hl, Bool.false_eq_true, if_false, ih1]
    cases l with
    | nil => simp [offsets]
    | cons x l =>
      obtain ⟨o, t'⟩ := x
      simp only [offsets, List.length_cons]
      have : i + 1 + t.length = i + (t.length + 1) := by omega
      rw [this]

/-- the lexed texts never contain an operator character -/
theorem lexOps_base_no_op (p : Str) : ∀ c ∈ (lexOps p).1, c ≠ '>' ∧ c ≠ '<' := by
  fun_induction lexOps p with
  | case1 => simp
  | case2 => simp
  | case3 => simp
  | case4 => simp
  | case5 => simp
  | case6 c rest h1 h2 h3 h4 t l h ih =>
    simp only [h] at ih
    intro d hd
    simp only [List.mem_cons] at hd
    rcases hd with rfl | hd
    · exact ⟨h3, h4⟩
    · exact ih d hd

end L

namespace L
open M S

theorem take_append_len {α} (a b : List α) : (a ++ b).take a.length = a := by simp
theorem drop_append_len {α} (a b : List α) : (a ++ b).drop a.length = b := by simp

/-- `Dewey::new` on a pattern = the grammar's reading of it: same base, same bounds
    (each bound text tokenised by `DeweyVersion::new`), same three rejection classes. -/
theorem deweyNew_eq_parse (p : Str) :
    (∀ base bs, parsePattern p = .ok (base, bs) →
        deweyNew p = .ok ⟨base, bs.map (fun ov => (ov.1, deweyVersion ov.2))⟩) ∧
    (parsePattern p = .error .noOps → deweyNew p = .error .noOps) ∧
    (parsePattern p = .error .order → ∃ pos, deweyNew p = .error (.order pos)) ∧
    (parsePattern p = .error .tooMany → ∃ pos, deweyNew p = .error (.tooMany pos)) := by
  obtain ⟨t0, l, hl⟩ : ∃ t0 l, lexOps p = (t0, l) := ⟨_, _, rfl⟩
  have hp := render_lexOps p
  have hs := scanOps_lexOps p 0
  simp only [hl] at hp hs
  unfold parsePattern deweyNew
  simp only [hl, hs]
  match l, hp with
  | [], hp => simp [offsets]
  | [(o1, t1)], hp =>
    subst hp
    simp only [offsets, renderLex, Nat.zero_add, List.map_cons, List.map_nil]
    refine ⟨?_, by simp, by simp, by simp⟩
    intro base bs h
    simp only [Except.ok.injEq, Prod.mk.injEq] at h
    obtain ⟨rfl, rfl⟩ := h
    have e1 : (t0 ++ symOf o1 ++ t1).take t0.length = t0 := by
      rw [List.append_assoc]; exact take_append_len _ _
    have e2 : (t0 ++ symOf o1 ++ t1).drop (t0.length + (symOf o1).length) = t1 := by
      rw [← List.length_append]; exact drop_append_len _ _
    simp only [e1, e2, List.map_cons, List.map_nil]
  | [(o1, t1), (o2, t2)], hp =>
    subst hp
    simp only [offsets, renderLex, Nat.zero_add]
    have e1 : (t0 ++ symOf o1 ++ (t1 ++ symOf o2 ++ t2)).take t0.length = t0 := by
      rw [List.append_assoc]; exact take_append_len _ _
    have e2 : slice (t0 ++ symOf o1 ++ (t1 ++ symOf o2 ++ t2)) (t0.length + (symOf o1).length)
        (t0.length + (symOf o1).length + t1.length) = t1 := by
      unfold slice
      have : t0 ++ symOf o1 ++ (t1 ++ symOf o2 ++ t2) = (t0 ++ symOf o1 ++ t1) ++ (symOf o2 ++ t2) := by
        simp [List.append_assoc]
      rw [this]
      have hlen : t0.length + (symOf o1).length + t1.length = (t0 ++ symOf o1 ++ t1).length := by
        simp only [List.length_append, Nat.add_assoc]
      rw [hlen, take_append_len]
      rw [← List.length_append]; exact drop_append_len _ _
    have e3 : (t0 ++ symOf o1 ++ (t1 ++ symOf o2 ++ t2)).drop
        (t0.length + (symOf o1).length + t1.length + (symOf o2).length) = t2 := by
      have : t0 ++ symOf o1 ++ (t1 ++ symOf o2 ++ t2) = (t0 ++ symOf o1 ++ t1 ++ symOf o2) ++ t2 := by
        simp [List.append_assoc]
      rw [this]
      have hlen : t0.length + (symOf o1).length + t1.length + (symOf o2).length =
          (t0 ++ symOf o1 ++ t1 ++ symOf o2).length := by simp only [List.length_append, Nat.add_assoc]
      rw [hlen]; exact drop_append_len _ _
    by_cases hord : (isLowerOp o1 && isUpperOp o2) = true
    · have hord' : (isLower' o1 && isUpper' o2) = true := by
        simpa [isLower', isUpper', isLowerOp, isUpperOp] using hord
      simp only [hord, hord', if_true, e1, e2, e3]
      refine ⟨?_, by simp, by simp, by simp⟩
      intro base bs h
      simp only [Except.ok.injEq, Prod.mk.injEq] at h
      obtain ⟨rfl, rfl⟩ := h
      simp
    · have hord' : ¬ (isLower' o1 && isUpper' o2) = true := by
        simpa [isLower', isUpper', isLowerOp, isUpperOp] using hord
      simp only [hord, hord', if_false]
      exact ⟨by simp, by simp, fun _ => ⟨_, rfl⟩, by simp⟩
  | (o1, t1) :: (o2, t2) :: (o3, t3) :: l', hp =>
    simp only [offsets]
    exact ⟨by simp, by simp, by simp, fun _ => ⟨_, rfl⟩⟩

end L

namespace L
open M S

/-- `rsplitn(2,'-')` / `rsplit_once('-')`: the split is at the LAST '-' -/
theorem rsplitDash_some {n b v : Str} (h : rsplitDash n = some (b, v)) :
    n = b ++ '-' :: v ∧ '-' ∉ v := by
  induction n generalizing b v with
  | nil => simp [rsplitDash] at h
  | cons c rest ih =>
    simp only [rsplitDash] at h
    cases hr : rsplitDash rest with
    | some bv =>
      obtain ⟨b', v'⟩ := bv
      simp only [hr, Option.some.injEq, Prod.mk.injEq] at h
      obtain ⟨rfl, rfl⟩ := h
      have := ih hr
      exact ⟨by rw [this.1]; simp, this.2⟩
    | none =>
      simp only [hr] at h
      split at h
      · rename_i hc
        simp only [Option.some.injEq, Prod.mk.injEq] at h
        obtain ⟨rfl, rfl⟩ := h
        have hn : ∀ (l : Str), rsplitDash l = none → '-' ∉ l := by
          intro l
          induction l with
          | nil => simp
          | cons d l ihl =>
            simp only [rsplitDash]
            cases hl : rsplitDash l with
            | some _ => simp
            | none =>
              simp only
              split
              · simp
              · rename_i hd
                intro _
                simp only [List.mem_cons, not_or]
                exact ⟨fun e => hd (by rw [← e]; rfl), ihl hl⟩
        simp only [beq_iff_eq] at hc
        exact ⟨by simp [hc], hn _ hr⟩
      · simp at h

theorem rsplitDash_none {n : Str} (h : rsplitDash n = none) : '-' ∉ n := by
  induction n with
  | nil => simp
  | cons d l ihl =>
    simp only [rsplitDash] at h
    cases hl : rsplitDash l with
    | some _ => simp [hl] at h
    | none =>
      simp only [hl] at h
      split at h
      · simp at h
      · rename_i hd
        simp only [List.mem_cons, not_or]
        exact ⟨fun e => hd (by rw [← e]; rfl), ihl hl⟩

/-- uniqueness of the decomposition at the last '-' -/
theorem last_dash_unique {b v b' v' : Str} (h : b ++ '-' :: v = b' ++ '-' :: v')
    (hv : '-' ∉ v) (hv' : '-' ∉ v') : b = b' ∧ v = v' := by
  induction b generalizing b' with
  | nil =>
    cases b' with
    | nil => simp at h; exact ⟨rfl, h⟩
    | cons c r =>
      simp only [List.nil_append, List.cons_append, List.cons.injEq] at h
      exfalso; apply hv; rw [h.2]; simp
  | cons a as ih =>
    cases b' with
    | nil =>
      simp only [List.nil_append, List.cons_append, List.cons.injEq] at h
      exfalso; apply hv'; rw [← h.2]; simp
    | cons c r =>
      simp only [List.cons_append, List.cons.injEq] at h
      obtain ⟨rfl, h2⟩ := h
      have := ih h2
      exact ⟨by rw [this.1], this.2⟩

theorem rsplitDash_iff (n b v : Str) :
    rsplitDash n = some (b, v) ↔ n = b ++ '-' :: v ∧ '-' ∉ v := by
  constructor
  · exact rsplitDash_some
  · rintro ⟨rfl, hv⟩
    cases hr : rsplitDash (b ++ '-' :: v) with
    | none => exact absurd (rsplitDash_none hr) (by simp)
    | some bv =>
      obtain ⟨b', v'⟩ := bv
      have := rsplitDash_some hr
      have u := last_dash_unique this.1 hv this.2
      rw [u.1, u.2]

/-- the spec's reverse/takeWhile split is the same split -/
theorem splitLastDash_eq (n : Str) : splitLastDash n = rsplitDash n := by
  cases hr : rsplitDash n with
  | none =>
    have hn := rsplitDash_none hr
    unfold splitLastDash
    have hall : ∀ c ∈ n.reverse, (c != '-') = true := by
      intro c hc
      simp only [List.mem_reverse] at hc
      simp only [bne_iff_ne, ne_eq]
      intro e; exact hn (e ▸ hc)
    have : n.reverse.dropWhile (· != '-') = [] := by
      have h2 := List.dropWhile_append_of_pos (p := (· != '-')) (l₁ := n.reverse) (l₂ := []) hall
      simpa using h2
    simp [this]
  | some bv =>
    obtain ⟨b, v⟩ := bv
    obtain ⟨rfl, hv⟩ := rsplitDash_some hr
    unfold splitLastDash
    have hrev : (b ++ '-' :: v).reverse = v.reverse ++ '-' :: b.reverse := by simp
    have hall : ∀ c ∈ v.reverse, (c != '-') = true := by
      intro c hc
      simp only [List.mem_reverse] at hc
      simp only [bne_iff_ne, ne_eq]
      intro e; exact hv (e ▸ hc)
    have ht : (v.reverse ++ '-' :: b.reverse).takeWhile (· != '-') = v.reverse := by
      rw [List.takeWhile_append_of_pos hall]; simp
    have hd : (v.reverse ++ '-' :: b.reverse).dropWhile (· != '-') = '-' :: b.reverse := by
      rw [List.dropWhile_append_of_pos hall]; simp
    simp only [hrev, ht, hd, List.reverse_reverse]

end L
