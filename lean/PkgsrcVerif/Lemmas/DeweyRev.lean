/-
Lemmas/DeweyRev.lean — the revision the comparison uses for a version ending in
`nb<digits>` is that number: scanning left to right, no token of the tokeniser
straddles the final "nb", and a later `nb` overrides an earlier one.
-/
import PkgsrcVerif.Lemmas.DeweyTokens
namespace L
open M S

theorem dropWhile_append_stop {α} (p : α → Bool) (l : List α) (x : α) (t : List α) (hx : p x = false) :
    (l ++ x :: t).dropWhile p = l.dropWhile p ++ x :: t := by
  induction l with
  | nil => simp [List.dropWhile_cons, hx]
  | cons a l ih =>
    simp only [List.cons_append, List.dropWhile_cons]
    split <;> simp [ih]

theorem takeWhile_all_eq {α} (p : α → Bool) (l : List α) (h : ∀ c ∈ l, p c = true) :
    l.takeWhile p = l ∧ l.dropWhile p = [] := by
  induction l with
  | nil => simp
  | cons a l ih =>
    have ha := h a (by simp)
    have := ih (fun c hc => h c (by simp [hc]))
    simp [List.takeWhile_cons, List.dropWhile_cons, ha, this]

/-- a case-insensitive word match that runs into an 'n' of the text needs an 'n' in the word -/
theorem swci_short (p' t ws : Str) (h : startsWithCI (p' ++ 'n' :: t) ws = true)
    (hl : p'.length < ws.length) : 'n' ∈ ws := by
  induction p' generalizing ws with
  | nil =>
    cases ws with
    | nil => simp at hl
    | cons w ws' =>
      simp only [List.nil_append, startsWithCI, Bool.and_eq_true, beq_iff_eq] at h
      have : lower 'n' = 'n' := by decide
      rw [this] at h
      exact List.mem_cons.mpr (Or.inl h.1)
  | cons x p'' ih =>
    cases ws with
    | nil => simp at hl
    | cons w ws' =>
      simp only [List.cons_append, startsWithCI, Bool.and_eq_true] at h
      simp only [List.length_cons, Nat.add_lt_add_iff_right] at hl
      have := ih ws' h.2 hl
      simp [this]

theorem swci_long (c : Char) (p' t : Str) (w : Char) (ws : Str)
    (h : startsWithCI (c :: (p' ++ 'n' :: t)) (w :: ws) = true) (hn : 'n' ∉ ws) :
    ws.length ≤ p'.length := by
  simp only [startsWithCI, Bool.and_eq_true] at h
  by_cases hl : p'.length < ws.length
  · exact absurd (swci_short p' t ws h.2 hl) hn
  · omega

theorem drop_append_le {α} (l t : List α) (k : Nat) (h : k ≤ l.length) :
    (l ++ t).drop k = l.drop k ++ t := by
  rw [List.drop_append_of_le_length h]

/-- the revision set by the tokeniser on `p ++ "nb" ++ digits` is the value of the digits -/
theorem lastRev_suffix (d : Str) (hd : ∀ c ∈ d, isDigit c = true) (hl : d.length ≤ 18) (s : Str) :
    ∀ (p : Str) (r : Int), p ++ 'n' :: 'b' :: d = s → lastRev (tokens s) r = (digitsVal d : Int) := by
  have hdig := takeWhile_all_eq isDigit d hd
  have hnd : isDigit 'n' = false := by decide
  fun_induction tokens s with
  | case1 => intro p r h; simp at h
  | case2 c rest hc ih =>
    intro p r h
    cases p with
    | nil => simp only [List.nil_append, List.cons.injEq] at h; rw [← h.1] at hc; simp [hnd] at hc
    | cons x p' =>
      simp only [List.cons_append, List.cons.injEq] at h
      obtain ⟨rfl, rfl⟩ := h
      simp only [lastRev]
      exact ih (p'.dropWhile isDigit) r (dropWhile_append_stop isDigit p' 'n' _ hnd).symm
  | case3 c rest hc hs ih =>
    intro p r h
    cases p with
    | nil =>
      simp only [List.nil_append, List.cons.injEq] at h; rw [← h.1] at hs
      exact absurd hs (by decide)
    | cons x p' =>
      simp only [List.cons_append, List.cons.injEq] at h
      obtain ⟨rfl, rfl⟩ := h
      simp only [lastRev]
      exact ih p' r rfl
  | case4 c rest hc hs hnb ih =>
    intro p r h
    cases p with
    | nil =>
      simp only [List.nil_append, List.cons.injEq] at h
      obtain ⟨rfl, rfl⟩ := h
      simp only [List.drop_succ_cons, List.drop_zero, hdig.1, hdig.2, lastRev]
      have : tokens [] = [] := by simp [tokens]
      rw [this]
      simp only [lastRev]
      have hle := digitsVal_le_i64 d hd hl
      unfold revVal
      split
      · rename_i h0; simp only [List.isEmpty_iff] at h0; rw [h0]; rfl
      · simp [hle]
    | cons x p' =>
      simp only [List.cons_append, List.cons.injEq] at h
      obtain ⟨rfl, rfl⟩ := h
      cases p' with
      | nil =>
        simp only [List.nil_append, startsWithCI, Bool.and_eq_true, beq_iff_eq] at hnb
        exact absurd hnb.2.1 (by decide)
      | cons y p'' =>
        simp only [List.cons_append, List.drop_succ_cons, List.drop_zero, lastRev]
        exact ih (p''.dropWhile isDigit) _
          (by simp only [List.cons_append, List.drop_succ_cons, List.drop_zero]
              exact (dropWhile_append_stop isDigit p'' 'n' _ hnd).symm)
  | case5 c rest hc hs hnb h ih =>
    intro p r hp
    cases p with
    | nil =>
      simp only [List.nil_append, List.cons.injEq] at hp; rw [← hp.1] at h
      simp only [startsWithCI, Bool.and_eq_true, beq_iff_eq] at h; exact absurd h.1 (by decide)
    | cons x p' =>
      simp only [List.cons_append, List.cons.injEq] at hp
      obtain ⟨rfl, rfl⟩ := hp
      have hlen := swci_long x p' _ _ _ h (by decide)
      simp only [lastRev]
      exact ih (p'.drop 4) r (drop_append_le p' _ 4 hlen).symm
  | case6 c rest hc hs hnb h1 h ih =>
    intro p r hp
    cases p with
    | nil =>
      simp only [List.nil_append, List.cons.injEq] at hp; rw [← hp.1] at h
      simp only [startsWithCI, Bool.and_eq_true, beq_iff_eq] at h; exact absurd h.1 (by decide)
    | cons x p' =>
      simp only [List.cons_append, List.cons.injEq] at hp
      obtain ⟨rfl, rfl⟩ := hp
      have hlen := swci_long x p' _ _ _ h (by decide)
      simp only [lastRev]
      exact ih (p'.drop 3) r (drop_append_le p' _ 3 hlen).symm
  | case7 c rest hc hs hnb h1 h2 h ih =>
    intro p r hp
    cases p with
    | nil =>
      simp only [List.nil_append, List.cons.injEq] at hp; rw [← hp.1] at h
      simp only [startsWithCI, Bool.and_eq_true, beq_iff_eq] at h; exact absurd h.1 (by decide)
    | cons x p' =>
      simp only [List.cons_append, List.cons.injEq] at hp
      obtain ⟨rfl, rfl⟩ := hp
      have hlen := swci_long x p' _ _ _ h (by decide)
      simp only [lastRev]
      exact ih (p'.drop 2) r (drop_append_le p' _ 2 hlen).symm
  | case8 c rest hc hs hnb h1 h2 h3 h ih =>
    intro p r hp
    cases p with
    | nil =>
      simp only [List.nil_append, List.cons.injEq] at hp; rw [← hp.1] at h
      simp only [startsWithCI, Bool.and_eq_true, beq_iff_eq] at h; exact absurd h.1 (by decide)
    | cons x p' =>
      simp only [List.cons_append, List.cons.injEq] at hp
      obtain ⟨rfl, rfl⟩ := hp
      have hlen := swci_long x p' _ _ _ h (by decide)
      simp only [lastRev]
      exact ih (p'.drop 1) r (drop_append_le p' _ 1 hlen).symm
  | case9 c rest hc hs hnb h1 h2 h3 h4 h ih =>
    intro p r hp
    cases p with
    | nil =>
      simp only [List.nil_append, List.cons.injEq] at hp; rw [← hp.1] at h
      simp only [startsWithCI, Bool.and_eq_true, beq_iff_eq] at h; exact absurd h.1 (by decide)
    | cons x p' =>
      simp only [List.cons_append, List.cons.injEq] at hp
      obtain ⟨rfl, rfl⟩ := hp
      have hlen := swci_long x p' _ _ _ h (by decide)
      simp only [lastRev]
      exact ih (p'.drop 1) r (drop_append_le p' _ 1 hlen).symm
  | case10 c rest hc hs hnb h1 h2 h3 h4 h5 ha ih =>
    intro p r hp
    cases p with
    | nil =>
      simp only [List.nil_append, List.cons.injEq] at hp
      obtain ⟨rfl, rfl⟩ := hp
      exact absurd (by simp [startsWithCI, lower, isUpper]) hnb
    | cons x p' =>
      simp only [List.cons_append, List.cons.injEq] at hp
      obtain ⟨rfl, rfl⟩ := hp
      simp only [lastRev]
      exact ih p' r rfl
  | case11 c rest hc hs hnb h1 h2 h3 h4 h5 ha ih =>
    intro p r hp
    cases p with
    | nil =>
      simp only [List.nil_append, List.cons.injEq] at hp
      obtain ⟨rfl, rfl⟩ := hp
      exact absurd (by simp [startsWithCI, lower, isUpper]) hnb
    | cons x p' =>
      simp only [List.cons_append, List.cons.injEq] at hp
      obtain ⟨rfl, rfl⟩ := hp
      simp only [lastRev]
      exact ih p' r rfl

end L
