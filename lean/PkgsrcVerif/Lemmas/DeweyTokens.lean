/-
Lemmas/DeweyTokens.lean — the if-chain tokeniser of `DeweyVersion::new` (M.tokens)
reads exactly what the table-driven rule (S.read) reads, on every string whose
digit runs have at most 18 digits.
-/
import PkgsrcVerif.Lemmas.DeweyEncode
namespace L
open M S

/-! ### characters -/

theorem toNat_ofNat_of_lt (n : Nat) (h : n < 0xd800) : (Char.ofNat n).toNat = n := by
  unfold Char.ofNat
  have hv : n.isValidChar := Or.inl h
  simp [hv, Char.ofNatAux, Char.toNat]

theorem lower_toNat_of_upper (c : Char) (h : isUpper c = true) : (lower c).toNat = c.toNat + 32 := by
  have hb : 65 ≤ c.toNat ∧ c.toNat ≤ 90 := by simpa [isUpper] using h
  simp only [lower, h, if_true]
  apply toNat_ofNat_of_lt
  omega

theorem lower_of_not_upper (c : Char) (h : isUpper c = false) : lower c = c := by
  simp [lower, h]

theorem lower_toNat_cases (c : Char) :
    (isUpper c = true ∧ (lower c).toNat = c.toNat + 32 ∧ 65 ≤ c.toNat ∧ c.toNat ≤ 90) ∨
    (isUpper c = false ∧ lower c = c) := by
  cases h : isUpper c with
  | true =>
    left
    exact ⟨rfl, lower_toNat_of_upper c h, by simpa [isUpper] using h⟩
  | false => right; exact ⟨rfl, lower_of_not_upper c h⟩

/-- lower-casing never produces a character below 'a' from a different character -/
theorem lower_eq_small (c d : Char) (hd : d.toNat < 97) (h : lower c = d) : c = d := by
  rcases lower_toNat_cases c with ⟨_, h2, h3, _⟩ | ⟨_, h2⟩
  · have := congrArg Char.toNat h; omega
  · rw [h2] at h; exact h

theorem lower_beq_dot (c : Char) : (lower c == '.') = (c == '.') := by
  by_cases h : c = '.'
  · subst h; decide
  · have : lower c ≠ '.' := fun hl => h (lower_eq_small c '.' (by decide) hl)
    rw [beq_eq_false_iff_ne.mpr this, beq_eq_false_iff_ne.mpr h]

theorem lower_beq_us (c : Char) : (lower c == '_') = (c == '_') := by
  by_cases h : c = '_'
  · subst h; decide
  · have : lower c ≠ '_' := fun hl => h (lower_eq_small c '_' (by decide) hl)
    rw [beq_eq_false_iff_ne.mpr this, beq_eq_false_iff_ne.mpr h]

/-! ### digit runs -/

theorem drop_length_takeWhile {α} (p : α → Bool) (l : List α) :
    l.drop (l.takeWhile p).length = l.dropWhile p := by
  induction l with
  | nil => simp
  | cons a l ih =>
    simp only [List.takeWhile_cons, List.dropWhile_cons]
    split <;> simp [*]

theorem digitVal_lt (c : Char) (h : isDigit c = true) : digitVal c < 10 := by
  simp only [isDigit, decide_eq_true_eq] at h
  have h0 : '0'.toNat = 48 := by decide
  have h9 : '9'.toNat = 57 := by decide
  simp only [digitVal]; omega

theorem foldl_digits_lt (ds : List Char) (h : ∀ c ∈ ds, isDigit c = true) (acc : Nat) :
    ds.foldl (fun n c => n * 10 + digitVal c) acc < (acc + 1) * 10 ^ ds.length := by
  induction ds generalizing acc with
  | nil => simp
  | cons c ds ih =>
    have hc := digitVal_lt c (h c (by simp))
    have := ih (fun d hd => h d (by simp [hd])) (acc * 10 + digitVal c)
    simp only [List.foldl_cons, List.length_cons, Nat.pow_succ]
    calc _ < (acc * 10 + digitVal c + 1) * 10 ^ ds.length := this
      _ ≤ ((acc + 1) * 10) * 10 ^ ds.length := Nat.mul_le_mul_right _ (by omega)
      _ = (acc + 1) * (10 ^ ds.length * 10) := by rw [Nat.mul_assoc, Nat.mul_comm 10]

theorem digitsVal_lt (ds : List Char) (h : ∀ c ∈ ds, isDigit c = true) :
    digitsVal ds < 10 ^ ds.length := by
  have := foldl_digits_lt ds h 0
  simpa [digitsVal] using this

theorem digitsVal_le_i64 (ds : List Char) (h : ∀ c ∈ ds, isDigit c = true) (hl : ds.length ≤ 18) :
    (digitsVal ds : Int) ≤ i64Max := by
  have h1 := digitsVal_lt ds h
  have h2 : 10 ^ ds.length ≤ 10 ^ 18 := Nat.pow_le_pow_right (by omega) hl
  have : digitsVal ds < 10 ^ 18 := Nat.lt_of_lt_of_le h1 h2
  simp only [i64Max]; omega

theorem takeWhile_all {α} (p : α → Bool) (l : List α) : ∀ c ∈ l.takeWhile p, p c = true := by
  induction l with
  | nil => simp
  | cons a l ih =>
    intro c hc
    simp only [List.takeWhile_cons] at hc
    split at hc
    · simp only [List.mem_cons] at hc
      rcases hc with rfl | hc
      · assumption
      · exact ih c hc
    · simp at hc

/-- every contiguous run of digits inside `s` has at most `k` characters -/
def RunsLe (k : Nat) (s : Str) : Prop :=
  ∀ pre run post, s = pre ++ run ++ post → (∀ c ∈ run, isDigit c = true) → run.length ≤ k

theorem RunsLe_drop {k : Nat} {s : Str} (h : RunsLe k s) (n : Nat) : RunsLe k (s.drop n) := by
  intro pre run post e hr
  apply h (s.take n ++ pre) run post _ hr
  rw [List.append_assoc, List.append_assoc, ← List.append_assoc pre, ← e, List.take_append_drop]

theorem RunsLe_tail {k : Nat} {c : Char} {s : Str} (h : RunsLe k (c :: s)) : RunsLe k s := by
  simpa using RunsLe_drop h 1

theorem RunsLe_prefix_run {k : Nat} {s : Str} (h : RunsLe k s) : (s.takeWhile isDigit).length ≤ k := by
  apply h [] (s.takeWhile isDigit) (s.dropWhile isDigit)
  · simp [List.takeWhile_append_dropWhile]
  · exact takeWhile_all _ _

/-- the executable domain test implies the declarative one -/
theorem digitRunsLe_sound (k : Nat) (s : Str) (run : Nat) (h : digitRunsLe k s run = true) :
    run ≤ k ∧ ∀ pre r post, s = pre ++ r ++ post → (∀ c ∈ r, isDigit c = true) →
      r.length ≤ k ∧ (pre = [] → run + r.length ≤ k) := by
  induction s generalizing run with
  | nil =>
    simp only [digitRunsLe, decide_eq_true_eq] at h
    refine ⟨h, ?_⟩
    intro pre r post e _
    have : pre = [] ∧ r = [] ∧ post = [] := by
      have := congrArg List.length e; simp at this
      refine ⟨?_, ?_, ?_⟩ <;> apply List.eq_nil_of_length_eq_zero <;> omega
    obtain ⟨rfl, rfl, rfl⟩ := this
    simp; omega
  | cons c s ih =>
    simp only [digitRunsLe] at h
    by_cases hc : isDigit c = true
    · simp only [hc, if_true] at h
      have := ih (run + 1) h
      refine ⟨by omega, ?_⟩
      intro pre r post e hr
      cases pre with
      | nil =>
        cases r with
        | nil => simp; omega
        | cons d r' =>
          simp only [List.nil_append, List.cons_append, List.cons.injEq] at e
          have h2 := this.2 [] r' post (by simpa using e.2) (fun x hx => hr x (by simp [hx]))
          simp only [List.length_cons]
          have := h2.2 rfl
          omega
      | cons d pre' =>
        simp only [List.cons_append, List.cons.injEq] at e
        have h2 := this.2 pre' r post (by simpa using e.2) hr
        exact ⟨h2.1, by simp⟩
    · simp only [hc, Bool.false_eq_true, if_false, Bool.and_eq_true, decide_eq_true_eq] at h
      have := ih 0 h.2
      refine ⟨h.1, ?_⟩
      intro pre r post e hr
      cases pre with
      | nil =>
        cases r with
        | nil => simp; exact h.1
        | cons d r' =>
          simp only [List.nil_append, List.cons_append, List.cons.injEq] at e
          exact absurd (hr d (by simp)) (by rw [← e.1]; exact hc)
      | cons d pre' =>
        simp only [List.cons_append, List.cons.injEq] at e
        have h2 := this.2 pre' r post (by simpa using e.2) hr
        exact ⟨h2.1, by simp⟩

theorem InDomain_RunsLe (s : Str) (h : InDomain s = true) : RunsLe 18 s := by
  intro pre r post e hr
  exact ((digitRunsLe_sound 18 s 0 h).2 pre r post e hr).1


/-! ### one step of the rule, per branch of the if-chain -/

theorem step_digit (c : Char) (rest : Str) (hd : isDigit c = true) :
    S.step (c :: rest) = ([((digitsVal ((c :: rest).takeWhile isDigit) : Int), false)], none,
      ((c :: rest).takeWhile isDigit).length) := by
  simp [S.step, hd]

theorem step_sep (c : Char) (rest : Str) (hd : ¬ isDigit c = true) (hs : (c == '.' || c == '_') = true) :
    S.step (c :: rest) = ([(0, false)], none, 1) := by
  simp only [Bool.or_eq_true, beq_iff_eq] at hs
  rcases hs with rfl | rfl <;>
    simp [S.step, hd, S.modTable, List.find?, startsWithCI, lower, isUpper]

theorem nb_split (c : Char) (rest : Str) (h : startsWithCI (c :: rest) ['n', 'b'] = true) :
    lower c = 'n' ∧ startsWithCI rest ['b'] = true := by
  simp only [startsWithCI, Bool.and_eq_true, beq_iff_eq] at h
  exact ⟨h.1, by cases rest <;> simp_all [startsWithCI]⟩

theorem step_nb (c : Char) (rest : Str) (hd : ¬ isDigit c = true)
    (hnb : startsWithCI (c :: rest) ['n', 'b'] = true) :
    S.step (c :: rest) = ([], some (digitsVal ((rest.drop 1).takeWhile isDigit) : Int),
      2 + ((rest.drop 1).takeWhile isDigit).length) := by
  have ⟨hn, hb⟩ := nb_split c rest hnb
  simp [S.step, hd, S.modTable, List.find?, startsWithCI, hn, hb]

theorem step_alpha (c : Char) (rest : Str) (hd : ¬ isDigit c = true)
    (h : startsWithCI (c :: rest) ['a', 'l', 'p', 'h', 'a'] = true) :
    S.step (c :: rest) = ([(-3, false)], none, 5) := by
  simp [S.step, hd, S.modTable, List.find?, h]

theorem step_beta (c : Char) (rest : Str) (hd : ¬ isDigit c = true)
    (h1 : ¬ startsWithCI (c :: rest) ['a', 'l', 'p', 'h', 'a'] = true)
    (h : startsWithCI (c :: rest) ['b', 'e', 't', 'a'] = true) :
    S.step (c :: rest) = ([(-2, false)], none, 4) := by
  simp [S.step, hd, S.modTable, List.find?, h, h1]

theorem step_pre (c : Char) (rest : Str) (hd : ¬ isDigit c = true)
    (h1 : ¬ startsWithCI (c :: rest) ['a', 'l', 'p', 'h', 'a'] = true)
    (h2 : ¬ startsWithCI (c :: rest) ['b', 'e', 't', 'a'] = true)
    (h : startsWithCI (c :: rest) ['p', 'r', 'e'] = true) :
    S.step (c :: rest) = ([(-1, false)], none, 3) := by
  simp [S.step, hd, S.modTable, List.find?, h, h1, h2]

theorem step_rc (c : Char) (rest : Str) (hd : ¬ isDigit c = true)
    (h1 : ¬ startsWithCI (c :: rest) ['a', 'l', 'p', 'h', 'a'] = true)
    (h2 : ¬ startsWithCI (c :: rest) ['b', 'e', 't', 'a'] = true)
    (h3 : ¬ startsWithCI (c :: rest) ['p', 'r', 'e'] = true)
    (h : startsWithCI (c :: rest) ['r', 'c'] = true) :
    S.step (c :: rest) = ([(-1, false)], none, 2) := by
  simp [S.step, hd, S.modTable, List.find?, h, h1, h2, h3]

theorem step_pl (c : Char) (rest : Str) (hd : ¬ isDigit c = true)
    (h1 : ¬ startsWithCI (c :: rest) ['a', 'l', 'p', 'h', 'a'] = true)
    (h2 : ¬ startsWithCI (c :: rest) ['b', 'e', 't', 'a'] = true)
    (h3 : ¬ startsWithCI (c :: rest) ['p', 'r', 'e'] = true)
    (h4 : ¬ startsWithCI (c :: rest) ['r', 'c'] = true)
    (h : startsWithCI (c :: rest) ['p', 'l'] = true) :
    S.step (c :: rest) = ([(0, false)], none, 2) := by
  simp [S.step, hd, S.modTable, List.find?, h, h1, h2, h3, h4]

theorem step_other (c : Char) (rest : Str) (hd : ¬ isDigit c = true)
    (hs : ¬ (c == '.' || c == '_') = true)
    (hnb : ¬ startsWithCI (c :: rest) ['n', 'b'] = true)
    (h1 : ¬ startsWithCI (c :: rest) ['a', 'l', 'p', 'h', 'a'] = true)
    (h2 : ¬ startsWithCI (c :: rest) ['b', 'e', 't', 'a'] = true)
    (h3 : ¬ startsWithCI (c :: rest) ['p', 'r', 'e'] = true)
    (h4 : ¬ startsWithCI (c :: rest) ['r', 'c'] = true)
    (h5 : ¬ startsWithCI (c :: rest) ['p', 'l'] = true) :
    S.step (c :: rest) = if isAlpha c then ([(0, false), (rank c, true)], none, 1) else ([], none, 1) := by
  simp only [Bool.or_eq_true, not_or, Bool.not_eq_true] at hs
  have e1 : startsWithCI (c :: rest) ['.'] = false := by
    simp only [startsWithCI, lower_beq_dot, hs.1, Bool.false_and]
  have e2 : startsWithCI (c :: rest) ['_'] = false := by
    simp only [startsWithCI, lower_beq_us, hs.2, Bool.false_and]
  simp [S.step, hd, S.modTable, List.find?, h1, h2, h3, h4, h5, hnb, e1, e2]


/-! ### the refinement -/

/-- tagged components of a model token -/
def tokT : Tok → List TComp
  | .num n => [(n, false)]
  | .sep => [(0, false)]
  | .rev _ => []
  | .mod w => [(w, false)]
  | .letter c => [(0, false), (c - 96, true)]
  | .skip => []

theorem encode_tokT (t : Tok) : encode (tokT t) = t.comps := by
  cases t <;> simp [tokT, encode, Tok.comps]

theorem read_succ (f : Nat) (c : Char) (rest : Str) (rev : Int) :
    S.read (f + 1) (c :: rest) rev =
      ((S.step (c :: rest)).1 ++ (S.read f ((c :: rest).drop (S.step (c :: rest)).2.2)
          ((S.step (c :: rest)).2.1.getD rev)).1,
       (S.read f ((c :: rest).drop (S.step (c :: rest)).2.2) ((S.step (c :: rest)).2.1.getD rev)).2) := by
  simp only [S.read]

theorem read_tokens (s : Str) : ∀ (fuel : Nat) (rev : Int), s.length ≤ fuel → RunsLe 18 s →
    S.read fuel s rev = ((tokens s).flatMap tokT, lastRev (tokens s) rev) := by
  fun_induction tokens s with
  | case1 => intro fuel rev _ _; cases fuel <;> simp [S.read, lastRev]
  | case2 c rest hd ih =>
    intro fuel rev hl hr
    cases fuel with
    | zero => simp at hl
    | succ f =>
      have e : (c :: rest).drop ((c :: rest).takeWhile isDigit).length = rest.dropWhile isDigit := by
        rw [drop_length_takeWhile]; simp [hd]
      have hlen : (rest.dropWhile isDigit).length ≤ f := by
        have := length_dropWhile_le isDigit rest
        simp only [List.length_cons] at hl; omega
      have hruns : RunsLe 18 (rest.dropWhile isDigit) := e ▸ RunsLe_drop hr _
      have hsat : satI64 (digitsVal ((c :: rest).takeWhile isDigit)) =
          (digitsVal ((c :: rest).takeWhile isDigit) : Int) := by
        have := digitsVal_le_i64 _ (takeWhile_all isDigit (c :: rest)) (RunsLe_prefix_run hr)
        simp [satI64, this]
      rw [read_succ, step_digit c rest hd]
      simp only [e, Option.getD_none, ih f rev hlen hruns, hsat, List.flatMap_cons, tokT, lastRev,
        List.cons_append, List.nil_append]
  | case3 c rest hd hs ih =>
    intro fuel rev hl hr
    cases fuel with
    | zero => simp at hl
    | succ f =>
      rw [read_succ, step_sep c rest hd hs]
      simp only [List.length_cons, Nat.add_le_add_iff_right] at hl
      simp only [List.drop_succ_cons, List.drop_zero, Option.getD_none, ih f rev hl (RunsLe_tail hr),
        List.flatMap_cons, tokT, lastRev, List.cons_append, List.nil_append]
  | case4 c rest hd hs hnb ih =>
    intro fuel rev hl hr
    cases fuel with
    | zero => simp at hl
    | succ f =>
      have e : (c :: rest).drop (2 + ((rest.drop 1).takeWhile isDigit).length) =
          (rest.drop 1).dropWhile isDigit := by
        rw [← drop_length_takeWhile isDigit (rest.drop 1), List.drop_drop]
        have : 2 + ((rest.drop 1).takeWhile isDigit).length = (1 + ((rest.drop 1).takeWhile isDigit).length) + 1 := by omega
        rw [this, List.drop_succ_cons]
      have hlen : ((rest.drop 1).dropWhile isDigit).length ≤ f := by
        have := length_dropWhile_le isDigit (rest.drop 1)
        simp only [List.length_cons] at hl
        simp only [List.length_drop] at this; omega
      have hruns : RunsLe 18 ((rest.drop 1).dropWhile isDigit) := e ▸ RunsLe_drop hr _
      have hrun : ((rest.drop 1).takeWhile isDigit).length ≤ 18 := by
        have : RunsLe 18 (rest.drop 1) := by simpa using RunsLe_drop hr 2
        exact RunsLe_prefix_run this
      have hrev : revVal ((rest.drop 1).takeWhile isDigit) =
          (digitsVal ((rest.drop 1).takeWhile isDigit) : Int) := by
        have := digitsVal_le_i64 _ (takeWhile_all isDigit (rest.drop 1)) hrun
        unfold revVal
        split
        · rename_i h0; simp only [List.isEmpty_iff] at h0; rw [h0]; rfl
        · simp [this]
      rw [read_succ, step_nb c rest hd hnb]
      simp only [e, Option.getD_some, ih f _ hlen hruns, hrev, List.flatMap_cons, tokT, lastRev,
        List.nil_append]
  | case5 c rest hd hs hnb h ih =>
    intro fuel rev hl hr
    cases fuel with
    | zero => simp at hl
    | succ f =>
      rw [read_succ, step_alpha c rest hd h]
      have hlen : (rest.drop 4).length ≤ f := by
        simp only [List.length_cons] at hl; simp only [List.length_drop]; omega
      simp only [List.drop_succ_cons, Option.getD_none,
        ih f rev hlen (by simpa using RunsLe_drop hr 5),
        List.flatMap_cons, tokT, lastRev, List.cons_append, List.nil_append]
  | case6 c rest hd hs hnb h1 h ih =>
    intro fuel rev hl hr
    cases fuel with
    | zero => simp at hl
    | succ f =>
      rw [read_succ, step_beta c rest hd h1 h]
      have hlen : (rest.drop 3).length ≤ f := by
        simp only [List.length_cons] at hl; simp only [List.length_drop]; omega
      simp only [List.drop_succ_cons, Option.getD_none,
        ih f rev hlen (by simpa using RunsLe_drop hr 4),
        List.flatMap_cons, tokT, lastRev, List.cons_append, List.nil_append]
  | case7 c rest hd hs hnb h1 h2 h ih =>
    intro fuel rev hl hr
    cases fuel with
    | zero => simp at hl
    | succ f =>
      rw [read_succ, step_pre c rest hd h1 h2 h]
      have hlen : (rest.drop 2).length ≤ f := by
        simp only [List.length_cons] at hl; simp only [List.length_drop]; omega
      simp only [List.drop_succ_cons, Option.getD_none,
        ih f rev hlen (by simpa using RunsLe_drop hr 3),
        List.flatMap_cons, tokT, lastRev, List.cons_append, List.nil_append]
  | case8 c rest hd hs hnb h1 h2 h3 h ih =>
    intro fuel rev hl hr
    cases fuel with
    | zero => simp at hl
    | succ f =>
      rw [read_succ, step_rc c rest hd h1 h2 h3 h]
      have hlen : (rest.drop 1).length ≤ f := by
        simp only [List.length_cons] at hl; simp only [List.length_drop]; omega
      simp only [List.drop_succ_cons, Option.getD_none,
        ih f rev hlen (by simpa using RunsLe_drop hr 2),
        List.flatMap_cons, tokT, lastRev, List.cons_append, List.nil_append]
  | case9 c rest hd hs hnb h1 h2 h3 h4 h ih =>
    intro fuel rev hl hr
    cases fuel with
    | zero => simp at hl
    | succ f =>
      rw [read_succ, step_pl c rest hd h1 h2 h3 h4 h]
      have hlen : (rest.drop 1).length ≤ f := by
        simp only [List.length_cons] at hl; simp only [List.length_drop]; omega
      simp only [List.drop_succ_cons, Option.getD_none,
        ih f rev hlen (by simpa using RunsLe_drop hr 2),
        List.flatMap_cons, tokT, lastRev, List.cons_append, List.nil_append]
  | case10 c rest hd hs hnb h1 h2 h3 h4 h5 ha ih =>
    intro fuel rev hl hr
    cases fuel with
    | zero => simp at hl
    | succ f =>
      rw [read_succ, step_other c rest hd hs hnb h1 h2 h3 h4 h5]
      simp only [List.length_cons, Nat.add_le_add_iff_right] at hl
      simp only [ha, if_true, List.drop_succ_cons, List.drop_zero, Option.getD_none,
        ih f rev hl (RunsLe_tail hr), List.flatMap_cons, tokT, lastRev, List.cons_append,
        List.nil_append, rank]
  | case11 c rest hd hs hnb h1 h2 h3 h4 h5 ha ih =>
    intro fuel rev hl hr
    cases fuel with
    | zero => simp at hl
    | succ f =>
      rw [read_succ, step_other c rest hd hs hnb h1 h2 h3 h4 h5]
      simp only [List.length_cons, Nat.add_le_add_iff_right] at hl
      simp only [ha, Bool.false_eq_true, if_false, List.drop_succ_cons, List.drop_zero,
        Option.getD_none, ih f rev hl (RunsLe_tail hr), List.flatMap_cons, tokT, lastRev,
        List.nil_append]

end L

namespace L
open M S

theorem rank_range (c : Char) (h : isAlpha c = true) : 1 ≤ rank c ∧ rank c ≤ 26 := by
  simp only [isAlpha, Bool.or_eq_true] at h
  simp only [rank]
  rcases lower_toNat_cases c with ⟨_, h2, h3, h4⟩ | ⟨hu, h2⟩
  · omega
  · rcases h with h | h
    · simp [hu] at h
    · have hb : 97 ≤ c.toNat ∧ c.toNat ≤ 122 := by simpa [isLower] using h
      rw [h2]; omega

theorem encode_append (a b : List TComp) : encode (a ++ b) = encode a ++ encode b := by
  simp [encode]

theorem encode_flatMap_tokT (ts : List Tok) : encode (ts.flatMap tokT) = ts.flatMap Tok.comps := by
  induction ts with
  | nil => rfl
  | cons t ts ih => simp only [List.flatMap_cons, encode_append, encode_tokT, ih]

/-- every letter token carries the code of a lower-case ASCII letter -/
theorem tokens_letter_codes (s : Str) : ∀ t ∈ tokens s, ∀ code, t = Tok.letter code → 1 ≤ code - 96 ∧ code - 96 ≤ 26 := by
  fun_induction tokens s with
  | case1 => intro t ht; simp at ht
  | case10 c rest _ _ _ _ _ _ _ _ ha ih =>
    intro t ht code hc
    rcases List.mem_cons.mp ht with rfl | ht'
    · injection hc with hc; subst hc; exact rank_range c ha
    · exact ih t ht' code hc
  | _ =>
    intro t ht code hc
    rename_i ih
    rcases List.mem_cons.mp ht with rfl | ht'
    · cases hc
    · exact ih t ht' code hc

theorem RankOK_flatMap_tokT (ts : List Tok)
    (h : ∀ t ∈ ts, ∀ code, t = Tok.letter code → 1 ≤ code - 96 ∧ code - 96 ≤ 26) :
    RankOK (ts.flatMap tokT) := by
  intro c hc ht
  simp only [List.mem_flatMap] at hc
  obtain ⟨t, htm, hct⟩ := hc
  cases t <;> simp [tokT] at hct
  all_goals (try (subst hct; simp at ht))
  rename_i code
  rcases hct with rfl | rfl
  · simp at ht
  · exact h _ htm code rfl

/-- C01 core: on strings whose digit runs have at most 18 digits, `DeweyVersion::new`
    produces the rule's components (letters as rank+96) and the rule's revision. -/
theorem deweyVersion_spec (s : Str) (h : InDomain s = true) :
    deweyVersion s = ⟨encode (S.version s).1, (S.version s).2⟩ ∧ RankOK (S.version s).1 := by
  have hr := read_tokens s s.length 0 (Nat.le_refl _) (InDomain_RunsLe s h)
  simp only [S.version, hr, deweyVersion, encode_flatMap_tokT]
  exact ⟨trivial, RankOK_flatMap_tokT _ (tokens_letter_codes s)⟩

end L
