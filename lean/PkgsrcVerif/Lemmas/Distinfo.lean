/-
Lemmas/Distinfo.lean — the insertion-ordered maps of Distinfo: keys stay unique, an
update of an existing file keeps its position, a new file is appended.
-/
import PkgsrcVerif.Model.Distinfo
import PkgsrcVerif.Lemmas.Decimal
namespace L
open M

def keys (m : EMap) : List Bytes := m.map (·.1)

/-- no two keys are the same file (component-wise) -/
def NoDup (m : EMap) : Prop := m.Pairwise fun a b => keyEq a.1 b.1 = false

theorem keys_modify (m : EMap) (k : Bytes) (f : Entry → Entry) : keys (m.modify k f) = keys m := by
  simp only [keys, EMap.modify, List.map_map]
  congr 1
  funext kv
  simp only [Function.comp]
  split <;> rfl

theorem keyEq_symm (a b : Bytes) : keyEq a b = keyEq b a := by
  simp only [keyEq]
  by_cases h : bcomps a = bcomps b
  · rw [h]
  · have h' : ¬ bcomps b = bcomps a := fun e => h e.symm
    rw [beq_eq_false_iff_ne.mpr h, beq_eq_false_iff_ne.mpr h']

theorem keyEq_trans_false (a b c : Bytes) (h1 : keyEq a b = true) (h2 : keyEq a c = false) : keyEq b c = false := by
  simp only [keyEq, beq_iff_eq, beq_eq_false_iff_ne, ne_eq] at *
  rw [← h1]; exact h2

theorem noDup_modify (m : EMap) (k : Bytes) (f : Entry → Entry) (h : NoDup m) : NoDup (m.modify k f) := by
  unfold NoDup EMap.modify at *
  rw [List.pairwise_map]
  apply List.Pairwise.imp _ h
  intro a b hab
  split <;> split <;> exact hab

theorem get_none_iff (m : EMap) (k : Bytes) : (m.get k).isSome = false ↔ ∀ kv ∈ m, keyEq kv.1 k = false := by
  simp only [EMap.get, Option.isSome_map]
  constructor
  · intro h kv hkv
    have : m.find? (fun kv => keyEq kv.1 k) = none := by
      cases hf : m.find? (fun kv => keyEq kv.1 k) with
      | none => rfl
      | some x => simp [hf] at h
    have := List.find?_eq_none.mp this kv hkv
    simpa using this
  · intro h
    have : m.find? (fun kv => keyEq kv.1 k) = none := by
      rw [List.find?_eq_none]; intro kv hkv; simp [h kv hkv]
    simp [this]

theorem noDup_append_new (m : EMap) (k : Bytes) (e : Entry) (h : NoDup m) (hn : (m.get k).isSome = false) :
    NoDup (m ++ [(k, e)]) := by
  unfold NoDup at *
  rw [List.pairwise_append]
  refine ⟨h, by simp, ?_⟩
  intro a ha b hb
  simp only [List.mem_singleton] at hb
  subst hb
  exact (get_none_iff m k).mp hn a ha

/-- both maps of a Distinfo keep unique keys under every parsing step -/
def DNoDup (d : Distinfo) : Prop := NoDup d.distfiles ∧ NoDup d.patchfiles

theorem mapOf_setMap (d : Distinfo) (t : EntryType) (m : EMap) : (d.setMap t m).mapOf t = m := by
  cases t <;> rfl

theorem dnodup_setMap (d : Distinfo) (t : EntryType) (m : EMap) (hd : DNoDup d) (hm : NoDup m) :
    DNoDup (d.setMap t m) := by
  cases t
  · exact ⟨hm, hd.2⟩
  · exact ⟨hd.1, hm⟩

theorem nodup_mapOf (d : Distinfo) (t : EntryType) (hd : DNoDup d) : NoDup (d.mapOf t) := by
  cases t
  · exact hd.1
  · exact hd.2

theorem dnodup_updateSize (d : Distinfo) (p : Bytes) (n : Nat) (hd : DNoDup d) : DNoDup (d.updateSize p n) := by
  unfold Distinfo.updateSize
  simp only
  split
  · exact dnodup_setMap _ _ _ hd (noDup_modify _ _ _ (nodup_mapOf d _ hd))
  · rename_i hn
    exact dnodup_setMap _ _ _ hd (noDup_append_new _ _ _ (nodup_mapOf d _ hd) (by simpa using hn))

theorem dnodup_updateChecksum (d : Distinfo) (p : Bytes) (dg : Digest) (h : Bytes) (hd : DNoDup d) :
    DNoDup (d.updateChecksum p dg h) := by
  unfold Distinfo.updateChecksum
  simp only
  split
  · exact dnodup_setMap _ _ _ hd (noDup_modify _ _ _ (nodup_mapOf d _ hd))
  · rename_i hn
    exact dnodup_setMap _ _ _ hd (noDup_append_new _ _ _ (nodup_mapOf d _ hd) (by simpa using hn))

theorem dnodup_applyLine (d : Distinfo) (l : Line) (hd : DNoDup d) : DNoDup (d.applyLine l) := by
  cases l with
  | rcsId s => exact hd
  | size p n => exact dnodup_updateSize d p n hd
  | checksum dg p h => exact dnodup_updateChecksum d p dg h hd
  | none => exact hd

theorem dnodup_fromBytes (b : Bytes) : DNoDup (distinfoFromBytes b) := by
  unfold distinfoFromBytes
  generalize splitNl' b = ls
  have : ∀ (ls : List Bytes) (d : Distinfo), DNoDup d →
      DNoDup (ls.foldl (fun d line => d.applyLine (lineFromBytes line)) d) := by
    intro ls
    induction ls with
    | nil => intro d hd; exact hd
    | cons l ls ih => intro d hd; exact ih _ (dnodup_applyLine d _ hd)
  exact this ls {} ⟨List.Pairwise.nil, List.Pairwise.nil⟩

end L

namespace L
open M

/-! ### `Line::from_bytes` and embedded newlines -/

theorem lineFromBytes_of_skip (b : Bytes) (h : subLine b = none) : lineFromBytes b = .none := by
  unfold subLine at h
  unfold lineFromBytes
  simp only at h ⊢
  split at h
  · rename_i hc; simp only [hc, if_true]
  · cases h

theorem lineFromBytes_eq_subLine (b : Bytes) : lineFromBytes b = (subLine b).getD .none := by
  cases h : subLine b with
  | none => simp [lineFromBytes_of_skip b h]
  | some l =>
    unfold subLine at h
    simp only at h
    split at h
    · cases h
    · simp_all

theorem splitNl'_nl (rest : Bytes) : splitNl' (10 :: rest) = [] :: splitNl' rest := by
  simp [splitNl']

theorem splitNl'_other (c : UInt8) (rest : Bytes) (hc : c ≠ 10) :
    splitNl' (c :: rest) = match splitNl' rest with
      | [] => [[c]]
      | l :: ls => (c :: l) :: ls := by
  conv => lhs; unfold splitNl'
  split
  · rename_i heq; cases heq
  · rename_i heq; injection heq with e1 e2; exact absurd e1 hc
  · rename_i heq; injection heq with e1 e2; subst e1 e2; rfl

theorem splitNl'_no_nl (b : Bytes) (h : (10 : UInt8) ∉ b) : splitNl' b = [b] := by
  induction b with
  | nil => rfl
  | cons c rest ih =>
    simp only [List.mem_cons, not_or] at h
    have hc : c ≠ 10 := fun e => h.1 e.symm
    rw [splitNl'_other c rest hc, ih h.2]

/-- on a line without '\n' (what `Distinfo::from_bytes` passes) the loop runs once -/
theorem lineFromBytesNl_of_no_nl (b : Bytes) (h : (10 : UInt8) ∉ b) : lineFromBytesNl b = lineFromBytes b := by
  unfold lineFromBytesNl
  rw [splitNl'_no_nl b h, lineFromBytes_eq_subLine]
  cases hs : subLine b <;> simp [List.findSome?, hs]

theorem splitNl'_pieces (b : Bytes) : ∀ l ∈ splitNl' b, (10 : UInt8) ∉ l := by
  induction b with
  | nil => intro l hl; simp [splitNl'] at hl; subst hl; simp
  | cons c rest ih =>
    intro l hl
    by_cases hc : c = 10
    · subst hc
      rw [splitNl'_nl] at hl
      simp only [List.mem_cons] at hl
      rcases hl with rfl | hl
      · simp
      · exact ih l hl
    · rw [splitNl'_other c rest hc] at hl
      split at hl
      · simp only [List.mem_singleton] at hl; subst hl
        simp only [List.mem_singleton]; exact fun e => hc e.symm
      · rename_i l0 ls hs
        simp only [List.mem_cons] at hl
        rcases hl with rfl | hl
        · have := ih l0 (by rw [hs]; simp)
          simp only [List.mem_cons, not_or]
          exact ⟨fun e => hc e.symm, this⟩
        · exact ih l (by rw [hs]; simp [hl])

/-- the document parser as the code writes it (calling the newline-tolerant `Line::from_bytes`
    on every '\n'-separated piece) is the model's `distinfoFromBytes` -/
theorem distinfoFromBytes_mirrors (b : Bytes) :
    (splitNl' b).foldl (fun d line => d.applyLine (lineFromBytesNl line)) {} = distinfoFromBytes b := by
  unfold distinfoFromBytes
  have h := splitNl'_pieces b
  generalize splitNl' b = ls at h
  generalize ({} : Distinfo) = d0
  induction ls generalizing d0 with
  | nil => rfl
  | cons l ls ih =>
    simp only [List.foldl_cons]
    rw [lineFromBytesNl_of_no_nl l (h l (by simp))]
    exact ih (fun x hx => h x (by simp [hx])) _

end L
