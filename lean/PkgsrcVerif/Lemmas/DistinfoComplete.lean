/-
Lemmas/DistinfoComplete.lean — completeness of the distinfo line recogniser and of the
document fold (C11, "no recognised line is dropped because of the bytes in its file name"):

* a line `ALG (name) = hash` / `Size (name) = N [bytes]` with ANY runs of ASCII blanks
  before and between its fields, a name of ANY non-blank bytes (>= 0x80, invalid UTF-8,
  parentheses, ...) is recognised with exactly that name and value;
* whatever a line of the document is recognised as stays recorded, under its name, in the
  map of its kind, until the end of the document (later lines only add).
-/
import PkgsrcVerif.Lemmas.DistinfoRoundtrip
namespace L
open M

def AllWs (b : Bytes) : Prop := ∀ x ∈ b, isAsciiWhiteByte x = true

/-- what may follow the value field: nothing, or a blank and then anything -/
def TailOk (t : Bytes) : Prop := t = [] ∨ ∃ c r, t = c :: r ∧ isAsciiWhiteByte c = true

theorem fields_go_ws (ws rest : Bytes) (h : AllWs ws) : fields.go [] (ws ++ rest) = fields.go [] rest := by
  induction ws with
  | nil => rfl
  | cons c ws ih =>
    have hc : isAsciiWhiteByte c = true := h c (by simp)
    rw [List.cons_append]
    conv => lhs; unfold fields.go
    simp only [hc, if_true, List.isEmpty_nil]
    exact ih (fun x hx => h x (by simp [hx]))

theorem fields_go_cur_ws (cur ws rest : Bytes) (hc : cur ≠ []) (h : AllWs ws) (hne : ws ≠ []) :
    fields.go cur (ws ++ rest) = cur.reverse :: fields.go [] rest := by
  cases ws with
  | nil => exact absurd rfl hne
  | cons c ws =>
    have hcw : isAsciiWhiteByte c = true := h c (by simp)
    rw [List.cons_append]
    conv => lhs; unfold fields.go
    have : cur.isEmpty = false := by simpa using hc
    simp only [hcw, if_true, this, Bool.false_eq_true, if_false]
    rw [fields_go_ws ws rest (fun x hx => h x (by simp [hx]))]

/-- a blank-free word followed by a non-empty run of blanks is one field -/
theorem fields_word_ws (w ws rest : Bytes) (h : NoWs w) (hne : w ≠ []) (hws : AllWs ws) (hwne : ws ≠ []) :
    fields (w ++ (ws ++ rest)) = w :: fields rest := by
  unfold fields
  rw [fields_go_word [] w _ h, fields_go_cur_ws _ ws rest (by simpa using hne) hws hwne]
  simp

theorem fields_lead (ws rest : Bytes) (h : AllWs ws) : fields (ws ++ rest) = fields rest := by
  unfold fields; exact fields_go_ws ws rest h

theorem fields_word_tail (w tail : Bytes) (h : NoWs w) (hne : w ≠ []) (ht : TailOk tail) :
    fields (w ++ tail) = w :: fields tail := by
  rcases ht with rfl | ⟨c, r, rfl, hc⟩
  · rw [List.append_nil, fields_word w h hne]; rfl
  · have := fields_word_ws w [c] r h hne (by intro x hx; simp at hx; subst hx; exact hc) (by simp)
    rw [List.singleton_append] at this
    rw [this]
    have e : fields (c :: r) = fields r := by
      have := fields_lead [c] r (by intro x hx; simp at hx; subst hx; exact hc)
      simpa using this
    rw [e]

theorem dropWhile_lead (lead : Bytes) (c : UInt8) (t : Bytes) (h : AllWs lead) (hc : isAsciiWhiteByte c = false) :
    (lead ++ c :: t).dropWhile isAsciiWhiteByte = c :: t := by
  induction lead with
  | nil => simp [List.dropWhile_cons, hc]
  | cons x xs ih =>
    have hx : isAsciiWhiteByte x = true := h x (by simp)
    rw [List.cons_append, List.dropWhile_cons]
    simp only [hx, if_true]
    exact ih (fun y hy => h y (by simp [hy]))

/-- an action word the checksum branch accepts as algorithm `d` (canonical spelling, or any
    other spelling `Digest::from_str` accepts) -/
structure AlgWord (alg : Bytes) (d : Digest) : Prop where
  nows : NoWs alg
  utf8 : isUtf8' alg = true
  notSize : (alg == ascii "Size") = false
  name : Digest.ofName alg = some d
  head : ∃ c t, alg = c :: t ∧ c ≠ 35 ∧ c ≠ 36

theorem algWord_canonical (d : Digest) : AlgWord (ascii d.name) d where
  nows := (noWs_digestName d).1
  utf8 := isUtf8'_digestName d
  notSize := digestName_ne_size d
  name := ofName_digestName d
  head := by
    obtain ⟨c, t, h, h1, h2, _⟩ := digestName_head d
    exact ⟨c, t, h, h1, h2⟩

/-- the general checksum line -/
def csLine (lead alg s1 fn s2 mid s3 hash tail : Bytes) : Bytes :=
  lead ++ (alg ++ (s1 ++ (paren fn ++ (s2 ++ (mid ++ (s3 ++ (hash ++ tail)))))))

theorem fields_line (alg s1 fn s2 mid s3 value tail : Bytes)
    (ha : NoWs alg) (hane : alg ≠ []) (h1 : AllWs s1) (h1n : s1 ≠ []) (hf : NoWs fn)
    (h2 : AllWs s2) (h2n : s2 ≠ []) (hm : NoWs mid) (hmn : mid ≠ []) (h3 : AllWs s3) (h3n : s3 ≠ [])
    (hv : NoWs value) (hvn : value ≠ []) (ht : TailOk tail) :
    fields (alg ++ (s1 ++ (paren fn ++ (s2 ++ (mid ++ (s3 ++ (value ++ tail))))))) =
      alg :: paren fn :: mid :: value :: fields tail := by
  obtain ⟨p1, p2⟩ := noWs_paren fn hf
  rw [fields_word_ws _ _ _ ha hane h1 h1n, fields_word_ws _ _ _ p1 p2 h2 h2n,
    fields_word_ws _ _ _ hm hmn h3 h3n, fields_word_tail _ _ hv hvn ht]

theorem lineFromBytes_csLine (lead alg s1 fn s2 mid s3 hash tail : Bytes) (d : Digest)
    (hl : AllWs lead) (ha : AlgWord alg d) (h1 : AllWs s1) (h1n : s1 ≠ []) (hf : NoWs fn)
    (h2 : AllWs s2) (h2n : s2 ≠ []) (hm : NoWs mid) (hmn : mid ≠ []) (h3 : AllWs s3) (h3n : s3 ≠ [])
    (hh : NoWs hash) (hhn : hash ≠ []) (hu : isUtf8' hash = true) (ht : TailOk tail) :
    lineFromBytes (csLine lead alg s1 fn s2 mid s3 hash tail) = .checksum d fn hash := by
  obtain ⟨c, t, hA, h35, h36⟩ := ha.head
  have hane : alg ≠ [] := by rw [hA]; simp
  have hcw : isAsciiWhiteByte c = false := ha.nows c (by rw [hA]; simp)
  have hfl := fields_line alg s1 fn s2 mid s3 hash tail ha.nows hane h1 h1n hf h2 h2n hm hmn h3 h3n hh hhn ht
  obtain ⟨ps1, ps2, ps3⟩ := paren_shape fn
  unfold lineFromBytes csLine
  have hbody : alg ++ (s1 ++ (paren fn ++ (s2 ++ (mid ++ (s3 ++ (hash ++ tail)))))) =
      c :: (t ++ (s1 ++ (paren fn ++ (s2 ++ (mid ++ (s3 ++ (hash ++ tail))))))) := by rw [hA]; rfl
  have hdw : (lead ++ (alg ++ (s1 ++ (paren fn ++ (s2 ++ (mid ++ (s3 ++ (hash ++ tail)))))))).dropWhile isAsciiWhiteByte
      = alg ++ (s1 ++ (paren fn ++ (s2 ++ (mid ++ (s3 ++ (hash ++ tail)))))) := by
    rw [hbody]; exact dropWhile_lead lead c _ hl hcw
  simp only [hdw, hfl]
  rw [hbody]
  have e35 : ((c :: (t ++ (s1 ++ (paren fn ++ (s2 ++ (mid ++ (s3 ++ (hash ++ tail)))))))).head? == some 35) = false := by
    simpa using h35
  simp only [e35, List.isEmpty_cons, Bool.or_false, Bool.false_eq_true, if_false, not_rcs_prefix c _ h36,
    ha.utf8, Bool.not_true, ps1, ps2, beq_self_eq_true, Bool.and_self, hu, ps3, ha.notSize, ha.name]

/-- the general size line: `Size (name) = N` optionally followed by ` bytes` or anything else
    after a blank -/
theorem lineFromBytes_szLine (lead s1 fn s2 mid s3 value tail : Bytes) (n : Nat)
    (hl : AllWs lead) (h1 : AllWs s1) (h1n : s1 ≠ []) (hf : NoWs fn)
    (h2 : AllWs s2) (h2n : s2 ≠ []) (hm : NoWs mid) (hmn : mid ≠ []) (h3 : AllWs s3) (h3n : s3 ≠ [])
    (hv : NoWs value) (hvn : value ≠ []) (hu : isUtf8' value = true)
    (hp : parseU64? (value.map fun x => Char.ofNat x.toNat) = some n) (ht : TailOk tail) :
    lineFromBytes (csLine lead (ascii "Size") s1 fn s2 mid s3 value tail) = .size fn n := by
  have hS : ascii "Size" = 83 :: (ascii "Size").tail := by decide
  have hSw : NoWs (ascii "Size") := by unfold NoWs; decide
  have hfl := fields_line (ascii "Size") s1 fn s2 mid s3 value tail hSw (by decide) h1 h1n hf h2 h2n hm hmn
    h3 h3n hv hvn ht
  obtain ⟨ps1, ps2, ps3⟩ := paren_shape fn
  unfold lineFromBytes csLine
  have hbody : ascii "Size" ++ (s1 ++ (paren fn ++ (s2 ++ (mid ++ (s3 ++ (value ++ tail)))))) =
      83 :: ((ascii "Size").tail ++ (s1 ++ (paren fn ++ (s2 ++ (mid ++ (s3 ++ (value ++ tail))))))) := by
    conv => lhs; rw [hS]
    rfl
  have hdw : (lead ++ (ascii "Size" ++ (s1 ++ (paren fn ++ (s2 ++ (mid ++ (s3 ++ (value ++ tail)))))))).dropWhile
      isAsciiWhiteByte = ascii "Size" ++ (s1 ++ (paren fn ++ (s2 ++ (mid ++ (s3 ++ (value ++ tail)))))) := by
    rw [hbody]; exact dropWhile_lead lead 83 _ hl (by decide)
  simp only [hdw, hfl]
  rw [hbody]
  have hsz : isUtf8' (ascii "Size") = true := by decide
  simp only [List.head?_cons, List.isEmpty_cons, Bool.or_false, not_rcs_prefix 83 _ (by decide), hsz, Bool.not_true,
    ps1, ps2, beq_self_eq_true, Bool.and_self, hu, ps3, hp, Bool.false_eq_true, if_false, if_true]
  simp

/-! ### the document fold never loses what a line recorded -/

def HasSum (d : Distinfo) (fn : Bytes) (dg : Digest) (h : Bytes) : Prop :=
  ∃ e, (d.mapOf (entryType fn)).get fn = some e ∧ (dg, h) ∈ e.checksums

def HasSize (d : Distinfo) (fn : Bytes) : Prop :=
  ∃ e n, (d.mapOf (entryType fn)).get fn = some e ∧ e.size = some n

theorem get_modify (m : EMap) (k k' : Bytes) (f : Entry → Entry) :
    (m.modify k f).get k' = (m.find? fun kv => keyEq kv.1 k').map
      (fun kv => if keyEq kv.1 k then f kv.2 else kv.2) := by
  induction m with
  | nil => simp [EMap.modify, EMap.get]
  | cons kv m ih =>
    simp only [EMap.modify, EMap.get, List.map_cons] at ih ⊢
    by_cases hk : keyEq kv.1 k = true
    · simp only [hk, if_true, List.find?_cons]
      by_cases hk' : keyEq kv.1 k' = true
      · simp [hk', hk]
      · simp only [hk', Bool.false_eq_true]; exact ih
    · simp only [hk, Bool.false_eq_true, if_false, List.find?_cons]
      by_cases hk' : keyEq kv.1 k' = true
      · simp [hk', hk]
      · simp only [hk']; exact ih

theorem get_append_some (m : EMap) (k : Bytes) (x : Bytes × Entry) (e : Entry) (h : m.get k = some e) :
    (m ++ [x]).get k = some e := by
  simp only [EMap.get, List.find?_append] at h ⊢
  cases hf : m.find? (fun kv => keyEq kv.1 k) with
  | none => simp [hf] at h
  | some kv => simpa [hf] using h

theorem get_append_new (m : EMap) (k : Bytes) (e : Entry) (h : (m.get k).isSome = false) :
    (m ++ [(k, e)]).get k = some e := by
  simp only [EMap.get, List.find?_append] at h ⊢
  cases hf : m.find? (fun kv => keyEq kv.1 k) with
  | none => simp [keyEq_refl]
  | some kv => simp [hf] at h

/-- what a map lookup gives after ANY line has been applied: the entry is still there, with at
    least the same checksums, and a size once set stays set -/
theorem get_after_line (d : Distinfo) (l : Line) (t : EntryType) (k : Bytes) (e : Entry)
    (h : (d.mapOf t).get k = some e) :
    ∃ e', ((d.applyLine l).mapOf t).get k = some e' ∧ (∀ c ∈ e.checksums, c ∈ e'.checksums) ∧
      (e.size.isSome = true → e'.size.isSome = true) := by
  cases l with
  | none => exact ⟨e, h, fun _ hc => hc, id⟩
  | rcsId s =>
    refine ⟨e, ?_, fun _ hc => hc, id⟩
    cases t <;> simpa [Distinfo.applyLine, Distinfo.mapOf] using h
  | size p n =>
    simp only [Distinfo.applyLine, Distinfo.updateSize]
    by_cases ht : t = entryType p
    · subst ht
      split
      · rw [mapOf_setMap, get_modify]
        simp only [EMap.get] at h
        cases hf : (d.mapOf (entryType p)).find? (fun kv => keyEq kv.1 k) with
        | none => simp [hf] at h
        | some kv =>
          have : kv.2 = e := by simpa [hf] using h
          subst this
          simp only [Option.map_some]
          split
          · exact ⟨_, rfl, fun _ hc => hc, fun _ => rfl⟩
          · exact ⟨_, rfl, fun _ hc => hc, id⟩
      · rw [mapOf_setMap]
        exact ⟨e, get_append_some _ _ _ _ h, fun _ hc => hc, id⟩
    · have : ∀ m, (d.setMap (entryType p) m).mapOf t = d.mapOf t := by
        intro m; cases t <;> cases hp : entryType p <;> simp_all [Distinfo.setMap, Distinfo.mapOf]
      split <;> (rw [this]; exact ⟨e, h, fun _ hc => hc, id⟩)
  | checksum dg p hsh =>
    simp only [Distinfo.applyLine, Distinfo.updateChecksum]
    by_cases ht : t = entryType p
    · subst ht
      split
      · rw [mapOf_setMap, get_modify]
        simp only [EMap.get] at h
        cases hf : (d.mapOf (entryType p)).find? (fun kv => keyEq kv.1 k) with
        | none => simp [hf] at h
        | some kv =>
          have : kv.2 = e := by simpa [hf] using h
          subst this
          simp only [Option.map_some]
          split
          · exact ⟨_, rfl, fun c hc => by simp [hc], id⟩
          · exact ⟨_, rfl, fun _ hc => hc, id⟩
      · rw [mapOf_setMap]
        exact ⟨e, get_append_some _ _ _ _ h, fun _ hc => hc, id⟩
    · have : ∀ m, (d.setMap (entryType p) m).mapOf t = d.mapOf t := by
        intro m; cases t <;> cases hp : entryType p <;> simp_all [Distinfo.setMap, Distinfo.mapOf]
      split <;> (rw [this]; exact ⟨e, h, fun _ hc => hc, id⟩)

theorem hasSum_line (d : Distinfo) (l : Line) (fn : Bytes) (dg : Digest) (h : Bytes) (hs : HasSum d fn dg h) :
    HasSum (d.applyLine l) fn dg h := by
  obtain ⟨e, he, hm⟩ := hs
  obtain ⟨e', he', hc, _⟩ := get_after_line d l _ fn e he
  exact ⟨e', he', hc _ hm⟩

theorem hasSize_line (d : Distinfo) (l : Line) (fn : Bytes) (hs : HasSize d fn) : HasSize (d.applyLine l) fn := by
  obtain ⟨e, n, he, hn⟩ := hs
  obtain ⟨e', he', _, hsz⟩ := get_after_line d l _ fn e he
  have := hsz (by simp [hn])
  cases hs' : e'.size with
  | none => simp [hs'] at this
  | some n' => exact ⟨e', n', he', hs'⟩

theorem hasSum_fold (ls : List Bytes) (d : Distinfo) (fn : Bytes) (dg : Digest) (h : Bytes) (hs : HasSum d fn dg h) :
    HasSum (ls.foldl (fun d line => d.applyLine (lineFromBytes line)) d) fn dg h := by
  induction ls generalizing d with
  | nil => exact hs
  | cons l ls ih => exact ih _ (hasSum_line d _ fn dg h hs)

theorem hasSize_fold (ls : List Bytes) (d : Distinfo) (fn : Bytes) (hs : HasSize d fn) :
    HasSize (ls.foldl (fun d line => d.applyLine (lineFromBytes line)) d) fn := by
  induction ls generalizing d with
  | nil => exact hs
  | cons l ls ih => exact ih _ (hasSize_line d _ fn hs)

/-- right after a checksum line is applied, its checksum is recorded under its name -/
theorem hasSum_updateChecksum (d : Distinfo) (fn : Bytes) (dg : Digest) (h : Bytes) :
    HasSum (d.updateChecksum fn dg h) fn dg h := by
  unfold HasSum Distinfo.updateChecksum
  simp only
  split
  · rename_i hsome
    rw [mapOf_setMap, get_modify]
    simp only [EMap.get] at hsome
    cases hf : (d.mapOf (entryType fn)).find? (fun kv => keyEq kv.1 fn) with
    | none => simp [hf] at hsome
    | some kv =>
      have hk : keyEq kv.1 fn = true := by simpa using List.find?_some hf
      exact ⟨{ kv.2 with checksums := kv.2.checksums ++ [(dg, h)] }, by simp [hf, hk], by simp⟩
  · rename_i hnone
    rw [mapOf_setMap]
    exact ⟨_, get_append_new _ _ _ (by simpa using hnone), by simp⟩

theorem hasSize_updateSize (d : Distinfo) (fn : Bytes) (n : Nat) : HasSize (d.updateSize fn n) fn := by
  unfold HasSize Distinfo.updateSize
  simp only
  split
  · rename_i hsome
    rw [mapOf_setMap, get_modify]
    simp only [EMap.get] at hsome
    cases hf : (d.mapOf (entryType fn)).find? (fun kv => keyEq kv.1 fn) with
    | none => simp [hf] at hsome
    | some kv =>
      have hk : keyEq kv.1 fn = true := by simpa using List.find?_some hf
      exact ⟨{ kv.2 with size := some n }, n, by simp [hf, hk], rfl⟩
  · rename_i hnone
    rw [mapOf_setMap]
    exact ⟨_, n, get_append_new _ _ _ (by simpa using hnone), rfl⟩

/-- every line of a document that is recognised as a checksum is recorded at the end -/
theorem fold_records_sum (ls : List Bytes) (d : Distinfo) (l : Bytes) (hl : l ∈ ls) (fn : Bytes) (dg : Digest)
    (h : Bytes) (hr : lineFromBytes l = .checksum dg fn h) :
    HasSum (ls.foldl (fun d line => d.applyLine (lineFromBytes line)) d) fn dg h := by
  induction ls generalizing d with
  | nil => cases hl
  | cons x xs ih =>
    rcases List.mem_cons.mp hl with rfl | hmem
    · simp only [List.foldl_cons, hr, Distinfo.applyLine]
      exact hasSum_fold xs _ fn dg h (hasSum_updateChecksum d fn dg h)
    · exact ih _ hmem

theorem fold_records_size (ls : List Bytes) (d : Distinfo) (l : Bytes) (hl : l ∈ ls) (fn : Bytes) (n : Nat)
    (hr : lineFromBytes l = .size fn n) :
    HasSize (ls.foldl (fun d line => d.applyLine (lineFromBytes line)) d) fn := by
  induction ls generalizing d with
  | nil => cases hl
  | cons x xs ih =>
    rcases List.mem_cons.mp hl with rfl | hmem
    · simp only [List.foldl_cons, hr, Distinfo.applyLine]
      exact hasSize_fold xs _ fn (hasSize_updateSize d fn n)
    · exact ih _ hmem

end L
