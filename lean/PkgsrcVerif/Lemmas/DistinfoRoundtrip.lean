/-
Lemmas/DistinfoRoundtrip.lean — a distinfo file in canonical layout parses to exactly the
data it was rendered from, and that data writes back to the same bytes.
Part 1: the field splitter and the line classifier on rendered lines.
-/
import PkgsrcVerif.Lemmas.Distinfo
import PkgsrcVerif.Lemmas.Decimal
import PkgsrcVerif.Lemmas.Utf8
import PkgsrcVerif.Spec.Distinfo
namespace L
open M

/-- no ASCII whitespace inside -/
def NoWs (b : Bytes) : Prop := ∀ x ∈ b, isAsciiWhiteByte x = false

theorem ws32 : isAsciiWhiteByte 32 = true := by decide

theorem fields_go_word (cur w rest : Bytes) (h : NoWs w) :
    fields.go cur (w ++ rest) = fields.go (w.reverse ++ cur) rest := by
  induction w generalizing cur with
  | nil => rfl
  | cons c w ih =>
    have hc : isAsciiWhiteByte c = false := h c (by simp)
    rw [List.cons_append]
    conv => lhs; unfold fields.go
    simp only [hc, Bool.false_eq_true, if_false]
    rw [ih (c :: cur) (fun x hx => h x (by simp [hx]))]
    simp

theorem fields_go_sp (cur rest : Bytes) (h : cur ≠ []) :
    fields.go cur (32 :: rest) = cur.reverse :: fields.go [] rest := by
  conv => lhs; unfold fields.go
  have : cur.isEmpty = false := by simpa using h
  simp [ws32, this]

theorem fields_go_end (cur : Bytes) (h : cur ≠ []) : fields.go cur [] = [cur.reverse] := by
  conv => lhs; unfold fields.go
  have : cur.isEmpty = false := by simpa using h
  simp [this]

/-- a blank-free word followed by a space is one field -/
theorem fields_word_sp (w rest : Bytes) (h : NoWs w) (hne : w ≠ []) :
    fields (w ++ 32 :: rest) = w :: fields rest := by
  unfold fields
  rw [fields_go_word [] w _ h, fields_go_sp _ _ (by simpa using hne)]
  simp

theorem fields_word (w : Bytes) (h : NoWs w) (hne : w ≠ []) : fields w = [w] := by
  unfold fields
  have := fields_go_word [] w [] h
  rw [List.append_nil] at this
  rw [this, fields_go_end _ (by simpa using hne)]
  simp

theorem noWs_append (a b : Bytes) (ha : NoWs a) (hb : NoWs b) : NoWs (a ++ b) := by
  intro x hx
  rcases List.mem_append.mp hx with h | h
  · exact ha x h
  · exact hb x h

theorem noWs_digestName (d : Digest) : NoWs (ascii d.name) ∧ ascii d.name ≠ [] := by
  cases d <;> exact ⟨by unfold NoWs; decide, by decide⟩

theorem ofName_digestName (d : Digest) : Digest.ofName (ascii d.name) = some d := by
  cases d <;> decide

theorem digestName_ne_size (d : Digest) : (ascii d.name == ascii "Size") = false := by
  cases d <;> decide

theorem isUtf8'_ascii (b : Bytes) (h : ∀ x ∈ b, x.toNat < 0x80) : isUtf8' b = true := by
  have := complete_ascii b h
  unfold Complete at this
  simp [isUtf8', this]

theorem isUtf8'_digestName (d : Digest) : isUtf8' (ascii d.name) = true := by
  cases d <;> decide


/-! ### the two line shapes -/

/-- "(name)" -/
def paren (fn : Bytes) : Bytes := 40 :: fn ++ [41]

theorem noWs_paren (fn : Bytes) (h : NoWs fn) : NoWs (paren fn) ∧ paren fn ≠ [] := by
  refine ⟨?_, by simp [paren]⟩
  intro x hx
  simp only [paren, List.mem_cons, List.mem_append, List.mem_nil_iff, or_false] at hx
  rcases hx with (rfl | hx) | rfl
  · decide
  · exact h x hx
  · decide

theorem paren_shape (fn : Bytes) :
    (paren fn).head? = some 40 ∧ (paren fn).getLast? = some 41 ∧ ((paren fn).drop 1).dropLast = fn := by
  refine ⟨rfl, ?_, ?_⟩
  · have : paren fn = (40 :: fn) ++ [41] := rfl
    rw [this, List.getLast?_append]; simp
  · simp [paren]

def csBody (dg : Digest) (fn hash : Bytes) : Bytes :=
  ascii dg.name ++ 32 :: (paren fn ++ 32 :: ([61] ++ 32 :: hash))

def szBody (fn : Bytes) (n : Nat) : Bytes :=
  ascii "Size" ++ 32 :: (paren fn ++ 32 :: ([61] ++ 32 :: (natBytes n ++ 32 :: ascii "bytes")))

theorem checksumLine_eq (dg : Digest) (fn hash : Bytes) : checksumLine dg fn hash = csBody dg fn hash ++ [10] := by
  have e1 : ascii " (" = [32, 40] := by decide
  have e2 : ascii ") = " = [41, 32, 61, 32] := by decide
  simp [checksumLine, csBody, paren, e1, e2]

theorem sizeLine_eq (fn : Bytes) (n : Nat) : sizeLine fn n = szBody fn n ++ [10] := by
  have e1 : ascii "Size (" = ascii "Size" ++ [32, 40] := by decide
  have e2 : ascii ") = " = [41, 32, 61, 32] := by decide
  have e3 : ascii " bytes" = 32 :: ascii "bytes" := by decide
  simp [sizeLine, szBody, paren, e1, e2, e3]

theorem noWs_eq : NoWs [61] ∧ ([61] : Bytes) ≠ [] := ⟨by unfold NoWs; decide, by simp⟩

theorem fields_csBody (dg : Digest) (fn hash : Bytes) (hf : NoWs fn) (hh : NoWs hash) (hhne : hash ≠ []) :
    fields (csBody dg fn hash) = [ascii dg.name, paren fn, [61], hash] := by
  unfold csBody
  obtain ⟨a1, a2⟩ := noWs_digestName dg
  obtain ⟨p1, p2⟩ := noWs_paren fn hf
  rw [fields_word_sp _ _ a1 a2, fields_word_sp _ _ p1 p2, fields_word_sp _ _ noWs_eq.1 noWs_eq.2,
    fields_word _ hh hhne]

theorem ascii_char_rt (c : Char) (h : c.toNat < 128) : Char.ofNat (UInt8.ofNat c.toNat).toNat = c := by
  have : (UInt8.ofNat c.toNat).toNat = c.toNat := by
    simp only [UInt8.toNat_ofNat']
    omega
  rw [this, Char.ofNat_toNat]

theorem digit_lt_128 (c : Char) (h : isDigit c = true) : c.toNat < 128 := by
  simp only [isDigit, decide_eq_true_eq] at h
  have h9 : '9'.toNat = 57 := by decide
  omega

theorem natBytes_chars (n : Nat) : (natBytes n).map (fun x => Char.ofNat x.toNat) = natToDec n := by
  unfold natBytes
  rw [List.map_map]
  have : ∀ c ∈ natToDec n, c.toNat < 128 := fun c hc => digit_lt_128 c (toDigits_all_digits n c hc)
  generalize natToDec n = l at this
  induction l with
  | nil => rfl
  | cons c l ih =>
    simp only [List.map_cons, Function.comp]
    rw [ascii_char_rt c (this c (by simp))]
    congr 1
    exact ih fun x hx => this x (by simp [hx])

theorem noWs_natBytes (n : Nat) : NoWs (natBytes n) ∧ natBytes n ≠ [] ∧ ∀ x ∈ natBytes n, x.toNat < 0x80 := by
  have key : ∀ b ∈ natBytes n, 48 ≤ b.toNat ∧ b.toNat ≤ 57 := by
    intro b hb
    unfold natBytes at hb
    simp only [List.mem_map] at hb
    obtain ⟨c, hc, rfl⟩ := hb
    have := toDigits_all_digits n c hc
    simp only [isDigit, decide_eq_true_eq] at this
    have h0 : '0'.toNat = 48 := by decide
    have h9 : '9'.toNat = 57 := by decide
    simp only [UInt8.toNat_ofNat']
    omega
  refine ⟨?_, ?_, ?_⟩
  · intro x hx
    have := key x hx
    simp only [isAsciiWhiteByte, decide_eq_false_iff_not]
    omega
  · unfold natBytes
    simp only [ne_eq, List.map_eq_nil_iff]
    exact toDigits_ne_nil' n
  · intro x hx; have := key x hx; omega

theorem fields_szBody (fn : Bytes) (n : Nat) (hf : NoWs fn) :
    fields (szBody fn n) = [ascii "Size", paren fn, [61], natBytes n, ascii "bytes"] := by
  unfold szBody
  obtain ⟨p1, p2⟩ := noWs_paren fn hf
  obtain ⟨n1, n2, _⟩ := noWs_natBytes n
  have s1 : NoWs (ascii "Size") ∧ ascii "Size" ≠ [] := ⟨by unfold NoWs; decide, by decide⟩
  have b1 : NoWs (ascii "bytes") ∧ ascii "bytes" ≠ [] := ⟨by unfold NoWs; decide, by decide⟩
  rw [fields_word_sp _ _ s1.1 s1.2, fields_word_sp _ _ p1 p2, fields_word_sp _ _ noWs_eq.1 noWs_eq.2,
    fields_word_sp _ _ n1 n2, fields_word _ b1.1 b1.2]


/-! ### the classifier on rendered lines -/

theorem digestName_head (dg : Digest) :
    ∃ c t, ascii dg.name = c :: t ∧ c ≠ 35 ∧ c ≠ 36 ∧ isAsciiWhiteByte c = false := by
  refine ⟨(ascii dg.name).headD 0, (ascii dg.name).tail, ?_, ?_, ?_, ?_⟩ <;> cases dg <;> decide

theorem not_rcs_prefix (c : UInt8) (t : Bytes) (h : c ≠ 36) : isPrefixB (ascii "$NetBSD: ") (c :: t) = false := by
  have e : ascii "$NetBSD: " = 36 :: (ascii "$NetBSD: ").tail := by decide
  rw [e]
  simp only [isPrefixB, List.isPrefixOf]
  have : ((36 : UInt8) == c) = false := by simpa using fun e => h e.symm
  simp [this]

theorem lineFromBytes_cs (dg : Digest) (fn hash : Bytes) (hf : NoWs fn) (hh : NoWs hash) (hhne : hash ≠ [])
    (hu : isUtf8' hash = true) : lineFromBytes (csBody dg fn hash) = .checksum dg fn hash := by
  have hfl := fields_csBody dg fn hash hf hh hhne
  obtain ⟨c, t, hA, h35, h36, hws⟩ := digestName_head dg
  have hbody : csBody dg fn hash = c :: (t ++ 32 :: (paren fn ++ 32 :: ([61] ++ 32 :: hash))) := by
    unfold csBody; rw [hA]; rfl
  obtain ⟨ps1, ps2, ps3⟩ := paren_shape fn
  unfold lineFromBytes
  have hdw : (csBody dg fn hash).dropWhile isAsciiWhiteByte = csBody dg fn hash := by
    rw [hbody, List.dropWhile_cons]; simp [hws]
  simp only [hdw, hfl]
  rw [hbody]
  have e35 : ((c :: (t ++ 32 :: (paren fn ++ 32 :: ([61] ++ 32 :: hash)))).head? == some 35) = false := by
    simpa using h35
  simp only [e35, List.isEmpty_cons, Bool.or_false, Bool.false_eq_true, if_false, not_rcs_prefix c _ h36,
    isUtf8'_digestName, Bool.not_true, ps1, ps2, beq_self_eq_true, Bool.and_self, hu, ps3, digestName_ne_size,
    ofName_digestName]

theorem lineFromBytes_sz (fn : Bytes) (n : Nat) (hf : NoWs fn) (hn : n ≤ u64Max) :
    lineFromBytes (szBody fn n) = .size fn n := by
  have hfl := fields_szBody fn n hf
  have hbody : szBody fn n = 83 :: ((ascii "Size").tail ++ 32 :: (paren fn ++ 32 :: ([61] ++ 32 :: (natBytes n ++ 32 :: ascii "bytes")))) := by
    have : ascii "Size" = 83 :: (ascii "Size").tail := by decide
    unfold szBody; rw [this]; rfl
  obtain ⟨ps1, ps2, ps3⟩ := paren_shape fn
  obtain ⟨_, _, nasc⟩ := noWs_natBytes n
  unfold lineFromBytes
  have hdw : (szBody fn n).dropWhile isAsciiWhiteByte = szBody fn n := by
    rw [hbody, List.dropWhile_cons]
    have : isAsciiWhiteByte 83 = false := by decide
    simp [this]
  simp only [hdw, hfl]
  rw [hbody]
  have hsz : isUtf8' (ascii "Size") = true := by decide
  simp only [List.head?_cons, List.isEmpty_cons, Bool.or_false, not_rcs_prefix 83 _ (by decide), hsz, Bool.not_true,
    ps1, ps2, beq_self_eq_true, Bool.and_self, isUtf8'_ascii _ nasc, ps3, natBytes_chars,
    parseU64_natToDec n hn, Bool.false_eq_true, if_false, if_true]
  simp

theorem lineFromBytes_nil : lineFromBytes [] = .none := by decide


/-! ### the ordered maps -/

/-- no key of the map is the same file as `k` -/
def Fresh (m : EMap) (k : Bytes) : Prop := ∀ kv ∈ m, keyEq kv.1 k = false

theorem keyEq_refl (k : Bytes) : keyEq k k = true := by simp [keyEq]

theorem emap_get_fresh (m : EMap) (k : Bytes) (h : Fresh m k) : (m.get k).isSome = false :=
  (get_none_iff m k).mpr h

theorem emap_get_last (m : EMap) (k : Bytes) (e : Entry) (h : Fresh m k) : ((m ++ [(k, e)]).get k).isSome = true := by
  simp only [EMap.get, Option.isSome_map, List.find?_append]
  have : m.find? (fun kv => keyEq kv.1 k) = none := by
    rw [List.find?_eq_none]; intro kv hkv; simp [h kv hkv]
  simp [this, keyEq_refl]

theorem emap_modify_last (m : EMap) (k : Bytes) (e : Entry) (f : Entry → Entry) (h : Fresh m k) :
    (m ++ [(k, e)]).modify k f = m ++ [(k, f e)] := by
  simp only [EMap.modify, List.map_append, List.map_cons, List.map_nil, keyEq_refl, if_true]
  congr 1
  have : ∀ kv ∈ m, (if keyEq kv.1 k = true then (kv.1, f kv.2) else kv) = kv := by
    intro kv hkv; simp [h kv hkv]
  rw [List.map_congr_left this]; simp

theorem setMap_setMap (d : Distinfo) (t : EntryType) (m1 m2 : EMap) : (d.setMap t m1).setMap t m2 = d.setMap t m2 := by
  cases t <;> rfl

theorem uc_fresh (d : Distinfo) (p : Bytes) (dg : Digest) (h : Bytes) (hf : Fresh (d.mapOf (entryType p)) p) :
    d.updateChecksum p dg h =
      d.setMap (entryType p) (d.mapOf (entryType p) ++
        [(p, { filename := p, checksums := [(dg, h)], filetype := entryType p })]) := by
  unfold Distinfo.updateChecksum
  simp only [emap_get_fresh _ _ hf, Bool.false_eq_true, if_false]

theorem uc_last (d : Distinfo) (p : Bytes) (dg : Digest) (h : Bytes) (m : EMap) (e : Entry)
    (hm : d.mapOf (entryType p) = m ++ [(p, e)]) (hf : Fresh m p) :
    d.updateChecksum p dg h =
      d.setMap (entryType p) (m ++ [(p, { e with checksums := e.checksums ++ [(dg, h)] })]) := by
  unfold Distinfo.updateChecksum
  simp only [hm, emap_get_last m p e hf, if_true, emap_modify_last m p e _ hf]

theorem us_fresh (d : Distinfo) (p : Bytes) (n : Nat) (hf : Fresh (d.mapOf (entryType p)) p) :
    d.updateSize p n =
      d.setMap (entryType p) (d.mapOf (entryType p) ++
        [(p, { filename := p, size := some n, filetype := entryType p })]) := by
  unfold Distinfo.updateSize
  simp only [emap_get_fresh _ _ hf, Bool.false_eq_true, if_false]

theorem us_last (d : Distinfo) (p : Bytes) (n : Nat) (m : EMap) (e : Entry)
    (hm : d.mapOf (entryType p) = m ++ [(p, e)]) (hf : Fresh m p) :
    d.updateSize p n = d.setMap (entryType p) (m ++ [(p, { e with size := some n })]) := by
  unfold Distinfo.updateSize
  simp only [hm, emap_get_last m p e hf, if_true, emap_modify_last m p e _ hf]

/-! ### one block -/

/-- the '\n'-free lines a block renders to -/
def blockLines (b : S.CBlock) : List Bytes :=
  b.sums.map (fun c => csBody c.1 b.name c.2) ++ (match b.size with | some n => [szBody b.name n] | none => [])

def stepLine (d : Distinfo) (line : Bytes) : Distinfo := d.applyLine (lineFromBytes line)

theorem render_block (b : S.CBlock) : b.render = (blockLines b).flatMap (· ++ [10]) := by
  unfold S.CBlock.render blockLines
  simp only [List.flatMap_append, List.flatMap_map, checksumLine_eq]
  congr 1
  cases b.size with
  | none => rfl
  | some n => simp [sizeLine_eq]

structure BlockOk (b : S.CBlock) : Prop where
  name : NoWs b.name
  hashes : ∀ c ∈ b.sums, NoWs c.2 ∧ c.2 ≠ [] ∧ isUtf8' c.2 = true
  size : ∀ n, b.size = some n → n ≤ u64Max
  some : b.sums ≠ [] ∨ b.size.isSome = true

theorem blockOk_of_wf (b : S.CBlock) (h : b.wf = true) : BlockOk b := by
  simp only [S.CBlock.wf, Bool.and_eq_true, S.cleanName, S.cleanHash, List.all_eq_true, Bool.not_eq_true',
    Bool.or_eq_true, List.isEmpty_eq_false_iff] at h
  obtain ⟨⟨⟨⟨_, hn⟩, hh⟩, hs⟩, hz⟩ := h
  refine ⟨fun x hx => hn x hx, ?_, ?_, ?_⟩
  · intro c hc
    have := hh c hc
    obtain ⟨⟨h1, h2⟩, h3⟩ := this
    exact ⟨fun x hx => h3 x hx, h1, h2⟩
  · intro n hn'
    rw [hn'] at hz
    simpa using hz
  · rcases hs with h | h
    · left; exact h
    · right; exact h

/-- appending more checksum lines of the file that is last in its map -/
theorem fold_more_sums (name : Bytes) (cs : List (Digest × Bytes)) (hn : NoWs name)
    (hh : ∀ c ∈ cs, NoWs c.2 ∧ c.2 ≠ [] ∧ isUtf8' c.2 = true)
    (d : Distinfo) (m : EMap) (e : Entry) (hm : d.mapOf (entryType name) = m ++ [(name, e)]) (hf : Fresh m name) :
    (cs.map (fun c => csBody c.1 name c.2)).foldl stepLine d =
      d.setMap (entryType name) (m ++ [(name, { e with checksums := e.checksums ++ cs })]) := by
  induction cs generalizing d e with
  | nil =>
    simp only [List.map_nil, List.foldl_nil, List.append_nil]
    rw [← hm]
    cases entryType name <;> rfl
  | cons c cs ih =>
    obtain ⟨h1, h2, h3⟩ := hh c (by simp)
    simp only [List.map_cons, List.foldl_cons]
    have hstep : stepLine d (csBody c.1 name c.2) =
        d.setMap (entryType name) (m ++ [(name, { e with checksums := e.checksums ++ [c] })]) := by
      unfold stepLine
      rw [lineFromBytes_cs c.1 name c.2 hn h1 h2 h3]
      simp only [Distinfo.applyLine]
      exact uc_last d name c.1 c.2 m e hm hf
    rw [hstep, ih (fun x hx => hh x (by simp [hx])) _ _ (mapOf_setMap _ _ _), setMap_setMap]
    simp


theorem stepLine_cs (d : Distinfo) (c : Digest × Bytes) (name : Bytes) (hn : NoWs name)
    (h : NoWs c.2 ∧ c.2 ≠ [] ∧ isUtf8' c.2 = true) :
    stepLine d (csBody c.1 name c.2) = d.updateChecksum name c.1 c.2 := by
  unfold stepLine
  rw [lineFromBytes_cs c.1 name c.2 hn h.1 h.2.1 h.2.2]
  rfl

theorem stepLine_sz (d : Distinfo) (name : Bytes) (n : Nat) (hn : NoWs name) (hle : n ≤ u64Max) :
    stepLine d (szBody name n) = d.updateSize name n := by
  unfold stepLine
  rw [lineFromBytes_sz name n hn hle]
  rfl

/-- a whole block, for a file not yet in its map, appends exactly that file's entry -/
theorem fold_block (b : S.CBlock) (hok : BlockOk b) (d : Distinfo)
    (hf : Fresh (d.mapOf (entryType b.name)) b.name) :
    (blockLines b).foldl stepLine d =
      d.setMap (entryType b.name) (d.mapOf (entryType b.name) ++ [(b.name, b.entry (entryType b.name))]) := by
  obtain ⟨name, sums, size⟩ := b
  simp only at hf ⊢
  unfold blockLines
  simp only [List.foldl_append]
  cases sums with
  | nil =>
    cases size with
    | none => rcases hok.some with h | h <;> simp at h
    | some n =>
      simp only [List.map_nil, List.foldl_nil, List.foldl_cons]
      rw [stepLine_sz d name n hok.name (hok.size n rfl), us_fresh d name n hf]
      rfl
  | cons c cs =>
    simp only [List.map_cons, List.foldl_cons]
    rw [stepLine_cs d c name hok.name (hok.hashes c (by simp)), uc_fresh d name c.1 c.2 hf]
    rw [fold_more_sums name cs hok.name (fun x hx => hok.hashes x (by simp [hx])) _ _ _ (mapOf_setMap _ _ _) hf,
      setMap_setMap]
    cases size with
    | none => simp [S.CBlock.entry]
    | some n =>
      simp only [List.foldl_cons, List.foldl_nil]
      rw [stepLine_sz _ name n hok.name (hok.size n rfl),
        us_last _ name n _ _ (mapOf_setMap _ _ _) hf, setMap_setMap]
      simp [S.CBlock.entry]

theorem fresh_append (m : EMap) (k k' : Bytes) (e : Entry) (h : Fresh m k') (hk : keyEq k k' = false) :
    Fresh (m ++ [(k, e)]) k' := by
  intro kv hkv
  rcases List.mem_append.mp hkv with h1 | h1
  · exact h kv h1
  · simp only [List.mem_singleton] at h1; subst h1; exact hk

/-- consecutive blocks of one kind, pairwise different files, none of them in the map yet -/
theorem fold_blocks (bs : List S.CBlock) (t : EntryType) (d : Distinfo)
    (hok : ∀ b ∈ bs, BlockOk b ∧ entryType b.name = t)
    (hd : S.distinctNames (bs.map (·.name)) = true)
    (hf : ∀ b ∈ bs, Fresh (d.mapOf t) b.name) :
    (bs.flatMap blockLines).foldl stepLine d =
      d.setMap t (d.mapOf t ++ bs.map fun b => (b.name, b.entry t)) := by
  induction bs generalizing d with
  | nil =>
    simp only [List.flatMap_nil, List.foldl_nil, List.map_nil, List.append_nil]
    cases t <;> rfl
  | cons b bs ih =>
    obtain ⟨hb, ht⟩ := hok b (by simp)
    simp only [List.map_cons, S.distinctNames, Bool.and_eq_true, List.all_eq_true] at hd
    simp only [List.flatMap_cons, List.foldl_append]
    have hfb := hf b (by simp)
    rw [← ht] at hfb
    rw [fold_block b hb d hfb, ht]
    have hf' : ∀ b' ∈ bs, Fresh ((d.setMap t (d.mapOf t ++ [(b.name, b.entry t)])).mapOf t) b'.name := by
      intro b' hb'
      rw [mapOf_setMap]
      apply fresh_append _ _ _ _ (hf b' (by simp [hb']))
      have := hd.1 b'.name (by simp only [List.mem_map]; exact ⟨b', hb', rfl⟩)
      simpa [S.sameFile, keyEq] using this
    rw [ih _ (fun x hx => hok x (by simp [hx])) hd.2 hf', mapOf_setMap, setMap_setMap]
    simp


/-! ### the whole file -/

theorem splitNl'_line (l rest : Bytes) (h : (10 : UInt8) ∉ l) : splitNl' (l ++ 10 :: rest) = l :: splitNl' rest := by
  induction l with
  | nil => exact splitNl'_nl rest
  | cons c l ih =>
    simp only [List.mem_cons, not_or] at h
    have hc : c ≠ 10 := fun e => h.1 e.symm
    rw [List.cons_append, splitNl'_other c _ hc, ih h.2]

theorem splitNl'_lines (ls : List Bytes) (h : ∀ l ∈ ls, (10 : UInt8) ∉ l) :
    splitNl' (ls.flatMap (· ++ [10])) = ls ++ [[]] := by
  induction ls with
  | nil => rfl
  | cons l ls ih =>
    simp only [List.flatMap_cons, List.append_assoc, List.singleton_append, List.cons_append]
    rw [splitNl'_line l _ (h l (by simp)), List.nil_append, ih fun x hx => h x (by simp [hx])]

theorem noNl_of_noWs (b : Bytes) (h : NoWs b) : (10 : UInt8) ∉ b := by
  intro hm
  have := h 10 hm
  simp [isAsciiWhiteByte] at this

theorem blockLines_noNl (b : S.CBlock) (hok : BlockOk b) : ∀ l ∈ blockLines b, (10 : UInt8) ∉ l := by
  intro l hl
  have hname := noNl_of_noWs _ (noWs_paren b.name hok.name).1
  unfold blockLines at hl
  rcases List.mem_append.mp hl with h | h
  · simp only [List.mem_map] at h
    obtain ⟨c, hc, rfl⟩ := h
    have hd := noNl_of_noWs _ (noWs_digestName c.1).1
    have hh := noNl_of_noWs _ (hok.hashes c hc).1
    simp only [csBody, List.mem_append, List.mem_cons, List.mem_nil_iff, or_false, not_or]
    exact ⟨hd, by decide, hname, by decide, by decide, by decide, hh⟩
  · cases hs : b.size with
    | none => simp [hs] at h
    | some n =>
      simp only [hs, List.mem_singleton] at h
      subst h
      have hn := noNl_of_noWs _ (noWs_natBytes n).1
      have hs1 : (10 : UInt8) ∉ ascii "Size" := by decide
      have hb1 : (10 : UInt8) ∉ ascii "bytes" := by decide
      simp only [szBody, List.mem_append, List.mem_cons, List.mem_nil_iff, or_false, not_or]
      exact ⟨hs1, by decide, hname, by decide, by decide, by decide, hn, by decide, hb1⟩

/-- the Id line -/
theorem stepLine_id (d : Distinfo) (id : Bytes)
    (h : id = ascii "$NetBSD$" ∨ ((ascii "$NetBSD: ").isPrefixOf id = true)) :
    stepLine d id = if id == ascii "$NetBSD$" then d else { d with rcsid := some id } := by
  rcases h with rfl | h
  · have : lineFromBytes (ascii "$NetBSD$") = .none := by decide
    simp [stepLine, this, Distinfo.applyLine]
  · have hne : (id == ascii "$NetBSD$") = false := by
      rw [beq_eq_false_iff_ne]
      intro e; subst e
      revert h; decide
    obtain ⟨t, ht⟩ := List.isPrefixOf_iff_prefix.mp h
    have e : ascii "$NetBSD: " = 36 :: (ascii "$NetBSD: ").tail := by decide
    have hid : id = 36 :: ((ascii "$NetBSD: ").tail ++ t) := by rw [← ht, e]; rfl
    have hl : lineFromBytes id = .rcsId id := by
      unfold lineFromBytes
      have hdw : id.dropWhile isAsciiWhiteByte = id := by
        rw [hid, List.dropWhile_cons]
        have : isAsciiWhiteByte 36 = false := by decide
        simp [this]
      simp only [hdw]
      have h35 : (id.head? == some 35) = false := by rw [hid]; rfl
      have hem : id.isEmpty = false := by rw [hid]; rfl
      simp only [h35, hem, Bool.or_false, Bool.false_eq_true, if_false, isPrefixB, h, if_true]
    simp [stepLine, hl, Distinfo.applyLine, hne]


theorem flatMap_congr' {α β} (l : List α) (f g : α → List β) (h : ∀ a ∈ l, f a = g a) :
    l.flatMap f = l.flatMap g := by
  induction l with
  | nil => rfl
  | cons a l ih =>
    simp only [List.flatMap_cons]
    rw [h a (by simp), ih fun x hx => h x (by simp [hx])]

theorem render_lines (f : S.CFile) :
    f.render = (f.id :: [] :: (f.dists.flatMap blockLines ++ f.patches.flatMap blockLines)).flatMap (· ++ [10]) := by
  unfold S.CFile.render
  simp only [List.flatMap_cons, List.flatMap_append, List.nil_append, List.append_assoc]
  have e : ∀ bs : List S.CBlock, bs.flatMap S.CBlock.render = (bs.flatMap blockLines).flatMap (· ++ [10]) := by
    intro bs
    rw [List.flatMap_assoc]
    exact flatMap_congr' _ _ _ fun b _ => render_block b
  rw [e, e]
  simp

structure FileOk (f : S.CFile) : Prop where
  id : f.id = ascii "$NetBSD$" ∨ ((ascii "$NetBSD: ").isPrefixOf f.id = true)
  idnl : (10 : UInt8) ∉ f.id
  dists : ∀ b ∈ f.dists, BlockOk b ∧ entryType b.name = .distfile
  patches : ∀ b ∈ f.patches, BlockOk b ∧ entryType b.name = .patchfile ∧ b.size = none
  ddist : S.distinctNames (f.dists.map (·.name)) = true
  pdist : S.distinctNames (f.patches.map (·.name)) = true

theorem fileOk_of_wf (f : S.CFile) (h : f.wf = true) : FileOk f := by
  simp only [S.CFile.wf, Bool.and_eq_true, List.all_eq_true, Bool.or_eq_true, beq_iff_eq,
    Bool.not_eq_true', Option.isNone_iff_eq_none] at h
  obtain ⟨⟨⟨⟨hid, hd⟩, hp⟩, hdd⟩, hpd⟩ := h
  refine ⟨?_, ?_, ?_, ?_, hdd, hpd⟩
  · rcases hid with h | h
    · exact Or.inl h
    · exact Or.inr h.1
  · rcases hid with h | h
    · rw [h]; decide
    · simpa using h.2
  · intro b hb
    have := hd b hb
    exact ⟨blockOk_of_wf b this.1, this.2⟩
  · intro b hb
    have := hp b hb
    exact ⟨blockOk_of_wf b this.1.1, this.1.2, this.2⟩

/-- **parsing a rendered canonical file yields exactly its data** -/
theorem fromBytes_render (f : S.CFile) (hok : FileOk f) : distinfoFromBytes f.render = f.distinfo := by
  have hnl : ∀ l ∈ f.id :: [] :: (f.dists.flatMap blockLines ++ f.patches.flatMap blockLines), (10 : UInt8) ∉ l := by
    intro l hl
    simp only [List.mem_cons, List.mem_append, List.mem_flatMap] at hl
    rcases hl with rfl | rfl | ⟨b, hb, hl⟩ | ⟨b, hb, hl⟩
    · exact hok.idnl
    · simp
    · exact blockLines_noNl b (hok.dists b hb).1 l hl
    · exact blockLines_noNl b (hok.patches b hb).1 l hl
  unfold distinfoFromBytes
  rw [render_lines, splitNl'_lines _ hnl]
  change List.foldl stepLine {} _ = _
  simp only [List.cons_append, List.foldl_cons, List.foldl_append, List.foldl_nil]
  rw [stepLine_id _ _ hok.id]
  have hblank : ∀ d : Distinfo, stepLine d [] = d := by
    intro d; simp [stepLine, lineFromBytes_nil, Distinfo.applyLine]
  simp only [hblank]
  generalize hd0 : (if f.id == ascii "$NetBSD$" then ({} : Distinfo) else { ({} : Distinfo) with rcsid := some f.id }) = d0
  have hd0d : d0.distfiles = [] := by rw [← hd0]; split <;> rfl
  have hd0p : d0.patchfiles = [] := by rw [← hd0]; split <;> rfl
  have hd0r : d0.rcsid = if f.id == ascii "$NetBSD$" then none else some f.id := by rw [← hd0]; split <;> rfl
  rw [fold_blocks f.dists .distfile d0 hok.dists hok.ddist (by intro b _ kv hkv; simp [Distinfo.mapOf, hd0d] at hkv)]
  rw [fold_blocks f.patches .patchfile _ (fun b hb => ⟨(hok.patches b hb).1, (hok.patches b hb).2.1⟩) hok.pdist
    (by intro b _ kv hkv; simp [Distinfo.mapOf, Distinfo.setMap, hd0p] at hkv)]
  simp only [Distinfo.mapOf, Distinfo.setMap, hd0d, hd0p, List.nil_append, S.CFile.distinfo]
  cases d0
  simp only at hd0r
  simp [hd0r]

/-- **writing that data gives back the file** -/
theorem asBytes_distinfo (f : S.CFile) (hok : FileOk f) : f.distinfo.asBytes = f.render := by
  have e1 : f.dists.flatMap (fun b => (b.entry .distfile).asBytes) = f.dists.flatMap S.CBlock.render :=
    flatMap_congr' _ _ _ fun b _ => by
      simp only [S.CBlock.entry, Entry.asBytes, S.CBlock.render]
      cases b.size <;> rfl
  have e2 : f.patches.flatMap (fun b => (b.entry .patchfile).checksums.flatMap fun c =>
      checksumLine c.1 (b.entry .patchfile).filename c.2) = f.patches.flatMap S.CBlock.render :=
    flatMap_congr' _ _ _ fun b hb => by
      have := (hok.patches b hb).2.2
      simp [S.CBlock.entry, S.CBlock.render, this]
  unfold Distinfo.asBytes S.CFile.distinfo S.CFile.render
  simp only [List.flatMap_map]
  rw [e1, e2]
  by_cases h : f.id = ascii "$NetBSD$"
  · simp [h]
  · have : (f.id == ascii "$NetBSD$") = false := by simpa using h
    simp [this]

end L
