/-
Lemmas/EntryType.lean — the code's byte tests for "is this a patch file" are the statement's
shell globs (C11): patch-* and emul-*-patch-*, except patch-local-*, *.orig, *.rej, *~ and
names containing .tar. — on the final path component.
-/
import PkgsrcVerif.Lemmas.GlobStar
import PkgsrcVerif.Spec.Distinfo
namespace L
open M

/-! ### bytes as Latin-1 characters -/

theorem latin1_toNat : ∀ n : Fin 256, (Char.ofNat n.val).toNat = n.val := by decide +kernel

theorem latin1_char_inj (a b : UInt8) (h : Char.ofNat a.toNat = Char.ofNat b.toNat) : a = b := by
  have ha := latin1_toNat ⟨a.toNat, a.toNat_lt⟩
  have hb := latin1_toNat ⟨b.toNat, b.toNat_lt⟩
  simp only at ha hb
  have : a.toNat = b.toNat := by rw [← ha, ← hb, h]
  exact UInt8.toNat_inj.mp this

theorem latin1_beq (a b : UInt8) : (Char.ofNat a.toNat == Char.ofNat b.toNat) = (a == b) := by
  by_cases h : a = b
  · subst h; rw [beq_self_eq_true, beq_self_eq_true]
  · have : Char.ofNat a.toNat ≠ Char.ofNat b.toNat := fun e => h (latin1_char_inj a b e)
    rw [beq_eq_false_iff_ne.mpr h, beq_eq_false_iff_ne.mpr this]

theorem latin1_prefix (a b : Bytes) : (S.latin1 a).isPrefixOf (S.latin1 b) = a.isPrefixOf b := by
  induction a generalizing b with
  | nil => simp [S.latin1]
  | cons x a ih =>
    cases b with
    | nil => simp [S.latin1, List.isPrefixOf]
    | cons y b =>
      have := ih b
      simp only [S.latin1] at this
      simp only [S.latin1, List.map_cons, List.isPrefixOf, latin1_beq, this]

theorem latin1_reverse (a : Bytes) : (S.latin1 a).reverse = S.latin1 a.reverse := by
  simp [S.latin1]

theorem latin1_suffix (a b : Bytes) : (S.latin1 a).isSuffixOf (S.latin1 b) = a.isSuffixOf b := by
  simp only [List.isSuffixOf, latin1_reverse, latin1_prefix]

theorem latin1_drop (a : Bytes) (k : Nat) : (S.latin1 a).drop k = S.latin1 (a.drop k) := by
  simp [S.latin1]

theorem latin1_length (a : Bytes) : (S.latin1 a).length = a.length := by simp [S.latin1]

/-- `contains` on bytes: the needle is a prefix of some tail -/
theorem containsB_iff (p b : Bytes) (hp : p ≠ []) :
    containsB p b = true ↔ ∃ k, k ≤ b.length ∧ p.isPrefixOf (b.drop k) = true := by
  induction b with
  | nil =>
    have : p.isEmpty = false := by simpa using hp
    simp only [containsB, this, Bool.false_eq_true, false_iff]
    rintro ⟨k, _, h⟩
    cases p with
    | nil => exact hp rfl
    | cons x p => simp [List.isPrefixOf] at h
  | cons c rest ih =>
    simp only [containsB, Bool.or_eq_true, ih]
    constructor
    · rintro (h | ⟨k, hk, h⟩)
      · exact ⟨0, by simp, by simpa using h⟩
      · exact ⟨k + 1, by simp; omega, by simpa using h⟩
    · rintro ⟨k, hk, h⟩
      cases k with
      | zero => left; simpa using h
      | succ k => right; exact ⟨k, by simp at hk; omega, by simpa using h⟩


/-! ### the seven globs of the statement -/

open S (globMatches pat latin1)

theorem glob_prefix (lit : String) (s : Bytes) (hl : Lit (pat lit)) (he : latin1 (ascii lit) = pat lit)
    (p : String) (hp : pat p = pat lit ++ ['*']) :
    globMatches (pat p) (latin1 s) = isPrefixB (ascii lit) s := by
  rw [hp, G_prefix_star _ _ hl, ← he, latin1_prefix]; rfl

theorem glob_suffix (lit : String) (s : Bytes) (hl : Lit (pat lit)) (he : latin1 (ascii lit) = pat lit)
    (p : String) (hp : pat p = '*' :: pat lit) :
    globMatches (pat p) (latin1 s) = isSuffixB (ascii lit) s := by
  rw [hp, G_star_suffix _ _ hl, ← he, latin1_suffix]; rfl

theorem glob_infix (lit : String) (s : Bytes) (hl : Lit (pat lit)) (he : latin1 (ascii lit) = pat lit)
    (hne : ascii lit ≠ []) (p : String) (hp : pat p = '*' :: (pat lit ++ ['*'])) :
    globMatches (pat p) (latin1 s) = containsB (ascii lit) s := by
  apply Bool.eq_iff_iff.mpr
  rw [hp, G_star_infix _ _ hl, containsB_iff _ _ hne, ← he]
  simp only [latin1_drop, latin1_prefix, latin1_length]

theorem atom_patch (s : Bytes) : globMatches (pat "patch-*") (latin1 s) = isPrefixB (ascii "patch-") s :=
  glob_prefix "patch-" s (by unfold Lit; decide) (by decide) _ (by decide)
theorem atom_local (s : Bytes) : globMatches (pat "patch-local-*") (latin1 s) = isPrefixB (ascii "patch-local-") s :=
  glob_prefix "patch-local-" s (by unfold Lit; decide) (by decide) _ (by decide)
theorem atom_orig (s : Bytes) : globMatches (pat "*.orig") (latin1 s) = isSuffixB (ascii ".orig") s :=
  glob_suffix ".orig" s (by unfold Lit; decide) (by decide) _ (by decide)
theorem atom_rej (s : Bytes) : globMatches (pat "*.rej") (latin1 s) = isSuffixB (ascii ".rej") s :=
  glob_suffix ".rej" s (by unfold Lit; decide) (by decide) _ (by decide)
theorem atom_tilde (s : Bytes) : globMatches (pat "*~") (latin1 s) = isSuffixB (ascii "~") s :=
  glob_suffix "~" s (by unfold Lit; decide) (by decide) _ (by decide)
theorem atom_tar (s : Bytes) : globMatches (pat "*.tar.*") (latin1 s) = containsB (ascii ".tar.") s :=
  glob_infix ".tar." s (by unfold Lit; decide) (by decide) (by decide) _ (by decide)

theorem atom_emul (s : Bytes) :
    globMatches (pat "emul-*-patch-*") (latin1 s) =
      (isPrefixB (ascii "emul-") s && containsB (ascii "-patch-") (s.drop 5)) := by
  have hp : pat "emul-*-patch-*" = pat "emul-" ++ '*' :: (pat "-patch-" ++ ['*']) := by decide
  have he : Lit (pat "emul-") := by unfold Lit; decide
  have hl : Lit (pat "-patch-") := by unfold Lit; decide
  have e1 : latin1 (ascii "emul-") = pat "emul-" := by decide
  have e2 : latin1 (ascii "-patch-") = pat "-patch-" := by decide
  have hlen : (pat "emul-").length = 5 := by decide
  apply Bool.eq_iff_iff.mpr
  rw [hp, G_prefix_star_infix _ _ _ he hl, Bool.and_eq_true, containsB_iff _ _ (by decide), hlen, ← e1, ← e2]
  simp only [latin1_drop, latin1_prefix, latin1_length]
  rfl

/-- classification of a final component: the code's byte tests … -/
def classM (s : Bytes) : EntryType :=
  if isPrefixB (ascii "patch-local-") s || isSuffixB (ascii ".orig") s || isSuffixB (ascii ".rej") s
      || isSuffixB (ascii "~") s then .distfile
  else if isPrefixB (ascii "patch-") s ||
      (isPrefixB (ascii "emul-") s && containsB (ascii "-patch-") (s.drop 5)) then
    if !containsB (ascii ".tar.") s then .patchfile else .distfile
  else .distfile

/-- … and the statement's globs -/
def classS (s : Bytes) : EntryType :=
  let n := latin1 s
  let m (p : String) : Bool := globMatches (pat p) n
  if (m "patch-*" || m "emul-*-patch-*") && !m "patch-local-*" && !m "*.orig" && !m "*.rej" && !m "*~"
      && !m "*.tar.*" then .patchfile else .distfile

theorem class_eq (s : Bytes) : classM s = classS s := by
  unfold classM classS
  simp only [atom_patch, atom_local, atom_orig, atom_rej, atom_tilde, atom_tar, atom_emul]
  cases isPrefixB (ascii "patch-local-") s <;> cases isSuffixB (ascii ".orig") s <;>
    cases isSuffixB (ascii ".rej") s <;> cases isSuffixB (ascii "~") s <;>
    cases isPrefixB (ascii "patch-") s <;> cases isPrefixB (ascii "emul-") s <;>
    cases containsB (ascii "-patch-") (s.drop 5) <;> cases containsB (ascii ".tar.") s <;> rfl


/-! ### the final component -/

def goodSeg (s : Bytes) : Bool := !s.isEmpty && s != [46]

theorem body_eq (segs : List Bytes) (h : segs.head? = some [46]) :
    (segs.drop 1).filter goodSeg = segs.filter goodSeg := by
  cases segs with
  | nil => rfl
  | cons a rest =>
    simp only [List.head?_cons, Option.some.injEq] at h
    subst h
    have : goodSeg [46] = false := by decide
    simp [List.filter_cons, this]

def normalOf : Option (Comp UInt8) → Option Bytes
  | some (.normal n) => some n
  | _ => none

def lastSeg : Option Bytes → Option Bytes
  | none => none
  | some s => if s == [46, 46] then none else some s

theorem fileName_def (path : Bytes) :
    fileName (47 : UInt8) (46 : UInt8) path = normalOf (components (47 : UInt8) (46 : UInt8) path).getLast? := by
  unfold fileName normalOf
  cases (components (47 : UInt8) (46 : UInt8) path).getLast? with
  | none => rfl
  | some c => cases c <;> rfl

theorem finalComponent_def (path : Bytes) :
    S.finalComponent path = lastSeg ((splitOn (47 : UInt8) path).filter goodSeg).getLast? := by
  unfold S.finalComponent lastSeg
  show (match ((splitOn (47 : UInt8) path).filter goodSeg).getLast? with
    | none => none | some s => if s == [46, 46] then none else some s) = _
  cases ((splitOn (47 : UInt8) path).filter goodSeg).getLast? <;> rfl

theorem lastNormal (pre : List (Comp UInt8)) (l : List Bytes) (hpre : ∀ c ∈ pre, c = .root ∨ c = .cur) :
    normalOf (pre ++ l.map (segComp 46)).getLast? = lastSeg l.getLast? := by
  rw [List.getLast?_append, List.getLast?_map]
  cases hl : l.getLast? with
  | none =>
    simp only [Option.map_none, Option.none_or]
    cases hp : pre.getLast? with
    | none => rfl
    | some c =>
      rcases hpre c (List.mem_of_getLast? hp) with rfl | rfl <;> rfl
  | some s =>
    simp only [Option.map_some, Option.some_or, segComp, lastSeg, normalOf]
    by_cases hd : (s == [46, 46]) = true
    · simp only [hd, if_true]
    · have : (s == [46, 46]) = false := by simpa using hd
      simp only [this, Bool.false_eq_true, if_false]

theorem shape_core (hasRoot : Bool) (segs : List Bytes) :
    ∃ pre : List (Comp UInt8), (∀ c ∈ pre, c = .root ∨ c = .cur) ∧
      ((if hasRoot = true then [Comp.root] else []) ++
          (if (!hasRoot && segs.head? == some [46]) = true then [Comp.cur] else [])) ++
        List.map (segComp 46) (List.filter (fun s => !s.isEmpty && s != [46])
          (if (!hasRoot && segs.head? == some [46]) = true then List.drop 1 segs else segs)) =
      pre ++ (segs.filter goodSeg).map (segComp 46) := by
  by_cases hlc : (!hasRoot && segs.head? == some [46]) = true
  · have hh : segs.head? = some [46] := by
      simp only [Bool.and_eq_true, beq_iff_eq] at hlc; exact hlc.2
    refine ⟨(if hasRoot = true then [Comp.root] else []) ++ [Comp.cur], ?_, ?_⟩
    · intro c hc
      cases hasRoot
      · simp only [Bool.false_eq_true, if_false, List.nil_append, List.mem_singleton] at hc; exact Or.inr hc
      · simp only [if_true, List.cons_append, List.nil_append, List.mem_cons, List.mem_nil_iff, or_false] at hc
        rcases hc with h | h
        · exact Or.inl h
        · exact Or.inr h
    · simp only [hlc, if_true]
      have := body_eq segs hh
      unfold goodSeg at this
      rw [this]
      rfl
  · have hlc' : (!hasRoot && segs.head? == some [46]) = false := by simpa using hlc
    refine ⟨(if hasRoot = true then [Comp.root] else []), ?_, ?_⟩
    · intro c hc
      cases hasRoot
      · simp at hc
      · simp only [if_true, List.mem_singleton] at hc; exact Or.inl hc
    · simp only [hlc', Bool.false_eq_true, if_false, List.append_nil]
      rfl

theorem components_shape (path : Bytes) :
    ∃ pre : List (Comp UInt8), (∀ c ∈ pre, c = .root ∨ c = .cur) ∧
      components (47 : UInt8) (46 : UInt8) path = pre ++ ((splitOn (47 : UInt8) path).filter goodSeg).map (segComp 46) := by
  cases path with
  | nil => exact ⟨[], by simp, by decide⟩
  | cons c0 t0 =>
    unfold components
    simp only
    exact shape_core (c0 == (47 : UInt8)) (splitOn (47 : UInt8) (c0 :: t0))

/-- `Path::file_name()` of the model = the last segment that is neither empty nor ".", unless it
    is ".." -/
theorem fileName_eq (path : Bytes) : fileName (47 : UInt8) (46 : UInt8) path = S.finalComponent path := by
  obtain ⟨pre, hpre, hc⟩ := components_shape path
  rw [fileName_def, finalComponent_def, hc, lastNormal pre _ hpre]

/-- **C11 classification**: the code's `EntryType::from` is the statement's rule -/
theorem entryType_eq (path : Bytes) : entryType path = S.entryType path := by
  unfold entryType S.entryType
  rw [fileName_eq]
  cases S.finalComponent path with
  | none => rfl
  | some s => exact class_eq s

end L
