/-
Lemmas/FindEntry.lean — `Distinfo::find_entry` tries the trailing sub-paths of the given path
from the shortest to the longest and returns the first one that is recorded (C12).
Part 1: rebuilding a path text from a suffix of its components gives back those components.
-/
import PkgsrcVerif.Lemmas.EntryType
import PkgsrcVerif.Lemmas.Path
namespace L
open M

/-! ### splitting on '/' -/

theorem splitOnB_no_sep (a : Bytes) (h : (47 : UInt8) ∉ a) : splitOn (47 : UInt8) a = [a] := by
  induction a with
  | nil => rfl
  | cons c rest ih =>
    simp only [List.mem_cons, not_or] at h
    have hc : (c == (47 : UInt8)) = false := by simpa using fun e => h.1 e.symm
    simp only [splitOn, hc, ih h.2]
    rfl

theorem splitOnB_append_sep (a rest : Bytes) (h : (47 : UInt8) ∉ a) :
    splitOn (47 : UInt8) (a ++ 47 :: rest) = a :: splitOn (47 : UInt8) rest := by
  induction a with
  | nil => simp [splitOn]
  | cons c a ih =>
    simp only [List.mem_cons, not_or] at h
    have hc : (c == (47 : UInt8)) = false := by simpa using fun e => h.1 e.symm
    simp only [List.cons_append, splitOn, hc, ih h.2]
    rfl

theorem mem_splitOnB_no_sep (l : Bytes) : ∀ seg ∈ splitOn (47 : UInt8) l, (47 : UInt8) ∉ seg := by
  induction l with
  | nil => simp [splitOn]
  | cons c rest ih =>
    intro seg hs
    simp only [splitOn] at hs
    split at hs
    · simp only [List.mem_cons] at hs
      rcases hs with rfl | hs
      · simp
      · exact ih seg hs
    · rename_i hc
      cases hr : splitOn (47 : UInt8) rest with
      | nil => exact absurd hr (splitOn_ne_nil _ rest)
      | cons s ss =>
        simp only [hr, List.mem_cons] at hs
        rcases hs with rfl | hs
        · have := ih s (by simp [hr])
          simp only [List.mem_cons, not_or]
          exact ⟨fun e => hc (by simp [e]), this⟩
        · exact ih seg (by simp [hr, hs])

/-! ### components that can follow another component -/

/-- an ordinary component name -/
def NameB (n : Bytes) : Prop := n ≠ [] ∧ (47 : UInt8) ∉ n ∧ n ≠ [46] ∧ n ≠ [46, 46]

/-- `..` or a name: what may stand after the first component -/
def RelComp : Comp UInt8 → Prop
  | .normal n => NameB n
  | .parent => True
  | _ => False

theorem compText_rel (c : Comp UInt8) (h : RelComp c) :
    (47 : UInt8) ∉ compText c ∧ goodSeg (compText c) = true ∧ segComp (46 : UInt8) (compText c) = c ∧
      (compText c).head? ≠ some 47 := by
  cases c with
  | root => cases h
  | cur => cases h
  | parent => exact ⟨by decide, by decide, by decide, by decide⟩
  | normal n =>
    obtain ⟨h1, h2, h3, h4⟩ := h
    refine ⟨h2, ?_, ?_, ?_⟩
    · simp only [compText, goodSeg, Bool.and_eq_true, Bool.not_eq_true', List.isEmpty_eq_false_iff, bne_iff_ne, ne_eq]
      exact ⟨h1, h3⟩
    · simp only [compText, segComp]
      have : (n == [46, 46]) = false := by simpa using h4
      simp [this]
    · simp only [compText]
      cases n with
      | nil => exact absurd rfl h1
      | cons x t =>
        simp only [List.mem_cons, not_or] at h2
        simp only [List.head?_cons, ne_eq, Option.some.injEq]
        exact fun e => h2.1 e.symm

/-- the text of a relative tail: components joined by '/' -/
def relText : List (Comp UInt8) → Bytes
  | [] => []
  | [c] => compText c
  | c :: s => compText c ++ 47 :: relText s

theorem relText_cons (c : Comp UInt8) (s : List (Comp UInt8)) (hs : s ≠ []) :
    relText (c :: s) = compText c ++ 47 :: relText s := by
  cases s with
  | nil => exact absurd rfl hs
  | cons d t => rfl

theorem split_relText (s : List (Comp UInt8)) (h : ∀ c ∈ s, RelComp c) (hne : s ≠ []) :
    splitOn (47 : UInt8) (relText s) = s.map compText := by
  induction s with
  | nil => exact absurd rfl hne
  | cons c s ih =>
    have hc := compText_rel c (h c (by simp))
    cases s with
    | nil => simp only [relText, List.map_cons, List.map_nil]; exact splitOnB_no_sep _ hc.1
    | cons d t =>
      rw [relText_cons c (d :: t) (by simp), splitOnB_append_sep _ _ hc.1,
        ih (fun x hx => h x (by simp [hx])) (by simp)]
      rfl

theorem relText_head (s : List (Comp UInt8)) (h : ∀ c ∈ s, RelComp c) (hne : s ≠ []) :
    ∃ x t, relText s = x :: t ∧ x ≠ 47 := by
  cases s with
  | nil => exact absurd rfl hne
  | cons c s =>
    have hc := compText_rel c (h c (by simp))
    have hg : compText c ≠ [] := by
      have := hc.2.1
      simp only [goodSeg, Bool.and_eq_true, Bool.not_eq_true', List.isEmpty_eq_false_iff] at this
      exact this.1
    cases hct : compText c with
    | nil => exact absurd hct hg
    | cons x t =>
      have hx : x ≠ 47 := by
        have := hc.2.2.2
        rw [hct] at this
        simpa using this
      cases s with
      | nil => exact ⟨x, t, by simp [relText, hct], hx⟩
      | cons d u => exact ⟨x, t ++ 47 :: relText (d :: u), by rw [relText_cons c _ (by simp), hct]; rfl, hx⟩


theorem filter_good_rel (s : List (Comp UInt8)) (h : ∀ c ∈ s, RelComp c) :
    (s.map compText).filter (fun x => !x.isEmpty && x != [46]) = s.map compText := by
  rw [List.filter_eq_self]
  intro x hx
  simp only [List.mem_map] at hx
  obtain ⟨c, hc, rfl⟩ := hx
  exact (compText_rel c (h c hc)).2.1

theorem map_segComp_rel (s : List (Comp UInt8)) (h : ∀ c ∈ s, RelComp c) :
    (s.map compText).map (segComp (46 : UInt8)) = s := by
  rw [List.map_map]
  conv => rhs; rw [← List.map_id s]
  apply List.map_congr_left
  intro c hc
  exact (compText_rel c (h c hc)).2.2.1

theorem head_not_cur (s : List (Comp UInt8)) (h : ∀ c ∈ s, RelComp c) :
    ((s.map compText).head? == some [46]) = false := by
  cases s with
  | nil => rfl
  | cons c t =>
    have := (compText_rel c (h c (by simp))).2.1
    simp only [goodSeg, Bool.and_eq_true, bne_iff_ne, ne_eq] at this
    simp only [List.map_cons, List.head?_cons]
    rw [beq_eq_false_iff_ne]
    intro e; injection e with e; exact this.2 e

/-- a relative tail: its text has exactly these components -/
theorem bcomps_relText (s : List (Comp UInt8)) (h : ∀ c ∈ s, RelComp c) (hne : s ≠ []) :
    bcomps (relText s) = s := by
  obtain ⟨x, t, hxt, hx⟩ := relText_head s h hne
  have hsp := split_relText s h hne
  unfold bcomps components
  simp only [hsp]
  rw [hxt]
  have hr : (x == (47 : UInt8)) = false := by simpa using hx
  simp only [hr, Bool.not_false, Bool.true_and, head_not_cur s h, Bool.false_eq_true, if_false,
    List.nil_append, filter_good_rel s h, map_segComp_rel s h]

/-- '/' followed by a relative tail -/
theorem bcomps_root_rel (s : List (Comp UInt8)) (h : ∀ c ∈ s, RelComp c) (hne : s ≠ []) :
    bcomps (47 :: relText s) = .root :: s := by
  have hsp := split_relText s h hne
  unfold bcomps components
  have e : splitOn (47 : UInt8) (47 :: relText s) = [] :: splitOn (47 : UInt8) (relText s) := by
    simp [splitOn]
  simp only [e, hsp, beq_self_eq_true, Bool.not_true, Bool.false_and, Bool.false_eq_true, if_false, if_true,
    List.append_nil]
  have : ([] :: s.map compText).filter (fun x => !x.isEmpty && x != [46]) = s.map compText := by
    rw [List.filter_cons]
    simp only [List.isEmpty_nil, Bool.not_true, Bool.false_and, Bool.false_eq_true, if_false]
    exact filter_good_rel s h
  rw [this, map_segComp_rel s h]
  rfl

/-- "./" followed by a relative tail -/
theorem bcomps_cur_rel (s : List (Comp UInt8)) (h : ∀ c ∈ s, RelComp c) (hne : s ≠ []) :
    bcomps (46 :: 47 :: relText s) = .cur :: s := by
  have hsp := split_relText s h hne
  unfold bcomps components
  have e : splitOn (47 : UInt8) (46 :: 47 :: relText s) = [46] :: splitOn (47 : UInt8) (relText s) := by
    have := splitOnB_append_sep [46] (relText s) (by decide)
    simpa using this
  have h46 : ((46 : UInt8) == 47) = false := by decide
  simp only [e, hsp, h46, Bool.not_false, Bool.true_and, List.head?_cons, beq_self_eq_true, if_true,
    Bool.false_eq_true, if_false, List.nil_append, List.drop_succ_cons, List.drop_zero,
    filter_good_rel s h, map_segComp_rel s h]
  rfl


/-! ### the component list of any path -/

/-- root or "." only in front, then names and ".." -/
def ValidComps (cs : List (Comp UInt8)) : Prop :=
  ∃ pre tail, cs = pre ++ tail ∧ (pre = [] ∨ pre = [.root] ∨ pre = [.cur]) ∧ ∀ c ∈ tail, RelComp c

theorem segComp_rel (seg : Bytes) (hg : goodSeg seg = true) (hs : (47 : UInt8) ∉ seg) :
    RelComp (segComp (46 : UInt8) seg) := by
  simp only [goodSeg, Bool.and_eq_true, Bool.not_eq_true', List.isEmpty_eq_false_iff, bne_iff_ne, ne_eq] at hg
  unfold segComp
  by_cases h : (seg == [46, 46]) = true
  · simp only [h, if_true, RelComp]
  · have h' : (seg == [46, 46]) = false := by simpa using h
    simp only [h', Bool.false_eq_true, if_false, RelComp, NameB]
    exact ⟨hg.1, hs, hg.2, by simpa using h'⟩

theorem bcomps_valid (path : Bytes) : ValidComps (bcomps path) := by
  have htail : ∀ c ∈ ((splitOn (47 : UInt8) path).filter goodSeg).map (segComp 46), RelComp c := by
    intro c hc
    simp only [List.mem_map, List.mem_filter] at hc
    obtain ⟨seg, ⟨hm, hg⟩, rfl⟩ := hc
    exact segComp_rel seg hg (mem_splitOnB_no_sep path seg hm)
  cases path with
  | nil => exact ⟨[], [], by decide, Or.inl rfl, by simp⟩
  | cons c0 t0 =>
    unfold bcomps components
    simp only
    generalize hsegs : splitOn (47 : UInt8) (c0 :: t0) = segs at htail
    by_cases hr : (c0 == (47 : UInt8)) = true
    · refine ⟨[.root], (segs.filter goodSeg).map (segComp 46), ?_, Or.inr (Or.inl rfl), htail⟩
      simp only [hr, Bool.not_true, Bool.false_and, Bool.false_eq_true, if_false, if_true, List.append_nil]
      rfl
    · have hr' : (c0 == (47 : UInt8)) = false := by simpa using hr
      by_cases hlc : (segs.head? == some [46]) = true
      · have hh : segs.head? = some [46] := by simpa using hlc
        refine ⟨[.cur], (segs.filter goodSeg).map (segComp 46), ?_, Or.inr (Or.inr rfl), htail⟩
        simp only [hr', Bool.not_false, Bool.true_and, hlc, if_true, Bool.false_eq_true, if_false, List.nil_append]
        have := body_eq segs hh
        unfold goodSeg at this
        rw [this]
        rfl
      · have hlc' : (segs.head? == some [46]) = false := by simpa using hlc
        refine ⟨[], (segs.filter goodSeg).map (segComp 46), ?_, Or.inl rfl, htail⟩
        simp only [hr', Bool.not_false, Bool.true_and, hlc', Bool.false_eq_true, if_false, List.nil_append]
        rfl

theorem valid_suffix (cs s r : List (Comp UInt8)) (h : ValidComps cs) (hcs : cs = r ++ s) : ValidComps s := by
  obtain ⟨pre, tail, e, hp, ht⟩ := h
  cases r with
  | nil => simp only [List.nil_append] at hcs; subst hcs; exact ⟨pre, tail, e, hp, ht⟩
  | cons x r' =>
    -- a proper suffix lies inside the tail
    refine ⟨[], s, rfl, Or.inl rfl, ?_⟩
    rcases hp with rfl | rfl | rfl
    · simp only [List.nil_append] at e
      intro c hc; exact ht c (by rw [← e, hcs]; simp [hc])
    · rw [hcs] at e
      simp only [List.cons_append, List.nil_append] at e
      injection e with _ e2
      intro c hc; exact ht c (by rw [← e2]; simp [hc])
    · rw [hcs] at e
      simp only [List.cons_append, List.nil_append] at e
      injection e with _ e2
      intro c hc; exact ht c (by rw [← e2]; simp [hc])

/-! ### the candidate file name `find_entry` builds for a suffix -/

def textOf : List (Comp UInt8) → Bytes
  | [] => []
  | c :: s => if (textOf s).isEmpty || bcomps (textOf s) == [.root] then compText c else joinComp c (textOf s)

theorem textOf_rel (s : List (Comp UInt8)) (h : ∀ c ∈ s, RelComp c) : textOf s = relText s := by
  induction s with
  | nil => rfl
  | cons c s ih =>
    have ih' := ih fun x hx => h x (by simp [hx])
    have hc : RelComp c := h c (by simp)
    cases s with
    | nil => simp [textOf, relText]
    | cons d t =>
      have hne : (d :: t) ≠ [] := by simp
      obtain ⟨x, u, hxu, _⟩ := relText_head (d :: t) (fun y hy => h y (by simp [hy])) hne
      have hb := bcomps_relText (d :: t) (fun y hy => h y (by simp [hy])) hne
      have hnr : (bcomps (relText (d :: t)) == [Comp.root]) = false := by
        rw [hb, beq_eq_false_iff_ne]
        intro e
        injection e with e1 _
        have := h d (by simp)
        rw [e1] at this
        exact this
      rw [textOf, ih', relText_cons c (d :: t) hne]
      have hemp : (relText (d :: t)).isEmpty = false := by rw [hxu]; rfl
      simp only [hemp, hnr, Bool.or_self, Bool.false_eq_true, if_false]
      cases c with
      | root => exact absurd hc (by simp [RelComp])
      | cur => exact absurd hc (by simp [RelComp])
      | parent => rfl
      | normal n => rfl

/-- the name built for a suffix of a path's components has exactly those components -/
theorem bcomps_textOf (s : List (Comp UInt8)) (hv : ValidComps s) (hne : s ≠ []) : bcomps (textOf s) = s := by
  obtain ⟨pre, tail, e, hp, ht⟩ := hv
  rcases hp with rfl | rfl | rfl
  · simp only [List.nil_append] at e; subst e
    rw [textOf_rel _ ht]; exact bcomps_relText _ ht hne
  · simp only [List.cons_append, List.nil_append] at e; subst e
    cases tail with
    | nil => decide
    | cons d t =>
      have hne' : (d :: t) ≠ [] := by simp
      obtain ⟨x, u, hxu, _⟩ := relText_head (d :: t) ht hne'
      have hb := bcomps_relText (d :: t) ht hne'
      have hnr : (bcomps (relText (d :: t)) == [Comp.root]) = false := by
        rw [hb, beq_eq_false_iff_ne]
        intro e
        injection e with e1 _
        have := ht d (by simp)
        rw [e1] at this
        exact this
      have hemp : (relText (d :: t)).isEmpty = false := by rw [hxu]; rfl
      rw [textOf, textOf_rel _ ht]
      simp only [hemp, hnr, Bool.or_self, Bool.false_eq_true, if_false, joinComp]
      exact bcomps_root_rel _ ht hne'
  · simp only [List.cons_append, List.nil_append] at e; subst e
    cases tail with
    | nil => decide
    | cons d t =>
      have hne' : (d :: t) ≠ [] := by simp
      obtain ⟨x, u, hxu, _⟩ := relText_head (d :: t) ht hne'
      have hb := bcomps_relText (d :: t) ht hne'
      have hnr : (bcomps (relText (d :: t)) == [Comp.root]) = false := by
        rw [hb, beq_eq_false_iff_ne]
        intro e
        injection e with e1 _
        have := ht d (by simp)
        rw [e1] at this
        exact this
      have hemp : (relText (d :: t)).isEmpty = false := by rw [hxu]; rfl
      rw [textOf, textOf_rel _ ht]
      simp only [hemp, hnr, Bool.or_self, Bool.false_eq_true, if_false, joinComp, compText]
      exact bcomps_cur_rel _ ht hne'


/-! ### the search loop -/

/-- the suffixes tried after `s`, as the loop extends it with the remaining (reversed) components -/
def sufs (s : List (Comp UInt8)) : List (Comp UInt8) → List (List (Comp UInt8))
  | [] => []
  | c :: r => (c :: s) :: sufs (c :: s) r

/-- the entry recorded under a component list, in a map -/
def lookupComps (m : EMap) (t : List (Comp UInt8)) : Option Entry :=
  (m.find? fun kv => bcomps kv.1 == t).map (·.2)

theorem get_eq_lookup (m : EMap) (file : Bytes) : m.get file = lookupComps m (bcomps file) := by
  unfold EMap.get lookupComps keyEq
  rfl

theorem go_spec (m : EMap) (r s : List (Comp UInt8)) (hv : ValidComps (r.reverse ++ s)) :
    findEntry.go m (textOf s) r = (sufs s r).findSome? (lookupComps m) := by
  induction r generalizing s with
  | nil => simp [findEntry.go, sufs]
  | cons c r ih =>
    have hv' : ValidComps (r.reverse ++ (c :: s)) := by
      simpa using hv
    have hsuf : ValidComps (c :: s) := valid_suffix _ (c :: s) r.reverse hv' rfl
    have hb := bcomps_textOf (c :: s) hsuf (by simp)
    rw [findEntry.go]
    have hfile : (if (textOf s).isEmpty || bcomps (textOf s) == [.root] then compText c else joinComp c (textOf s))
        = textOf (c :: s) := by rw [textOf]
    simp only [hfile, get_eq_lookup, hb, sufs, List.findSome?_cons]
    cases lookupComps m (c :: s) with
    | some e => rfl
    | none => exact ih (c :: s) hv'

theorem sufs_eq (s r : List (Comp UInt8)) :
    sufs s r = (List.range r.length).map fun k => (r.take (k + 1)).reverse ++ s := by
  induction r generalizing s with
  | nil => rfl
  | cons c r ih =>
    rw [sufs, ih (c :: s), List.length_cons, List.range_succ_eq_map, List.map_cons, List.map_map]
    simp [Function.comp_def]

/-- **shortest recorded trailing sub-path**: `find_entry` returns the entry recorded (in the map
    chosen by the whole path's type) under the shortest trailing sub-path of the path that is
    recorded at all, comparing names component-wise -/
theorem findEntry_spec (d : Distinfo) (path : Bytes) :
    findEntry d path = (S.trailing path).findSome? (lookupComps (d.mapOf (entryType path))) := by
  unfold findEntry
  simp only
  have hv := bcomps_valid path
  have := go_spec (d.mapOf (entryType path)) (bcomps path).reverse [] (by simpa using hv)
  simp only [textOf] at this
  rw [this, sufs_eq]
  unfold S.trailing
  simp only [List.length_reverse, List.append_nil]
  congr 1
  apply List.map_congr_left
  intro k hk
  simp only [List.mem_range] at hk
  rw [List.take_reverse, List.reverse_reverse]
  congr 1
  omega

end L
