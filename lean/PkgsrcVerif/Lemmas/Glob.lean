/-
Lemmas/Glob.lean — the three-valued backtracking matcher of the glob crate decides a
declarative relation (for token lists without `**`), incl. the soundness of the
`EntirePatternDoesntMatch` early exit; and the quick test is inert for globs.
-/
import PkgsrcVerif.Model.Pattern
namespace L
open M

/-- declarative semantics of a token list: `*` = any run, any other token = one character it accepts -/
inductive GM : List GTok → Str → Prop
  | nil : GM [] []
  | one {t ts c s} : t ≠ .anySeq → t ≠ .anyRec → tokAccepts t c = true → GM ts s → GM (t :: ts) (c :: s)
  | star {ts s} (k : Nat) : GM ts (s.drop k) → GM (.anySeq :: ts) s

def NoRec (ts : List GTok) : Prop := ∀ t ∈ ts, t ≠ .anyRec

theorem NoRec_tail {t : GTok} {ts : List GTok} (h : NoRec (t :: ts)) : NoRec ts :=
  fun x hx => h x (by simp [hx])

/-- what each result value promises about the remaining tokens `ts` and name `s` -/
def Good (ts : List GTok) (s : Str) (r : MR) : Prop :=
  (r = .m ↔ GM ts s) ∧ (r = .entire → ∀ k, ¬ GM ts (s.drop k))

theorem GM_star_iff (ts : List GTok) (s : Str) :
    GM (.anySeq :: ts) s ↔ ∃ k, GM ts (s.drop k) := by
  constructor
  · intro h
    cases h with
    | star k h => exact ⟨k, h⟩
    | one h1 => exact absurd rfl h1
  · rintro ⟨k, h⟩; exact .star k h

theorem GM_nil_iff (s : Str) : GM [] s ↔ s = [] := by
  constructor
  · intro h; cases h; rfl
  · rintro rfl; exact .nil

theorem GM_one_nil (t : GTok) (ht : t ≠ .anySeq) (ts : List GTok) : ¬ GM (t :: ts) [] := by
  intro h; cases h with
  | star k h => exact ht rfl

theorem GM_one_cons (t : GTok) (ht : t ≠ .anySeq) (ht2 : t ≠ .anyRec) (ts : List GTok) (c : Char) (s : Str) :
    GM (t :: ts) (c :: s) ↔ tokAccepts t c = true ∧ GM ts s := by
  constructor
  · intro h
    cases h with
    | one _ _ h1 h2 => exact ⟨h1, h2⟩
    | star k h => exact absurd rfl ht
  · rintro ⟨h1, h2⟩; exact .one ht ht2 h1 h2

theorem seqLoop_good (ts : List GTok) (ih : ∀ fs s, Good ts s (matchesFrom ts fs s)) (fs : Bool) (s : Str) :
    (seqLoop false ts fs s = .m ↔ ∃ k, 1 ≤ k ∧ GM ts (s.drop k)) ∧
    (seqLoop false ts fs s = .entire → ∀ k, 1 ≤ k → ¬ GM ts (s.drop k)) := by
  induction s generalizing fs with
  | nil =>
    have h := ih fs []
    simp only [seqLoop, Good, List.drop_nil] at *
    refine ⟨⟨fun hm => ⟨1, Nat.le_refl _, h.1.mp hm⟩, fun ⟨_, _, hk⟩ => h.1.mpr hk⟩, ?_⟩
    intro he k _; exact h.2 he 0
  | cons c s ihs =>
    have h := ih (isSep c) s
    have ihs' := ihs (isSep c)
    simp only [seqLoop, Bool.false_and, Bool.false_eq_true, if_false]
    have hd : ∀ k, 1 ≤ k → (c :: s).drop k = s.drop (k - 1) := by
      intro k hk; cases k with | zero => omega | succ n => simp
    cases hr : matchesFrom ts (isSep c) s with
    | m =>
      simp only [Good, hr] at h
      refine ⟨⟨fun _ => ⟨1, Nat.le_refl _, by simpa using h.1.mp trivial⟩, fun _ => rfl⟩, by simp⟩
    | entire =>
      simp only [Good, hr] at h
      refine ⟨⟨by simp, ?_⟩, ?_⟩
      · rintro ⟨k, hk, hg⟩; rw [hd k hk] at hg; exact absurd hg (h.2 trivial _)
      · intro _ k hk hg; rw [hd k hk] at hg; exact h.2 trivial _ hg
    | sub =>
      simp only [Good, hr] at h
      have hns : ¬ GM ts s := fun hg => by have := h.1.mpr hg; cases this
      simp only
      refine ⟨⟨?_, ?_⟩, ?_⟩
      · intro hm
        obtain ⟨k, hk, hg⟩ := ihs'.1.mp hm
        exact ⟨k + 1, by omega, by simpa using hg⟩
      · rintro ⟨k, hk, hg⟩
        rw [hd k hk] at hg
        by_cases h1 : k = 1
        · subst h1; simp at hg; exact absurd hg hns
        · exact ihs'.1.mpr ⟨k - 1, by omega, hg⟩
      · intro he k hk hg
        rw [hd k hk] at hg
        by_cases h1 : k = 1
        · subst h1; simp at hg; exact hns hg
        · exact ihs'.2 he (k - 1) (by omega) hg

theorem matchesFrom_good (ts : List GTok) (hnr : NoRec ts) : ∀ fs s, Good ts s (matchesFrom ts fs s) := by
  induction ts with
  | nil =>
    intro fs s
    cases s with
    | nil => simp [matchesFrom, Good, GM_nil_iff]
    | cons c s => simp [matchesFrom, Good, GM_nil_iff]
  | cons t ts ih =>
    have ih := ih (NoRec_tail hnr)
    have htr : t ≠ .anyRec := hnr t (by simp)
    intro fs s
    by_cases hts : t = .anySeq
    · subst hts
      have hs := seqLoop_good ts ih fs s
      have h := ih fs s
      simp only [matchesFrom]
      cases hr : matchesFrom ts fs s with
      | m =>
        simp only [Good, hr, GM_star_iff] at *
        exact ⟨⟨fun _ => ⟨0, by simpa using h.1.mp trivial⟩, fun _ => trivial⟩, by simp⟩
      | entire =>
        simp only [Good, hr, GM_star_iff] at *
        refine ⟨⟨by simp, ?_⟩, ?_⟩
        · rintro ⟨k, hg⟩; exact absurd hg (h.2 trivial k)
        · rintro _ k ⟨j, hg⟩; rw [List.drop_drop] at hg; exact h.2 trivial _ hg
      | sub =>
        simp only [Good, hr] at h
        have hns : ¬ GM ts s := fun hg => by have := h.1.mpr hg; cases this
        simp only [Good, GM_star_iff]
        refine ⟨⟨?_, ?_⟩, ?_⟩
        · intro hm; obtain ⟨k, _, hg⟩ := hs.1.mp hm; exact ⟨k, hg⟩
        · rintro ⟨k, hg⟩
          by_cases h0 : k = 0
          · subst h0; simp at hg; exact absurd hg hns
          · exact hs.1.mpr ⟨k, by omega, hg⟩
        · rintro he k ⟨j, hg⟩
          rw [List.drop_drop] at hg
          by_cases h0 : k + j = 0
          · have : k = 0 ∧ j = 0 := by omega
            rw [h0] at hg; simp at hg; exact hns hg
          · exact hs.2 he (k + j) (by omega) hg
    · cases s with
      | nil =>
        have e : matchesFrom (t :: ts) fs [] = .entire := by
          cases t <;> simp_all [matchesFrom]
        rw [e]
        simp only [Good, List.drop_nil]
        exact ⟨⟨by simp, fun h => absurd h (GM_one_nil t hts ts)⟩, fun _ _ => GM_one_nil t hts ts⟩
      | cons c s =>
        have h := ih (isSep c) s
        have e : matchesFrom (t :: ts) fs (c :: s) =
            if tokAccepts t c then matchesFrom ts (isSep c) s else .sub := by
          cases t <;> simp_all [matchesFrom]
        rw [e]
        by_cases hp : tokAccepts t c = true
        · simp only [hp, if_true, Good, GM_one_cons t hts htr, true_and] at *
          refine ⟨h.1, ?_⟩
          intro he k hg
          cases k with
          | zero => simp [GM_one_cons t hts htr] at hg; exact h.2 he 0 (by simpa using hg.2)
          | succ n =>
            simp only [List.drop_succ_cons] at hg
            cases hd : s.drop n with
            | nil => rw [hd] at hg; exact GM_one_nil t hts ts hg
            | cons d r =>
              rw [hd, GM_one_cons t hts htr] at hg
              have : r = s.drop (n + 1) := by
                have := congrArg List.tail hd; simpa [List.tail_drop] using this.symm
              exact h.2 he (n + 1) (this ▸ hg.2)
        · simp only [hp, Bool.false_eq_true, if_false, Good, GM_one_cons t hts htr, false_and]
          exact ⟨by simp, by simp⟩

/-- the backtracking matcher, early exits included, decides the declarative relation -/
theorem globMatches_iff (ts : List GTok) (hnr : NoRec ts) (s : Str) :
    globMatches ts s = true ↔ GM ts s := by
  have := (matchesFrom_good ts hnr true s).1
  simp only [globMatches, beq_iff_eq]
  exact this


/-! ### the tokeniser only appends; the quick test is inert for globs -/

theorem simple_not_meta (c : Char) (h : isSimpleChar c = true) : c ≠ '?' ∧ c ≠ '*' ∧ c ≠ '[' := by
  refine ⟨?_, ?_, ?_⟩ <;> (intro e; subst e; revert h; decide)

theorem pre_ext {ts toks x ts' : List GTok} (e : ts = (toks ++ x) ++ ts') : ∃ t, ts = toks ++ t :=
  ⟨x ++ ts', by rw [e, List.append_assoc]⟩

theorem pre_ite {ts toks ts' : List GTok} {c : Prop} [Decidable c]
    (e : ts = (if c then toks else toks ++ [GTok.anyRec]) ++ ts') : ∃ t, ts = toks ++ t := by
  split at e
  · exact ⟨_, e⟩
  · exact pre_ext e

theorem globLoop_prefix (fuel : Nat) : ∀ (rest : Str) (i : Nat) (prev : Option Char) (toks ts : List GTok),
    globLoop fuel rest i prev toks = .ok ts → ∃ ts', ts = toks ++ ts' := by
  induction fuel with
  | zero => intro rest i prev toks ts h; simp [globLoop] at h; exact ⟨[], by simp [h]⟩
  | succ f ih =>
    intro rest i prev toks ts h
    unfold globLoop at h
    split at h
    · simp at h; exact ⟨[], by simp [h]⟩
    · obtain ⟨ts', e⟩ := ih _ _ _ _ _ h; exact pre_ext e
    · simp only at h
      repeat' split at h
      all_goals first
        | (cases h; done)
        | (obtain ⟨ts', e⟩ := ih _ _ _ _ _ h; exact pre_ext e)
        | (obtain ⟨ts', e⟩ := ih _ _ _ _ _ h; exact ⟨ts', e⟩)
    · repeat' split at h
      all_goals first
        | (cases h; done)
        | (obtain ⟨ts', e⟩ := ih _ _ _ _ _ h; exact pre_ext e)
    · obtain ⟨ts', e⟩ := ih _ _ _ _ _ h; exact pre_ext e

/-- one step of the tokeniser on an ordinary character -/
theorem globLoop_simple (f : Nat) (c : Char) (r : Str) (i : Nat) (prev : Option Char) (toks : List GTok)
    (hc : isSimpleChar c = true) :
    globLoop (f + 1) (c :: r) i prev toks = globLoop f r (i + 1) (some c) (toks ++ [.char c]) := by
  obtain ⟨h1, h2, h3⟩ := simple_not_meta c hc
  conv => lhs; unfold globLoop
  split
  · rename_i heq; cases heq
  · rename_i heq; injection heq with e _; exact absurd e h1
  · rename_i heq; injection heq with e _; exact absurd e h2
  · rename_i heq; injection heq with e _; exact absurd e h3
  · rename_i heq; injection heq with e1 e2; subst e1; subst e2; rfl

theorem match_char_head (c : Char) (ts : List GTok) (fs : Bool) (n : Str)
    (h : matchesFrom (.char c :: ts) fs n = .m) : ∃ n', n = c :: n' ∧ matchesFrom ts (isSep c) n' = .m := by
  cases n with
  | nil => simp [matchesFrom] at h
  | cons d n' =>
    simp only [matchesFrom, tokAccepts] at h
    by_cases hd : (d == c) = true
    · simp only [hd, if_true] at h
      have : d = c := by simpa using hd
      subst this
      exact ⟨n', rfl, h⟩
    · simp [hd] at h

/-- the quick test never rejects a name the compiled glob matches -/
theorem quick_glob (p n : Str) (ts : List GTok) (hc : globNew p = .ok ts)
    (hm : globMatches ts n = true) : quickPkgMatch p n = true := by
  simp only [globMatches, beq_iff_eq] at hm
  unfold globNew at hc
  cases p with
  | nil => simp [quickPkgMatch]
  | cons p0 rest =>
    by_cases h0 : isSimpleChar p0 = true
    · simp only [List.length_cons] at hc
      rw [globLoop_simple _ p0 rest 0 none [] h0] at hc
      obtain ⟨ts1, e1⟩ := globLoop_prefix _ _ _ _ _ _ hc
      simp only [List.nil_append, List.singleton_append] at e1
      subst e1
      obtain ⟨n', rfl, hm'⟩ := match_char_head p0 ts1 true n hm
      cases rest with
      | nil => simp [quickPkgMatch, h0]
      | cons p1 rest' =>
        by_cases h1 : isSimpleChar p1 = true
        · simp only [List.length_cons] at hc
          rw [globLoop_simple _ p1 rest' 1 (some p0) _ h1] at hc
          obtain ⟨ts2, e2⟩ := globLoop_prefix _ _ _ _ _ _ hc
          simp only [List.nil_append, List.cons_append, List.cons.injEq, true_and] at e2
          subst e2
          obtain ⟨n'', rfl, _⟩ := match_char_head p1 ts2 (isSep p0) n' hm'
          simp [quickPkgMatch, h0, h1]
        · simp [quickPkgMatch, h0, h1]
    · simp [quickPkgMatch, h0]

end L
