/-
Lemmas/GlobRaw.lean — the raw-text glob specification (S.globMatch) for ALL patterns:
fuel independence and fuel-free unfolding equations, then its agreement with the token-level
relation GM on the tokens the `glob` crate model produces (property C05).
-/
import PkgsrcVerif.Lemmas.GlobStar
import PkgsrcVerif.Lemmas.Glob
namespace L
open M (Str)
open S (globMatch globMatches readSet inSet)

theorem globMatch_q (fuel : Nat) (p n : Str) :
    globMatch (fuel + 1) ('?' :: p) n = match n with
      | [] => false
      | _ :: n' => globMatch fuel p n' := by
  cases n with
  | nil => conv => lhs; unfold globMatch
           rfl
  | cons c n' => conv => lhs; unfold globMatch
                 rfl

theorem globMatch_set (fuel : Nat) (p n : Str) :
    globMatch (fuel + 1) ('[' :: p) n = match n with
      | [] => false
      | c :: n' =>
        (match readSet p with
         | some (neg, body, after) => (inSet body c != neg) && globMatch fuel after n'
         | none => false) := by
  cases n with
  | nil => conv => lhs; unfold globMatch
           rfl
  | cons c n' => conv => lhs; unfold globMatch
                 rfl

theorem dropWhile_length_le {α} (p : α → Bool) (l : List α) : (l.dropWhile p).length ≤ l.length := by
  induction l with
  | nil => simp
  | cons a l ih =>
    simp only [List.dropWhile_cons]
    split
    · simp only [List.length_cons]; omega
    · simp

theorem readSetBody_some (q body after : Str) (h : S.readSetBody q = some (body, after)) :
    ∃ first q', q = first :: q' ∧ body = first :: q'.takeWhile (· != ']') ∧
      q'.dropWhile (· != ']') = ']' :: after := by
  cases q with
  | nil => simp [S.readSetBody] at h
  | cons first q' =>
    simp only [S.readSetBody] at h
    cases hd : q'.dropWhile (· != ']') with
    | nil => simp [hd] at h
    | cons x rest =>
      simp only [hd] at h
      split at h
      · rename_i heq
        injection heq with e1 e2
        subst e1 e2
        injection h with h
        injection h with h1 h2
        exact ⟨first, q', rfl, h1.symm, by rw [hd, h2]⟩
      · cases h

theorem readSetBody_after_lt (q body after : Str) (h : S.readSetBody q = some (body, after)) :
    after.length < q.length := by
  obtain ⟨first, q', rfl, _, hd⟩ := readSetBody_some q body after h
  have := dropWhile_length_le (· != ']') q'
  rw [hd] at this
  simp only [List.length_cons] at this ⊢
  omega

/-- the text after a bracket set is shorter than the text after the '[' -/
theorem readSet_after_lt (p : Str) (neg : Bool) (body after : Str) (h : readSet p = some (neg, body, after)) :
    after.length < p.length := by
  unfold readSet at h
  split at h
  · rename_i q
    cases hb : S.readSetBody q with
    | none => simp [hb] at h
    | some ba =>
      simp only [hb, Option.map_some, Option.some.injEq, Prod.mk.injEq] at h
      obtain ⟨_, h1, h2⟩ := h
      have := readSetBody_after_lt q ba.1 ba.2 (by rw [hb])
      rw [← h2]; simp only [List.length_cons]; omega
  · cases hb : S.readSetBody p with
    | none => simp [hb] at h
    | some ba =>
      simp only [hb, Option.map_some, Option.some.injEq, Prod.mk.injEq] at h
      obtain ⟨_, h1, h2⟩ := h
      have := readSetBody_after_lt p ba.1 ba.2 (by rw [hb])
      rw [← h2]; exact this

/-- enough fuel is enough, for every pattern -/
theorem globMatch_fuel_all (f1 f2 : Nat) (p n : Str)
    (h1 : p.length + n.length < f1) (h2 : p.length + n.length < f2) :
    globMatch f1 p n = globMatch f2 p n := by
  induction f1 generalizing f2 p n with
  | zero => omega
  | succ f1 ih =>
    cases f2 with
    | zero => omega
    | succ f2 =>
      cases p with
      | nil => rw [globMatch_nil, globMatch_nil]
      | cons x p' =>
        by_cases hs : x = '*'
        · subst hs
          rw [globMatch_star, globMatch_star]
          cases n with
          | nil => exact ih f2 p' [] (by simp at h1 ⊢; omega) (by simp at h2 ⊢; omega)
          | cons c n' =>
            simp only
            rw [ih f2 p' (c :: n') (by simp at h1 ⊢; omega) (by simp at h2 ⊢; omega),
              ih f2 ('*' :: p') n' (by simp at h1 ⊢; omega) (by simp at h2 ⊢; omega)]
        · by_cases hq : x = '?'
          · subst hq
            rw [globMatch_q, globMatch_q]
            cases n with
            | nil => rfl
            | cons c n' => exact ih f2 p' n' (by simp at h1 ⊢; omega) (by simp at h2 ⊢; omega)
          · by_cases hb : x = '['
            · subst hb
              rw [globMatch_set, globMatch_set]
              cases n with
              | nil => rfl
              | cons c n' =>
                simp only
                cases hr : readSet p' with
                | none => rfl
                | some t =>
                  obtain ⟨neg, body, after⟩ := t
                  have hlt := readSet_after_lt p' neg body after hr
                  simp only
                  rw [ih f2 after n' (by simp at h1 ⊢; omega) (by simp at h2 ⊢; omega)]
            · have hlit : x ≠ '[' ∧ x ≠ '?' ∧ x ≠ '*' := ⟨hb, hq, hs⟩
              rw [globMatch_lit f1 x p' n hlit, globMatch_lit f2 x p' n hlit]
              cases n with
              | nil => rfl
              | cons c n' =>
                simp only
                rw [ih f2 p' n' (by simp at h1 ⊢; omega) (by simp at h2 ⊢; omega)]


/-! ### fuel-free equations -/

theorem GA_star_nil (p : Str) : globMatches ('*' :: p) [] = globMatches p [] := by
  unfold globMatches
  simp only [List.length_cons, List.length_nil, Nat.add_zero]
  rw [globMatch_star]

theorem GA_star_cons (p : Str) (c : Char) (n : Str) :
    globMatches ('*' :: p) (c :: n) = (globMatches p (c :: n) || globMatches ('*' :: p) n) := by
  unfold globMatches
  simp only [List.length_cons]
  rw [globMatch_star]
  simp only
  rw [globMatch_fuel_all _ (p.length + (n.length + 1) + 1) p (c :: n) (by simp only [List.length_cons]; omega) (by simp only [List.length_cons]; omega),
    globMatch_fuel_all _ (p.length + 1 + n.length + 1) ('*' :: p) n (by simp only [List.length_cons]; omega) (by simp only [List.length_cons]; omega)]

theorem GA_star_iff (p n : Str) :
    globMatches ('*' :: p) n = true ↔ ∃ k, k ≤ n.length ∧ globMatches p (n.drop k) = true := by
  induction n with
  | nil =>
    rw [GA_star_nil p]
    constructor
    · intro h; exact ⟨0, by simp, by simpa using h⟩
    · rintro ⟨k, _, h⟩; simpa using h
  | cons c n ih =>
    rw [GA_star_cons p c n, Bool.or_eq_true, ih]
    constructor
    · rintro (h | ⟨k, hk, h⟩)
      · exact ⟨0, by simp, by simpa using h⟩
      · exact ⟨k + 1, by simp; omega, by simpa using h⟩
    · rintro ⟨k, hk, h⟩
      cases k with
      | zero => left; simpa using h
      | succ k => right; exact ⟨k, by simp at hk; omega, by simpa using h⟩

theorem GA_q_nil (p : Str) : globMatches ('?' :: p) [] = false := by
  unfold globMatches
  simp only [List.length_cons, List.length_nil, Nat.add_zero]
  rw [globMatch_q]

theorem GA_q_cons (p : Str) (c : Char) (n : Str) : globMatches ('?' :: p) (c :: n) = globMatches p n := by
  unfold globMatches
  simp only [List.length_cons]
  rw [globMatch_q]
  simp only
  exact globMatch_fuel_all _ _ p n (by omega) (by omega)

theorem GA_set_nil (p : Str) : globMatches ('[' :: p) [] = false := by
  unfold globMatches
  simp only [List.length_cons, List.length_nil, Nat.add_zero]
  rw [globMatch_set]

theorem GA_set_cons (p : Str) (c : Char) (n : Str) :
    globMatches ('[' :: p) (c :: n) = match readSet p with
      | some (neg, body, after) => (inSet body c != neg) && globMatches after n
      | none => false := by
  unfold globMatches
  simp only [List.length_cons]
  rw [globMatch_set]
  simp only
  cases hr : readSet p with
  | none => rfl
  | some t =>
    obtain ⟨neg, body, after⟩ := t
    have hlt := readSet_after_lt p neg body after hr
    simp only
    rw [globMatch_fuel_all _ (after.length + n.length + 1) after n (by omega) (by omega)]

theorem GA_lit_nil (x : Char) (p : Str) (hx : x ≠ '[' ∧ x ≠ '?' ∧ x ≠ '*') : globMatches (x :: p) [] = false := by
  unfold globMatches
  simp only [List.length_cons, List.length_nil, Nat.add_zero]
  rw [globMatch_lit _ x p [] hx]

theorem GA_lit_cons (x : Char) (p : Str) (c : Char) (n : Str) (hx : x ≠ '[' ∧ x ≠ '?' ∧ x ≠ '*') :
    globMatches (x :: p) (c :: n) = (x == c && globMatches p n) := by
  unfold globMatches
  simp only [List.length_cons]
  rw [globMatch_lit _ x p (c :: n) hx]
  simp only
  rw [globMatch_fuel_all _ (p.length + n.length + 1) p n (by omega) (by omega)]

/-! ### the statement's reading of a pattern as tokens -/

open M (GTok CharSpec parseSpecs inSpecs tokAccepts)

/-- raw text → tokens, the way the statement reads a glob ('*' any run, '?' one character,
    '[set]' / '[!set]', anything else literal); `none` = malformed bracket set -/
def tokenize (fuel : Nat) (p : Str) : Option (List GTok) :=
  match fuel with
  | 0 => none
  | fuel + 1 =>
    match p with
    | [] => some []
    | '?' :: r => (tokenize fuel r).map (GTok.anyChar :: ·)
    | '*' :: r => (tokenize fuel r).map (GTok.anySeq :: ·)
    | '[' :: r =>
      (match readSet r with
       | some (neg, body, after) =>
         (tokenize fuel after).map ((if neg then GTok.except (parseSpecs body) else GTok.within (parseSpecs body)) :: ·)
       | none => none)
    | c :: r => (tokenize fuel r).map (GTok.char c :: ·)

theorem inSet_eq_inSpecs (body : Str) (c : Char) : inSet body c = inSpecs (parseSpecs body) c := by
  unfold inSpecs
  generalize hn : body.length = n
  induction n using Nat.strongRecOn generalizing body with
  | _ n ih =>
    match body with
    | [] => simp [inSet, parseSpecs]
    | [a] => simp [inSet, parseSpecs, Bool.beq_comm]
    | [a, b] =>
      by_cases hb : b = '-'
      · subst hb; simp [inSet, parseSpecs, Bool.beq_comm]
      · simp [inSet, parseSpecs, Bool.beq_comm]
    | a :: b :: d :: rest =>
      by_cases hb : b = '-'
      · subst hb
        have := ih rest.length (by simp at hn; omega) rest rfl
        rw [inSet, parseSpecs, List.any_cons, ← this]
        simp
      · have := ih (b :: d :: rest).length (by simp at hn ⊢; omega) (b :: d :: rest) rfl
        rw [inSet, parseSpecs, List.any_cons, ← this]
        · simp [Bool.beq_comm]
        · intro b' rest' e; simp_all
        · intro b' rest' e; simp_all


theorem G_nil' (n : Str) : globMatches [] n = n.isEmpty := by
  unfold globMatches; rw [globMatch_nil]

/-- **the statement's glob semantics on raw text = the declarative token relation** on the
    statement's reading of the pattern -/
theorem tokenize_sem (fuel : Nat) : ∀ (p : Str) (ts : List GTok), tokenize fuel p = some ts →
    NoRec ts ∧ ∀ n, GM ts n ↔ globMatches p n = true := by
  induction fuel with
  | zero => intro p ts h; simp [tokenize] at h
  | succ fuel ih =>
    intro p ts h
    unfold tokenize at h
    split at h
    · -- []
      injection h with h; subst h
      refine ⟨fun t ht => by simp at ht, fun n => ?_⟩
      rw [GM_nil_iff, G_nil']; simp
    · -- '?'
      rename_i r
      cases ht : tokenize fuel r with
      | none => simp [ht] at h
      | some ts' =>
        simp only [ht, Option.map_some, Option.some.injEq] at h; subst h
        obtain ⟨hnr, hsem⟩ := ih r ts' ht
        refine ⟨?_, ?_⟩
        · intro t htm
          simp only [List.mem_cons] at htm
          rcases htm with rfl | htm
          · simp
          · exact hnr t htm
        · intro n
          cases n with
          | nil => rw [GA_q_nil]; simp; exact GM_one_nil _ (by simp) _
          | cons c n' =>
            rw [GA_q_cons, GM_one_cons _ (by simp) (by simp), ← hsem n']
            simp [tokAccepts]
    · -- '*'
      rename_i r
      cases ht : tokenize fuel r with
      | none => simp [ht] at h
      | some ts' =>
        simp only [ht, Option.map_some, Option.some.injEq] at h; subst h
        obtain ⟨hnr, hsem⟩ := ih r ts' ht
        refine ⟨?_, ?_⟩
        · intro t htm
          simp only [List.mem_cons] at htm
          rcases htm with rfl | htm
          · simp
          · exact hnr t htm
        · intro n
          rw [GM_star_iff, GA_star_iff]
          constructor
          · rintro ⟨k, hk⟩
            by_cases hle : k ≤ n.length
            · exact ⟨k, hle, (hsem _).mp hk⟩
            · refine ⟨n.length, Nat.le_refl _, ?_⟩
              have e1 : n.drop k = [] := List.drop_eq_nil_of_le (by omega)
              have e2 : n.drop n.length = [] := List.drop_eq_nil_of_le (Nat.le_refl _)
              rw [e2, ← e1]; exact (hsem _).mp hk
          · rintro ⟨k, _, hk⟩
            exact ⟨k, (hsem _).mpr hk⟩
    · -- '['
      rename_i r
      cases hr : readSet r with
      | none => simp [hr] at h
      | some t3 =>
        obtain ⟨neg, body, after⟩ := t3
        simp only [hr] at h
        cases ht : tokenize fuel after with
        | none => simp [ht] at h
        | some ts' =>
          simp only [ht, Option.map_some, Option.some.injEq] at h; subst h
          obtain ⟨hnr, hsem⟩ := ih after ts' ht
          have htok1 : (if neg = true then GTok.except (parseSpecs body) else GTok.within (parseSpecs body)) ≠ .anySeq := by
            cases neg <;> simp
          have htok2 : (if neg = true then GTok.except (parseSpecs body) else GTok.within (parseSpecs body)) ≠ .anyRec := by
            cases neg <;> simp
          refine ⟨?_, ?_⟩
          · intro t htm
            simp only [List.mem_cons] at htm
            rcases htm with rfl | htm
            · exact htok2
            · exact hnr t htm
          · intro n
            cases n with
            | nil => rw [GA_set_nil]; simp; exact GM_one_nil _ htok1 _
            | cons c n' =>
              rw [GA_set_cons, hr, GM_one_cons _ htok1 htok2]
              simp only [Bool.and_eq_true, ← hsem n', inSet_eq_inSpecs]
              cases neg <;> simp [tokAccepts]
    · -- a literal
      rename_i c r h1 h2 h3
      cases ht : tokenize fuel r with
      | none => simp [ht] at h
      | some ts' =>
        simp only [ht, Option.map_some, Option.some.injEq] at h; subst h
        obtain ⟨hnr, hsem⟩ := ih r ts' ht
        have hx : c ≠ '[' ∧ c ≠ '?' ∧ c ≠ '*' := by
          refine ⟨?_, ?_, ?_⟩
          · exact fun e => h3 e
          · exact fun e => h1 e
          · exact fun e => h2 e
        refine ⟨?_, ?_⟩
        · intro t htm
          simp only [List.mem_cons] at htm
          rcases htm with rfl | htm
          · simp
          · exact hnr t htm
        · intro n
          cases n with
          | nil => rw [GA_lit_nil c r hx]; simp; exact GM_one_nil _ (by simp) _
          | cons d n' =>
            rw [GA_lit_cons c r d n' hx, GM_one_cons _ (by simp) (by simp), Bool.and_eq_true, ← hsem n']
            have : tokAccepts (GTok.char c) d = (c == d) := by
              simp only [tokAccepts]
              by_cases e : d = c
              · subst e; simp
              · have e' : ¬ c = d := fun x => e x.symm
                rw [beq_eq_false_iff_ne.mpr e, beq_eq_false_iff_ne.mpr e']
            rw [this]


/-! ### the crate's tokeniser on patterns without `**` -/

open M (globLoop globNew GlobErr position)

theorem globLoop_nil (f : Nat) (i : Nat) (prev : Option Char) (toks : List GTok) :
    globLoop (f + 1) [] i prev toks = .ok toks := by
  conv => lhs; unfold globLoop

theorem globLoop_q (f : Nat) (r : Str) (i : Nat) (prev : Option Char) (toks : List GTok) :
    globLoop (f + 1) ('?' :: r) i prev toks = globLoop f r (i + 1) (some '?') (toks ++ [.anyChar]) := by
  conv => lhs; unfold globLoop
  rfl

theorem globLoop_lit (f : Nat) (c : Char) (r : Str) (i : Nat) (prev : Option Char) (toks : List GTok)
    (hc : c ≠ '[' ∧ c ≠ '?' ∧ c ≠ '*') :
    globLoop (f + 1) (c :: r) i prev toks = globLoop f r (i + 1) (some c) (toks ++ [.char c]) := by
  conv => lhs; unfold globLoop
  split <;> simp_all

theorem globLoop_star1 (f : Nat) (r : Str) (i : Nat) (prev : Option Char) (toks : List GTok)
    (hr : r.head? ≠ some '*') :
    globLoop (f + 1) ('*' :: r) i prev toks = globLoop f r (i + 1) (some '*') (toks ++ [.anySeq]) := by
  have htw : r.takeWhile (· == '*') = [] := by
    cases r with
    | nil => rfl
    | cons x t =>
      have : x ≠ '*' := by simpa using hr
      simp [List.takeWhile_cons, this]
  have hdw : r.dropWhile (· == '*') = r := by
    cases r with
    | nil => rfl
    | cons x t =>
      have : x ≠ '*' := by simpa using hr
      simp [List.dropWhile_cons, this]
  conv => lhs; unfold globLoop
  simp [List.takeWhile_cons, List.dropWhile_cons, htw, hdw]

theorem position_none {α} (p : α → Bool) (l : List α) (h : position p l = none) :
    l.dropWhile (fun x => !p x) = [] := by
  induction l with
  | nil => rfl
  | cons a l ih =>
    simp only [position] at h
    by_cases hp : p a = true
    · simp [hp] at h
    · have hp' : p a = false := by simpa using hp
      simp only [hp', Bool.false_eq_true, if_false, Option.map_eq_none_iff] at h
      simp [List.dropWhile_cons, hp', ih h]

theorem position_some {α} (p : α → Bool) (l : List α) (j : Nat) (h : position p l = some j) :
    l.takeWhile (fun x => !p x) = l.take j ∧
      ∃ x, p x = true ∧ l.dropWhile (fun x => !p x) = x :: l.drop (j + 1) := by
  induction l generalizing j with
  | nil => simp [position] at h
  | cons a l ih =>
    simp only [position] at h
    by_cases hp : p a = true
    · simp only [hp, if_true, Option.some.injEq] at h
      subst h
      simp [List.takeWhile_cons, List.dropWhile_cons, hp]
    · have hp' : p a = false := by simpa using hp
      simp only [hp', Bool.false_eq_true, if_false] at h
      cases hj : position p l with
      | none => simp [hj] at h
      | some j' =>
        simp only [hj, Option.map_some, Option.some.injEq] at h
        subst h
        obtain ⟨h1, x, hx, h2⟩ := ih j' hj
        exact ⟨by simp [List.takeWhile_cons, hp', h1], x, hx, by simp [List.dropWhile_cons, hp', h2]⟩


theorem globLoop_set (f : Nat) (r : Str) (i : Nat) (prev : Option Char) (toks : List GTok) :
    globLoop (f + 1) ('[' :: r) i prev toks =
      if r.length ≥ 3 && r.head? == some '!' then
        match position (· == ']') (r.drop 2) with
        | none => .error (.range i)
        | some j =>
          globLoop f (r.drop (j + 3)) (i + j + 4) (some ']')
            (toks ++ [.except (parseSpecs ((r.drop 1).take (j + 1)))])
      else if r.length ≥ 2 && r.head? != some '!' then
        match position (· == ']') (r.drop 1) with
        | none => .error (.range i)
        | some j =>
          globLoop f (r.drop (j + 2)) (i + j + 3) (some ']') (toks ++ [.within (parseSpecs (r.take (j + 1)))])
      else .error (.range i) := by
  conv => lhs; unfold globLoop
  rfl

/-- reading the members of a set: the crate's index search agrees with the statement's -/
theorem body_agree (first : Char) (q' : Str) :
    (match position (· == ']') q' with
      | none => S.readSetBody (first :: q') = none
      | some j => S.readSetBody (first :: q') = some (first :: q'.take j, q'.drop (j + 1))) := by
  have hfun : (fun x : Char => !(x == ']')) = (fun x => x != ']') := by funext x; rfl
  cases hp : position (· == ']') q' with
  | none =>
    have := position_none _ _ hp
    rw [hfun] at this
    simp only [S.readSetBody, this]
  | some j =>
    obtain ⟨h1, x, hx, h2⟩ := position_some _ _ _ hp
    rw [hfun] at h1 h2
    have hx' : x = ']' := by simpa using hx
    subst hx'
    simp only [S.readSetBody, h2, h1]

/-- the bracket branch of the crate's loop = the statement's `readSet` -/
theorem bracket_agree (f : Nat) (r : Str) (i : Nat) (prev : Option Char) (toks : List GTok) :
    (match readSet r with
      | some (neg, body, after) =>
        ∃ i', globLoop (f + 1) ('[' :: r) i prev toks =
          globLoop f after i' (some ']')
            (toks ++ [if neg then GTok.except (parseSpecs body) else GTok.within (parseSpecs body)])
      | none => ∃ e, globLoop (f + 1) ('[' :: r) i prev toks = .error e) := by
  rw [globLoop_set]
  cases r with
  | nil => simp [readSet, S.readSetBody]
  | cons a q =>
    by_cases ha : a = '!'
    · subst ha
      -- negated set: r = '!' :: q
      cases q with
      | nil => simp [readSet, S.readSetBody]
      | cons first q' =>
        cases q' with
        | nil =>
          have : readSet ['!', first] = none := by simp [readSet, S.readSetBody]
          rw [this]
          simp
        | cons y q'' =>
          have hlen : (('!' :: first :: y :: q'').length ≥ 3 && ('!' :: first :: y :: q'').head? == some '!') = true := by
            simp
          simp only [hlen, if_true, List.drop_succ_cons, List.drop_zero]
          have hb := body_agree first (y :: q'')
          cases hp : position (· == ']') (y :: q'') with
          | none =>
            simp only [hp] at hb
            simp only [readSet, hb, Option.map_none]
            exact ⟨_, rfl⟩
          | some j =>
            simp only [hp] at hb
            simp only [readSet, hb, Option.map_some, if_true]
            refine ⟨i + j + 4, ?_⟩
            simp [List.drop_succ_cons, List.take_succ_cons]
    · -- plain set: r = a :: q with a ≠ '!'
      have hrs : readSet (a :: q) = (S.readSetBody (a :: q)).map fun ba => (false, ba.1, ba.2) := by
        unfold readSet
        split
        · rename_i heq; injection heq with e _; exact absurd e ha
        · rfl
      rw [hrs]
      cases q with
      | nil =>
        simp [S.readSetBody, ha]
      | cons y q'' =>
        have h1 : ((a :: y :: q'').length ≥ 3 && (a :: y :: q'').head? == some '!') = false := by
          simp [ha]
        have h2 : ((a :: y :: q'').length ≥ 2 && (a :: y :: q'').head? != some '!') = true := by
          simp [ha]
        simp only [h1, h2, Bool.false_eq_true, if_false, if_true, List.drop_succ_cons, List.drop_zero]
        have hb := body_agree a (y :: q'')
        cases hp : position (· == ']') (y :: q'') with
        | none =>
          simp only [hp] at hb
          simp only [hb, Option.map_none]
          exact ⟨_, rfl⟩
        | some j =>
          simp only [hp] at hb
          simp only [hb, Option.map_some, Bool.false_eq_true, if_false]
          refine ⟨i + j + 3, ?_⟩
          simp [List.drop_succ_cons, List.take_succ_cons]


theorem noDoubleStar_tail (c : Char) (r : Str) (h : S.noDoubleStar (c :: r) = true) : S.noDoubleStar r = true := by
  unfold S.noDoubleStar at h
  split at h
  · cases h
  · rename_i heq; injection heq with _ e; subst e; exact h
  · rename_i heq; cases heq

theorem noDoubleStar_star (r : Str) (h : S.noDoubleStar ('*' :: r) = true) : r.head? ≠ some '*' := by
  cases r with
  | nil => simp
  | cons x t =>
    intro e
    simp only [List.head?_cons, Option.some.injEq] at e
    subst e
    simp [S.noDoubleStar] at h

theorem noDoubleStar_suffix (a b : Str) (h : S.noDoubleStar (a ++ b) = true) : S.noDoubleStar b = true := by
  induction a with
  | nil => exact h
  | cons c a ih => exact ih (noDoubleStar_tail c _ h)

theorem readSet_suffix (r : Str) (neg : Bool) (body after : Str) (h : readSet r = some (neg, body, after)) :
    ∃ pre, r = pre ++ after := by
  have key : ∀ q b a, S.readSetBody q = some (b, a) → ∃ pre, q = pre ++ a := by
    intro q b a hq
    obtain ⟨first, q', rfl, _, hd⟩ := readSetBody_some q b a hq
    refine ⟨first :: (q'.takeWhile (· != ']') ++ [']']), ?_⟩
    have := List.takeWhile_append_dropWhile (p := (· != ']')) (l := q')
    rw [hd] at this
    simp only [List.cons_append, List.append_assoc, List.singleton_append, List.nil_append]
    rw [this]
  unfold readSet at h
  split at h
  · rename_i q
    cases hb : S.readSetBody q with
    | none => simp [hb] at h
    | some ba =>
      simp only [hb, Option.map_some, Option.some.injEq, Prod.mk.injEq] at h
      obtain ⟨pre, hpre⟩ := key q ba.1 ba.2 (by rw [hb])
      exact ⟨'!' :: pre, by rw [hpre, ← h.2.2]; rfl⟩
  · cases hb : S.readSetBody r with
    | none => simp [hb] at h
    | some ba =>
      simp only [hb, Option.map_some, Option.some.injEq, Prod.mk.injEq] at h
      obtain ⟨pre, hpre⟩ := key r ba.1 ba.2 (by rw [hb])
      exact ⟨pre, by rw [hpre, ← h.2.2]⟩

/-- **the crate's `Pattern::new` reads a pattern without `**` exactly as the statement does**:
    same tokens when every bracket set is closed and non-empty, an error otherwise -/
theorem globLoop_tokenize (f : Nat) : ∀ (rest : Str) (i : Nat) (prev : Option Char) (toks : List GTok),
    rest.length < f → S.noDoubleStar rest = true →
    (∀ ts, tokenize f rest = some ts → globLoop f rest i prev toks = .ok (toks ++ ts)) ∧
    (tokenize f rest = none → ∃ e, globLoop f rest i prev toks = .error e) := by
  induction f with
  | zero => intro rest i prev toks h; omega
  | succ f ih =>
    intro rest i prev toks hlen hnd
    cases rest with
    | nil =>
      refine ⟨?_, ?_⟩
      · intro ts h; simp only [tokenize, Option.some.injEq] at h; subst h; rw [globLoop_nil]; simp
      · intro h; simp [tokenize] at h
    | cons c r =>
      have hlen' : r.length < f := by simp only [List.length_cons] at hlen; omega
      have hnd' := noDoubleStar_tail c r hnd
      by_cases hq : c = '?'
      · subst hq
        obtain ⟨i1, i2⟩ := ih r (i + 1) (some '?') (toks ++ [.anyChar]) hlen' hnd'
        rw [globLoop_q]
        have ht : tokenize (f + 1) ('?' :: r) = (tokenize f r).map (GTok.anyChar :: ·) := by
          conv => lhs; unfold tokenize
          rfl
        rw [ht]
        refine ⟨?_, ?_⟩
        · intro ts h
          cases htk : tokenize f r with
          | none => simp [htk] at h
          | some ts' =>
            simp only [htk, Option.map_some, Option.some.injEq] at h; subst h
            rw [i1 ts' htk]; simp
        · intro h
          cases htk : tokenize f r with
          | none => exact i2 htk
          | some ts' => simp [htk] at h
      · by_cases hs : c = '*'
        · subst hs
          obtain ⟨i1, i2⟩ := ih r (i + 1) (some '*') (toks ++ [.anySeq]) hlen' hnd'
          rw [globLoop_star1 f r i prev toks (noDoubleStar_star r hnd)]
          have ht : tokenize (f + 1) ('*' :: r) = (tokenize f r).map (GTok.anySeq :: ·) := by
            conv => lhs; unfold tokenize
            rfl
          rw [ht]
          refine ⟨?_, ?_⟩
          · intro ts h
            cases htk : tokenize f r with
            | none => simp [htk] at h
            | some ts' =>
              simp only [htk, Option.map_some, Option.some.injEq] at h; subst h
              rw [i1 ts' htk]; simp
          · intro h
            cases htk : tokenize f r with
            | none => exact i2 htk
            | some ts' => simp [htk] at h
        · by_cases hb : c = '['
          · subst hb
            have ht : tokenize (f + 1) ('[' :: r) = (match readSet r with
                | some (neg, body, after) =>
                  (tokenize f after).map ((if neg then GTok.except (parseSpecs body) else GTok.within (parseSpecs body)) :: ·)
                | none => none) := by
              conv => lhs; unfold tokenize
              rfl
            rw [ht]
            have hba := bracket_agree f r i prev toks
            cases hr : readSet r with
            | none =>
              simp only [hr] at hba
              exact ⟨fun ts h => (by cases h), fun _ => hba⟩
            | some t3 =>
              obtain ⟨neg, body, after⟩ := t3
              simp only [hr] at hba
              obtain ⟨i', hi'⟩ := hba
              have hal := readSet_after_lt r neg body after hr
              obtain ⟨pre, hpre⟩ := readSet_suffix r neg body after hr
              have hnda : S.noDoubleStar after = true := noDoubleStar_suffix pre after (by rw [← hpre]; exact hnd')
              obtain ⟨i1, i2⟩ := ih after i' (some ']')
                (toks ++ [if neg then GTok.except (parseSpecs body) else GTok.within (parseSpecs body)])
                (by omega) hnda
              simp only
              rw [hi']
              refine ⟨?_, ?_⟩
              · intro ts h
                cases htk : tokenize f after with
                | none => simp [htk] at h
                | some ts' =>
                  simp only [htk, Option.map_some, Option.some.injEq] at h; subst h
                  rw [i1 ts' htk]; simp
              · intro h
                cases htk : tokenize f after with
                | none => exact i2 htk
                | some ts' => simp [htk] at h
          · have hx : c ≠ '[' ∧ c ≠ '?' ∧ c ≠ '*' := ⟨hb, hq, hs⟩
            obtain ⟨i1, i2⟩ := ih r (i + 1) (some c) (toks ++ [.char c]) hlen' hnd'
            rw [globLoop_lit f c r i prev toks hx]
            have ht : tokenize (f + 1) (c :: r) = (tokenize f r).map (GTok.char c :: ·) := by
              conv => lhs; unfold tokenize
              split <;> simp_all
            rw [ht]
            refine ⟨?_, ?_⟩
            · intro ts h
              cases htk : tokenize f r with
              | none => simp [htk] at h
              | some ts' =>
                simp only [htk, Option.map_some, Option.some.injEq] at h; subst h
                rw [i1 ts' htk]; simp
            · intro h
              cases htk : tokenize f r with
              | none => exact i2 htk
              | some ts' => simp [htk] at h


/-- the tokens exist exactly for well-formed globs (every '[' opens a closed, non-empty set) -/
theorem tokenize_isSome_iff_wf (f : Nat) : ∀ p : Str, p.length < f →
    ((tokenize f p).isSome = S.globWF f p) := by
  induction f with
  | zero => intro p h; omega
  | succ f ih =>
    intro p hlen
    cases p with
    | nil => simp [tokenize, S.globWF]
    | cons c r =>
      have hlen' : r.length < f := by simp only [List.length_cons] at hlen; omega
      by_cases hb : c = '['
      · subst hb
        have ht : tokenize (f + 1) ('[' :: r) = (match readSet r with
            | some (neg, body, after) =>
              (tokenize f after).map ((if neg then GTok.except (parseSpecs body) else GTok.within (parseSpecs body)) :: ·)
            | none => none) := by
          conv => lhs; unfold tokenize
          rfl
        have hw : S.globWF (f + 1) ('[' :: r) = (match readSet r with
            | some (_, _, after) => if after.length < r.length then S.globWF f after else false
            | none => false) := by
          conv => lhs; unfold S.globWF
          rfl
        rw [ht, hw]
        cases hr : readSet r with
        | none => rfl
        | some t3 =>
          obtain ⟨neg, body, after⟩ := t3
          have hal := readSet_after_lt r neg body after hr
          simp only [hal, if_true, Option.isSome_map]
          exact ih after (by omega)
      · have ht : (tokenize (f + 1) (c :: r)).isSome = (tokenize f r).isSome := by
          conv => lhs; unfold tokenize
          split <;> simp_all
        have hw : S.globWF (f + 1) (c :: r) = S.globWF f r := by
          conv => lhs; unfold S.globWF
          split <;> simp_all
        rw [ht, hw]
        exact ih r hlen'

end L
