/-
Lemmas/GlobStar.lean — the raw-text glob specification on the patterns property C11 names
(literal text and '*' only): prefix, suffix and infix tests.
-/
import PkgsrcVerif.Spec.Glob
namespace L
open M (Str)
open S (globMatch globMatches)

/-- pattern text made of ordinary characters and '*' only -/
def Plain (p : Str) : Prop := ∀ c ∈ p, c ≠ '[' ∧ c ≠ '?'
/-- ordinary characters only -/
def Lit (p : Str) : Prop := ∀ c ∈ p, c ≠ '[' ∧ c ≠ '?' ∧ c ≠ '*'

theorem plain_of_lit (p : Str) (h : Lit p) : Plain p := fun c hc => ⟨(h c hc).1, (h c hc).2.1⟩

/-- one step of the matcher on a literal head -/
theorem globMatch_lit (fuel : Nat) (x : Char) (p n : Str) (hx : x ≠ '[' ∧ x ≠ '?' ∧ x ≠ '*') :
    globMatch (fuel + 1) (x :: p) n = match n with
      | [] => false
      | c :: n' => x == c && globMatch fuel p n' := by
  conv => lhs; unfold globMatch
  split <;> simp_all


theorem globMatch_star (fuel : Nat) (p n : Str) :
    globMatch (fuel + 1) ('*' :: p) n = match n with
      | [] => globMatch fuel p []
      | c :: n' => globMatch fuel p (c :: n') || globMatch fuel ('*' :: p) n' := by
  cases n with
  | nil =>
    conv => lhs; unfold globMatch
    rfl
  | cons c n' =>
    conv => lhs; unfold globMatch
    rfl

theorem globMatch_nil (fuel : Nat) (n : Str) : globMatch (fuel + 1) [] n = n.isEmpty := by
  conv => lhs; unfold globMatch
  split <;> simp_all

/-- enough fuel is enough: the verdict does not depend on it -/
theorem globMatch_fuel (f1 f2 : Nat) (p n : Str) (hp : Plain p)
    (h1 : p.length + n.length < f1) (h2 : p.length + n.length < f2) :
    globMatch f1 p n = globMatch f2 p n := by
  induction f1 generalizing f2 p n with
  | zero => omega
  | succ f1 ih =>
    cases f2 with
    | zero => omega
    | succ f2 =>
      cases p with
      | nil => rw [globMatch_nil, globMatch_nil]
      | cons x p' =>
        have hp' : Plain p' := fun c hc => hp c (by simp [hc])
        by_cases hx : x = '*'
        · subst hx
          rw [globMatch_star, globMatch_star]
          cases n with
          | nil => exact ih f2 p' [] hp' (by simp at h1 ⊢; omega) (by simp at h2 ⊢; omega)
          | cons c n' =>
            simp only
            rw [ih f2 p' (c :: n') hp' (by simp at h1 ⊢; omega) (by simp at h2 ⊢; omega),
              ih f2 ('*' :: p') n' hp (by simp at h1 ⊢; omega) (by simp at h2 ⊢; omega)]
        · have hlit : x ≠ '[' ∧ x ≠ '?' ∧ x ≠ '*' := ⟨(hp x (by simp)).1, (hp x (by simp)).2, hx⟩
          rw [globMatch_lit f1 x p' n hlit, globMatch_lit f2 x p' n hlit]
          cases n with
          | nil => rfl
          | cons c n' =>
            simp only
            rw [ih f2 p' n' hp' (by simp at h1 ⊢; omega) (by simp at h2 ⊢; omega)]

/-- fuel-free equations of `globMatches` -/
theorem G_nil (n : Str) : globMatches [] n = n.isEmpty := by
  unfold globMatches; rw [globMatch_nil]

theorem G_star_nil (p : Str) (hp : Plain p) : globMatches ('*' :: p) [] = globMatches p [] := by
  unfold globMatches
  simp only [List.length_cons, List.length_nil, Nat.add_zero]
  rw [globMatch_star]

theorem G_star_cons (p : Str) (c : Char) (n : Str) (hp : Plain p) :
    globMatches ('*' :: p) (c :: n) = (globMatches p (c :: n) || globMatches ('*' :: p) n) := by
  have hps : Plain ('*' :: p) := by
    intro x hx
    simp only [List.mem_cons] at hx
    rcases hx with rfl | hx
    · exact ⟨by decide, by decide⟩
    · exact hp x hx
  unfold globMatches
  simp only [List.length_cons]
  rw [globMatch_star]
  simp only
  rw [globMatch_fuel _ (p.length + (n.length + 1) + 1) p (c :: n) hp (by simp only [List.length_cons]; omega) (by simp only [List.length_cons]; omega),
    globMatch_fuel _ (p.length + 1 + n.length + 1) ('*' :: p) n hps (by simp only [List.length_cons]; omega) (by simp only [List.length_cons]; omega)]

theorem G_lit_nil (x : Char) (p : Str) (hx : x ≠ '[' ∧ x ≠ '?' ∧ x ≠ '*') : globMatches (x :: p) [] = false := by
  unfold globMatches
  simp only [List.length_cons, List.length_nil, Nat.add_zero]
  rw [globMatch_lit _ x p [] hx]

theorem G_lit_cons (x : Char) (p : Str) (c : Char) (n : Str) (hx : x ≠ '[' ∧ x ≠ '?' ∧ x ≠ '*') (hp : Plain p) :
    globMatches (x :: p) (c :: n) = (x == c && globMatches p n) := by
  unfold globMatches
  simp only [List.length_cons]
  rw [globMatch_lit _ x p (c :: n) hx]
  simp only
  rw [globMatch_fuel _ (p.length + n.length + 1) p n hp (by omega) (by omega)]


theorem plain_append (a b : Str) (ha : Plain a) (hb : Plain b) : Plain (a ++ b) := by
  intro c hc
  rcases List.mem_append.mp hc with h | h
  · exact ha c h
  · exact hb c h

theorem plain_star : Plain ['*'] := by
  intro c hc; simp only [List.mem_singleton] at hc; subst hc; exact ⟨by decide, by decide⟩

/-- a literal prefix of the pattern must be a prefix of the name -/
theorem G_lit_prefix (l p n : Str) (hl : Lit l) (hp : Plain p) :
    globMatches (l ++ p) n = (l.isPrefixOf n && globMatches p (n.drop l.length)) := by
  induction l generalizing n with
  | nil => simp
  | cons x l ih =>
    have hx := hl x (by simp)
    have hl' : Lit l := fun c hc => hl c (by simp [hc])
    have hpl : Plain (l ++ p) := plain_append _ _ (plain_of_lit l hl') hp
    cases n with
    | nil => rw [List.cons_append, G_lit_nil x _ hx]; simp [List.isPrefixOf]
    | cons c n' =>
      rw [List.cons_append, G_lit_cons x _ c n' hx hpl, ih n' hl']
      simp [List.isPrefixOf, Bool.and_assoc]

theorem G_star_one (n : Str) : globMatches ['*'] n = true := by
  induction n with
  | nil => rw [G_star_nil [] (fun _ h => by simp at h), G_nil]; rfl
  | cons c n ih => rw [G_star_cons [] c n (fun _ h => by simp at h), ih]; simp

/-- '*' followed by `p`: some tail of the name matches `p` -/
theorem G_star_iff (p n : Str) (hp : Plain p) :
    globMatches ('*' :: p) n = true ↔ ∃ k, k ≤ n.length ∧ globMatches p (n.drop k) = true := by
  induction n with
  | nil =>
    rw [G_star_nil p hp]
    constructor
    · intro h; exact ⟨0, by simp, by simpa using h⟩
    · rintro ⟨k, _, h⟩; simpa using h
  | cons c n ih =>
    rw [G_star_cons p c n hp, Bool.or_eq_true, ih]
    constructor
    · rintro (h | ⟨k, hk, h⟩)
      · exact ⟨0, by simp, by simpa using h⟩
      · exact ⟨k + 1, by simp; omega, by simpa using h⟩
    · rintro ⟨k, hk, h⟩
      cases k with
      | zero => left; simpa using h
      | succ k => right; exact ⟨k, by simp at hk; omega, by simpa using h⟩

/-- a literal pattern matches only itself -/
theorem G_lit_only (l n : Str) (hl : Lit l) : globMatches l n = (n == l) := by
  have := G_lit_prefix l [] n hl (fun _ h => by simp at h)
  rw [List.append_nil, G_nil] at this
  rw [this]
  apply Bool.eq_iff_iff.mpr
  simp only [Bool.and_eq_true, List.isEmpty_iff, beq_iff_eq]
  constructor
  · rintro ⟨h1, h2⟩
    obtain ⟨t, ht⟩ := List.isPrefixOf_iff_prefix.mp h1
    rw [← ht] at h2 ⊢
    simp at h2
    simp [h2]
  · intro h; subst h; simp

/-- `l*` : the name starts with l -/
theorem G_prefix_star (l n : Str) (hl : Lit l) : globMatches (l ++ ['*']) n = l.isPrefixOf n := by
  rw [G_lit_prefix l ['*'] n hl plain_star, G_star_one]; simp

/-- `*l` : the name ends with l -/
theorem G_star_suffix (l n : Str) (hl : Lit l) : globMatches ('*' :: l) n = l.isSuffixOf n := by
  apply Bool.eq_iff_iff.mpr
  rw [G_star_iff l n (plain_of_lit l hl)]
  simp only [G_lit_only _ _ hl, beq_iff_eq, List.isSuffixOf_iff_suffix]
  constructor
  · rintro ⟨k, _, h⟩; exact ⟨n.take k, by rw [← h]; simp⟩
  · rintro ⟨t, ht⟩
    refine ⟨t.length, by rw [← ht]; simp, ?_⟩
    rw [← ht]; simp

/-- `*l*` : l occurs in the name -/
theorem G_star_infix (l n : Str) (hl : Lit l) :
    globMatches ('*' :: (l ++ ['*'])) n = true ↔ ∃ k, k ≤ n.length ∧ l.isPrefixOf (n.drop k) = true := by
  rw [G_star_iff _ n (plain_append _ _ (plain_of_lit l hl) plain_star)]
  simp only [G_prefix_star _ _ hl]

/-- `e*l*` : the name starts with e and l occurs after that -/
theorem G_prefix_star_infix (e l n : Str) (he : Lit e) (hl : Lit l) :
    globMatches (e ++ '*' :: (l ++ ['*'])) n = true ↔
      e.isPrefixOf n = true ∧ ∃ k, k ≤ (n.drop e.length).length ∧ l.isPrefixOf ((n.drop e.length).drop k) = true := by
  have hp : Plain ('*' :: (l ++ ['*'])) := by
    intro c hc
    simp only [List.mem_cons] at hc
    rcases hc with rfl | hc
    · exact ⟨by decide, by decide⟩
    · exact plain_append _ _ (plain_of_lit l hl) plain_star c hc
  rw [G_lit_prefix e _ n he hp, Bool.and_eq_true, G_star_infix l _ hl]

end L
