/-
Lemmas/Path.lean — facts about `splitOn` and `components` (Unix Path::components model).
-/
import PkgsrcVerif.Model.PkgPath
namespace L
open M

theorem splitOn_ne_nil {α} [BEq α] (sep : α) (l : List α) : splitOn sep l ≠ [] := by
  induction l with
  | nil => simp [splitOn]
  | cons c rest ih =>
    simp only [splitOn]
    split
    · simp
    · split <;> simp

theorem splitOn_no_sep (sep : Char) (a : Str) (h : sep ∉ a) : splitOn sep a = [a] := by
  induction a with
  | nil => rfl
  | cons c rest ih =>
    simp only [List.mem_cons, not_or] at h
    have hc : (c == sep) = false := by simpa using fun e => h.1 e.symm
    simp only [splitOn, hc, ih h.2]
    rfl

theorem splitOn_append_sep (sep : Char) (a rest : Str) (h : sep ∉ a) :
    splitOn sep (a ++ sep :: rest) = a :: splitOn sep rest := by
  induction a with
  | nil => simp [splitOn]
  | cons c a ih =>
    simp only [List.mem_cons, not_or] at h
    have hc : (c == sep) = false := by simpa using fun e => h.1 e.symm
    simp only [List.cons_append, splitOn, hc, ih h.2]
    rfl

theorem mem_splitOn_no_sep (sep : Char) (l : Str) : ∀ seg ∈ splitOn sep l, sep ∉ seg := by
  induction l with
  | nil => simp [splitOn]
  | cons c rest ih =>
    intro seg hs
    simp only [splitOn] at hs
    split at hs
    · simp only [List.mem_cons] at hs
      rcases hs with rfl | hs
      · simp
      · exact ih seg hs
    · rename_i hc
      cases hr : splitOn sep rest with
      | nil => exact absurd hr (splitOn_ne_nil sep rest)
      | cons s ss =>
        simp only [hr, List.mem_cons] at hs
        rcases hs with rfl | hs
        · have := ih s (by simp [hr])
          simp only [List.mem_cons, not_or]
          exact ⟨fun e => hc (by simp [e]), this⟩
        · exact ih seg (by simp [hr, hs])

/-- an ordinary path-component name: non-empty, no '/', not "." and not ".." -/
def IsName (n : Str) : Prop := n ≠ [] ∧ '/' ∉ n ∧ n ≠ ['.'] ∧ n ≠ ['.', '.']

/-- every Normal component of a path is an ordinary name -/
theorem normal_is_name (s n : Str) (h : Comp.normal n ∈ pcomps s) : IsName n := by
  simp only [pcomps, components, List.mem_append, List.mem_map, List.mem_filter] at h
  rcases h with (h | h) | h
  · split at h <;> simp at h
  · split at h <;> simp at h
  · obtain ⟨seg, ⟨hmem, hf⟩, hseg⟩ := h
    simp only [segComp] at hseg
    split at hseg
    · cases hseg
    · rename_i hpp
      injection hseg with hseg
      subst hseg
      have hsegmem : seg ∈ splitOn '/' s := by
        have key : ∀ (cond : Bool) (l : List Str), seg ∈ (if cond = true then l.drop 1 else l) → seg ∈ l := by
          intro cond l h
          cases cond
          · simpa using h
          · simp only [if_true] at h; exact List.mem_of_mem_drop h
        exact key _ _ hmem
      simp only [Bool.and_eq_true, Bool.not_eq_true', List.isEmpty_eq_false_iff, bne_iff_ne, ne_eq] at hf
      exact ⟨hf.1, mem_splitOn_no_sep '/' s seg hsegmem, hf.2, by simpa using hpp⟩

theorem name_head_not_slash {n : Str} (h : IsName n) : ∀ c r, n = c :: r → (c == '/') = false := by
  intro c r e
  have := h.2.1
  rw [e] at this
  simp only [List.mem_cons, not_or] at this
  simpa using fun e' => this.1 e'.symm

/-- components of a relative path that does not start with a "." segment -/
theorem pcomps_of (s : Str) (c : Char) (t : Str) (hs : s = c :: t) (hc : (c == '/') = false)
    (hh : ((splitOn '/' s).head? == some ['.']) = false) :
    pcomps s = ((splitOn '/' s).filter (fun x => !x.isEmpty && x != ['.'])).map (segComp '.') := by
  subst hs
  simp only [pcomps, components, hc, hh, Bool.and_false, Bool.false_eq_true, if_false, List.nil_append]

/-- components of `a/b` for ordinary names -/
theorem pcomps_two (a b : Str) (ha : IsName a) (hb : IsName b) :
    pcomps (a ++ '/' :: b) = [.normal a, .normal b] := by
  obtain ⟨c, r, rfl⟩ : ∃ c r, a = c :: r := by
    cases a with
    | nil => exact absurd rfl ha.1
    | cons c r => exact ⟨c, r, rfl⟩
  have hc := name_head_not_slash ha c r rfl
  have hsp : splitOn '/' (c :: r ++ '/' :: b) = [c :: r, b] := by
    rw [splitOn_append_sep '/' (c :: r) b ha.2.1, splitOn_no_sep '/' b hb.2.1]
  have ha3 : ((c :: r) != ['.']) = true := by simpa using ha.2.2.1
  have ha4 : ((c :: r) == ['.', '.']) = false := by simpa using ha.2.2.2
  have hb1 : b.isEmpty = false := by simpa using hb.1
  have hb3 : (b != ['.']) = true := by simpa using hb.2.2.1
  have hb4 : (b == ['.', '.']) = false := by simpa using hb.2.2.2
  have hne : (some (c :: r) == some ['.']) = false := by simpa using ha.2.2.1
  rw [pcomps_of (c :: r ++ '/' :: b) c (r ++ '/' :: b) (by simp) hc (by rw [hsp]; exact hne), hsp]
  simp only [List.filter_cons, List.isEmpty_cons, Bool.not_false, Bool.true_and, ha3, hb1, hb3,
    if_true, List.filter_nil, List.map_cons, List.map_nil, segComp, ha4, hb4, Bool.false_eq_true, if_false]

/-- components of `../../a/b` for ordinary names -/
theorem pcomps_four (a b : Str) (ha : IsName a) (hb : IsName b) :
    pcomps (['.', '.', '/', '.', '.', '/'] ++ (a ++ '/' :: b)) =
      [.parent, .parent, .normal a, .normal b] := by
  have hsp : splitOn '/' (['.', '.', '/', '.', '.', '/'] ++ (a ++ '/' :: b)) = [['.', '.'], ['.', '.'], a, b] := by
    have e : ['.', '.', '/', '.', '.', '/'] ++ (a ++ '/' :: b) =
        ['.', '.'] ++ '/' :: (['.', '.'] ++ '/' :: (a ++ '/' :: b)) := by simp
    rw [e, splitOn_append_sep '/' ['.', '.'] _ (by decide), splitOn_append_sep '/' ['.', '.'] _ (by decide),
      splitOn_append_sep '/' a b ha.2.1, splitOn_no_sep '/' b hb.2.1]
  have ha1 : a.isEmpty = false := by simpa using ha.1
  have ha3 : (a != ['.']) = true := by simpa using ha.2.2.1
  have ha4 : (a == ['.', '.']) = false := by simpa using ha.2.2.2
  have hb1 : b.isEmpty = false := by simpa using hb.1
  have hb3 : (b != ['.']) = true := by simpa using hb.2.2.1
  have hb4 : (b == ['.', '.']) = false := by simpa using hb.2.2.2
  have h1 : (some ['.', '.'] == some ['.']) = false := by decide
  have h2 : (['.', '.'] != ['.']) = true := by decide
  have h3 : (['.', '.'] == ['.', '.']) = true := by decide
  rw [pcomps_of (['.', '.', '/', '.', '.', '/'] ++ (a ++ '/' :: b)) '.' (['.', '/', '.', '.', '/'] ++ (a ++ '/' :: b)) (by simp) (by decide) (by rw [hsp]; exact h1), hsp]
  simp only [List.filter_cons, List.isEmpty_cons, Bool.not_false, Bool.true_and, h2, ha1, ha3, hb1, hb3,
    if_true, List.filter_nil, List.map_cons, List.map_nil, segComp, h3, ha4, hb4, Bool.false_eq_true, if_false]

end L
