/-
Lemmas/PkgName.lean — PkgName::new's two splits.
-/
import PkgsrcVerif.Model.PkgName
import PkgsrcVerif.Lemmas.DeweyTokens
import PkgsrcVerif.Lemmas.DeweyPat
namespace L
open M S

theorem rsplitNb_some {v a b : Str} (h : rsplitNb v = some (a, b)) : v = a ++ 'n' :: 'b' :: b := by
  induction v generalizing a b with
  | nil => simp [rsplitNb] at h
  | cons c rest ih =>
    simp only [rsplitNb] at h
    cases hr : rsplitNb rest with
    | some ab =>
      obtain ⟨a', b'⟩ := ab
      simp only [hr, Option.some.injEq, Prod.mk.injEq] at h
      obtain ⟨rfl, rfl⟩ := h
      rw [ih hr]; simp
    | none =>
      simp only [hr] at h
      split at h
      · simp only [Option.some.injEq, Prod.mk.injEq] at h
        obtain ⟨rfl, rfl⟩ := h
        simp
      · cases h

theorem rsplitNb_none_of_no_n (d : Str) (h : ∀ c ∈ d, c ≠ 'n') : rsplitNb d = none := by
  induction d with
  | nil => rfl
  | cons c rest ih =>
    have hr := ih (fun x hx => h x (by simp [hx]))
    have hc : c ≠ 'n' := h c (by simp)
    simp only [rsplitNb, hr]
    split
    · exact absurd rfl hc
    · rfl

theorem digit_ne_n (c : Char) (h : isDigit c = true) : c ≠ 'n' := by
  intro e; subst e; revert h; decide

/-- the LAST "nb" of `p ++ "nb" ++ digits` is the trailing one -/
theorem rsplitNb_suffix (p d : Str) (hd : ∀ c ∈ d, isDigit c = true) :
    rsplitNb (p ++ 'n' :: 'b' :: d) = some (p, d) := by
  have hdn : rsplitNb d = none := rsplitNb_none_of_no_n d (fun c hc => digit_ne_n c (hd c hc))
  induction p with
  | nil =>
    simp [rsplitNb, hdn]
  | cons c p ih => simp only [List.cons_append, rsplitNb, ih]

theorem parseI64_digits (d : Str) (hne : d ≠ []) (hd : ∀ c ∈ d, isDigit c = true) (hl : d.length ≤ 18) :
    parseI64? d = some (digitsVal d : Int) := by
  cases d with
  | nil => exact absurd rfl hne
  | cons c r =>
    have hc := hd c (by simp)
    have h1 : c ≠ '-' := by intro e; subst e; revert hc; decide
    have h2 : c ≠ '+' := by intro e; subst e; revert hc; decide
    have hall : (c :: r).all isDigit = true := by
      simp only [List.all_eq_true]; exact hd
    have hle := digitsVal_le_i64 (c :: r) hd hl
    have hge : i64Min ≤ (digitsVal (c :: r) : Int) := by simp only [i64Min]; omega
    unfold parseI64?
    split
    rename_i x neg ds heq
    have hm : (neg, ds) = (false, c :: r) := by
      rw [← heq]
      split
      · rename_i heq; injection heq with e _; exact absurd e h1
      · rename_i heq; injection heq with e _; exact absurd e h2
      · rfl
    injection hm with e1 e2
    subst e1; subst e2
    simp only [hall]
    simp [hle, hge]

end L
