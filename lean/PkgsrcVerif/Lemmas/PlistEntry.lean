/-
Lemmas/PlistEntry.lean — PlistEntry::from_bytes is the command table applied to
"word before the first space / rest minus leading blanks".
-/
import PkgsrcVerif.Spec.Plist
namespace L
open M

theorem bytesOf_eq (s : String) : S.bytesOf s = asciiB s := rfl

/-- each of the 18 rows of the table: the if-chain applies that row's rule -/
theorem dispatch_table (args : Option Bytes) :
    ∀ e ∈ S.commandTable, dispatch (S.bytesOf e.1) args = S.applyRule e.2.1 e.2.2 args := by
  intro e he
  simp only [S.commandTable, List.mem_cons, List.mem_nil_iff, or_false] at he
  rcases he with rfl | rfl | rfl | rfl | rfl | rfl | rfl | rfl | rfl | rfl | rfl | rfl | rfl | rfl | rfl | rfl | rfl | rfl
  all_goals (cases args <;> simp [dispatch, bytesOf_eq, asciiB, S.applyRule, S.build, argsOs, argsStr, argsStrOpt])

/-- a word that is in no row is an unsupported command -/
theorem dispatch_unknown (cmd : Bytes) (args : Option Bytes)
    (h : ∀ e ∈ S.commandTable, (S.bytesOf e.1 == cmd) = false) :
    dispatch cmd args = .error .unsupported := by
  simp only [S.commandTable, List.mem_cons, List.mem_nil_iff, or_false, forall_eq_or_imp, forall_eq,
    bytesOf_eq] at h
  obtain ⟨h1, h2, h3, h4, h5, h6, h7, h8, h9, h10, h11, h12, h13, h14, h15, h16, h17, h18⟩ := h
  have f : ∀ x : Bytes, (x == cmd) = false → (cmd == x) = false := by
    intro x hx; rw [beq_eq_false_iff_ne] at *; exact fun e => hx e.symm
  simp only [dispatch, f _ h1, f _ h2, f _ h3, f _ h4, f _ h5, f _ h6, f _ h7, f _ h8, f _ h9, f _ h10,
    f _ h11, f _ h12, f _ h13, f _ h14, f _ h15, f _ h16, f _ h17, f _ h18, Bool.or_false,
    Bool.false_eq_true, if_false]

theorem dispatch_eq (cmd : Bytes) (args : Option Bytes) : dispatch cmd args = S.command cmd args := by
  unfold S.command
  cases hf : S.commandTable.find? (fun e => S.bytesOf e.1 == cmd) with
  | none =>
    simp only
    apply dispatch_unknown
    intro e he
    have := List.find?_eq_none.mp hf e he
    simpa using this
  | some e =>
    obtain ⟨n, k, r⟩ := e
    have hm := List.mem_of_find?_eq_some hf
    have hp := List.find?_some hf
    simp only [beq_iff_eq] at hp
    rw [← hp]
    exact dispatch_table args (n, k, r) hm

/-- position of the first space vs. takeWhile/dropWhile -/
theorem indexOf_some (x : UInt8) (b : Bytes) (i : Nat) (h : indexOf x b = some i) :
    b.take i = b.takeWhile (· != x) ∧ b.dropWhile (· != x) = b.drop i ∧
    b.drop i = x :: b.drop (i + 1) ∧ i < b.length := by
  induction b generalizing i with
  | nil => simp [indexOf] at h
  | cons c rest ih =>
    simp only [indexOf] at h
    by_cases hc : (c == x) = true
    · simp only [hc, if_true, Option.some.injEq] at h
      subst h
      have : c = x := by simpa using hc
      subst this
      have hxx : (c != c) = false := by simp
      simp only [List.take_zero, List.drop_zero, List.takeWhile_cons, List.dropWhile_cons, hxx,
        Bool.false_eq_true, if_false, List.drop_succ_cons, List.length_cons, true_and]
      omega
    · simp only [hc, Bool.false_eq_true, if_false] at h
      cases hr : indexOf x rest with
      | none => simp [hr] at h
      | some j =>
        simp only [hr, Option.map_some, Option.some.injEq] at h
        subst h
        obtain ⟨t1, t2, t3, t4⟩ := ih j hr
        have hne : (c != x) = true := by simpa using hc
        refine ⟨?_, ?_, ?_, ?_⟩
        · simp only [List.take_succ_cons, List.takeWhile_cons, hne, if_true, t1]
        · simp only [List.dropWhile_cons, hne, if_true, t2, List.drop_succ_cons]
        · simp only [List.drop_succ_cons]; exact t3
        · simp only [List.length_cons]; omega

theorem indexOf_none (x : UInt8) (b : Bytes) (h : indexOf x b = none) :
    b.takeWhile (· != x) = b ∧ b.dropWhile (· != x) = [] := by
  induction b with
  | nil => simp
  | cons c rest ih =>
    simp only [indexOf] at h
    by_cases hc : (c == x) = true
    · simp [hc] at h
    · simp only [hc, Bool.false_eq_true, if_false, Option.map_eq_none_iff] at h
      have hne : (c != x) = true := by simpa using hc
      have := ih h
      simp [List.takeWhile_cons, List.dropWhile_cons, hne, this]

/-- C14 core: parsing one line = the command table applied to its word and argument -/
theorem entryFromBytes_eq (line : Bytes) : entryFromBytes line = S.entry line := by
  unfold entryFromBytes S.entry
  cases line with
  | nil => simp [indexOf]
  | cons c rest =>
    by_cases hat : c = 64
    · subst hat
      -- the line starts with '@'
      simp only [List.head?_cons, bne_self_eq_false, Bool.false_eq_true, if_false]
      cases hi : indexOf 32 ((64 : UInt8) :: rest) with
      | none =>
        obtain ⟨h1, h2⟩ := indexOf_none 32 _ hi
        simp only [h1, h2, List.drop_nil, List.dropWhile_nil, List.isEmpty_nil, if_true,
          beq_self_eq_true, Bool.true_or, List.head?_cons]
        exact dispatch_eq _ _
      | some i =>
        obtain ⟨h1, h3, h2, h4⟩ := indexOf_some 32 _ i hi
        have hi0 : i ≠ 0 := by
          intro e; subst e
          simp [indexOf] at hi
        have hhead : (((64 : UInt8) :: rest).take i).head? = some 64 := by
          cases i with
          | zero => exact absurd rfl hi0
          | succ j => simp
        have hz : (i == 0) = false := by simpa using hi0
        have hws : isWhiteByte 32 = true := by decide
        -- A = the text after the first space
        have hA0 : (((64 : UInt8) :: rest).dropWhile (· != 32)).drop 1 = ((64 : UInt8) :: rest).drop (i + 1) := by
          rw [h3, List.drop_drop]
        rw [hA0]
        generalize hA : ((64 : UInt8) :: rest).drop (i + 1) = A at h2
        have hAlen : A.length = ((64 : UInt8) :: rest).length - (i + 1) := by
          rw [← hA]; simp only [List.length_drop]
        simp only [hhead, beq_self_eq_true, if_true, hz, Bool.false_or, h2, List.dropWhile_cons, hws,
          ← h1, dispatch_eq]
        congr 1
        by_cases hlen : i + 1 ≥ ((64 : UInt8) :: rest).length
        · have : A = [] := List.eq_nil_of_length_eq_zero (by omega)
          subst this
          simp [hlen]
        · simp only [hlen, decide_false, Bool.false_eq_true, if_false]
    · have hh : ((c :: rest).head? != some 64) = true := by simpa using hat
      simp only [hh, if_true]
      cases hi : indexOf 32 (c :: rest) with
      | none =>
        have : ((c :: rest).head? == some 64) = false := by simpa using hat
        simp only [this, Bool.false_eq_true, if_false]
      | some i =>
        have : (((c :: rest).take i).head? == some 64) = false := by
          cases i with
          | zero => simp
          | succ j => simpa using hat
        simp only [this, Bool.false_eq_true, if_false]

end L
