/-
Lemmas/PlistScan.lean — the start/tstart/trim index loop of Plist::from_bytes yields
exactly the non-blank lines of the input, with or without a final newline.
-/
import PkgsrcVerif.Spec.Plist
namespace L
open M

def finish (s : Scan) (len : Nat) : List (Nat × Nat) :=
  if s.fin < len && s.tstart < len then s.lines ++ [(s.start, len)] else s.lines

def slice (b : Bytes) (p : Nat × Nat) : Bytes := sliceB b p.1 p.2

theorem scanLines_eq (b : Bytes) :
    scanLines b = finish (scanLoop { lines := [], start := 0, tstart := 0, trim := true, fin := 0 } 0 b) b.length := rfl

/-- number of leading blank bytes -/
def lead : Bytes → Nat
  | [] => 0
  | c :: cs => if isWhiteByte c then lead cs + 1 else 0

def hasNonWs (l : Bytes) : Bool := l.any (fun c => !isWhiteByte c)

/-- spec with an explicit current line -/
def specGo (cur : Bytes) : Bytes → List Bytes
  | [] => if hasNonWs cur then [cur] else []
  | c :: r => if c == 10 then (if hasNonWs cur then [cur] else []) ++ specGo [] r
              else specGo (cur ++ [c]) r

theorem lead_le (l : Bytes) : lead l ≤ l.length := by
  induction l with
  | nil => simp [lead]
  | cons c cs ih => simp [lead]; split <;> omega

theorem lead_lt_iff (l : Bytes) : lead l < l.length ↔ hasNonWs l = true := by
  induction l with
  | nil => simp [lead, hasNonWs]
  | cons c cs ih =>
    simp only [hasNonWs] at ih
    by_cases h : isWhiteByte c = true
    · simp [lead, hasNonWs, h, ← ih]
    · simp [lead, hasNonWs, h]

theorem lead_snoc (l : Bytes) (c : UInt8) :
    lead (l ++ [c]) = if lead l = l.length ∧ isWhiteByte c = true then lead l + 1 else lead l := by
  induction l with
  | nil => simp [lead]
  | cons d ds ih =>
    have := lead_le ds
    simp only [List.cons_append, lead, List.length_cons]
    by_cases h : isWhiteByte d = true <;> simp [h, ih] <;> grind

theorem slice_mid (pre cur rest : Bytes) :
    slice (pre ++ cur ++ rest) (pre.length, pre.length + cur.length) = cur := by
  simp only [slice, sliceB]
  have h1 : (pre ++ cur ++ rest).take (pre.length + cur.length) = pre ++ cur := by
    rw [← List.length_append, List.append_assoc, ← List.append_assoc]
    exact List.take_left
  rw [h1]
  exact List.drop_left

theorem finish_map (b : Bytes) (s : Scan) (len : Nat) :
    (finish s len).map (slice b) =
      s.lines.map (slice b) ++ (if s.fin < len ∧ s.tstart < len then [slice b (s.start, len)] else []) := by
  unfold finish; split <;> simp_all

theorem step_nl (s : Scan) (idx : Nat) :
    scanStep s idx 10 = { lines := if s.tstart < idx then s.lines ++ [(s.start, idx)] else s.lines,
                          start := idx + 1, tstart := idx + 1, trim := true, fin := idx + 1 } := by
  simp [scanStep]

theorem scan_step_other (s : Scan) (idx : Nat) (c : UInt8) (h : c ≠ 10) :
    scanStep s idx c =
      if s.trim = true ∧ isWhiteByte c = true then { s with tstart := s.tstart + 1 } else { s with trim := false } := by
  have : (c == 10) = false := by simp [h]
  simp only [scanStep, this, Bool.false_eq_true, if_false, Bool.and_eq_true]

/-- invariant-carrying generalisation -/
theorem loop_spec (b pre cur rest : Bytes) (s : Scan)
    (hb : b = pre ++ cur ++ rest) (hcur : ∀ c ∈ cur, c ≠ 10)
    (hs : s.start = pre.length) (hf : s.fin = pre.length) (ht : s.tstart = pre.length + lead cur)
    (htrim : s.trim = decide (lead cur = cur.length)) :
    (finish (scanLoop s (pre.length + cur.length) rest) b.length).map (slice b)
      = s.lines.map (slice b) ++ specGo cur rest := by
  induction rest generalizing pre cur s with
  | nil =>
    have hl := lead_le cur
    have hiff := lead_lt_iff cur
    have hsl := slice_mid pre cur []
    subst hb
    simp only [List.append_nil] at hsl
    rw [scanLoop, finish_map, specGo]
    simp only [List.append_nil, List.length_append, hs, hf, ht]
    by_cases hn : hasNonWs cur = true
    · have h1 : lead cur < cur.length := hiff.mpr hn
      have : pre.length < pre.length + cur.length ∧ pre.length + lead cur < pre.length + cur.length := by omega
      simp [this, hn, hsl]
    · have h1 : ¬ lead cur < cur.length := fun h => hn (hiff.mp h)
      have : ¬ (pre.length + lead cur < pre.length + cur.length) := by omega
      simp [this, hn]
  | cons c r ih =>
    have hl := lead_le cur
    have hiff := lead_lt_iff cur
    rw [scanLoop, specGo]
    by_cases hc : c = 10
    · subst hc
      have hsl := slice_mid pre cur (10 :: r)
      have key := ih (pre ++ cur ++ [10]) [] (scanStep s (pre.length + cur.length) 10)
        (by simp [hb]) (by simp) (by simp [step_nl]; omega) (by simp [step_nl]; omega)
        (by simp [step_nl, lead]; omega) (by simp [step_nl, lead])
      have e : (pre ++ cur ++ [10]).length + ([] : Bytes).length = pre.length + cur.length + 1 := by simp; omega
      rw [e] at key
      simp only [beq_self_eq_true, if_true]
      rw [key, step_nl]
      simp only [ht, hs]
      by_cases hn : hasNonWs cur = true
      · have h1 : lead cur < cur.length := hiff.mpr hn
        have : pre.length + lead cur < pre.length + cur.length := by omega
        simp only [List.append_assoc] at hsl
        simp [this, hn, hb, hsl]
      · have h1 : ¬ lead cur < cur.length := fun h => hn (hiff.mp h)
        have : ¬ (pre.length + lead cur < pre.length + cur.length) := by omega
        simp [this, hn]
    · have hc' : (c == 10) = false := by simp [hc]
      have hst := scan_step_other s (pre.length + cur.length) c hc
      have key := ih pre (cur ++ [c]) (scanStep s (pre.length + cur.length) c)
        (by simp [hb])
        (by intro x hx; simp at hx; rcases hx with h | h; exact hcur x h; exact h ▸ hc)
        (by rw [hst]; split <;> simp [hs])
        (by rw [hst]; split <;> simp [hf])
        (by rw [hst, lead_snoc, htrim]
            by_cases h1 : lead cur = cur.length <;> by_cases h2 : isWhiteByte c = true <;> simp [h1, h2, ht] <;> omega)
        (by rw [hst, lead_snoc, htrim]
            by_cases h1 : lead cur = cur.length <;> by_cases h2 : isWhiteByte c = true <;> simp [h1, h2] <;> omega)
      have e : pre.length + (cur ++ [c]).length = pre.length + cur.length + 1 := by simp; omega
      rw [e] at key
      have hlines : (scanStep s (pre.length + cur.length) c).lines = s.lines := by
        rw [hst]; split <;> rfl
      simp only [hc', Bool.false_eq_true, if_false]
      rw [key, hlines]

theorem scan_spec (b : Bytes) : (scanLines b).map (slice b) = specGo [] b := by
  have := loop_spec b [] [] b { lines := [], start := 0, tstart := 0, trim := true, fin := 0 }
    (by simp) (by simp) rfl rfl (by simp [lead]) (by simp [lead])
  simpa [scanLines_eq] using this

theorem splitNl_ne_nil (x : Bytes) : S.splitNl x ≠ [] := by
  induction x with
  | nil => simp [S.splitNl]
  | cons d x ihx =>
    unfold S.splitNl
    split
    · simp
    · simp
    · split <;> simp

theorem splitNl_nl (r : Bytes) : S.splitNl (10 :: r) = [] :: S.splitNl r := by
  conv => lhs; unfold S.splitNl
  rfl

theorem splitNl_other (c : UInt8) (r : Bytes) (hc : c ≠ 10) :
    S.splitNl (c :: r) = (match S.splitNl r with | [] => [[c]] | l :: ls => (c :: l) :: ls) := by
  conv => lhs; unfold S.splitNl
  split
  · rename_i heq; cases heq
  · rename_i heq; injection heq with h1 h2; exact absurd h1 hc
  · rename_i heq; injection heq with h1 h2; subst h1; subst h2; rfl

theorem nonBlank_eq (l : Bytes) : S.nonBlank l = hasNonWs l := rfl

/-- the explicit-current-line spec is "split on '\n', keep the lines with a non-blank byte" -/
theorem specGo_eq (cur rest : Bytes) :
    specGo cur rest = (match S.splitNl rest with
      | [] => []
      | l :: ls => ((cur ++ l) :: ls).filter S.nonBlank) := by
  induction rest generalizing cur with
  | nil =>
    simp only [specGo, S.splitNl, List.append_nil, List.filter_cons, List.filter_nil, nonBlank_eq]
    rfl
  | cons c r ih =>
    by_cases hc : c = 10
    · subst hc
      rw [splitNl_nl]
      simp only [specGo, beq_self_eq_true, if_true, ih [], List.append_nil, List.filter_cons, nonBlank_eq,
        List.nil_append]
      cases hs : S.splitNl r with
      | nil => exact absurd hs (splitNl_ne_nil r)
      | cons l ls => simp only [List.filter_cons, nonBlank_eq]; split <;> rfl
    · have hc' : (c == 10) = false := by simp [hc]
      rw [splitNl_other c r hc]
      simp only [specGo, hc', Bool.false_eq_true, if_false, ih (cur ++ [c])]
      cases hs : S.splitNl r with
      | nil => exact absurd hs (splitNl_ne_nil r)
      | cons l ls => simp

theorem plines_eq (b : Bytes) : (scanLines b).map (slice b) = S.plines b := by
  rw [scan_spec, specGo_eq]
  unfold S.plines
  cases hs : S.splitNl b with
  | nil => rfl
  | cons l ls => simp

end L
