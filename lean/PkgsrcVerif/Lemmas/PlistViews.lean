/-
Lemmas/PlistViews.lean — the "ignore next file" flag of the four separately written
view loops is the positional description "an @ignore occurs between this file and
the preceding file entry (or the start)".
-/
import PkgsrcVerif.Spec.Plist
namespace L
open M S

theorem any_congr' {α} (l : List α) (f g : α → Bool) (h : ∀ x ∈ l, f x = g x) : l.any f = l.any g := by
  induction l with
  | nil => rfl
  | cons a l ih =>
    simp only [List.any_cons, h a (by simp), ih (fun x hx => h x (by simp [hx]))]

theorem find_congr' {α} (l : List α) (f g : α → Bool) (h : ∀ x ∈ l, f x = g x) : l.find? f = l.find? g := by
  induction l with
  | nil => rfl
  | cons a l ih =>
    simp only [List.find?_cons, h a (by simp), ih (fun x hx => h x (by simp [hx]))]

theorem findSome_congr' {α β} (l : List α) (f g : α → Option β) (h : ∀ x ∈ l, f x = g x) :
    l.findSome? f = l.findSome? g := by
  induction l with
  | nil => rfl
  | cons a l ih =>
    simp only [List.findSome?_cons, h a (by simp), ih (fun x hx => h x (by simp [hx]))]

theorem get_append_lt (es t : List PEntry) (j : Nat) (h : j < es.length) : (es ++ t)[j]? = es[j]? :=
  List.getElem?_append_left h

theorem isFileAt_append (es t : List PEntry) (j : Nat) (h : j < es.length) :
    isFileAt (es ++ t) j = isFileAt es j := by simp only [isFileAt, get_append_lt es t j h]

theorem isIgnoreAt_append (es t : List PEntry) (j : Nat) (h : j < es.length) :
    isIgnoreAt (es ++ t) j = isIgnoreAt es j := by simp only [isIgnoreAt, get_append_lt es t j h]

/-- positions before `i` only see the first `i` entries -/
theorem prevFile_append (es t : List PEntry) (i : Nat) (h : i ≤ es.length) :
    prevFile (es ++ t) i = prevFile es i := by
  unfold prevFile
  apply find_congr'
  intro j hj
  simp only [List.mem_reverse, List.mem_range] at hj
  exact isFileAt_append es t j (by omega)

theorem ignoreIn_append (es t : List PEntry) (lo i : Nat) (h : i ≤ es.length) :
    ignoreIn (es ++ t) lo i = ignoreIn es lo i := by
  unfold ignoreIn
  apply any_congr'
  intro j hj
  simp only [List.mem_range] at hj
  rw [isIgnoreAt_append es t j (by omega)]

theorem kept_append (es t : List PEntry) (i : Nat) (h : i ≤ es.length) :
    kept (es ++ t) i = kept es i := by
  simp only [kept, windowStart, prevFile_append es t i h, ignoreIn_append es t _ i h]

theorem cwdAt_append (es t : List PEntry) (i : Nat) (h : i ≤ es.length) :
    cwdAt (es ++ t) i = cwdAt es i := by
  unfold cwdAt
  congr 1
  apply findSome_congr'
  intro j hj
  simp only [List.mem_reverse, List.mem_range] at hj
  rw [get_append_lt es t j (by omega)]

/-- the flag: an @ignore is pending after processing `es` -/
def pending (es : List PEntry) : Bool := !kept es es.length

theorem get_last (es : List PEntry) (e : PEntry) : (es ++ [e])[es.length]? = some e := by simp

theorem prevFile_lt (es : List PEntry) (i j : Nat) (h : prevFile es i = some j) : j < i := by
  unfold prevFile at h
  have := List.mem_of_find?_eq_some h
  simpa using this

theorem windowStart_le (es : List PEntry) (i : Nat) : windowStart es i ≤ i := by
  unfold windowStart
  cases h : prevFile es i with
  | none => simp
  | some j => have := prevFile_lt es i j h; simp; omega

/-- recurrence of the flag along the entry list -/
theorem pending_snoc (es : List PEntry) (e : PEntry) :
    pending (es ++ [e]) = (if isFile e then false else (pending es || isIgnore e)) := by
  unfold pending kept
  simp only [List.length_append, List.length_singleton, Bool.not_not]
  by_cases hf : isFile e = true
  · -- a file: the window after it is empty
    simp only [hf, if_true]
    have hp : prevFile (es ++ [e]) (es.length + 1) = some es.length := by
      simp only [prevFile, List.range_succ, List.reverse_append, List.reverse_singleton,
        List.singleton_append, List.find?_cons, isFileAt, get_last, hf]
    simp only [windowStart, hp, ignoreIn, List.any_eq_false, List.mem_range]
    intro j hj
    have : ¬ (es.length + 1 ≤ j) := by omega
    simp [this]
  · have hf' : isFile e = false := by simpa using hf
    simp only [hf', Bool.false_eq_true, if_false]
    have hp : prevFile (es ++ [e]) (es.length + 1) = prevFile es es.length := by
      rw [← prevFile_append es [e] es.length (Nat.le_refl _)]
      simp only [prevFile, List.range_succ, List.reverse_append, List.reverse_singleton,
        List.singleton_append, List.find?_cons, isFileAt, get_last, hf', Bool.false_eq_true, if_false]
    have hw : windowStart (es ++ [e]) (es.length + 1) = windowStart es es.length := by
      simp only [windowStart, hp]
    rw [hw]
    have hlo := windowStart_le es es.length
    simp only [ignoreIn, List.range_succ, List.any_append, List.any_cons, List.any_nil, Bool.or_false]
    have h1 : ((List.range es.length).any fun j => decide (windowStart es es.length ≤ j) && isIgnoreAt (es ++ [e]) j) =
        ((List.range es.length).any fun j => decide (windowStart es es.length ≤ j) && isIgnoreAt es j) := by
      apply any_congr'
      intro j hj
      simp only [List.mem_range] at hj
      rw [isIgnoreAt_append es [e] j hj]
    rw [h1]
    have h2 : isIgnoreAt (es ++ [e]) es.length = isIgnore e := by simp only [isIgnoreAt, get_last]
    simp [h2, hlo]

end L

namespace L
open M S

/-- induction from the right -/
theorem snoc_induction {α} {P : List α → Prop} (h0 : P []) (hs : ∀ l a, P l → P (l ++ [a])) : ∀ l, P l := by
  intro l
  generalize hr : l.reverse = r
  induction r generalizing l with
  | nil => simp at hr; subst hr; exact h0
  | cons a r ih =>
    have : l = r.reverse ++ [a] := by
      have := congrArg List.reverse hr; simpa using this
    subst this
    exact hs _ _ (ih _ (by simp))

theorem range_filterMap_snoc {β} (n : Nat) (f : Nat → Option β) :
    (List.range (n + 1)).filterMap f = (List.range n).filterMap f ++ (match f n with | some x => [x] | none => []) := by
  rw [List.range_succ, List.filterMap_append]
  cases h : f n <;> simp [List.filterMap, h]

theorem filterMap_range_congr {β} (n : Nat) (f g : Nat → Option β) (h : ∀ i, i < n → f i = g i) :
    (List.range n).filterMap f = (List.range n).filterMap g := by
  induction n with
  | zero => rfl
  | succ n ih =>
    rw [range_filterMap_snoc, range_filterMap_snoc, ih (fun i hi => h i (by omega)), h n (by omega)]

/-- contribution of the last entry to the positional file list -/
theorem filesSpec_snoc (es : List PEntry) (e : PEntry) :
    filesSpec (es ++ [e]) = filesSpec es ++
      (match e with | .file f => if pending es then [] else [f] | _ => []) := by
  unfold filesSpec
  simp only [List.length_append, List.length_singleton]
  rw [range_filterMap_snoc]
  congr 1
  · apply filterMap_range_congr
    intro i hi
    rw [get_append_lt es [e] i hi, kept_append es [e] i (by omega)]
  · simp only [get_last]
    cases e <;> simp only []
    rename_i f
    simp only [kept_append es [PEntry.file f] es.length (Nat.le_refl _), pending]
    by_cases hk : kept es es.length = true <;> simp [hk]

theorem prefixedSpec_snoc (es : List PEntry) (e : PEntry) :
    prefixedSpec (es ++ [e]) = prefixedSpec es ++
      (match e with | .file f => if pending es then [] else [prefixed es es.length f] | _ => []) := by
  unfold prefixedSpec
  simp only [List.length_append, List.length_singleton]
  rw [range_filterMap_snoc]
  congr 1
  · apply filterMap_range_congr
    intro i hi
    rw [get_append_lt es [e] i hi, kept_append es [e] i (by omega)]
    simp only [prefixed, cwdAt_append es [e] i (by omega)]
  · simp only [get_last]
    cases e <;> simp only []
    rename_i f
    simp only [kept_append es [PEntry.file f] es.length (Nat.le_refl _), pending, prefixed,
      cwdAt_append es [PEntry.file f] es.length (Nat.le_refl _)]
    by_cases hk : kept es es.length = true <;> simp [hk]

theorem match_ite {α} (c : Bool) (x : α) :
    (match (if c = true then some x else none) with | some y => [y] | none => []) =
      if c = true then [x] else [] := by cases c <;> rfl

theorem cmdsSpec_snoc (kinds : PEntry → Bool) (es : List PEntry) (e : PEntry) :
    cmdsSpec kinds (es ++ [e]) = cmdsSpec kinds es ++
      (match e with
       | .file f => if pending es then [] else [.file f]
       | x => if kinds x then [x] else []) := by
  unfold cmdsSpec
  simp only [List.length_append, List.length_singleton]
  rw [range_filterMap_snoc]
  congr 1
  · apply filterMap_range_congr
    intro i hi
    rw [get_append_lt es [e] i hi, kept_append es [e] i (by omega)]
  · simp only [get_last]
    cases e with
    | file f =>
      simp only [kept_append es [PEntry.file f] es.length (Nat.le_refl _), pending]
      by_cases hk : kept es es.length = true <;> simp [hk]
    | _ => simp only []; exact match_ite _ _

/-- the flag loop of `files()` computes (pending flag, positional file list) -/
theorem files_state (es : List PEntry) :
    es.foldl filesStep (false, []) = (pending es, filesSpec es) := by
  induction es using snoc_induction with
  | h0 => simp [pending, kept, ignoreIn, filesSpec]
  | hs l a ih =>
    rw [List.foldl_append, ih, filesSpec_snoc, pending_snoc]
    cases a <;> simp [filesStep, isFile, isIgnore]
    rename_i f
    cases pending l <;> simp

theorem cwdAt_snoc (es : List PEntry) (e : PEntry) :
    cwdAt (es ++ [e]) (es.length + 1) = (match e with | .cwd d => d | _ => cwdAt es es.length) := by
  have h := cwdAt_append es [e] es.length (Nat.le_refl _)
  unfold cwdAt at h ⊢
  simp only [List.range_succ, List.reverse_append, List.reverse_singleton, List.singleton_append,
    List.findSome?_cons, get_last]
  cases e <;> simp only [cwdArg, Option.getD_some] <;> exact h

end L

namespace L
open M S

/-- prefix tracking of `files_prefixed()`: the current prefix after `es` -/
def curPrefix (es : List PEntry) : Option Bytes :=
  es.foldl (fun acc e => match e with | .cwd d => some d | _ => acc) none

theorem cwdAt_eq_curPrefix (es : List PEntry) : cwdAt es es.length = (curPrefix es).getD [] := by
  induction es using snoc_induction with
  | h0 => simp [cwdAt, curPrefix]
  | hs l a ih =>
    simp only [List.length_append, List.length_singleton, cwdAt_snoc, curPrefix, List.foldl_append,
      List.foldl_cons, List.foldl_nil]
    cases a <;> simp only [Option.getD_some] <;> exact ih

theorem prefixed_state (es : List PEntry) :
    es.foldl prefixedStep (false, none, []) = (pending es, curPrefix es, prefixedSpec es) := by
  induction es using snoc_induction with
  | h0 => simp [pending, kept, ignoreIn, prefixedSpec, curPrefix]
  | hs l a ih =>
    rw [List.foldl_append, ih, prefixedSpec_snoc, pending_snoc]
    simp only [List.foldl_cons, List.foldl_nil, curPrefix, List.foldl_append]
    cases a <;> simp [prefixedStep, isFile, isIgnore]
    rename_i f
    cases hp : pending l <;> simp [prefixed, cwdAt_eq_curPrefix, curPrefix]

theorem cmds_state (keep : PEntry → Bool) (es : List PEntry) :
    es.foldl (cmdsStep keep) (false, []) =
      (pending es, cmdsSpec (fun e => !isIgnore e && !isFile e && keep e) es) := by
  induction es using snoc_induction with
  | h0 => simp [pending, kept, ignoreIn, cmdsSpec]
  | hs l a ih =>
    rw [List.foldl_append, ih, cmdsSpec_snoc, pending_snoc]
    cases a <;> simp [cmdsStep, isFile, isIgnore]
    all_goals first
      | (rename_i f; cases pending l <;> simp; done)
      | (split <;> simp_all)

end L
