/-
Lemmas/Quick.lean — the first-two-characters shortcut (quick_pkg_match) is inert.
-/
import PkgsrcVerif.Model.Pattern
import PkgsrcVerif.Lemmas.DeweyPat
namespace L
open M S

/-- the quick test never rejects a name that starts with the pattern's base followed by '-',
    when the base is followed by a comparison operator in the pattern -/
theorem quick_dewey (base rest v : Str) (x : Char) (hx : x = '>' ∨ x = '<') :
    quickPkgMatch (base ++ x :: rest) (base ++ '-' :: v) = true := by
  have hns : isSimpleChar x = false := by rcases hx with rfl | rfl <;> decide
  match base with
  | [] => simp [quickPkgMatch, hns]
  | [a] => by_cases ha : isSimpleChar a = true <;> simp [quickPkgMatch, hns, ha]
  | a :: b :: r =>
    by_cases ha : isSimpleChar a = true <;> by_cases hb : isSimpleChar b = true <;>
      simp [quickPkgMatch, ha, hb]


end L

namespace L
open M S

theorem symOf_head (o : Op) : ∃ x r, symOf o = x :: r ∧ (x = '>' ∨ x = '<') := by
  cases o <;> simp [symOf]

/-- a pattern that `Dewey::new` accepts is its base followed by an operator character -/
theorem deweyNew_ok_shape (p : Str) (d : Dewey) (h : deweyNew p = .ok d) :
    ∃ x rest, p = d.pkgname ++ x :: rest ∧ (x = '>' ∨ x = '<') := by
  have hp := render_lexOps p
  have hall := deweyNew_eq_parse p
  cases hpp : parsePattern p with
  | error r =>
    cases r with
    | noOps => rw [hall.2.1 hpp] at h; cases h
    | order => obtain ⟨pos, e⟩ := hall.2.2.1 hpp; rw [e] at h; cases h
    | tooMany => obtain ⟨pos, e⟩ := hall.2.2.2 hpp; rw [e] at h; cases h
  | ok bb =>
    obtain ⟨base, bs⟩ := bb
    rw [hall.1 base bs hpp] at h
    injection h with h
    subst h
    simp only
    -- base is the lexed base and there is at least one operator
    unfold parsePattern at hpp
    cases hl : (lexOps p).2 with
    | nil => simp [hl] at hpp
    | cons ot l =>
      obtain ⟨o, t⟩ := ot
      have hb : (lexOps p).1 = base := by
        cases l with
        | nil => simp only [hl] at hpp; injection hpp with e; injection e with e1 _
        | cons ot2 l2 =>
          cases l2 with
          | nil =>
            simp only [hl] at hpp
            split at hpp
            · injection hpp with e; injection e with e1 _
            · cases hpp
          | cons _ _ => simp only [hl] at hpp; cases hpp
      rw [hl, hb] at hp
      obtain ⟨x, r, hs, hx⟩ := symOf_head o
      refine ⟨x, r ++ renderLex t l, ?_, hx⟩
      rw [← hp]; simp [renderLex, hs]

end L
