/-
Lemmas/ScanIndex.lean — the flush-on-PKGNAME loop of ScanIndex::from_reader is a
segmentation of the non-blank lines: cut before every line that begins `PKGNAME=`.
-/
import PkgsrcVerif.Model.PkgDB
import PkgsrcVerif.Spec.ScanIndex
namespace L
open M

/-- the buffers the loop flushes, in order (`buf` = lines buffered so far) -/
def segments (buf : List Str) : List Str → List (List Str)
  | [] => if buf.isEmpty then [] else [buf]
  | l :: rest =>
    if l.isEmpty then segments buf rest
    else if startsWithPkgname l && !buf.isEmpty then buf :: segments [l] rest
    else segments (buf ++ [l]) rest

theorem mapMOpt_cons {α β} (f : α → Option β) (a : α) (l : List α) :
    mapMOpt f (a :: l) = (match f a with | none => none | some b => (mapMOpt f l).map (b :: ·)) := rfl

/-- the loop = parse every segment, in order; the first failing segment fails the read -/
theorem readLoop_segments (acc : List ScanIndex) (buf : List Str) (ls : List Str) :
    readLoop acc buf ls = (mapMOpt toIndex (segments buf ls)).map (acc ++ ·) := by
  induction ls generalizing acc buf with
  | nil =>
    simp only [readLoop, segments]
    split
    · simp [mapMOpt]
    · simp only [mapMOpt_cons, mapMOpt]
      cases toIndex buf <;> simp
  | cons l rest ih =>
    simp only [readLoop, segments]
    split
    · exact ih acc buf
    · split
      · simp only [mapMOpt_cons]
        cases h : toIndex buf with
        | none => simp
        | some i =>
          simp only [ih (acc ++ [i]) [l]]
          cases mapMOpt toIndex (segments [l] rest) <;> simp
      · exact ih acc (buf ++ [l])

/-- the segments, concatenated, are exactly the non-blank lines in input order: no line is
    lost, duplicated or moved to a neighbouring record -/
theorem segments_flatten (buf : List Str) (ls : List Str) :
    (segments buf ls).flatten = buf ++ ls.filter (!·.isEmpty) := by
  induction ls generalizing buf with
  | nil => simp only [segments]; split <;> simp_all
  | cons l rest ih =>
    simp only [segments]
    split
    · rename_i h; simp [ih, h]
    · rename_i h
      have hl : (!l.isEmpty) = true := by simpa using h
      split
      · simp [ih, List.filter_cons, hl]
      · simp [ih, List.filter_cons, hl]

/-- every segment after the first begins with a `PKGNAME=` line (a new record starts exactly
    there), and a segment never contains a second `PKGNAME=` line -/
theorem segments_shape (buf : List Str) (ls : List Str)
    (hb : ∀ l ∈ buf.drop 1, startsWithPkgname l = false) :
    ∀ seg ∈ segments buf ls, ∀ l ∈ seg.drop 1, startsWithPkgname l = false := by
  induction ls generalizing buf with
  | nil =>
    intro seg hs
    simp only [segments] at hs
    split at hs
    · simp at hs
    · simp only [List.mem_singleton] at hs; subst hs; exact hb
  | cons l rest ih =>
    intro seg hs
    simp only [segments] at hs
    split at hs
    · exact ih buf hb seg hs
    · split at hs
      · simp only [List.mem_cons] at hs
        rcases hs with rfl | hs
        · exact hb
        · exact ih [l] (by simp) seg hs
      · rename_i hne hc
        apply ih (buf ++ [l]) _ seg hs
        intro x hx
        cases buf with
        | nil => simp at hx
        | cons b0 br =>
          simp only [List.cons_append, List.drop_succ_cons, List.drop_zero, List.mem_append,
            List.mem_singleton] at hx
          rcases hx with hx | rfl
          · exact hb x (by simpa using hx)
          · simp only [Bool.and_eq_true, Bool.not_eq_true', List.isEmpty_cons, not_and,
              Bool.not_eq_false] at hc
            cases h : startsWithPkgname x with
            | false => rfl
            | true => exact absurd (hc h) (by simp)

theorem segments_heads (buf : List Str) (ls : List Str) :
    ∀ seg ∈ (segments buf ls).drop 1, ∃ l rest, seg = l :: rest ∧ startsWithPkgname l = true := by
  induction ls generalizing buf with
  | nil => intro seg hs; simp only [segments] at hs; split at hs <;> simp at hs
  | cons l rest ih =>
    intro seg hs
    simp only [segments] at hs
    split at hs
    · exact ih buf seg hs
    · split at hs
      · rename_i hne hc
        simp only [List.drop_succ_cons, List.drop_zero] at hs
        -- segments [l] rest: its first segment starts with l, the others by induction
        have key : ∀ (b : List Str) (r : List Str), b ≠ [] → ∀ s ∈ segments b r,
            (∃ x xs, s = x :: xs ∧ (s = b ∨ True)) := by
          intro b r hb s _; cases s with
          | nil => exact ⟨default, [], by
              exfalso
              -- a segment is never empty
              have : ∀ (b : List Str) (r : List Str), b ≠ [] → ∀ s ∈ segments b r, s ≠ [] := by
                intro b r
                induction r generalizing b with
                | nil => intro hb s hs; simp only [segments] at hs; split at hs
                         · simp at hs
                         · simp only [List.mem_singleton] at hs; subst hs; exact hb
                | cons y r ihr =>
                  intro hb s hs
                  simp only [segments] at hs
                  split at hs
                  · exact ihr b hb s hs
                  · split at hs
                    · simp only [List.mem_cons] at hs
                      rcases hs with rfl | hs
                      · exact hb
                      · exact ihr [y] (by simp) s hs
                    · exact ihr (b ++ [y]) (by simp) s hs
              exact this b r hb [] ‹_› rfl, Or.inr trivial⟩
          | cons x xs => exact ⟨x, xs, rfl, Or.inr trivial⟩
        -- position of seg in segments [l] rest
        match hseg : segments [l] rest with
        | [] => rw [hseg] at hs; simp at hs
        | s0 :: more =>
          rw [hseg] at hs
          simp only [List.mem_cons] at hs
          rcases hs with rfl | hs
          · -- first segment of segments [l] rest starts with l
            have : ∀ (b : List Str) (r : List Str) (x : Str) (xs : List Str), b = x :: xs →
                ∀ s0 more, segments b r = s0 :: more → ∃ ys, s0 = x :: ys := by
              intro b r
              induction r generalizing b with
              | nil =>
                intro x xs hb s0 more h
                simp only [segments, hb, List.isEmpty_cons, Bool.false_eq_true, if_false] at h
                injection h with h1 _; exact ⟨xs, h1.symm⟩
              | cons y r ihr =>
                intro x xs hb s0 more h
                simp only [segments] at h
                split at h
                · exact ihr b x xs hb s0 more h
                · split at h
                  · injection h with h1 _; exact ⟨xs, by rw [← h1, hb]⟩
                  · exact ihr (b ++ [y]) x (xs ++ [y]) (by rw [hb]; rfl) s0 more h
            obtain ⟨ys, e⟩ := this [l] rest l [] rfl seg more hseg
            simp only [Bool.and_eq_true] at hc
            exact ⟨l, ys, e, hc.1⟩
          · have := ih [l] seg (by rw [hseg]; simpa using hs)
            exact this
      · exact ih (buf ++ [l]) seg hs

end L

namespace L
open M

theorem splitOnceEq_spec' (l : Str) :
    splitOnceEq l = if l.contains '=' then some (l.takeWhile (· != '='), (l.dropWhile (· != '=')).drop 1) else none := by
  induction l with
  | nil => simp [splitOnceEq]
  | cons c r ih =>
    by_cases hc : c = '='
    · subst hc; simp [splitOnceEq, List.takeWhile_cons, List.dropWhile_cons]
    · have h1 : (c == '=') = false := by simpa using hc
      have h2 : (c != '=') = true := by simpa using hc
      have h3 : (c :: r).contains '=' = r.contains '=' := by
        simp only [List.contains_cons]
        have : (('=' : Char) == c) = false := by simpa using fun e => hc e.symm
        simp [this]
      simp only [splitOnceEq, h1, Bool.false_eq_true, if_false, ih, h3, List.takeWhile_cons, List.dropWhile_cons, h2,
        if_true]
      split <;> simp

theorem find_reverse_eq_getLast {α} (l : List α) (p : α → Bool) :
    l.reverse.find? p = (l.filter p).getLast? := by
  induction l with
  | nil => rfl
  | cons a l ih =>
    rw [List.reverse_cons, List.find?_append, ih, List.filter_cons]
    by_cases ha : p a = true
    · simp only [ha, if_true, List.find?_cons, List.find?_nil]
      cases hf : l.filter p with
      | nil => simp
      | cons b t =>
        cases h : (b :: t).getLast? with
        | none => simp at h
        | some x => simp [h]
    · have : p a = false := by simpa using ha
      simp only [this, Bool.false_eq_true, if_false, List.find?_cons, List.find?_nil, Option.or_none]

theorem filterMap_filter_map {α β γ} (l : List α) (f : α → Option β) (p : β → Bool) (g : β → γ) :
    ((l.filterMap f).filter p).map g =
      l.filterMap (fun a => (f a).bind fun b => if p b then some (g b) else none) := by
  induction l with
  | nil => rfl
  | cons a l ih =>
    simp only [List.filterMap_cons]
    cases hf : f a with
    | none => simp only [Option.bind_none, ih]
    | some b =>
      simp only [Option.bind_some, List.filter_cons]
      by_cases hp : p b = true
      · simp only [hp, if_true, List.map_cons, ih]
      · have : p b = false := by simpa using hp
        simp only [this, Bool.false_eq_true, if_false, ih]

theorem filterMap_congr'' {α β} (l : List α) (f g : α → Option β) (h : ∀ a, f a = g a) :
    l.filterMap f = l.filterMap g := by
  have : f = g := funext h
  rw [this]

/-- **typed extraction of a scalar field**: what the deserialiser's map returns for a key is the
    trimmed value of the last `key=value` line of the block whose trimmed key is that key -/
theorem kv_get_eq_scalar (blk : List Str) (key : String) :
    (keyValues blk).get key = S.scalar blk key := by
  unfold KV.get S.scalar S.valuesOf keyValues
  rw [find_reverse_eq_getLast, ← List.getLast?_map, filterMap_filter_map]
  congr 1
  apply filterMap_congr''
  intro l
  rw [splitOnceEq_spec']
  by_cases hc : l.contains '=' = true
  · simp only [hc, if_true, Option.map_some, Option.bind_some, Bool.not_true, Bool.false_eq_true, if_false]
  · have : l.contains '=' = false := by simpa using hc
    simp only [this, Bool.false_eq_true, if_false, Option.map_none, Option.bind_none, Bool.not_false, if_true]

end L
