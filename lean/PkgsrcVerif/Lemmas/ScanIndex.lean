/-
Lemmas/ScanIndex.lean — the flush-on-PKGNAME loop of ScanIndex::from_reader is a
segmentation of the non-blank lines: cut before every line that begins `PKGNAME=`.
-/
import PkgsrcVerif.Model.PkgDB
import PkgsrcVerif.Spec.ScanIndex
namespace L
open M

/-- the buffers the loop flushes, in order (`buf` = lines buffered so far) -/
def segments (buf : List Str) : List Str → List (List Str)
  | [] => if buf.isEmpty then [] else [buf]
  | l :: rest =>
    if l.isEmpty then segments buf rest
    else if startsWithPkgname l && !buf.isEmpty then buf :: segments [l] rest
    else segments (buf ++ [l]) rest

theorem mapMOpt_cons {α β} (f : α → Option β) (a : α) (l : List α) :
    mapMOpt f (a :: l) = (match f a with | none => none | some b => (mapMOpt f l).map (b :: ·)) := rfl

/-- the loop = parse every segment, in order; the first failing segment fails the read -/
theorem readLoop_segments (acc : List ScanIndex) (buf : List Str) (ls : List Str) :
    readLoop acc buf ls = (mapMOpt toIndex (segments buf ls)).map (acc ++ ·) := by
  induction ls generalizing acc buf with
  | nil =>
    simp only [readLoop, segments]
    split
    · simp [mapMOpt]
    · simp only [mapMOpt_cons, mapMOpt]
      cases toIndex buf <;> simp
  | cons l rest ih =>
    simp only [readLoop, segments]
    split
    · exact ih acc buf
    · split
      · simp only [mapMOpt_cons]
        cases h : toIndex buf with
        | none => simp
        | some i =>
          simp only [ih (acc ++ [i]) [l]]
          cases mapMOpt toIndex (segments [l] rest) <;> simp
      · exact ih acc (buf ++ [l])

/-- the segments, concatenated, are exactly the non-blank lines in input order: no line is
    lost, duplicated or moved to a neighbouring record -/
theorem segments_flatten (buf : List Str) (ls : List Str) :
    (segments buf ls).flatten = buf ++ ls.filter (!·.isEmpty) := by
  induction ls generalizing buf with
  | nil => simp only [segments]; split <;> simp_all
  | cons l rest ih =>
    simp only [segments]
    split
    · rename_i h; simp [ih, h]
    · rename_i h
      have hl : (!l.isEmpty) = true := by simpa using h
      split
      · simp [ih, List.filter_cons, hl]
      · simp [ih, List.filter_cons, hl]

/-- every segment after the first begins with a `PKGNAME=` line (a new record starts exactly
    there), and a segment never contains a second `PKGNAME=` line -/
theorem segments_shape (buf : List Str) (ls : List Str)
    (hb : ∀ l ∈ buf.drop 1, startsWithPkgname l = false) :
    ∀ seg ∈ segments buf ls, ∀ l ∈ seg.drop 1, startsWithPkgname l = false := by
  induction ls generalizing buf with
  | nil =>
    intro seg hs
    simp only [segments] at hs
    split at hs
    · simp at hs
    · simp only [List.mem_singleton] at hs; subst hs; exact hb
  | cons l rest ih =>
    intro seg hs
    simp only [segments] at hs
    split at hs
    · exact ih buf hb seg hs
    · split at hs
      · simp only [List.mem_cons] at hs
        rcases hs with rfl | hs
        · exact hb
        · exact ih [l] (by simp) seg hs
      · rename_i hne hc
        apply ih (buf ++ [l]) _ seg hs
        intro x hx
        cases buf with
        | nil => simp at hx
        | cons b0 br =>
          simp only [List.cons_append, List.drop_succ_cons, List.drop_zero, List.mem_append,
            List.mem_singleton] at hx
          rcases hx with hx | rfl
          · exact hb x (by simpa using hx)
          · simp only [Bool.and_eq_true, Bool.not_eq_true', List.isEmpty_cons, not_and,
              Bool.not_eq_false] at hc
            cases h : startsWithPkgname x with
            | false => rfl
            | true => exact absurd (hc h) (by simp)

theorem segments_heads (buf : List Str) (ls : List Str) :
    ∀ seg ∈ (segments buf ls).drop 1, ∃ l rest, seg = l :: rest ∧ startsWithPkgname l = true := by
  induction ls generalizing buf with
  | nil => intro seg hs; simp only [segments] at hs; split at hs <;> simp at hs
  | cons l rest ih =>
    intro seg hs
    simp only [segments] at hs
    split at hs
    · exact ih buf seg hs
    · split at hs
      · rename_i hne hc
        simp only [List.drop_succ_cons, List.drop_zero] at hs
        -- segments [l] rest: its first segment starts with l, the others by induction
        have key : ∀ (b : List Str) (r : List Str), b ≠ [] → ∀ s ∈ segments b r,
            (∃ x xs, s = x :: xs ∧ (s = b ∨ True)) := by
          intro b r hb s _; cases s with
          | nil => exact ⟨default, [], by
              exfalso
              -- a segment is never empty
              have : ∀ (b : List Str) (r : List Str), b ≠ [] → ∀ s ∈ segments b r, s ≠ [] := by
                intro b r
                induction r generalizing b with
                | nil => intro hb s hs; simp only [segments] at hs; split at hs
                         · simp at hs
                         · simp only [List.mem_singleton] at hs; subst hs; exact hb
                | cons y r ihr =>
                  intro hb s hs
                  simp only [segments] at hs
                  split at hs
                  · exact ihr b hb s hs
                  · split at hs
                    · simp only [List.mem_cons] at hs
                      rcases hs with rfl | hs
                      · exact hb
                      · exact ihr [y] (by simp) s hs
                    · exact ihr (b ++ [y]) (by simp) s hs
              exact this b r hb [] ‹_› rfl, Or.inr trivial⟩
          | cons x xs => exact ⟨x, xs, rfl, Or.inr trivial⟩
        -- position of seg in segments [l] rest
        match hseg : segments [l] rest with
        | [] => rw [hseg] at hs; simp at hs
        | s0 :: more =>
          rw [hseg] at hs
          simp only [List.mem_cons] at hs
          rcases hs with rfl | hs
          · -- first segment of segments [l] rest starts with l
            have : ∀ (b : List Str) (r : List Str) (x : Str) (xs : List Str), b = x :: xs →
                ∀ s0 more, segments b r = s0 :: more → ∃ ys, s0 = x :: ys := by
              intro b r
              induction r generalizing b with
              | nil =>
                intro x xs hb s0 more h
                simp only [segments, hb, List.isEmpty_cons, Bool.false_eq_true, if_false] at h
                injection h with h1 _; exact ⟨xs, h1.symm⟩
              | cons y r ihr =>
                intro x xs hb s0 more h
                simp only [segments] at h
                split at h
                · exact ihr b x xs hb s0 more h
                · split at h
                  · injection h with h1 _; exact ⟨xs, by rw [← h1, hb]⟩
                  · exact ihr (b ++ [y]) x (xs ++ [y]) (by rw [hb]; rfl) s0 more h
            obtain ⟨ys, e⟩ := this [l] rest l [] rfl seg more hseg
            simp only [Bool.and_eq_true] at hc
            exact ⟨l, ys, e, hc.1⟩
          · have := ih [l] seg (by rw [hseg]; simpa using hs)
            exact this
      · exact ih (buf ++ [l]) seg hs

end L

namespace L
open M

theorem splitOnceEq_spec' (l : Str) :
    splitOnceEq l = if l.contains '=' then some (l.takeWhile (· != '='), (l.dropWhile (· != '=')).drop 1) else none := by
  induction l with
  | nil => simp [splitOnceEq]
  | cons c r ih =>
    by_cases hc : c = '='
    · subst hc; simp [splitOnceEq, List.takeWhile_cons, List.dropWhile_cons]
    · have h1 : (c == '=') = false := by simpa using hc
      have h2 : (c != '=') = true := by simpa using hc
      have h3 : (c :: r).contains '=' = r.contains '=' := by
        simp only [List.contains_cons]
        have : (('=' : Char) == c) = false := by simpa using fun e => hc e.symm
        simp [this]
      simp only [splitOnceEq, h1, Bool.false_eq_true, if_false, ih, h3, List.takeWhile_cons, List.dropWhile_cons, h2,
        if_true]
      split <;> simp

theorem find_reverse_eq_getLast {α} (l : List α) (p : α → Bool) :
    l.reverse.find? p = (l.filter p).getLast? := by
  induction l with
  | nil => rfl
  | cons a l ih =>
    rw [List.reverse_cons, List.find?_append, ih, List.filter_cons]
    by_cases ha : p a = true
    · simp only [ha, if_true, List.find?_cons, List.find?_nil]
      cases hf : l.filter p with
      | nil => simp
      | cons b t =>
        cases h : (b :: t).getLast? with
        | none => simp at h
        | some x => simp [h]
    · have : p a = false := by simpa using ha
      simp only [this, Bool.false_eq_true, if_false, List.find?_cons, List.find?_nil, Option.or_none]

theorem filterMap_filter_map {α β γ} (l : List α) (f : α → Option β) (p : β → Bool) (g : β → γ) :
    ((l.filterMap f).filter p).map g =
      l.filterMap (fun a => (f a).bind fun b => if p b then some (g b) else none) := by
  induction l with
  | nil => rfl
  | cons a l ih =>
    simp only [List.filterMap_cons]
    cases hf : f a with
    | none => simp only [Option.bind_none, ih]
    | some b =>
      simp only [Option.bind_some, List.filter_cons]
      by_cases hp : p b = true
      · simp only [hp, if_true, List.map_cons, ih]
      · have : p b = false := by simpa using hp
        simp only [this, Bool.false_eq_true, if_false, ih]

theorem filterMap_congr'' {α β} (l : List α) (f g : α → Option β) (h : ∀ a, f a = g a) :
    l.filterMap f = l.filterMap g := by
  have : f = g := funext h
  rw [this]

/-- **typed extraction of a scalar field**: what the deserialiser's map returns for a key is the
    trimmed value of the last `key=value` line of the block whose trimmed key is that key -/
theorem kv_get_eq_scalar (blk : List Str) (key : String) :
    (keyValues blk).get key = S.scalar blk key := by
  unfold KV.get S.scalar S.valuesOf keyValues
  rw [find_reverse_eq_getLast, ← List.getLast?_map, filterMap_filter_map]
  congr 1
  apply filterMap_congr''
  intro l
  rw [splitOnceEq_spec']
  by_cases hc : l.contains '=' = true
  · simp only [hc, if_true, Option.map_some, Option.bind_some, Bool.not_true, Bool.false_eq_true, if_false]
  · have : l.contains '=' = false := by simpa using hc
    simp only [this, Bool.false_eq_true, if_false, Option.map_none, Option.bind_none, Bool.not_false, if_true]

end L

namespace L
open M

/-- `ws` are exactly the maximal blank-free runs of `s`, in order: `s` is a blank gap, a word, a
    gap, a word, …, and after each word comes the end or a blank -/
inductive Words : Str → List Str → Prop
  | nil (g : Str) : (∀ c ∈ g, isWhite c = true) → Words g []
  | cons (g w rest : Str) (ws : List Str) : (∀ c ∈ g, isWhite c = true) → w ≠ [] →
      (∀ c ∈ w, isWhite c = false) → (rest = [] ∨ ∃ c t, rest = c :: t ∧ isWhite c = true) →
      Words rest ws → Words (g ++ w ++ rest) (w :: ws)

theorem Words_white_cons (c : Char) (r : Str) (ws : List Str) (hc : isWhite c = true) (h : Words r ws) :
    Words (c :: r) ws := by
  cases h with
  | nil _ hg =>
    exact .nil (c :: r) (by intro x hx; simp only [List.mem_cons] at hx; rcases hx with rfl | hx; exact hc; exact hg x hx)
  | cons g w rest ws' hg hw hnw hr hrest =>
    have : c :: (g ++ w ++ rest) = (c :: g) ++ w ++ rest := by simp
    rw [this]
    exact .cons (c :: g) w rest ws'
      (by intro x hx; simp only [List.mem_cons] at hx; rcases hx with rfl | hx; exact hc; exact hg x hx) hw hnw hr hrest

theorem sw_go_words : ∀ (rest cur : Str), (∀ c ∈ cur, isWhite c = false) →
    Words (cur.reverse ++ rest) (splitWhitespace.go cur rest) := by
  intro rest
  induction rest with
  | nil =>
    intro cur hcur
    by_cases hc : cur.isEmpty = true
    · have : cur = [] := by simpa using hc
      subst this
      simp only [splitWhitespace.go, List.isEmpty_nil, if_true, List.reverse_nil, List.append_nil]
      exact .nil [] (by simp)
    · have hc' : cur.isEmpty = false := by simpa using hc
      simp only [splitWhitespace.go, hc', Bool.false_eq_true, if_false, List.append_nil]
      have := Words.cons [] cur.reverse [] [] (by simp) (by simpa using hc) (by simpa using hcur) (Or.inl rfl)
        (.nil [] (by simp))
      simpa using this
  | cons c r ih =>
    intro cur hcur
    by_cases hw : isWhite c = true
    · by_cases hc : cur.isEmpty = true
      · have : cur = [] := by simpa using hc
        subst this
        have e : splitWhitespace.go [] (c :: r) = splitWhitespace.go [] r := by
          rw [splitWhitespace.go]; simp [hw]
        rw [e]
        simp only [List.reverse_nil, List.nil_append]
        have := ih [] (by simp)
        simp only [List.reverse_nil, List.nil_append] at this
        exact Words_white_cons c r _ hw this
      · have hc' : cur.isEmpty = false := by simpa using hc
        have e : splitWhitespace.go cur (c :: r) = cur.reverse :: splitWhitespace.go [] r := by
          rw [splitWhitespace.go]; simp [hw, hc']
        rw [e]
        have ih' := ih [] (by simp)
        simp only [List.reverse_nil, List.nil_append] at ih'
        have := Words.cons [] cur.reverse (c :: r) _ (by simp) (by simpa using hc) (by simpa using hcur)
          (Or.inr ⟨c, r, rfl, hw⟩) (Words_white_cons c r _ hw ih')
        simpa using this
    · have hw' : isWhite c = false := by simpa using hw
      have e : splitWhitespace.go cur (c :: r) = splitWhitespace.go (c :: cur) r := by
        rw [splitWhitespace.go]; simp [hw']
      rw [e]
      have := ih (c :: cur) (by intro x hx; simp only [List.mem_cons] at hx; rcases hx with rfl | hx; exact hw'; exact hcur x hx)
      simpa using this

/-- `split_whitespace` returns exactly the maximal blank-free runs, in order -/
theorem splitWhitespace_words (s : Str) : Words s (splitWhitespace s) := by
  have := sw_go_words s [] (by simp)
  simpa [splitWhitespace] using this


theorem takeWhile_prefix {α} (p : α → Bool) (g x : List α) (hg : ∀ c ∈ g, p c = true)
    (hx : x = [] ∨ ∃ c t, x = c :: t ∧ p c = false) : (g ++ x).takeWhile p = g := by
  induction g with
  | nil =>
    rcases hx with rfl | ⟨c, t, rfl, hc⟩
    · rfl
    · simp [List.takeWhile_cons, hc]
  | cons a g ih =>
    have ha := hg a (by simp)
    simp only [List.cons_append, List.takeWhile_cons, ha, if_true]
    rw [ih fun c hc => hg c (by simp [hc])]

theorem split_unique (g w rest g' w' rest' : Str)
    (hg : ∀ c ∈ g, isWhite c = true) (hg' : ∀ c ∈ g', isWhite c = true)
    (hw : w ≠ []) (hw' : w' ≠ []) (hnw : ∀ c ∈ w, isWhite c = false) (hnw' : ∀ c ∈ w', isWhite c = false)
    (hr : rest = [] ∨ ∃ c t, rest = c :: t ∧ isWhite c = true)
    (hr' : rest' = [] ∨ ∃ c t, rest' = c :: t ∧ isWhite c = true)
    (e : g ++ w ++ rest = g' ++ w' ++ rest') : g = g' ∧ w = w' ∧ rest = rest' := by
  have head_nonwhite : ∀ (w rest : Str), w ≠ [] → (∀ c ∈ w, isWhite c = false) →
      (w ++ rest = [] ∨ ∃ c t, w ++ rest = c :: t ∧ isWhite c = false) := by
    intro w rest hw hnw
    cases w with
    | nil => exact absurd rfl hw
    | cons c t => exact Or.inr ⟨c, t ++ rest, rfl, hnw c (by simp)⟩
  have e1 : g = g' := by
    have a := takeWhile_prefix isWhite g (w ++ rest) hg (head_nonwhite w rest hw hnw)
    have b := takeWhile_prefix isWhite g' (w' ++ rest') hg' (head_nonwhite w' rest' hw' hnw')
    rw [List.append_assoc] at e
    rw [List.append_assoc] at e
    rw [← a, ← b, e]
  subst e1
  rw [List.append_assoc, List.append_assoc] at e
  have e2 := List.append_cancel_left e
  have conv : ∀ r : Str, (r = [] ∨ ∃ c t, r = c :: t ∧ isWhite c = true) →
      (r = [] ∨ ∃ c t, r = c :: t ∧ (fun x => !isWhite x) c = false) := by
    intro r h
    rcases h with h | ⟨c, t, h, hc⟩
    · exact Or.inl h
    · exact Or.inr ⟨c, t, h, by simp [hc]⟩
  have a := takeWhile_prefix (fun x => !isWhite x) w rest (by intro c hc; simp [hnw c hc]) (conv rest hr)
  have b := takeWhile_prefix (fun x => !isWhite x) w' rest' (by intro c hc; simp [hnw' c hc]) (conv rest' hr')
  have e3 : w = w' := by rw [← a, ← b, e2]
  subst e3
  exact ⟨rfl, rfl, List.append_cancel_left e2⟩

/-- the characterisation determines the word list -/
theorem Words_unique (s : Str) (a b : List Str) (h1 : Words s a) (h2 : Words s b) : a = b := by
  induction h1 generalizing b with
  | nil g hg =>
    cases h2 with
    | nil _ _ => rfl
    | cons g' w' rest' ws' hg' hw' hnw' hr' _ =>
      exfalso
      cases w' with
      | nil => exact hw' rfl
      | cons c t =>
        have : isWhite c = true := hg c (by simp)
        rw [hnw' c (by simp)] at this
        cases this
  | cons g w rest ws hg hw hnw hr hrest ih =>
    generalize hs : g ++ w ++ rest = s' at h2
    cases h2 with
    | nil g2 hg2 =>
      exfalso
      cases w with
      | nil => exact hw rfl
      | cons c t =>
        have : isWhite c = true := hg2 c (by rw [← hs]; simp)
        rw [hnw c (by simp)] at this
        cases this
    | cons g' w' rest' ws' hg' hw' hnw' hr' hrest' =>
      obtain ⟨e1, e2, e3⟩ := split_unique g w rest g' w' rest' hg hg' hw hw' hnw hnw' hr hr' hs
      subst e1 e2 e3
      rw [ih ws' hrest']


theorem dropWhile_spec {α} (p : α → Bool) (l : List α) :
    l = l.takeWhile p ++ l.dropWhile p ∧ (∀ c ∈ l.takeWhile p, p c = true) ∧
      ((l.dropWhile p).head?.map p ≠ some true) := by
  refine ⟨(List.takeWhile_append_dropWhile).symm, ?_, ?_⟩
  · intro c hc
    induction l with
    | nil => simp at hc
    | cons a l ih =>
      simp only [List.takeWhile_cons] at hc
      split at hc
      · rename_i ha
        simp only [List.mem_cons] at hc
        rcases hc with rfl | hc
        · exact ha
        · exact ih hc
      · simp at hc
  · induction l with
    | nil => simp
    | cons a l ih =>
      simp only [List.dropWhile_cons]
      split
      · exact ih
      · rename_i h; simp [h]

/-- `str::trim`: the text between the leading and the trailing blanks — nothing else is removed,
    and what remains neither starts nor ends with a blank -/
theorem trim_spec (s : Str) :
    ∃ g1 g2, s = g1 ++ trim s ++ g2 ∧ (∀ c ∈ g1, isWhite c = true) ∧ (∀ c ∈ g2, isWhite c = true) ∧
      (trim s).head?.map isWhite ≠ some true ∧ (trim s).getLast?.map isWhite ≠ some true := by
  unfold trim
  obtain ⟨a1, a2, a3⟩ := dropWhile_spec isWhite s
  obtain ⟨b1, b2, b3⟩ := dropWhile_spec isWhite (s.dropWhile isWhite).reverse
  generalize hm : (s.dropWhile isWhite) = m at *
  refine ⟨s.takeWhile isWhite, (m.reverse.takeWhile isWhite).reverse, ?_, a2, ?_, ?_, ?_⟩
  · have hmr : m = (m.reverse.dropWhile isWhite).reverse ++ (m.reverse.takeWhile isWhite).reverse := by
      have e := congrArg List.reverse b1
      rw [List.reverse_reverse, List.reverse_append] at e
      exact e
    rw [List.append_assoc, ← hmr]
    exact a1
  · intro c hc; exact b2 c (by simpa using hc)
  · -- the head of the trimmed text is the head of m (if any text remains)
    intro h
    cases hd : (m.reverse.dropWhile isWhite).reverse with
    | nil => simp [hd] at h
    | cons x t =>
      rw [hd] at h
      have hx : isWhite x = true := by simpa using h
      have e := congrArg List.reverse b1
      rw [List.reverse_reverse, List.reverse_append, hd] at e
      have hh : m.head? = some x := by rw [e]; rfl
      rw [hh] at a3
      simp [hx] at a3
  · intro h
    rw [List.getLast?_reverse] at h
    exact b3 h

end L
