/-
Lemmas/Stream.lean — SummaryStream::write on a well-formed stream, for every chunking.
Part 1: the separator search (`rfind("\n\n")`) and the record split on streams built from
records that contain no blank line.
-/
import PkgsrcVerif.Lemmas.Utf8
import PkgsrcVerif.Model.Summary
namespace L
open M

/-- the text starts with the separator "\n\n" -/
def startsNN : Bytes → Bool
  | 10 :: 10 :: _ => true
  | _ => false

theorem startsNN_false_of (b : Bytes) (hno : ∀ t, b ≠ 10 :: 10 :: t) : startsNN b = false := by
  unfold startsNN
  split
  · rename_i t; exact absurd rfl (hno t)
  · rfl

theorem startsNN_true_iff (b : Bytes) : startsNN b = true ↔ ∃ t, b = 10 :: 10 :: t := by
  constructor
  · intro h
    unfold startsNN at h
    split at h
    · rename_i t; exact ⟨t, rfl⟩
    · cases h
  · rintro ⟨t, rfl⟩; rfl

theorem startsNN_cons (c : UInt8) (rest : Bytes) : startsNN (c :: rest) = (c == 10 && rest.head? == some 10) := by
  cases hs : startsNN (c :: rest) with
  | true =>
    obtain ⟨t, ht⟩ := (startsNN_true_iff _).mp hs
    injection ht with e1 e2; subst e1 e2; rfl
  | false =>
    symm
    rw [Bool.and_eq_false_iff]
    by_cases hc : c = 10
    · right
      subst hc
      cases rest with
      | nil => rfl
      | cons d r =>
        by_cases hd : d = 10
        · subst hd; simp [startsNN] at hs
        · simpa using hd
    · left; simpa using hc

theorem lastSepEnd_cons (c : UInt8) (rest : Bytes) :
    lastSepEnd (c :: rest) = match lastSepEnd rest with
      | some k => some (k + 1)
      | none => if startsNN (c :: rest) then some 2 else none := by
  conv => lhs; unfold lastSepEnd
  cases lastSepEnd rest with
  | some k => rfl
  | none =>
    simp only
    split
    · rfl
    · rename_i hno
      have : startsNN (c :: rest) = false := by
        apply startsNN_false_of
        intro t ht
        injection ht with e1 e2
        exact hno t e1 e2
      simp [this]

theorem splitSep2_NN (t : Bytes) : splitSep2 (10 :: 10 :: t) = [] :: splitSep2 t := by
  conv => lhs; unfold splitSep2
  rfl

theorem splitSep2_other (c : UInt8) (rest : Bytes) (h : startsNN (c :: rest) = false) :
    splitSep2 (c :: rest) = match splitSep2 rest with
        | [] => [[c]]
        | seg :: segs => (c :: seg) :: segs := by
  conv => lhs; unfold splitSep2
  split
  · rename_i heq; cases heq
  · rename_i heq; injection heq with e1 e2; subst e1 e2
    simp [startsNN] at h
  · rename_i heq; injection heq with e1 e2; subst e1 e2; rfl


/-! ### the last separator -/

theorem lastSepEnd_nil : lastSepEnd [] = none := by unfold lastSepEnd; rfl

theorem lastSepEnd_le (x : Bytes) (k : Nat) (h : lastSepEnd x = some k) : k ≤ x.length := by
  induction x generalizing k with
  | nil => simp [lastSepEnd_nil] at h
  | cons c rest ih =>
    rw [lastSepEnd_cons] at h
    cases hr : lastSepEnd rest with
    | some k' =>
      simp only [hr, Option.some.injEq] at h
      have := ih k' hr
      simp only [List.length_cons]; omega
    | none =>
      simp only [hr] at h
      split at h
      · rename_i hs
        obtain ⟨t, ht⟩ := (startsNN_true_iff _).mp hs
        injection h with h; subst h
        rw [ht]; simp
      · cases h

/-- a separator further right wins -/
theorem lastSepEnd_append_some (r z : Bytes) (k : Nat) (h : lastSepEnd z = some k) :
    lastSepEnd (r ++ z) = some (r.length + k) := by
  induction r with
  | nil => simpa using h
  | cons c r ih =>
    rw [List.cons_append, lastSepEnd_cons, ih]
    simp only [List.length_cons]
    congr 1; omega

theorem lastSepEnd_no_nl (y : Bytes) (h : (10 : UInt8) ∉ y) : lastSepEnd y = none := by
  induction y with
  | nil => exact lastSepEnd_nil
  | cons c rest ih =>
    simp only [List.mem_cons, not_or] at h
    rw [lastSepEnd_cons, ih h.2]
    have : startsNN (c :: rest) = false := by
      rw [startsNN_cons]
      have : (c == 10) = false := by simpa using fun e => h.1 e.symm
      simp [this]
    simp [this]

/-- bytes without '\n' at the end do not change the search -/
theorem lastSepEnd_append_clean (x y : Bytes) (h : (10 : UInt8) ∉ y) : lastSepEnd (x ++ y) = lastSepEnd x := by
  induction x with
  | nil => simpa [lastSepEnd_nil] using lastSepEnd_no_nl y h
  | cons c x ih =>
    rw [List.cons_append, lastSepEnd_cons, lastSepEnd_cons, ih]
    have : startsNN (c :: (x ++ y)) = startsNN (c :: x) := by
      rw [startsNN_cons, startsNN_cons]
      cases x with
      | nil =>
        cases y with
        | nil => rfl
        | cons d y' =>
          simp only [List.mem_cons, not_or] at h
          have : (d == 10) = false := by simpa using fun e => h.1 e.symm
          simp [this]
      | cons d x' => rfl
    rw [this]

theorem lastSepEnd_NN (y : Bytes) (hy : y.head? ≠ some 10) :
    lastSepEnd (10 :: 10 :: y) = match lastSepEnd y with
      | some k => some (k + 2)
      | none => some 2 := by
  have h1 : lastSepEnd (10 :: y) = (lastSepEnd y).map (· + 1) := by
    rw [lastSepEnd_cons]
    have : startsNN (10 :: y) = false := by
      rw [startsNN_cons]
      cases y with
      | nil => rfl
      | cons d y' =>
        have : d ≠ 10 := by simpa using hy
        simp [this]
    cases lastSepEnd y <;> simp [this]
  rw [lastSepEnd_cons, h1]
  cases lastSepEnd y with
  | some k => rfl
  | none => simp [startsNN]

/-- no separator in a text ⇒ none in any prefix of it -/
theorem lastSepEnd_prefix_none (p q : Bytes) (h : lastSepEnd (p ++ q) = none) : lastSepEnd p = none := by
  induction p with
  | nil => exact lastSepEnd_nil
  | cons c p ih =>
    rw [List.cons_append, lastSepEnd_cons] at h
    rw [lastSepEnd_cons]
    cases hr : lastSepEnd (p ++ q) with
    | some k => simp [hr] at h
    | none =>
      simp only [hr] at h
      rw [ih hr]
      have hs : startsNN (c :: (p ++ q)) = false := by
        cases hh : startsNN (c :: (p ++ q)) with
        | false => rfl
        | true => simp [hh] at h
      have : startsNN (c :: p) = false := by
        cases hh : startsNN (c :: p) with
        | false => rfl
        | true =>
          obtain ⟨t, ht⟩ := (startsNN_true_iff _).mp hh
          injection ht with e1 e2; subst e1 e2
          simp [startsNN] at hs
      simp [this]

/-- a record without blank line that does not end in '\n', followed by one '\n', still has
    no separator -/
theorem lastSepEnd_snoc_nl (r : Bytes) (h : lastSepEnd r = none) (hl : r.getLast? ≠ some 10) :
    lastSepEnd (r ++ [10]) = none := by
  induction r with
  | nil => simp [lastSepEnd_cons, lastSepEnd_nil, startsNN]
  | cons c r ih =>
    rw [lastSepEnd_cons] at h
    cases hr : lastSepEnd r with
    | some k => simp [hr] at h
    | none =>
      simp only [hr] at h
      have hs : startsNN (c :: r) = false := by
        cases hh : startsNN (c :: r) with
        | false => rfl
        | true => simp [hh] at h
      cases r with
      | nil =>
        have hc : c ≠ 10 := by simpa using hl
        have : (c == 10) = false := by simpa using hc
        simp [lastSepEnd_cons, lastSepEnd_nil, startsNN_cons, this]
      | cons d r' =>
        have hl' : (d :: r').getLast? ≠ some 10 := by
          simpa [List.getLast?_cons_cons] using hl
        rw [List.cons_append, lastSepEnd_cons, ih hr hl']
        have : startsNN (c :: d :: (r' ++ [10])) = false := by
          rw [startsNN_cons] at hs ⊢
          simpa using hs
        simp [this]


/-! ### records -/

/-- a record body without blank line: non-empty, neither starting nor ending with '\n', no
    "\n\n" inside -/
structure Clean (r : Bytes) : Prop where
  ne : r ≠ []
  head : r.head? ≠ some 10
  last : r.getLast? ≠ some 10
  nosep : lastSepEnd r = none

/-- the stream text of a list of records: each followed by a blank line -/
def T (rs : List Bytes) : Bytes := rs.flatMap (· ++ [10, 10])

theorem T_nil : T [] = [] := rfl
theorem T_cons (r : Bytes) (rs : List Bytes) : T (r :: rs) = r ++ 10 :: 10 :: T rs := by
  simp [T]
theorem T_append (a b : List Bytes) : T (a ++ b) = T a ++ T b := by simp [T]

theorem T_head (rs : List Bytes) (h : ∀ r ∈ rs, Clean r) : (T rs).head? ≠ some 10 := by
  cases rs with
  | nil => simp [T]
  | cons r rs =>
    have hc := h r (by simp)
    rw [T_cons]
    cases r with
    | nil => exact absurd rfl hc.ne
    | cons c r' => simpa using hc.head

/-- a record followed by the separator splits off as one piece -/
theorem splitSep2_record (r y : Bytes) (hne : r ≠ []) (hl : r.getLast? ≠ some 10) (hs : lastSepEnd r = none) :
    splitSep2 (r ++ 10 :: 10 :: y) = r :: splitSep2 y := by
  induction r with
  | nil => exact absurd rfl hne
  | cons c r ih =>
    rw [lastSepEnd_cons] at hs
    cases hr : lastSepEnd r with
    | some k => simp [hr] at hs
    | none =>
      simp only [hr] at hs
      have hst : startsNN (c :: r) = false := by
        cases hh : startsNN (c :: r) with
        | false => rfl
        | true => simp [hh] at hs
      cases r with
      | nil =>
        have hc : c ≠ 10 := by simpa using hl
        have : startsNN (c :: 10 :: 10 :: y) = false := by
          rw [startsNN_cons]; simp [hc]
        rw [List.cons_append, List.nil_append, splitSep2_other _ _ this, splitSep2_NN]
      | cons d r' =>
        have hl' : (d :: r').getLast? ≠ some 10 := by
          simpa [List.getLast?_cons_cons] using hl
        have := ih (by simp) hl' hr
        have hst' : startsNN (c :: ((d :: r') ++ 10 :: 10 :: y)) = false := by
          rw [startsNN_cons] at hst ⊢
          simpa using hst
        rw [List.cons_append, splitSep2_other _ _ hst', this]

theorem splitSep2_T (rs : List Bytes) (h : ∀ r ∈ rs, Clean r) : splitSep2 (T rs) = rs ++ [[]] := by
  induction rs with
  | nil => simp [T, splitSep2]
  | cons r rs ih =>
    have hc := h r (by simp)
    rw [T_cons, splitSep2_record r _ hc.ne hc.last hc.nosep, ih fun x hx => h x (by simp [hx])]
    rfl

theorem splitTerminator_T (rs : List Bytes) (h : ∀ r ∈ rs, Clean r) : splitTerminator (T rs) = rs := by
  unfold splitTerminator
  simp only [splitSep2_T rs h]
  simp

/-- the last separator of  records ++ (a piece with no separator)  is the end of the records -/
theorem lastSepEnd_T (fin : List Bytes) (b : Bytes) (h : ∀ r ∈ fin, Clean r) (hne : fin ≠ [])
    (hb : lastSepEnd b = none) (hbh : b.head? ≠ some 10) :
    lastSepEnd (T fin ++ b) = some (T fin).length := by
  induction fin with
  | nil => exact absurd rfl hne
  | cons r fin ih =>
    have hc := h r (by simp)
    rw [T_cons]
    simp only [List.append_assoc, List.cons_append]
    have hy : (T fin ++ b).head? ≠ some 10 := by
      cases fin with
      | nil => simpa [T] using hbh
      | cons r2 fin2 =>
        have := T_head (r2 :: fin2) (fun x hx => h x (by simp [hx]))
        cases hT : T (r2 :: fin2) with
        | nil => rw [T_cons] at hT; simp at hT
        | cons e es => rw [hT] at this; simpa using this
    have hnn : lastSepEnd (10 :: 10 :: (T fin ++ b)) = some (2 + (T fin).length) := by
      rw [lastSepEnd_NN _ hy]
      cases fin with
      | nil => simp [T, hb]
      | cons r2 fin2 =>
        rw [ih (fun x hx => h x (by simp [hx])) (by simp)]
        simp only [Option.some.injEq]; omega
    rw [lastSepEnd_append_some r _ _ hnn]
    simp only [List.length_append, List.length_cons, Option.some.injEq]
    omega

/-- a strict prefix of `record ++ "\n\n"` has no separator and does not start with '\n' -/
theorem strict_prefix_clean (r b rest : Bytes) (hc : Clean r) (h : b ++ rest = r ++ [10, 10])
    (hlen : b.length < r.length + 2) : lastSepEnd b = none ∧ b.head? ≠ some 10 := by
  have hr1 : lastSepEnd (r ++ [10]) = none := lastSepEnd_snoc_nl r hc.nosep hc.last
  -- b is a prefix of r ++ [10]
  have hb : b = (r ++ [10]).take b.length := by
    have h1 : (b ++ rest).take b.length = b := by simp
    have h2 : (r ++ [10, 10]).take b.length = (r ++ [10]).take b.length := by
      have e : r ++ [10, 10] = (r ++ [10]) ++ [10] := by simp
      rw [e, List.take_append_of_le_length (by simp; omega)]
    rw [← h1, h]; rw [h2]; simp
  constructor
  · apply lastSepEnd_prefix_none b ((r ++ [10]).drop b.length)
    have : b ++ (r ++ [10]).drop b.length = r ++ [10] := by
      conv => lhs; lhs; rw [hb]
      exact List.take_append_drop _ _
    rw [this]; exact hr1
  · cases r with
    | nil => exact absurd rfl hc.ne
    | cons c r' =>
      rw [hb]
      cases hbl : b.length with
      | zero => simp
      | succ n => simpa using hc.head


/-! ### a buffer that is a prefix of the remaining stream -/

/-- `buf ++ rest = T todo`: buf is some complete records followed by a strict prefix of the next -/
theorem decompose (todo : List Bytes) (buf rest : Bytes) (h : buf ++ rest = T todo) :
    ∃ fin todo2 b, todo = fin ++ todo2 ∧ buf = T fin ++ b ∧ b ++ rest = T todo2 ∧
      (∀ r t, todo2 = r :: t → b.length < r.length + 2) := by
  induction todo generalizing buf with
  | nil =>
    simp only [T_nil, List.append_eq_nil_iff] at h
    exact ⟨[], [], [], rfl, by simp [h.1, T], by simp [h.2, T], by intro r t e; cases e⟩
  | cons r t ih =>
    by_cases hlen : buf.length < r.length + 2
    · exact ⟨[], r :: t, buf, rfl, by simp [T], h, by intro r' t' e; injection e with e1 e2; subst e1; exact hlen⟩
    · have hn : (r ++ [10, 10]).length ≤ buf.length := by simp; omega
      have e : T (r :: t) = (r ++ [10, 10]) ++ T t := by rw [T_cons]; simp
      rw [e] at h
      have h1 : buf.take (r ++ [10, 10]).length = r ++ [10, 10] := by
        have := congrArg (List.take (r ++ [10, 10]).length) h
        rw [List.take_append_of_le_length hn, List.take_left' rfl] at this
        exact this
      have h2 : buf.drop (r ++ [10, 10]).length ++ rest = T t := by
        have := congrArg (List.drop (r ++ [10, 10]).length) h
        rw [List.drop_append_of_le_length hn, List.drop_left' rfl] at this
        exact this
      obtain ⟨fin, todo2, b, e1, e2, e3, e4⟩ := ih _ h2
      refine ⟨r :: fin, todo2, b, by simp [e1], ?_, e3, e4⟩
      rw [T_cons]
      have : buf = buf.take (r ++ [10, 10]).length ++ buf.drop (r ++ [10, 10]).length := by simp
      rw [this, h1, e2]; simp

/-! ### parsing the records -/

/-- the entry a record parses to (only used for records that do parse) -/
def entryOf (r : Bytes) : Summary :=
  match Summary.parse r with
  | .ok s => s
  | .error _ => Summary.empty

theorem parseRecords_all_ok (acc : List Summary) (rs : List Bytes)
    (h : ∀ r ∈ rs, ∃ s, Summary.parse r = .ok s) :
    parseRecords acc rs = (acc ++ rs.map entryOf, true) := by
  induction rs generalizing acc with
  | nil => simp [parseRecords]
  | cons r rs ih =>
    obtain ⟨s, hs⟩ := h r (by simp)
    simp only [parseRecords, hs]
    rw [ih _ fun x hx => h x (by simp [hx])]
    simp [entryOf, hs]

/-! ### one write -/

/-- a record of a well-formed stream -/
structure GoodRec (r : Bytes) : Prop where
  utf8 : Complete r
  parses : ∃ s, Summary.parse r = .ok s
  clean : Clean r

theorem complete_T (rs : List Bytes) (h : ∀ r ∈ rs, GoodRec r) : Complete (T rs) := by
  unfold T
  rw [List.flatMap_def]
  apply complete_flatten
  intro l hl
  simp only [List.mem_map] at hl
  obtain ⟨r, hr, rfl⟩ := hl
  exact complete_append _ _ (h r hr).utf8 (complete_ascii _ (by decide))

theorem write_def (st : Stream) (input : Bytes) :
    st.write input =
      match lastSepEnd ((st.buf ++ input).take (utf8 (st.buf ++ input)).1) with
      | none => ({ st with buf := st.buf ++ input }, (utf8 (st.buf ++ input)).2 != .invalid)
      | some k =>
        if !(parseRecords st.entries (splitTerminator
            (((st.buf ++ input).take (utf8 (st.buf ++ input)).1).take k))).2 then
          ({ buf := st.buf ++ input, entries := (parseRecords st.entries (splitTerminator
            (((st.buf ++ input).take (utf8 (st.buf ++ input)).1).take k))).1 }, false)
        else ({ buf := (st.buf ++ input).drop k, entries := (parseRecords st.entries (splitTerminator
            (((st.buf ++ input).take (utf8 (st.buf ++ input)).1).take k))).1 },
          (utf8 (st.buf ++ input)).2 != .invalid) := by
  rfl

/-- the write of a chunk, when buffer ++ chunk is `complete records ++ strict prefix of the next`
    and everything up to the end of the stream is valid UTF-8 -/
theorem write_eval (st : Stream) (c rest : Bytes) (fin : List Bytes) (b : Bytes)
    (hbuf : st.buf ++ c = T fin ++ b) (hfin : ∀ r ∈ fin, GoodRec r)
    (hb : lastSepEnd b = none) (hbh : b.head? ≠ some 10)
    (hutf : Complete ((st.buf ++ c) ++ rest)) :
    st.write c = ({ buf := b, entries := st.entries ++ fin.map entryOf }, true) := by
  obtain ⟨t1, t2, t3⟩ := prefix_tolerant (st.buf ++ c) rest hutf
  rw [write_def]
  generalize hB : st.buf ++ c = B at *
  -- the search sees the same separators as in the whole buffer
  have hsearch : lastSepEnd (B.take (utf8 B).1) = lastSepEnd B := by
    have := lastSepEnd_append_clean (B.take (utf8 B).1) (B.drop (utf8 B).1) (by
      intro hm; exact t3 10 hm rfl)
    rw [List.take_append_drop] at this
    exact this.symm
  have hend : ((utf8 B).2 != ScanEnd.invalid) = true := by
    cases h : (utf8 B).2 <;> simp_all
  rw [hsearch]
  cases fin with
  | nil =>
    have hBb : B = b := by simpa [T] using hbuf
    rw [hBb] at hend ⊢
    rw [hb]
    simp only [hend, List.map_nil, List.append_nil]
  | cons r fin' =>
    have hclean : ∀ x ∈ r :: fin', Clean x := fun x hx => (hfin x hx).clean
    have hk := lastSepEnd_T (r :: fin') b hclean (by simp) hb hbh
    rw [hbuf, hk]
    simp only
    have hkle : (T (r :: fin')).length ≤ (utf8 (T (r :: fin') ++ b)).1 := by
      have h1 : lastSepEnd ((T (r :: fin') ++ b).take (utf8 (T (r :: fin') ++ b)).1) = some (T (r :: fin')).length := by
        rw [← hbuf, hsearch, hbuf, hk]
      have := lastSepEnd_le _ _ h1
      simp only [List.length_take] at this
      omega
    have htake : ((T (r :: fin') ++ b).take (utf8 (T (r :: fin') ++ b)).1).take (T (r :: fin')).length = T (r :: fin') := by
      rw [List.take_take, Nat.min_eq_left hkle]
      simp
    rw [htake, splitTerminator_T _ hclean,
      parseRecords_all_ok _ _ (fun x hx => (hfin x hx).parses)]
    simp only [Bool.not_true, Bool.false_eq_true, if_false]
    rw [← hbuf, hend]
    simp [hbuf]


/-! ### every chunking -/

/-- feed the chunks in order; the flag says whether EVERY write returned Ok -/
def runWrites (st : Stream) : List Bytes → Stream × Bool
  | [] => (st, true)
  | c :: cs =>
    let r := st.write c
    let r2 := runWrites r.1 cs
    (r2.1, r.2 && r2.2)

/-- the state after consuming a prefix of the stream `T rs`; `rest` is what is still to come -/
def Inv (rs : List Bytes) (st : Stream) (rest : Bytes) : Prop :=
  ∃ done todo, rs = done ++ todo ∧ st.entries = done.map entryOf ∧ st.buf ++ rest = T todo ∧
    (∀ r t, todo = r :: t → st.buf.length < r.length + 2)

theorem inv_init (rs : List Bytes) : Inv rs Stream.init (T rs) :=
  ⟨[], rs, rfl, rfl, by simp [Stream.init], by intro r t _; simp [Stream.init]⟩

theorem inv_step (rs : List Bytes) (hgood : ∀ r ∈ rs, GoodRec r) (st : Stream) (c rest : Bytes)
    (h : Inv rs st (c ++ rest)) : (st.write c).2 = true ∧ Inv rs (st.write c).1 rest := by
  obtain ⟨done, todo, e1, e2, e3, e4⟩ := h
  have hgt : ∀ r ∈ todo, GoodRec r := fun r hr => hgood r (by rw [e1]; simp [hr])
  rw [← List.append_assoc] at e3
  obtain ⟨fin, todo2, b, d1, d2, d3, d4⟩ := decompose todo (st.buf ++ c) rest e3
  have hfin : ∀ r ∈ fin, GoodRec r := fun r hr => hgt r (by rw [d1]; simp [hr])
  have hb : lastSepEnd b = none ∧ b.head? ≠ some 10 := by
    cases todo2 with
    | nil =>
      simp only [T_nil, List.append_eq_nil_iff] at d3
      rw [d3.1]; simp [lastSepEnd_nil]
    | cons r t =>
      have hc : Clean r := (hgt r (by rw [d1]; simp)).clean
      have hl := d4 r t rfl
      -- b ++ rest = r ++ NN ++ T t: cut to the first record
      have hpre : b ++ ((r ++ [10, 10]).drop b.length) = r ++ [10, 10] := by
        have e : T (r :: t) = (r ++ [10, 10]) ++ T t := by rw [T_cons]; simp
        rw [e] at d3
        have hbl : b.length ≤ (r ++ [10, 10]).length := by simp; omega
        have hb2 : b = (r ++ [10, 10]).take b.length := by
          have := congrArg (List.take b.length) d3
          rw [List.take_left' rfl, List.take_append_of_le_length hbl] at this
          exact this
        conv => lhs; lhs; rw [hb2]
        exact List.take_append_drop _ _
      exact strict_prefix_clean r b _ hc hpre hl
  have hutf : Complete ((st.buf ++ c) ++ rest) := by rw [e3]; exact complete_T todo hgt
  have hw := write_eval st c rest fin b d2 hfin hb.1 hb.2 hutf
  rw [hw]
  refine ⟨rfl, done ++ fin, todo2, ?_, ?_, d3, d4⟩
  · rw [e1, d1]; simp
  · simp [e2]

theorem inv_final (rs : List Bytes) (hgood : ∀ r ∈ rs, GoodRec r) (st : Stream) (h : Inv rs st []) :
    st.entries = rs.map entryOf ∧ st.buf = [] := by
  obtain ⟨done, todo, e1, e2, e3, e4⟩ := h
  simp only [List.append_nil] at e3
  cases todo with
  | nil =>
    simp only [List.append_nil] at e1
    exact ⟨by rw [e2, e1], by simpa [T] using e3⟩
  | cons r t =>
    have := e4 r t rfl
    rw [e3, T_cons] at this
    simp only [List.length_append, List.length_cons] at this
    omega

/-- **chunk independence**: for every way of cutting a well-formed stream into writes, every
    write succeeds, nothing stays buffered, and the collected entries are the stream's records
    in order -/
theorem runWrites_chunks (rs : List Bytes) (hgood : ∀ r ∈ rs, GoodRec r) (st : Stream) (cs : List Bytes)
    (h : Inv rs st cs.flatten) :
    (runWrites st cs).2 = true ∧ (runWrites st cs).1.entries = rs.map entryOf ∧ (runWrites st cs).1.buf = [] := by
  induction cs generalizing st with
  | nil =>
    simp only [runWrites]
    exact ⟨trivial, inv_final rs hgood st (by simpa using h)⟩
  | cons c cs ih =>
    simp only [List.flatten_cons] at h
    obtain ⟨ok1, inv1⟩ := inv_step rs hgood st c cs.flatten h
    obtain ⟨ok2, r2⟩ := ih (st.write c).1 inv1
    simp only [runWrites, ok1, ok2, Bool.and_self, true_and]
    exact r2


/-! ### the pieces between separators rebuild the text -/

theorem splitSep2_ne_nil (s : Bytes) : splitSep2 s ≠ [] := by
  generalize hn : s.length = n
  induction n using Nat.strongRecOn generalizing s with
  | _ n ih =>
    cases s with
    | nil => simp [splitSep2]
    | cons c rest =>
      cases hs : startsNN (c :: rest) with
      | true =>
        obtain ⟨t, ht⟩ := (startsNN_true_iff _).mp hs
        rw [ht, splitSep2_NN]; simp
      | false =>
        rw [splitSep2_other c rest hs]
        split <;> simp

/-- `s` is its pieces with "\n\n" put back in between -/
theorem splitSep2_join (s : Bytes) :
    s = ((splitSep2 s).dropLast.flatMap (· ++ [10, 10])) ++ ((splitSep2 s).getLast?.getD []) := by
  generalize hn : s.length = n
  induction n using Nat.strongRecOn generalizing s with
  | _ n ih =>
    cases s with
    | nil => simp [splitSep2]
    | cons c rest =>
      cases hs : startsNN (c :: rest) with
      | true =>
        obtain ⟨t, ht⟩ := (startsNN_true_iff _).mp hs
        injection ht with e1 e2
        subst e1 e2
        rw [splitSep2_NN]
        have hne := splitSep2_ne_nil t
        have := ih t.length (by simp only [List.length_cons] at hn; omega) t rfl
        cases hsp : splitSep2 t with
        | nil => exact absurd hsp hne
        | cons p ps =>
          rw [hsp] at this
          simp only [List.dropLast_cons_cons, List.flatMap_cons, List.nil_append, List.getLast?_cons_cons]
          conv => lhs; rw [this]
          simp
      | false =>
        rw [splitSep2_other c rest hs]
        have hne := splitSep2_ne_nil rest
        have := ih rest.length (by simp only [List.length_cons] at hn; omega) rest rfl
        cases hsp : splitSep2 rest with
        | nil => exact absurd hsp hne
        | cons p ps =>
          rw [hsp] at this
          simp only
          cases ps with
          | nil =>
            simp only [List.dropLast_singleton, List.flatMap_nil, List.getLast?_singleton, Option.getD_some,
              List.nil_append] at this ⊢
            rw [← this]
          | cons q qs =>
            simp only [List.dropLast_cons_cons, List.flatMap_cons, List.getLast?_cons_cons] at this ⊢
            conv => lhs; rw [this]
            simp


/-! ### a malformed entry -/

/-- like `decompose`, with arbitrary text after the records -/
theorem decompose_tail (todo : List Bytes) (tail buf rest : Bytes) (h : buf ++ rest = T todo ++ tail) :
    ∃ fin todo2 b, todo = fin ++ todo2 ∧ buf = T fin ++ b ∧ b ++ rest = T todo2 ++ tail ∧
      (∀ r t, todo2 = r :: t → b.length < r.length + 2) := by
  induction todo generalizing buf with
  | nil => exact ⟨[], [], buf, rfl, by simp [T], by simpa [T] using h, by intro r t e; cases e⟩
  | cons r t ih =>
    by_cases hlen : buf.length < r.length + 2
    · exact ⟨[], r :: t, buf, rfl, by simp [T], h, by intro r' t' e; injection e with e1 e2; subst e1; exact hlen⟩
    · have hn : (r ++ [10, 10]).length ≤ buf.length := by simp; omega
      have e : T (r :: t) ++ tail = (r ++ [10, 10]) ++ (T t ++ tail) := by rw [T_cons]; simp
      rw [e] at h
      have h1 : buf.take (r ++ [10, 10]).length = r ++ [10, 10] := by
        have := congrArg (List.take (r ++ [10, 10]).length) h
        rw [List.take_append_of_le_length hn, List.take_left' rfl] at this
        exact this
      have h2 : buf.drop (r ++ [10, 10]).length ++ rest = T t ++ tail := by
        have := congrArg (List.drop (r ++ [10, 10]).length) h
        rw [List.drop_append_of_le_length hn, List.drop_left' rfl] at this
        exact this
      obtain ⟨fin, todo2, b, e1, e2, e3, e4⟩ := ih _ h2
      refine ⟨r :: fin, todo2, b, by simp [e1], ?_, e3, e4⟩
      rw [T_cons]
      have : buf = buf.take (r ++ [10, 10]).length ++ buf.drop (r ++ [10, 10]).length := by simp
      rw [this, h1, e2]; simp

theorem parseRecords_fail (acc : List Summary) (good : List Bytes) (bad : Bytes) (more : List Bytes)
    (hg : ∀ r ∈ good, ∃ s, Summary.parse r = .ok s) (hb : ∀ s, Summary.parse bad ≠ .ok s) :
    parseRecords acc (good ++ bad :: more) = (acc ++ good.map entryOf, false) := by
  induction good generalizing acc with
  | nil =>
    simp only [List.nil_append, parseRecords, List.map_nil, List.append_nil]
    cases hp : Summary.parse bad with
    | ok s => exact absurd hp (hb s)
    | error e => rfl
  | cons r good ih =>
    obtain ⟨s, hs⟩ := hg r (by simp)
    simp only [List.cons_append, parseRecords, hs]
    rw [ih _ fun x hx => hg x (by simp [hx])]
    simp [entryOf, hs]

theorem lastSepEnd_ge (x z : Bytes) : ∃ k, lastSepEnd (x ++ 10 :: 10 :: z) = some k ∧ x.length + 2 ≤ k := by
  have h1 : ∃ k, lastSepEnd (10 :: 10 :: z) = some k ∧ 2 ≤ k := by
    rw [lastSepEnd_cons]
    cases hr : lastSepEnd (10 :: z) with
    | some k' =>
      have := lastSepEnd_le _ _ hr
      refine ⟨k' + 1, rfl, ?_⟩
      -- the inner hit is at least 2 itself (a separator needs two bytes)
      rw [lastSepEnd_cons] at hr
      cases hz : lastSepEnd z with
      | some k'' => simp only [hz, Option.some.injEq] at hr; omega
      | none =>
        simp only [hz] at hr
        split at hr
        · injection hr with hr; omega
        · cases hr
    | none => exact ⟨2, by simp [startsNN], Nat.le_refl _⟩
  obtain ⟨k, hk, hk2⟩ := h1
  exact ⟨x.length + k, lastSepEnd_append_some x _ k hk, by omega⟩

theorem splitSep2_T_then (fin : List Bytes) (hclean : ∀ x ∈ fin, Clean x) (bad y' : Bytes) (hbc : Clean bad) :
    splitSep2 ((T fin ++ bad) ++ 10 :: 10 :: y') = fin ++ bad :: splitSep2 y' := by
  induction fin with
  | nil => simpa [T] using splitSep2_record bad y' hbc.ne hbc.last hbc.nosep
  | cons r fin ih =>
    have hc := hclean r (by simp)
    rw [T_cons]
    have e : (r ++ 10 :: 10 :: T fin ++ bad) ++ 10 :: 10 :: y' = r ++ 10 :: 10 :: ((T fin ++ bad) ++ 10 :: 10 :: y') := by simp
    rw [e, splitSep2_record r _ hc.ne hc.last hc.nosep, ih fun x hx => hclean x (by simp [hx])]
    rfl

/-- the write that completes a malformed (but single-block, valid UTF-8) entry fails, and the
    entries at that point are the collected ones plus the well-formed entries before it -/
theorem write_fail (st : Stream) (c rest : Bytes) (fin : List Bytes) (bad y : Bytes)
    (hbuf : st.buf ++ c = T fin ++ (bad ++ 10 :: 10 :: y)) (hfin : ∀ r ∈ fin, GoodRec r)
    (hbc : Clean bad) (hbp : ∀ s, Summary.parse bad ≠ .ok s)
    (hutf : Complete ((st.buf ++ c) ++ rest)) :
    (st.write c).2 = false ∧ (st.write c).1.entries = st.entries ++ fin.map entryOf := by
  obtain ⟨t1, t2, t3⟩ := prefix_tolerant (st.buf ++ c) rest hutf
  rw [write_def]
  generalize hB : st.buf ++ c = B at *
  have hsearch : lastSepEnd (B.take (utf8 B).1) = lastSepEnd B := by
    have := lastSepEnd_append_clean (B.take (utf8 B).1) (B.drop (utf8 B).1) (by
      intro hm; exact t3 10 hm rfl)
    rw [List.take_append_drop] at this
    exact this.symm
  have hBx : B = (T fin ++ bad) ++ 10 :: 10 :: y := by rw [hbuf]; simp
  obtain ⟨k, hk, hkge⟩ := lastSepEnd_ge (T fin ++ bad) y
  rw [← hBx] at hk
  rw [hsearch, hk]
  simp only
  have hkv : k ≤ (utf8 B).1 := by
    have h1 : lastSepEnd (B.take (utf8 B).1) = some k := by rw [hsearch, hk]
    have := lastSepEnd_le _ _ h1
    simp only [List.length_take] at this
    omega
  have hkB : k ≤ B.length := lastSepEnd_le _ _ hk
  have htake : (B.take (utf8 B).1).take k = (T fin ++ bad) ++ 10 :: 10 :: (y.take (k - ((T fin ++ bad).length + 2))) := by
    rw [List.take_take, Nat.min_eq_left hkv, hBx]
    rw [List.take_append, List.take_of_length_le (by omega)]
    congr 1
    have : k - (T fin ++ bad).length = (k - ((T fin ++ bad).length + 2)) + 2 := by omega
    rw [this]
    rfl
  have hclean : ∀ x ∈ fin, Clean x := fun x hx => (hfin x hx).clean
  have hsplit := splitSep2_T_then fin hclean bad (y.take (k - ((T fin ++ bad).length + 2))) hbc
  -- dropping a trailing empty piece never removes `bad`
  have hterm : ∃ more, splitTerminator ((B.take (utf8 B).1).take k) = fin ++ bad :: more := by
    rw [htake]
    unfold splitTerminator
    simp only [hsplit]
    have hne := splitSep2_ne_nil (y.take (k - ((T fin ++ bad).length + 2)))
    generalize splitSep2 (y.take (k - ((T fin ++ bad).length + 2))) = ps at hne
    have hl : (fin ++ bad :: ps).getLast? = ps.getLast? := by
      cases ps with
      | nil => exact absurd rfl hne
      | cons p ps' =>
        obtain ⟨x, hx⟩ : ∃ x, (p :: ps').getLast? = some x := by
          cases h : (p :: ps').getLast? with
          | none => simp at h
          | some x => exact ⟨x, rfl⟩
        simp [List.getLast?_append, List.getLast?_cons_cons, hx]
    rw [hl]
    split
    · exact ⟨ps.dropLast, by
        cases ps with
        | nil => exact absurd rfl hne
        | cons p ps' => rw [List.dropLast_append_cons, List.dropLast_cons_cons]⟩
    · exact ⟨ps, rfl⟩
  obtain ⟨more, hmore⟩ := hterm
  rw [hmore, parseRecords_fail _ fin bad more (fun x hx => (hfin x hx).parses) hbp]
  simp


theorem complete_T' (rs : List Bytes) (h : ∀ r ∈ rs, Complete r) : Complete (T rs) := by
  unfold T
  rw [List.flatMap_def]
  apply complete_flatten
  intro l hl
  simp only [List.mem_map] at hl
  obtain ⟨r, hr, rfl⟩ := hl
  exact complete_append _ _ (h r hr) (complete_ascii _ (by decide))

/-- index of the first write that fails, and the state after it -/
def firstFail (st : Stream) : List Bytes → Option (Nat × Stream)
  | [] => none
  | c :: cs =>
    if (st.write c).2 then (firstFail (st.write c).1 cs).map fun p => (p.1 + 1, p.2)
    else some (0, (st.write c).1)

/-- a stream whose first malformed entry is `bad`, preceded by the well-formed `goods` -/
structure BadStream (goods : List Bytes) (bad tail : Bytes) : Prop where
  goods : ∀ r ∈ goods, GoodRec r
  bad_utf8 : Complete bad
  bad_clean : Clean bad
  bad_fails : ∀ s, Summary.parse bad ≠ .ok s
  tail_utf8 : Complete tail

/-- state after `fed` bytes, none of which completed the malformed entry yet -/
def Inv2 (goods : List Bytes) (bad tail : Bytes) (st : Stream) (rest : Bytes) (fed : Nat) : Prop :=
  ∃ done todo, goods = done ++ todo ∧ st.entries = done.map entryOf ∧
    st.buf ++ rest = T (todo ++ [bad]) ++ tail ∧
    (∀ r t, todo ++ [bad] = r :: t → st.buf.length < r.length + 2) ∧
    fed = (T done).length + st.buf.length

theorem T_length_append (a b : List Bytes) : (T (a ++ b)).length = (T a).length + (T b).length := by
  rw [T_append, List.length_append]

theorem inv2_lt (goods : List Bytes) (bad tail : Bytes) (st : Stream) (rest : Bytes) (fed : Nat)
    (h : Inv2 goods bad tail st rest fed) : fed < (T (goods ++ [bad])).length := by
  obtain ⟨done, todo, e1, _, _, e4, e5⟩ := h
  rw [e1, List.append_assoc, T_length_append, e5]
  cases htb : todo ++ [bad] with
  | nil => simp at htb
  | cons r t =>
    have := e4 r t htb
    rw [T_cons]
    simp only [List.length_append, List.length_cons]
    omega

theorem inv2_step (goods : List Bytes) (bad tail : Bytes) (hs : BadStream goods bad tail)
    (st : Stream) (c rest : Bytes) (fed : Nat) (h : Inv2 goods bad tail st (c ++ rest) fed) :
    ((st.write c).2 = true ∧ Inv2 goods bad tail (st.write c).1 rest (fed + c.length)) ∨
    ((st.write c).2 = false ∧ (st.write c).1.entries = goods.map entryOf ∧
      (T (goods ++ [bad])).length ≤ fed + c.length) := by
  obtain ⟨done, todo, e1, e2, e3, e4, e5⟩ := h
  have hgt : ∀ r ∈ todo, GoodRec r := fun r hr => hs.goods r (by rw [e1]; simp [hr])
  have hcl : ∀ r ∈ todo ++ [bad], Clean r := by
    intro r hr
    rcases List.mem_append.mp hr with h | h
    · exact (hgt r h).clean
    · simp only [List.mem_singleton] at h; subst h; exact hs.bad_clean
  have hcomp : ∀ r ∈ todo ++ [bad], Complete r := by
    intro r hr
    rcases List.mem_append.mp hr with h | h
    · exact (hgt r h).utf8
    · simp only [List.mem_singleton] at h; subst h; exact hs.bad_utf8
  rw [← List.append_assoc] at e3
  have hutf : Complete ((st.buf ++ c) ++ rest) := by
    rw [e3]; exact complete_append _ _ (complete_T' _ hcomp) hs.tail_utf8
  obtain ⟨fin, todo2, b, d1, d2, d3, d4⟩ := decompose_tail (todo ++ [bad]) tail (st.buf ++ c) rest e3
  have hfed : fed + c.length = (T done).length + (st.buf ++ c).length := by
    rw [e5, List.length_append]; omega
  cases todo2 with
  | nil =>
    -- this write completes the malformed entry
    right
    simp only [List.append_nil] at d1
    have hbuf : st.buf ++ c = T todo ++ (bad ++ 10 :: 10 :: b) := by
      rw [d2, ← d1, T_append, T_cons]; simp [T]
    obtain ⟨f1, f2⟩ := write_fail st c rest todo bad b hbuf hgt hs.bad_clean hs.bad_fails hutf
    refine ⟨f1, ?_, ?_⟩
    · rw [f2, e2, e1]; simp
    · rw [hfed, e1, List.append_assoc, T_length_append, d2, ← d1, List.length_append]
      omega
  | cons r2 t2 =>
    left
    -- fin is a prefix of todo: the malformed entry is not completed yet
    have hlast : (r2 :: t2).getLast (by simp) = bad := by
      have : (todo ++ [bad]).getLast (by simp) = bad := by simp
      have h2 : (fin ++ r2 :: t2).getLast (by simp) = bad := by
        have := this
        simp only [d1] at this
        exact this
      rw [List.getLast_append_of_ne_nil (by simp)] at h2
      exact h2
    have htodo : todo = fin ++ (r2 :: t2).dropLast := by
      have := congrArg List.dropLast d1
      rw [List.dropLast_concat, List.dropLast_append_cons] at this
      exact this
    have hfin : ∀ r ∈ fin, GoodRec r := fun r hr => hgt r (by rw [htodo]; simp [hr])
    have hc2 : Clean r2 := hcl r2 (by rw [d1]; simp)
    have hl := d4 r2 t2 rfl
    have hpre : b ++ ((r2 ++ [10, 10]).drop b.length) = r2 ++ [10, 10] := by
      have e : T (r2 :: t2) ++ tail = (r2 ++ [10, 10]) ++ (T t2 ++ tail) := by rw [T_cons]; simp
      rw [e] at d3
      have hbl : b.length ≤ (r2 ++ [10, 10]).length := by simp; omega
      have hb2 : b = (r2 ++ [10, 10]).take b.length := by
        have := congrArg (List.take b.length) d3
        rw [List.take_left' rfl, List.take_append_of_le_length hbl] at this
        exact this
      conv => lhs; lhs; rw [hb2]
      exact List.take_append_drop _ _
    have hb := strict_prefix_clean r2 b _ hc2 hpre hl
    have hw := write_eval st c rest fin b d2 hfin hb.1 hb.2 hutf
    rw [hw]
    refine ⟨rfl, done ++ fin, (r2 :: t2).dropLast, ?_, ?_, ?_, ?_, ?_⟩
    · rw [e1, htodo]; simp
    · simp [e2]
    · simp only
      rw [d3]
      congr 2
      rw [← hlast]
      exact (List.dropLast_concat_getLast (by simp)).symm
    · intro r t hrt
      simp only
      have : (r2 :: t2).dropLast ++ [bad] = r2 :: t2 := by
        rw [← hlast]; exact List.dropLast_concat_getLast (by simp)
      rw [this] at hrt
      injection hrt with h1 h2
      subst h1
      exact hl
    · simp only
      rw [hfed, d2, T_length_append, List.length_append]
      omega


theorem inv2_init (goods : List Bytes) (bad tail : Bytes) :
    Inv2 goods bad tail Stream.init (T (goods ++ [bad]) ++ tail) 0 :=
  ⟨[], goods, rfl, rfl, by simp [Stream.init], by
    intro r t h; simp [Stream.init], by simp [Stream.init, T]⟩

/-- **the malformed-entry clause**: whatever the chunking, writes succeed until the one whose
    bytes complete the malformed entry; that write fails, and the entries collected at that
    point are exactly the well-formed entries before it -/
theorem firstFail_chunks (goods : List Bytes) (bad tail : Bytes) (hs : BadStream goods bad tail)
    (st : Stream) (cs : List Bytes) (fed : Nat) (h : Inv2 goods bad tail st cs.flatten fed) :
    ∃ i st', firstFail st cs = some (i, st') ∧ st'.entries = goods.map entryOf ∧
      fed + (cs.take i).flatten.length < (T (goods ++ [bad])).length ∧
      (T (goods ++ [bad])).length ≤ fed + (cs.take (i + 1)).flatten.length := by
  induction cs generalizing st fed with
  | nil =>
    -- impossible: with nothing left to feed, the malformed entry would have to be incomplete
    exfalso
    obtain ⟨done, todo, _, _, e3, e4, _⟩ := h
    simp only [List.flatten_nil, List.append_nil] at e3
    cases htb : todo ++ [bad] with
    | nil => simp at htb
    | cons r t =>
      have := e4 r t htb
      rw [e3, htb, T_cons] at this
      simp only [List.length_append, List.length_cons] at this
      omega
  | cons c cs ih =>
    simp only [List.flatten_cons] at h
    have hlt := inv2_lt goods bad tail st _ fed h
    rcases inv2_step goods bad tail hs st c cs.flatten fed h with ⟨ok, inv⟩ | ⟨bad1, ents, hge⟩
    · obtain ⟨i, st', hf, he, h1, h2⟩ := ih (st.write c).1 (fed + c.length) inv
      refine ⟨i + 1, st', ?_, he, ?_, ?_⟩
      · simp [firstFail, ok, hf]
      · simp only [List.take_succ_cons, List.flatten_cons, List.length_append]; omega
      · simp only [List.take_succ_cons, List.flatten_cons, List.length_append]; omega
    · refine ⟨0, (st.write c).1, ?_, ents, ?_, ?_⟩
      · simp [firstFail, bad1]
      · simpa using hlt
      · simpa using hge

end L
