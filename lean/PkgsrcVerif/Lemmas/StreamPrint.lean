/-
Lemmas/StreamPrint.lean — "printing the collection reproduces the stream" (last clause of
C09's first sentence).  A record `r` of a stream carries no final '\n' (the "\n\n" after it is
the separator), while Display prints each entry as '\n'-terminated lines followed by one more
'\n'.  So the clause needs: parsing `r` = parsing `r ++ "\n"` (std `lines()` treats the final
line terminator as optional), and then the canonical parse→print theorem of C07.
-/
import PkgsrcVerif.Lemmas.Stream
import PkgsrcVerif.Lemmas.SummaryParse
namespace L
open M

/-- a final '\n' after a text that ends in neither '\n' nor '\r' adds no line and changes none -/
theorem go_append_nl (r : Bytes) : ∀ cur : Bytes,
    (∃ pre x, cur.reverse ++ r = pre ++ [x] ∧ x ≠ 10 ∧ x ≠ 13) →
    S.textLines.go cur (r ++ [10]) = S.textLines.go cur r := by
  induction r with
  | nil =>
    intro cur ⟨pre, x, he, h10, h13⟩
    simp only [List.append_nil, List.nil_append] at he ⊢
    rw [go_nl, go_nil, go_nil]
    cases cur with
    | nil => simp at he
    | cons y c =>
      have hy : y = x := by
        have := congrArg List.getLast? he
        simpa using this
      subst hy
      simp only [List.isEmpty_cons, Bool.false_eq_true, if_false, List.isEmpty_nil, if_true]
      split
      · rename_i heq; injection heq with e _; exact absurd e h13
      · rfl
  | cons b rest ih =>
    intro cur ⟨pre, x, he, h10, h13⟩
    by_cases hb : b = 10
    · subst hb
      rw [List.cons_append, go_nl, go_nl]
      congr 1
      apply ih []
      cases hr : rest with
      | nil =>
        subst hr
        have := congrArg List.getLast? he
        simp at this
        exact absurd this.symm h10
      | cons z zs =>
        have hne : z :: zs ≠ [] := by simp
        refine ⟨(z :: zs).dropLast, (z :: zs).getLast hne, (List.dropLast_concat_getLast _).symm, ?_⟩
        have hl : (cur.reverse ++ 10 :: rest).getLast? = some ((z :: zs).getLast hne) := by
          rw [hr, List.getLast?_append]
          simp [List.getLast?_eq_some_getLast hne]
        rw [he] at hl
        have : x = (z :: zs).getLast hne := by simpa using hl
        rw [← this]; exact ⟨h10, h13⟩
    · rw [List.cons_append, go_other cur b _ hb, go_other cur b _ hb]
      apply ih (b :: cur)
      exact ⟨pre, x, by simpa using he, h10, h13⟩

theorem lines_append_nl (r : Bytes) (hne : r ≠ []) (h10 : r.getLast? ≠ some 10) (h13 : r.getLast? ≠ some 13) :
    lines (r ++ [10]) = lines r := by
  rw [lines_eq_textLines, lines_eq_textLines]
  unfold S.textLines
  apply go_append_nl r []
  refine ⟨r.dropLast, r.getLast hne, (List.dropLast_concat_getLast _).symm, ?_, ?_⟩
  · intro h; exact h10 (by rw [List.getLast?_eq_some_getLast hne, h])
  · intro h; exact h13 (by rw [List.getLast?_eq_some_getLast hne, h])

theorem parse_append_nl (r : Bytes) (hne : r ≠ []) (h10 : r.getLast? ≠ some 10) (h13 : r.getLast? ≠ some 13) :
    Summary.parse (r ++ [10]) = Summary.parse r := by
  unfold Summary.parse
  rw [lines_append_nl r hne h10 h13]

theorem getLast_mem {α} (l : List α) (x : α) (h : l.getLast? = some x) : x ∈ l := by
  exact List.mem_of_getLast? h

theorem flatMap_congr_mem {α β} (l : List α) (f g : α → List β) (h : ∀ a ∈ l, f a = g a) :
    l.flatMap f = l.flatMap g := by
  induction l with
  | nil => rfl
  | cons a l ih =>
    simp only [List.flatMap_cons]
    rw [h a (by simp), ih fun x hx => h x (by simp [hx])]

end L
