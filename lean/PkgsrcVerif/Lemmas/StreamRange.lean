/-
Lemmas/StreamRange.lean — the index arithmetic of `SummaryStream::write` stays in range:
`valid_up_to <= buf.len()`, and the end of the last "\n\n" lies inside the valid prefix.
-/
import PkgsrcVerif.Lemmas.Stream
namespace L
open M

theorem utf8Scan_le (fuel : Nat) : ∀ (b : Bytes) (n : Nat), (utf8Scan fuel b n).1 ≤ n + b.length := by
  induction fuel with
  | zero => intro b n; simp [utf8Scan]
  | succ f ih =>
    intro b n
    unfold utf8Scan
    cases b with
    | nil => simp
    | cons b0 rest =>
      simp only [List.length_cons]
      split
      · have := ih rest (n + 1); omega
      · cases rest with
        | nil => simp
        | cons b1 r =>
          simp only [List.length_cons]
          split
          · have := ih r (n + 2); omega
          · simp
      · cases rest with
        | nil => simp
        | cons b1 r =>
          simp only [List.length_cons]
          split
          · simp
          · cases r with
            | nil => simp
            | cons b2 r2 =>
              simp only [List.length_cons]
              split
              · have := ih r2 (n + 3); omega
              · simp
      · cases rest with
        | nil => simp
        | cons b1 r =>
          simp only [List.length_cons]
          split
          · simp
          · cases r with
            | nil => simp
            | cons b2 r2 =>
              simp only [List.length_cons]
              split
              · simp
              · cases r2 with
                | nil => simp
                | cons b3 r3 =>
                  simp only [List.length_cons]
                  split
                  · have := ih r3 (n + 4); omega
                  · simp
      · simp

theorem utf8_valid_le (b : Bytes) : (utf8 b).1 ≤ b.length := by
  have := utf8Scan_le (b.length + 1) b 0
  simpa [utf8] using this

end L
