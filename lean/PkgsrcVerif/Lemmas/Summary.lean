/-
Lemmas/Summary.lean — tables, state and stream bookkeeping of the pkg_summary model.
-/
import PkgsrcVerif.Spec.Summary
namespace L
open M

theorem ite_some {α} {c : Prop} [Decidable c] {a v : α} {r : Option α}
    (h : (if c then some a else r) = some v) : (c ∧ a = v) ∨ (¬c ∧ r = some v) := by
  by_cases hc : c
  · simp only [hc, if_true] at h; injection h with h; exact Or.inl ⟨hc, h⟩
  · simp only [hc, if_false] at h; exact Or.inr ⟨hc, h⟩

theorem ofName_name (v : Var) : Var.ofName (asciiBytes v.name) = some v := by
  cases v <;> decide

theorem ofName_some (x : Bytes) (v : Var) (h : Var.ofName x = some v) : x = asciiBytes v.name := by
  unfold Var.ofName at h
  repeat (rcases ite_some h with ⟨hc, rfl⟩ | ⟨_, h⟩; exact eq_of_beq hc)
  cases h

theorem table_eq : S.table = Var.all.map (fun v => (v, v.name)) := by decide

theorem all_complete (v : Var) : v ∈ Var.all := by cases v <;> decide

theorem set_same (s : Summary) (v : Var) (x : Value) : s.set v x v = some x := by simp [Summary.set]
theorem set_other (s : Summary) (v w : Var) (x : Value) (h : w ≠ v) : s.set v x w = s w := by
  simp [Summary.set, h]

/-- the type invariant: every stored value has the constructor its variable demands -/
def WellTyped (s : Summary) : Prop :=
  ∀ v, match s v with
    | none => True
    | some (.s _) => v.kind = .str
    | some (.i _) => v.kind = .int
    | some (.a _) => v.kind = .arr

theorem wellTyped_empty : WellTyped Summary.empty := fun _ => trivial

def valueKind : Value → VKind
  | .s _ => .str | .i _ => .int | .a _ => .arr

theorem wellTyped_iff (s : Summary) : WellTyped s ↔ ∀ v x, s v = some x → valueKind x = v.kind := by
  constructor
  · intro h v x hx
    have := h v
    rw [hx] at this
    cases x <;> simpa [valueKind] using this.symm
  · intro h v
    cases hx : s v with
    | none => trivial
    | some x =>
      have := h v x hx
      cases x <;> simpa [valueKind] using this.symm

theorem wellTyped_set (s : Summary) (v : Var) (x : Value) (hs : WellTyped s) (hx : valueKind x = v.kind) :
    WellTyped (s.set v x) := by
  rw [wellTyped_iff] at *
  intro w y hy
  by_cases hw : w = v
  · subst hw; rw [set_same] at hy; injection hy with hy; subst hy; exact hx
  · rw [set_other _ _ _ _ hw] at hy; exact hs w y hy

/-- on a well-typed state a push on an array variable never reaches the panic site -/
theorem push_ok (s : Summary) (v : Var) (item : Bytes) (hs : WellTyped s) (hv : v.kind = .arr) :
    ∃ s', s.push v item = some s' ∧ WellTyped s' := by
  unfold Summary.push
  have hk := (wellTyped_iff s).mp hs v
  cases hx : s v with
  | none => exact ⟨_, rfl, wellTyped_set s v _ hs (by simp [valueKind, hv])⟩
  | some x =>
    have := hk x hx
    cases x with
    | s b => simp [valueKind, hv] at this
    | i n => simp [valueKind, hv] at this
    | a l => exact ⟨_, rfl, wellTyped_set s v _ hs (by simp [valueKind, hv])⟩

end L
