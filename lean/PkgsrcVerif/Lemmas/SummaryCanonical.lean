/-
Lemmas/SummaryCanonical.lean — parsing a canonical entry text and printing the result
reproduces the text byte for byte.
-/
import PkgsrcVerif.Lemmas.SummaryRoundtrip
namespace L
open M

/-! ### the lines rebuild the text -/

theorem go_join (cur t : Bytes) (hc : (13 : UInt8) ∉ cur) (ht : (13 : UInt8) ∉ t)
    (h : (t = [] ∧ cur = []) ∨ t.getLast? = some 10) :
    (S.textLines.go cur t).flatMap (· ++ [10]) = cur.reverse ++ t := by
  induction t generalizing cur with
  | nil =>
    rcases h with ⟨_, rfl⟩ | h
    · simp [go_nil]
    · simp at h
  | cons c t ih =>
    simp only [List.mem_cons, not_or] at ht
    by_cases hc10 : c = 10
    · subst hc10
      rw [go_nl, stripCr_rev, stripCr_noCr _ (by simpa using hc)]
      have h' : (t = [] ∧ ([] : Bytes) = []) ∨ t.getLast? = some 10 := by
        cases t with
        | nil => left; exact ⟨rfl, rfl⟩
        | cons d t' =>
          right
          rcases h with ⟨h, _⟩ | h
          · cases h
          · simpa [List.getLast?_cons_cons] using h
      have := ih [] (by simp) ht.2 h'
      simp only [List.flatMap_cons, this]
      simp
    · rw [go_other cur c t hc10]
      have hcur : (13 : UInt8) ∉ c :: cur := by
        simp only [List.mem_cons, not_or]; exact ⟨ht.1, hc⟩
      have h' : (t = [] ∧ c :: cur = []) ∨ t.getLast? = some 10 := by
        right
        rcases h with ⟨h, _⟩ | h
        · cases h
        · cases t with
          | nil => simp at h; exact absurd h hc10
          | cons d t' => simpa [List.getLast?_cons_cons] using h
      rw [ih (c :: cur) hcur ht.2 h']
      simp

theorem textLines_join (t : Bytes) (ht : (13 : UInt8) ∉ t) (h : t = [] ∨ t.getLast? = some 10) :
    (S.textLines t).flatMap (· ++ [10]) = t := by
  unfold S.textLines
  have := go_join [] t (by simp) ht (by rcases h with h | h; exact Or.inl ⟨h, rfl⟩; exact Or.inr h)
  simpa using this

/-! ### an accepted line is NAME=value -/

theorem split_at_eq (l : Bytes) (h : l.contains 61 = true) :
    l = l.takeWhile (· != 61) ++ 61 :: (l.dropWhile (· != 61)).drop 1 := by
  induction l with
  | nil => simp at h
  | cons c r ih =>
    by_cases hc : c = 61
    · subst hc; simp [List.takeWhile_cons, List.dropWhile_cons]
    · have h2 : (c != 61) = true := by simpa using hc
      have h3 : r.contains 61 = true := by
        simp only [List.contains_cons, Bool.or_eq_true, beq_iff_eq] at h
        rcases h with h | h
        · exact absurd h.symm hc
        · exact h
      simp only [List.takeWhile_cons, List.dropWhile_cons, h2, if_true, List.cons_append]
      congr 1
      exact ih h3

theorem classify_ok_line (l : Bytes) (v : Var) (val : Bytes) (h : S.classify l = .ok v val) : l = lineOf v val := by
  unfold S.classify at h
  by_cases hc : l.contains 61 = true
  · simp only [hc, Bool.not_true, Bool.false_eq_true, if_false, lookup_eq_ofName] at h
    cases hk : Var.ofName (l.takeWhile (· != 61)) with
    | none => simp [hk] at h
    | some w =>
      simp only [hk] at h
      split at h
      · cases h
      · injection h with e1 e2
        subst e1
        have hname := ofName_some _ _ hk
        unfold lineOf
        rw [← hname, ← e2]
        exact split_at_eq l hc
  · have hc' : l.contains 61 = false := by simpa using hc
    simp only [hc', Bool.not_false, if_true] at h
    cases h


/-! ### sorted lists group by key -/

theorem filter_ge_split {α} (f : α → Nat) (l : List α) (n : Nat) (hs : l.Pairwise (fun a b => f a ≤ f b)) :
    l.filter (fun a => decide (n ≤ f a)) =
      l.filter (fun a => decide (f a = n)) ++ l.filter (fun a => decide (n + 1 ≤ f a)) := by
  induction l with
  | nil => rfl
  | cons a l ih =>
    rw [List.pairwise_cons] at hs
    have ih' := ih hs.2
    by_cases h1 : f a < n
    · have e1 : decide (n ≤ f a) = false := by simp; omega
      have e2 : decide (f a = n) = false := by simp; omega
      have e3 : decide (n + 1 ≤ f a) = false := by simp; omega
      simp only [List.filter_cons, e1, e2, e3, Bool.false_eq_true, if_false, ih']
    · by_cases h2 : f a = n
      · have e1 : decide (n ≤ f a) = true := by simp; omega
        have e2 : decide (f a = n) = true := by simp; omega
        have e3 : decide (n + 1 ≤ f a) = false := by simp; omega
        simp only [List.filter_cons, e1, e2, e3, Bool.false_eq_true, if_false, if_true, ih', List.cons_append]
      · have e1 : decide (n ≤ f a) = true := by simp; omega
        have e2 : decide (f a = n) = false := by simp; omega
        have e3 : decide (n + 1 ≤ f a) = true := by simp; omega
        have hnone : l.filter (fun a => decide (f a = n)) = [] := by
          rw [List.filter_eq_nil_iff]
          intro x hx
          have := hs.1 x hx
          simp; omega
        simp only [List.filter_cons, e1, e2, e3, Bool.false_eq_true, if_false, if_true, ih', hnone, List.nil_append]

theorem varIndex_lt (v : Var) : S.varIndex v < 23 := by cases v <;> decide

theorem all_drop (n : Fin 23) :
    Var.all.drop n.val = Var.all.getD n.val .buildDate :: Var.all.drop (n.val + 1) ∧
    S.varIndex (Var.all.getD n.val .buildDate) = n.val := by
  revert n; decide

theorem varIndex_get (v : Var) : Var.all.getD (S.varIndex v) .buildDate = v := by cases v <;> decide

theorem varIndex_inj (a b : Var) (h : S.varIndex a = S.varIndex b) : a = b := by
  rw [← varIndex_get a, ← varIndex_get b, h]

/-- a list sorted by variable index is the concatenation of its per-variable groups -/
theorem group_by_var (l : List (Var × Bytes)) (hs : l.Pairwise (fun a b => S.varIndex a.1 ≤ S.varIndex b.1)) :
    Var.all.flatMap (fun v => l.filter (·.1 == v)) = l := by
  have key : ∀ k : Nat, k ≤ 23 →
      (Var.all.drop (23 - k)).flatMap (fun v => l.filter (·.1 == v)) =
        l.filter (fun a => decide (23 - k ≤ S.varIndex a.1)) := by
    intro k
    induction k with
    | zero =>
      intro _
      have : Var.all.drop 23 = [] := by decide
      simp only [Nat.sub_zero, this, List.flatMap_nil]
      symm
      rw [List.filter_eq_nil_iff]
      intro a _
      have := varIndex_lt a.1
      simp; omega
    | succ k ih =>
      intro hk
      have hlt : 23 - (k + 1) < 23 := by omega
      obtain ⟨hd, hi⟩ := all_drop ⟨23 - (k + 1), hlt⟩
      simp only at hd hi
      have hsucc : 23 - (k + 1) + 1 = 23 - k := by omega
      rw [hd, hsucc, List.flatMap_cons, ih (by omega),
        filter_ge_split (fun a => S.varIndex a.1) l (23 - (k + 1)) hs, hsucc]
      congr 1
      apply List.filter_congr
      intro a _
      generalize hv : Var.all.getD (23 - (k + 1)) Var.buildDate = v at hi
      by_cases e : a.1 = v
      · have e1 : (a.1 == v) = true := by simpa using e
        have e2 : decide (S.varIndex a.1 = 23 - (k + 1)) = true := by
          rw [e, hi]; exact decide_eq_true rfl
        rw [e1, e2]
      · have : S.varIndex a.1 ≠ 23 - (k + 1) := by
          intro h'; rw [← hi] at h'; exact e (varIndex_inj _ _ h')
        have e1 : (a.1 == v) = false := by simpa using e
        have e2 : decide (S.varIndex a.1 = 23 - (k + 1)) = false := decide_eq_false this
        rw [e1, e2]
  have := key 23 (by omega)
  simp only [Nat.sub_self, List.drop_zero] at this
  rw [this]
  simp


/-! ### a text all of whose lines are accepted -/

theorem all_lines_ok (lines : List Bytes)
    (h : ((lines.map S.classify).filterMap S.okOf).length = lines.length) :
    lines = ((lines.map S.classify).filterMap S.okOf).map (fun p => lineOf p.1 p.2) ∧
    S.okPairs (lines.map fun l => (l, S.classify l)) = (lines.map S.classify).filterMap S.okOf ∧
    S.firstFault (lines.map fun l => (l, S.classify l)) = none := by
  induction lines with
  | nil => exact ⟨rfl, rfl, rfl⟩
  | cons l ls ih =>
    have hle := List.length_filterMap_le S.okOf (ls.map S.classify)
    simp only [List.length_map] at hle
    cases hc : S.classify l with
    | ok v val =>
      simp only [List.map_cons, hc, List.filterMap_cons, S.okOf, List.length_cons, Nat.add_right_cancel_iff] at h ⊢
      obtain ⟨i1, i2, i3⟩ := ih h
      refine ⟨?_, ?_, ?_⟩
      · rw [← i1, ← classify_ok_line l v val hc]
      · rw [okPairs_cons_ok, i2]
      · simp only [S.firstFault]; exact i3
    | noEq =>
      simp only [List.map_cons, hc, List.filterMap_cons, S.okOf, List.length_cons] at h
      omega
    | unknown k =>
      simp only [List.map_cons, hc, List.filterMap_cons, S.okOf, List.length_cons] at h
      omega
    | badInt =>
      simp only [List.map_cons, hc, List.filterMap_cons, S.okOf, List.length_cons] at h
      omega

/-! ### the order conditions -/

theorem chainOk_cons2 (a b : Var × Bytes) (r : List (Var × Bytes)) :
    S.chainOk (a :: b :: r) =
      ((decide (S.varIndex a.1 < S.varIndex b.1) || (a.1 == b.1 && S.multiLine.contains a.1)) && S.chainOk (b :: r)) := by
  simp [S.chainOk]

theorem chain_sorted (l : List (Var × Bytes)) (h : S.chainOk l = true) :
    l.Pairwise (fun a b => S.varIndex a.1 ≤ S.varIndex b.1) := by
  induction l with
  | nil => exact List.Pairwise.nil
  | cons a l ih =>
    cases l with
    | nil => simp
    | cons b r =>
      rw [chainOk_cons2, Bool.and_eq_true] at h
      have ht := ih h.2
      rw [List.pairwise_cons]
      refine ⟨?_, ht⟩
      have hab : S.varIndex a.1 ≤ S.varIndex b.1 := by
        rcases Bool.or_eq_true _ _ |>.mp h.1 with h1 | h1
        · have := of_decide_eq_true h1; omega
        · rw [Bool.and_eq_true] at h1
          have : a.1 = b.1 := by simpa using h1.1
          rw [this]; exact Nat.le_refl _
      intro x hx
      simp only [List.mem_cons] at hx
      rcases hx with rfl | hx
      · exact hab
      · have := (List.pairwise_cons.mp ht).1 x hx
        omega

/-- a single-valued variable occurs at most once -/
theorem chain_single (l : List (Var × Bytes)) (v : Var) (h : S.chainOk l = true)
    (hm : S.multiLine.contains v = false) : (l.filter (·.1 == v)).length ≤ 1 := by
  induction l with
  | nil => simp
  | cons a l ih =>
    cases l with
    | nil => simp only [List.filter_cons, List.filter_nil]; split <;> simp
    | cons b r =>
      have hs := chain_sorted _ h
      rw [chainOk_cons2, Bool.and_eq_true] at h
      have ih' := ih h.2
      by_cases hav : a.1 = v
      · -- everything after `a` has a strictly larger index
        have hab : S.varIndex a.1 < S.varIndex b.1 := by
          rcases Bool.or_eq_true _ _ |>.mp h.1 with h1 | h1
          · exact of_decide_eq_true h1
          · rw [Bool.and_eq_true] at h1
            rw [hav, hm] at h1
            exact absurd h1.2 (by simp)
        have hnone : (b :: r).filter (·.1 == v) = [] := by
          rw [List.filter_eq_nil_iff]
          intro x hx
          have hsb := (List.pairwise_cons.mp (List.pairwise_cons.mp hs).2)
          have hbx : S.varIndex b.1 ≤ S.varIndex x.1 := by
            simp only [List.mem_cons] at hx
            rcases hx with rfl | hx
            · exact Nat.le_refl _
            · exact hsb.1 x hx
          intro hxv
          have : x.1 = v := by simpa using hxv
          rw [this, ← hav] at hbx
          omega
        have e : (a.1 == v) = true := by simpa using hav
        simp only [List.filter_cons, e, if_true, List.length_cons]
        rw [List.filter_cons] at hnone
        simp only [hnone, List.length_nil]
        omega
      · have e : (a.1 == v) = false := by simpa using hav
        rw [List.filter_cons]
        simp only [e, Bool.false_eq_true, if_false]
        exact ih'


/-! ### per variable: the value read is what the lines say -/

theorem valuesOf_valueOf (pairs : List (Var × Bytes)) (v : Var) (hc : S.chainOk pairs = true)
    (hi : S.intsCanon pairs = true) :
    valuesOf (S.valueOf pairs v) = (pairs.filter (·.1 == v)).map (·.2) := by
  unfold S.valueOf
  simp only
  by_cases he : ((pairs.filter (·.1 == v)).map (·.2)).isEmpty = true
  · simp only [he, if_true, valuesOf]
    simpa using he
  · simp only [he, Bool.false_eq_true, if_false]
    by_cases hm : S.multiLine.contains v = true
    · simp only [hm, if_true, valuesOf]
    · have hm' : S.multiLine.contains v = false := by simpa using hm
      simp only [hm', Bool.false_eq_true, if_false]
      have hlen := chain_single pairs v hc hm'
      cases hf : pairs.filter (·.1 == v) with
      | nil => simp [hf] at he
      | cons p ps =>
        rw [hf] at hlen
        have hps : ps = [] := by
          cases ps with
          | nil => rfl
          | cons q qs => simp at hlen
        subst hps
        have hmem : p ∈ pairs.filter (·.1 == v) := by rw [hf]; simp
        rw [List.mem_filter] at hmem
        have hpv : p.1 = v := by simpa using hmem.2
        simp only [List.map_cons, List.map_nil, List.getLast?_singleton]
        by_cases hint : S.integer.contains v = true
        · simp only [hint, if_true]
          unfold S.intsCanon at hi
          rw [List.all_eq_true] at hi
          have := hi p hmem.1
          simp only [hpv, hint, Bool.not_true, Bool.false_or] at this
          cases hpar : parseI64? (bytesToAsciiStr p.2) with
          | none => simp [hpar] at this
          | some n =>
            simp only [hpar] at this
            have : intBytes n = p.2 := by simpa using this
            simp [valuesOf, this]
        · have hint' : S.integer.contains v = false := by simpa using hint
          simp only [hint', Bool.false_eq_true, if_false, valuesOf]

/-- **parse then print (specification level)**: a canonical text whose parse succeeds prints
    back byte for byte -/
theorem spec_print_parse (t : Bytes) (hcan : S.canonical t = true) (s' : Summary)
    (hp : S.parse t = .ok s') : Summary.print s' = t := by
  unfold S.canonical at hcan
  simp only [Bool.and_eq_true] at hcan
  obtain ⟨⟨hend, hcr⟩, ⟨⟨hlen, hchain⟩, hints⟩⟩ := hcan
  have hlen := eq_of_beq hlen
  have hcr' : (13 : UInt8) ∉ t := by simpa using hcr
  have hend' : t = [] ∨ t.getLast? = some 10 := by
    rcases Bool.or_eq_true _ _ |>.mp hend with h | h
    · left; simpa using h
    · right; simpa using h
  obtain ⟨hl, hok, hff⟩ := all_lines_ok (S.textLines t) hlen
  generalize hvars : ((S.textLines t).map S.classify).filterMap S.okOf = vars at hl hok hchain hints
  -- the parsed state is `valueOf vars`
  have hs : ∀ v, s' v = S.valueOf vars v := by
    unfold S.parse at hp
    simp only [hff, hok] at hp
    split at hp
    · cases hp
    · injection hp with hp; intro v; rw [← hp]
  have hsorted := chain_sorted vars hchain
  rw [print_eq]
  have hgroups : (Var.all.flatMap fun v => (valuesOf (s' v)).map (lineOf v)) = vars.map (fun p => lineOf p.1 p.2) := by
    have e : ∀ v, (valuesOf (s' v)).map (lineOf v) = (vars.filter (·.1 == v)).map (fun p => lineOf p.1 p.2) := by
      intro v
      rw [hs v, valuesOf_valueOf vars v hchain hints, List.map_map]
      apply List.map_congr_left
      intro p hp
      rw [List.mem_filter] at hp
      have : p.1 = v := by simpa using hp.2
      simp [this]
    simp only [e]
    rw [← List.map_flatMap, group_by_var vars hsorted]
  rw [hgroups, ← hl]
  exact textLines_join t hcr' hend'

end L
