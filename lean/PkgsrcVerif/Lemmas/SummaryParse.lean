/-
Lemmas/SummaryParse.lean — the line-by-line fold of Summary::from_str computes the
same function as the classify-then-collect specification (S.parse).
-/
import PkgsrcVerif.Lemmas.Summary
namespace L
open M

/-! ### lines -/

/-- what both formulations do with the pieces between '\n' -/
def finishLines (pieces : List Bytes) : List Bytes :=
  pieces.dropLast.map stripCr ++ (match pieces.getLast? with | some [] => [] | some l => [l] | none => [])

theorem splitOn_ne_nil' (b : Bytes) : lines.splitOn 10 b ≠ [] := by
  induction b with
  | nil => simp [lines.splitOn]
  | cons c r ih =>
    simp only [lines.splitOn]
    split
    · simp
    · split <;> simp

theorem lines_eq_finish (b : Bytes) : lines b = finishLines (lines.splitOn 10 b) := by
  unfold lines finishLines
  cases b with
  | nil => simp [lines.splitOn]
  | cons c r =>
    simp only
    cases h : lines.splitOn 10 (c :: r) with
    | nil => exact absurd h (splitOn_ne_nil' _)
    | cons p ps =>
      simp only
      cases hl : (p :: ps).getLast? with
      | none => simp
      | some l => cases l <;> simp

theorem stripCr_rev (cur : Bytes) :
    (match cur with | 13 :: c => c.reverse | c => c.reverse) = stripCr cur.reverse := by
  unfold stripCr
  cases cur with
  | nil => simp
  | cons x c =>
    by_cases hx : x = 13
    · subst hx; simp
    · have : (x :: c).reverse.getLast? = some x := by simp
      simp only [this]
      split
      · rename_i heq; injection heq with e _; exact absurd e hx
      · split
        · rename_i heq; simp at heq; exact absurd heq hx
        · rfl

theorem splitOn_nl (r : Bytes) : lines.splitOn 10 (10 :: r) = [] :: lines.splitOn 10 r := by
  conv => lhs; unfold lines.splitOn
  rfl


theorem go_nl (cur r : Bytes) :
    S.textLines.go cur (10 :: r) = (match cur with | 13 :: c => c.reverse | c => c.reverse) :: S.textLines.go [] r := by
  conv => lhs; unfold S.textLines.go
  rfl

theorem go_nil (cur : Bytes) : S.textLines.go cur [] = if cur.isEmpty then [] else [cur.reverse] := by
  conv => lhs; unfold S.textLines.go

theorem go_other (cur : Bytes) (c : UInt8) (r : Bytes) (hc : c ≠ 10) :
    S.textLines.go cur (c :: r) = S.textLines.go (c :: cur) r := by
  conv => lhs; unfold S.textLines.go
  split
  · rename_i heq; cases heq
  · rename_i heq; injection heq with e _; exact absurd e hc
  · rename_i heq; injection heq with e1 e2; subst e1; subst e2; rfl

theorem splitOn_other (c : UInt8) (r : Bytes) (hc : c ≠ 10) :
    lines.splitOn 10 (c :: r) = (match lines.splitOn 10 r with | [] => [[c]] | s :: ss => (c :: s) :: ss) := by
  have : (c == 10) = false := by simpa using hc
  conv => lhs; unfold lines.splitOn
  simp only [this, Bool.false_eq_true, if_false]
  rfl

theorem go_eq (cur rest : Bytes) :
    S.textLines.go cur rest = (match lines.splitOn 10 rest with
      | [] => []
      | p :: ps => finishLines ((cur.reverse ++ p) :: ps)) := by
  induction rest generalizing cur with
  | nil =>
    rw [go_nil]
    simp only [lines.splitOn, finishLines, List.append_nil]
    cases cur with
    | nil => simp
    | cons x c =>
      have : (x :: c).reverse ≠ [] := by simp
      cases h : (x :: c).reverse with
      | nil => exact absurd h this
      | cons y ys => simp
  | cons c r ih =>
    by_cases hc : c = 10
    · subst hc
      rw [splitOn_nl, go_nl, ih []]
      cases hs : lines.splitOn 10 r with
      | nil => exact absurd hs (splitOn_ne_nil' r)
      | cons p ps =>
        simp only [finishLines, List.reverse_nil, List.nil_append, List.append_nil, stripCr_rev]
        simp
    · rw [splitOn_other c r hc, go_other cur c r hc, ih (c :: cur)]
      cases hs : lines.splitOn 10 r with
      | nil => exact absurd hs (splitOn_ne_nil' r)
      | cons p ps => simp

/-- the two definitions of "the lines of a text" coincide -/
theorem lines_eq_textLines (b : Bytes) : lines b = S.textLines b := by
  rw [lines_eq_finish]
  unfold S.textLines
  rw [go_eq]
  cases hs : lines.splitOn 10 b with
  | nil => exact absurd hs (splitOn_ne_nil' b)
  | cons p ps => simp

end L

namespace L
open M

/-! ### one line -/

theorem splitEq_spec (l : Bytes) :
    splitEq l = if l.contains 61 then some (l.takeWhile (· != 61), (l.dropWhile (· != 61)).drop 1) else none := by
  induction l with
  | nil => simp [splitEq]
  | cons c r ih =>
    by_cases hc : c = 61
    · subst hc; simp [splitEq, List.takeWhile_cons, List.dropWhile_cons]
    · have h1 : (c == 61) = false := by simpa using hc
      have h2 : (c != 61) = true := by simpa using hc
      have h3 : (c :: r).contains 61 = r.contains 61 := by
        simp only [List.contains_cons]
        have : ((61 : UInt8) == c) = false := by simpa using fun e => hc e.symm
        simp [this]
      simp only [splitEq, h1, Bool.false_eq_true, if_false, ih, h3, List.takeWhile_cons, List.dropWhile_cons, h2,
        if_true]
      split <;> simp

theorem lookup_eq_ofName (k : Bytes) : S.lookup k = Var.ofName k := by
  cases h : Var.ofName k with
  | some v =>
    have hk := ofName_some k v h
    subst hk
    cases v <;> decide
  | none =>
    cases hl : S.lookup k with
    | none => rfl
    | some v =>
      exfalso
      simp only [S.lookup, Option.map_eq_some_iff] at hl
      obtain ⟨e, he, hv⟩ := hl
      have hm := List.mem_of_find?_eq_some he
      have hp := List.find?_some he
      simp only [beq_iff_eq] at hp
      rw [table_eq, List.mem_map] at hm
      obtain ⟨w, _, hw⟩ := hm
      subst hw
      simp only at hp
      rw [← hp, ofName_name] at h
      cases h

theorem integer_iff (v : Var) : S.integer.contains v = (v.kind == .int) := by cases v <;> decide
theorem multiLine_iff (v : Var) : S.multiLine.contains v = (v.kind == .arr) := by cases v <;> decide

/-- what an accepted line does to the state -/
def applyPair (s : Summary) (p : Var × Bytes) : Summary :=
  match p.1.kind with
  | .str => s.set p.1 (.s p.2)
  | .arr => (s.push p.1 p.2).getD s
  | .int => match parseI64? (bytesToAsciiStr p.2) with
    | some n => s.set p.1 (.i n)
    | none => s

theorem parseLine_classify (s : Summary) (l : Bytes) :
    parseLine s l = (match S.classify l with
      | .noEq => .error (.parseLine l)
      | .unknown k => .error (.parseVariable k)
      | .badInt => .error .parseInt
      | .ok v val => .ok (applyPair s (v, val))) := by
  unfold parseLine S.classify
  rw [splitEq_spec]
  simp only [List.drop_one]
  by_cases hc : l.contains 61 = true
  · simp only [hc, if_true, Bool.not_true, Bool.false_eq_true, if_false, lookup_eq_ofName]
    cases hv : Var.ofName (l.takeWhile (· != 61)) with
    | none => rfl
    | some v =>
      simp only [integer_iff]
      cases hk : v.kind with
      | str => simp [applyPair, hk]
      | arr =>
        cases hp : s.push v (l.dropWhile (· != 61)).tail <;> simp [applyPair, hk, hp]
      | int =>
        cases hp : parseI64? (bytesToAsciiStr (l.dropWhile (· != 61)).tail) <;> simp [applyPair, hk, hp]
  · have hc' : l.contains 61 = false := by simpa using hc
    simp only [hc', Bool.false_eq_true, if_false, Bool.not_false, if_true]

/-! ### the fold -/

abbrev pairsOf (cls : List (Bytes × S.LineClass)) : List (Var × Bytes) := S.okPairs cls

theorem parseLines_fold (s : Summary) (ls : List Bytes) :
    parseLines s ls = (match S.firstFault (ls.map fun l => (l, S.classify l)) with
      | some e => .error e
      | none => .ok ((pairsOf (ls.map fun l => (l, S.classify l))).foldl applyPair s)) := by
  induction ls generalizing s with
  | nil => simp [parseLines, S.firstFault, pairsOf, S.okPairs]
  | cons l ls ih =>
    simp only [parseLines, parseLine_classify, List.map_cons]
    cases hc : S.classify l with
    | noEq => simp [S.firstFault]
    | unknown k => simp [S.firstFault]
    | badInt => simp [S.firstFault]
    | ok v val =>
      simp only [S.firstFault, pairsOf, S.okPairs, List.filterMap_cons, List.foldl_cons]
      exact ih _

/-- every pair of an int variable carries a parsable value (guaranteed by `classify`) -/
def IntsOk (pairs : List (Var × Bytes)) : Prop :=
  ∀ p ∈ pairs, p.1.kind = .int → (parseI64? (bytesToAsciiStr p.2)).isSome = true

theorem valueOf_snoc (pairs : List (Var × Bytes)) (v : Var) (val : Bytes) (w : Var) (hw : w ≠ v) :
    S.valueOf (pairs ++ [(v, val)]) w = S.valueOf pairs w := by
  have hvw : ((v == w) = false) := by simpa using fun e => hw e.symm
  have hf : (pairs ++ [(v, val)]).filter (·.1 == w) = pairs.filter (·.1 == w) := by
    simp [List.filter_append, List.filter_cons, hvw]
  unfold S.valueOf
  simp only [hf]

theorem valueOf_snoc_same (pairs : List (Var × Bytes)) (v : Var) (val : Bytes) :
    S.valueOf (pairs ++ [(v, val)]) v =
      (match v.kind with
       | .str => some (.s val)
       | .int => (parseI64? (bytesToAsciiStr val)).map .i
       | .arr => some (.a (((pairs.filter (·.1 == v)).map (·.2)) ++ [val]))) := by
  have hf : ((pairs ++ [(v, val)]).filter (·.1 == v)).map (·.2) = (pairs.filter (·.1 == v)).map (·.2) ++ [val] := by
    simp [List.filter_append, List.filter_cons]
  unfold S.valueOf
  simp only [hf]
  have hne : ((pairs.filter (·.1 == v)).map (·.2) ++ [val]).isEmpty = false := by simp
  have hlast : ((pairs.filter (·.1 == v)).map (·.2) ++ [val]).getLast? = some val := by simp
  simp only [hne, Bool.false_eq_true, if_false, hlast, multiLine_iff, integer_iff]
  cases hk : v.kind <;> simp

theorem snoc_induction' {α} {P : List α → Prop} (h0 : P []) (hs : ∀ l a, P l → P (l ++ [a])) : ∀ l, P l := by
  intro l
  generalize hr : l.reverse = r
  induction r generalizing l with
  | nil => simp at hr; subst hr; exact h0
  | cons a r ih =>
    have : l = r.reverse ++ [a] := by
      have := congrArg List.reverse hr; simpa using this
    subst this
    exact hs _ _ (ih _ (by simp))

/-- `classify` accepts an integer variable's line only if its value parses -/
theorem classify_ok_int (l : Bytes) (v : Var) (val : Bytes) (h : S.classify l = .ok v val) (hk : v.kind = .int) :
    (parseI64? (bytesToAsciiStr val)).isSome = true := by
  unfold S.classify at h
  split at h
  · cases h
  · dsimp only at h
    split at h
    · cases h
    · rename_i v' hv'
      split at h
      · cases h
      · rename_i hb
        injection h with e1 e2
        subst e1; subst e2
        simp only [integer_iff, hk, beq_self_eq_true, Bool.true_and] at hb
        generalize parseI64? (bytesToAsciiStr (List.drop 1 (List.dropWhile (fun x => x != 61) l))) = r at hb
        cases r with
        | none => exact absurd rfl hb
        | some n => rfl

theorem fold_eq_valueOf (pairs : List (Var × Bytes)) (hi : IntsOk pairs) :
    ∀ w, (pairs.foldl applyPair Summary.empty) w = S.valueOf pairs w := by
  induction pairs using snoc_induction' with
  | h0 => intro w; simp [S.valueOf, Summary.empty]
  | hs ps p ih =>
    obtain ⟨v, val⟩ := p
    have hi' : IntsOk ps := fun q hq => hi q (by simp [hq])
    have ih := ih hi'
    intro w
    rw [List.foldl_append, List.foldl_cons, List.foldl_nil]
    by_cases hw : w = v
    · subst hw
      rw [valueOf_snoc_same]
      simp only [applyPair]
      cases hk : w.kind with
      | str => simp [set_same]
      | int =>
        have := hi (w, val) (by simp) hk
        cases hp : parseI64? (bytesToAsciiStr val) with
        | none => simp [hp] at this
        | some n => simp [set_same]
      | arr =>
        simp only
        have hv := ih w
        simp only [S.valueOf, multiLine_iff, hk, beq_self_eq_true, if_true] at hv
        unfold Summary.push
        rw [hv]
        by_cases he : ((ps.filter (·.1 == w)).map (·.2)).isEmpty = true
        · simp only [he, if_true]
          have : (ps.filter (·.1 == w)).map (·.2) = [] := by simpa using he
          simp [this, set_same]
        · simp only [he, Bool.false_eq_true, if_false]
          simp [set_same]
    · rw [valueOf_snoc _ _ _ _ hw, ← ih w]
      simp only [applyPair]
      cases hk : v.kind with
      | str => exact set_other _ _ _ _ hw
      | int => cases parseI64? (bytesToAsciiStr val) <;> simp [set_other _ _ _ _ hw]
      | arr =>
        unfold Summary.push
        cases hs : (List.foldl applyPair Summary.empty ps) v with
        | none => simp [set_other _ _ _ _ hw]
        | some x => cases x <;> simp [set_other _ _ _ _ hw]

theorem intsOk_pairsOf (ls : List Bytes) : IntsOk (pairsOf (ls.map fun l => (l, S.classify l))) := by
  intro p hp hk
  simp only [pairsOf, S.okPairs, List.mem_filterMap, List.mem_map] at hp
  obtain ⟨⟨l, c⟩, ⟨l', _, hl⟩, hsome⟩ := hp
  injection hl with h1 h2
  subst h1
  subst h2
  cases hc : S.classify l' with
  | ok v val =>
    simp only [hc, Option.some.injEq] at hsome
    subst hsome
    exact classify_ok_int l' v val hc hk
  | noEq => simp [hc] at hsome
  | unknown k => simp [hc] at hsome
  | badInt => simp [hc] at hsome

end L
