/-
Lemmas/SummaryRoundtrip.lean — printing a well-typed, round-trippable state and parsing
the text back yields the same value for each of the 23 variables.
-/
import PkgsrcVerif.Lemmas.SummaryParse
import PkgsrcVerif.Lemmas.Decimal
namespace L
open M

/-- the value lines (without '\n', without the "NAME=" prefix) a stored value prints as -/
def valuesOf : Option Value → List Bytes
  | none => []
  | some (.s b) => [b]
  | some (.i n) => [intBytes n]
  | some (.a l) => l

def lineOf (v : Var) (val : Bytes) : Bytes := asciiBytes v.name ++ 61 :: val

theorem print_eq (s : Summary) :
    s.print = (Var.all.flatMap fun v => (valuesOf (s v)).map (lineOf v)).flatMap (· ++ [10]) := by
  simp only [Summary.print, List.flatMap_assoc]
  congr 1
  funext v
  cases h : s v with
  | none => simp [valuesOf]
  | some x =>
    cases x with
    | s b => simp [valuesOf, printVar, lineOf]
    | i n => simp [valuesOf, printVar, lineOf]
    | a l => simp [valuesOf, printVar, lineOf, List.flatMap_map]

/-- `textLines` of '\n'-terminated lines that contain neither LF nor CR is the list of lines -/
theorem go_line (cur l rest : Bytes) (hl : (10 : UInt8) ∉ l) :
    S.textLines.go cur (l ++ 10 :: rest) =
      stripCr (cur.reverse ++ l) :: S.textLines.go [] rest := by
  induction l generalizing cur with
  | nil => simp [go_nl, stripCr_rev]
  | cons c l ih =>
    simp only [List.mem_cons, not_or] at hl
    have hc : c ≠ 10 := fun e => hl.1 e.symm
    rw [List.cons_append, go_other cur c _ hc, ih (c :: cur) hl.2]
    simp

theorem stripCr_noCr (l : Bytes) (h : (13 : UInt8) ∉ l) : stripCr l = l := by
  unfold stripCr
  cases hl : l.getLast? with
  | none => rfl
  | some x =>
    have hm : x ∈ l := List.mem_of_getLast? hl
    split
    · rename_i heq; injection heq with e; subst e; exact absurd hm h
    · rfl

theorem textLines_terminated (ls : List Bytes) (h : ∀ l ∈ ls, (10 : UInt8) ∉ l ∧ (13 : UInt8) ∉ l) :
    S.textLines (ls.flatMap (· ++ [10])) = ls := by
  unfold S.textLines
  induction ls with
  | nil => simp [go_nil]
  | cons l ls ih =>
    have hl := h l (by simp)
    simp only [List.flatMap_cons, List.append_assoc, List.singleton_append]
    rw [go_line [] l _ hl.1]
    simp only [List.reverse_nil, List.nil_append, stripCr_noCr l hl.2]
    rw [ih (fun x hx => h x (by simp [hx]))]

/-! ### classify on a printed line -/

theorem name_no_eq (v : Var) : (61 : UInt8) ∉ asciiBytes v.name := by cases v <;> decide
theorem name_clean (v : Var) : (10 : UInt8) ∉ asciiBytes v.name ∧ (13 : UInt8) ∉ asciiBytes v.name := by
  cases v <;> decide

theorem takeWhile_name (v : Var) (val : Bytes) : (lineOf v val).takeWhile (· != 61) = asciiBytes v.name := by
  unfold lineOf
  have h := name_no_eq v
  generalize asciiBytes v.name = n at h
  induction n with
  | nil => simp
  | cons c n ih =>
    simp only [List.mem_cons, not_or] at h
    have hc : (c != 61) = true := by simpa using fun e => h.1 e.symm
    simp [List.takeWhile_cons, hc, ih h.2]

theorem dropWhile_name (v : Var) (val : Bytes) : ((lineOf v val).dropWhile (· != 61)).drop 1 = val := by
  unfold lineOf
  have h := name_no_eq v
  generalize asciiBytes v.name = n at h
  induction n with
  | nil => simp
  | cons c n ih =>
    simp only [List.mem_cons, not_or] at h
    have hc : (c != 61) = true := by simpa using fun e => h.1 e.symm
    simp [List.dropWhile_cons, hc, ih h.2]

theorem contains_eq (v : Var) (val : Bytes) : (lineOf v val).contains 61 = true := by
  simp [lineOf]

theorem classify_line (v : Var) (val : Bytes)
    (hint : v.kind = .int → (parseI64? (bytesToAsciiStr val)).isSome = true) :
    S.classify (lineOf v val) = .ok v val := by
  unfold S.classify
  simp only [contains_eq, Bool.not_true, Bool.false_eq_true, if_false, takeWhile_name, dropWhile_name,
    lookup_eq_ofName, ofName_name, integer_iff]
  cases hk : v.kind with
  | int =>
    have := hint hk
    cases hp : parseI64? (bytesToAsciiStr val) with
    | none => simp [hp] at this
    | some n => simp
  | str => simp
  | arr => simp

/-! ### ASCII decimal bytes -/

theorem ascii_char_roundtrip (c : Char) (h : c.toNat < 128) : Char.ofNat (UInt8.ofNat c.toNat).toNat = c := by
  have : (UInt8.ofNat c.toNat).toNat = c.toNat := by
    simp only [UInt8.toNat_ofNat']
    omega
  rw [this, Char.ofNat_toNat]

theorem bytesToAsciiStr_intBytes (n : Int) : bytesToAsciiStr (intBytes n) = intToDec n := by
  unfold bytesToAsciiStr intBytes
  rw [List.map_map]
  have : ∀ c ∈ intToDec n, c.toNat < 128 := by
    intro c hc
    unfold intToDec at hc
    have hd : ∀ c ∈ natToDec n.natAbs, c.toNat < 128 := by
      intro c hc
      have := toDigits_all_digits n.natAbs c hc
      simp only [isDigit, decide_eq_true_eq] at this
      have h9 : '9'.toNat = 57 := by decide
      omega
    split at hc
    · simp only [List.mem_cons] at hc
      rcases hc with rfl | hc
      · decide
      · exact hd c hc
    · exact hd c hc
  generalize intToDec n = l at this
  induction l with
  | nil => rfl
  | cons c l ih =>
    simp only [List.map_cons, Function.comp]
    rw [ascii_char_roundtrip c (this c (by simp))]
    congr 1
    exact ih (fun x hx => this x (by simp [hx]))

theorem intBytes_clean (n : Int) : (10 : UInt8) ∉ intBytes n ∧ (13 : UInt8) ∉ intBytes n := by
  have key : ∀ b ∈ intBytes n, b = 45 ∨ (48 ≤ b.toNat ∧ b.toNat ≤ 57) := by
    intro b hb
    unfold intBytes at hb
    simp only [List.mem_map] at hb
    obtain ⟨c, hc, rfl⟩ := hb
    unfold intToDec at hc
    have hd : ∀ c ∈ natToDec n.natAbs, 48 ≤ (UInt8.ofNat c.toNat).toNat ∧ (UInt8.ofNat c.toNat).toNat ≤ 57 := by
      intro c hc
      have := toDigits_all_digits n.natAbs c hc
      simp only [isDigit, decide_eq_true_eq] at this
      have h0 : '0'.toNat = 48 := by decide
      have h9 : '9'.toNat = 57 := by decide
      simp only [UInt8.toNat_ofNat']
      omega
    split at hc
    · simp only [List.mem_cons] at hc
      rcases hc with rfl | hc
      · left; decide
      · right; exact hd c hc
    · right; exact hd c hc
  constructor <;> (intro h; rcases key _ h with e | e) <;> simp_all

end L

namespace L
open M

/-! ### the (variable, value) pairs a state prints -/

def printedPairs (s : Summary) : List (Var × Bytes) :=
  Var.all.flatMap fun v => (valuesOf (s v)).map (fun b => (v, b))

theorem lines_of_pairs (s : Summary) :
    (Var.all.flatMap fun v => (valuesOf (s v)).map (lineOf v)) = (printedPairs s).map (fun p => lineOf p.1 p.2) := by
  simp [printedPairs, List.map_flatMap, Function.comp_def]

theorem okPairs_cons_ok (l : Bytes) (v : Var) (val : Bytes) (rest : List (Bytes × S.LineClass)) :
    S.okPairs ((l, .ok v val) :: rest) = (v, val) :: S.okPairs rest := rfl

theorem mem_multiLine (w : Var) : w ∈ S.multiLine ↔ w.kind = .arr := by cases w <;> decide
theorem mem_integer (w : Var) : w ∈ S.integer ↔ w.kind = .int := by cases w <;> decide

/-- if every printed line classifies as its own (variable, value), nothing is at fault and the
    collected pairs are the printed pairs -/
theorem classify_all (ps : List (Var × Bytes))
    (h : ∀ p ∈ ps, S.classify (lineOf p.1 p.2) = .ok p.1 p.2) :
    S.firstFault ((ps.map fun p => lineOf p.1 p.2).map fun l => (l, S.classify l)) = none ∧
    S.okPairs ((ps.map fun p => lineOf p.1 p.2).map fun l => (l, S.classify l)) = ps := by
  induction ps with
  | nil => exact ⟨rfl, rfl⟩
  | cons p ps ih =>
    have hp := h p (by simp)
    obtain ⟨i1, i2⟩ := ih (fun q hq => h q (by simp [hq]))
    simp only [List.map_cons, hp, S.firstFault, okPairs_cons_ok, i1, i2]
    exact ⟨trivial, trivial⟩

theorem filter_flatMap_nodup {α β} [DecidableEq α] (l : List α) (f : α → List (α × β)) (w : α)
    (hf : ∀ v, ∀ p ∈ f v, p.1 = v) (hn : l.Nodup) :
    (l.flatMap f).filter (·.1 == w) = if w ∈ l then f w else [] := by
  induction l with
  | nil => simp
  | cons a l ih =>
    rw [List.nodup_cons] at hn
    simp only [List.flatMap_cons, List.filter_append, ih hn.2]
    by_cases ha : a = w
    · subst ha
      have : (f a).filter (·.1 == a) = f a := by
        rw [List.filter_eq_self]
        intro p hp; simpa using hf a p hp
      simp [this, hn.1]
    · have : (f a).filter (·.1 == w) = [] := by
        rw [List.filter_eq_nil_iff]
        intro p hp
        have := hf a p hp
        simp [this, ha]
      have hw : (w ∈ a :: l) ↔ (w ∈ l) := by
        simp only [List.mem_cons, or_iff_right_iff_imp]
        intro e; exact absurd e.symm ha
      simp only [this, List.nil_append, hw]

theorem all_nodup : Var.all.Nodup := by decide

theorem mine_eq (s : Summary) (w : Var) :
    ((printedPairs s).filter (·.1 == w)).map (·.2) = valuesOf (s w) := by
  unfold printedPairs
  rw [filter_flatMap_nodup Var.all _ w (by intro v p hp; simp only [List.mem_map] at hp; obtain ⟨b, _, rfl⟩ := hp; rfl)
    all_nodup]
  simp [all_complete w, Function.comp_def]

theorem rt_all (s : Summary) (h : S.roundTrippable s = true) (v : Var) :
    (match s v with
      | none => true
      | some (.s b) => !b.contains 10 && !b.contains 13
      | some (.i _) => true
      | some (.a l) => !l.isEmpty && l.all fun b => !b.contains 10 && !b.contains 13) = true := by
  unfold S.roundTrippable at h
  rw [table_eq, List.all_map, List.all_eq_true] at h
  exact h v (all_complete v)

/-- the value read back for each variable is the stored one -/
theorem valueOf_printed (s : Summary) (hw : WellTyped s) (hr : S.roundTrippable s = true)
    (hi : ∀ v n, s v = some (.i n) → InI64 n) (w : Var) :
    S.valueOf (printedPairs s) w = s w := by
  unfold S.valueOf
  simp only [mine_eq]
  have hk := (wellTyped_iff s).mp hw w
  have hrt := rt_all s hr w
  cases hs : s w with
  | none => simp [valuesOf]
  | some x =>
    have hkx := hk x hs
    rw [hs] at hrt
    cases x with
    | s b =>
      simp only [valueKind] at hkx
      simp [valuesOf, mem_multiLine, mem_integer, ← hkx]
    | i n =>
      simp only [valueKind] at hkx
      simp [valuesOf, mem_multiLine, mem_integer, ← hkx, bytesToAsciiStr_intBytes,
        parseI64_intToDec n (hi w n hs)]
    | a l =>
      simp only [valueKind] at hkx
      simp only [Bool.and_eq_true, Bool.not_eq_true', List.isEmpty_eq_false_iff] at hrt
      have : l.isEmpty = false := by simpa using hrt.1
      simp [valuesOf, mem_multiLine, ← hkx, this]

/-- every printed line is free of CR and LF -/
theorem printed_clean (s : Summary) (hr : S.roundTrippable s = true) :
    ∀ p ∈ printedPairs s, (10 : UInt8) ∉ lineOf p.1 p.2 ∧ (13 : UInt8) ∉ lineOf p.1 p.2 := by
  intro p hp
  simp only [printedPairs, List.mem_flatMap, List.mem_map] at hp
  obtain ⟨v, _, b, hb, rfl⟩ := hp
  have hrt := rt_all s hr v
  have hn := name_clean v
  have hbc : (10 : UInt8) ∉ b ∧ (13 : UInt8) ∉ b := by
    cases hs : s v with
    | none => simp [hs, valuesOf] at hb
    | some x =>
      rw [hs] at hrt hb
      cases x with
      | s c =>
        simp only [valuesOf, List.mem_singleton] at hb; subst hb
        simpa using hrt
      | i n =>
        simp only [valuesOf, List.mem_singleton] at hb; subst hb
        exact intBytes_clean n
      | a l =>
        simp only [valuesOf] at hb
        simp only [Bool.and_eq_true, List.all_eq_true] at hrt
        simpa using hrt.2 b hb
  simp only [lineOf, List.mem_append, List.mem_cons, not_or]
  exact ⟨⟨hn.1, by decide, hbc.1⟩, ⟨hn.2, by decide, hbc.2⟩⟩

/-- every printed line classifies as its own pair -/
theorem printed_classify (s : Summary) (hw : WellTyped s) (hi : ∀ v n, s v = some (.i n) → InI64 n) :
    ∀ p ∈ printedPairs s, S.classify (lineOf p.1 p.2) = .ok p.1 p.2 := by
  intro p hp
  simp only [printedPairs, List.mem_flatMap, List.mem_map] at hp
  obtain ⟨v, _, b, hb, rfl⟩ := hp
  apply classify_line
  intro hk
  have hkv := (wellTyped_iff s).mp hw v
  cases hs : s v with
  | none => simp [hs, valuesOf] at hb
  | some x =>
    have := hkv x hs
    rw [hs] at hb
    cases x with
    | s c => simp [valueKind, hk] at this
    | a l => simp [valueKind, hk] at this
    | i n =>
      simp only [valuesOf, List.mem_singleton] at hb; subst hb
      simp [bytesToAsciiStr_intBytes, parseI64_intToDec n (hi v n hs)]

/-- **print then parse (specification level)** -/
theorem spec_parse_print (s : Summary) (hw : WellTyped s) (hc : s.isCompleted = true)
    (hr : S.roundTrippable s = true) (hi : ∀ v n, s v = some (.i n) → InI64 n) :
    ∃ s', S.parse s.print = .ok s' ∧ ∀ v, s' v = s v := by
  have htl : S.textLines s.print = (printedPairs s).map (fun p => lineOf p.1 p.2) := by
    rw [print_eq, lines_of_pairs, textLines_terminated]
    intro l hl
    simp only [List.mem_map] at hl
    obtain ⟨p, hp, rfl⟩ := hl
    exact printed_clean s hr p hp
  obtain ⟨hf, ho⟩ := classify_all (printedPairs s) (printed_classify s hw hi)
  have hv := valueOf_printed s hw hr hi
  refine ⟨S.valueOf (printedPairs s), ?_, hv⟩
  unfold S.parse
  simp only [htl, hf, ho]
  have : S.required.find? (fun v => (S.valueOf (printedPairs s) v).isNone) = none := by
    rw [List.find?_eq_none]
    intro v hv'
    rw [hv v]
    have hreq : S.required = Var.required := rfl
    rw [hreq] at hv'
    unfold Summary.isCompleted at hc
    rw [List.all_eq_true] at hc
    have := hc v hv'
    cases h : s v <;> simp_all
  simp only [this]

end L
