/-
Lemmas/Utf8.lean — the UTF-8 scan, one character at a time: concatenations of valid
texts are valid, and a prefix of a valid text is never "invalid" — at worst it ends in an
incomplete character whose bytes are all ≥ 0x80 (so contain no '\n').
-/
import PkgsrcVerif.Model.Utf8
namespace L
open M

inductive StepRes | ok (w : Nat) | incomplete | invalid
  deriving DecidableEq, Repr

/-- decode one character at the head of a non-empty byte string -/
def step : Bytes → StepRes
  | [] => .ok 0
  | b0 :: rest =>
    match width b0 with
    | 1 => .ok 1
    | 2 =>
      (match rest with
       | [] => .incomplete
       | b1 :: _ => if isCont b1 then .ok 2 else .invalid)
    | 3 =>
      (match rest with
       | [] => .incomplete
       | b1 :: r =>
         if !ok3 b0 b1 then .invalid
         else match r with
           | [] => .incomplete
           | b2 :: _ => if isCont b2 then .ok 3 else .invalid)
    | 4 =>
      (match rest with
       | [] => .incomplete
       | b1 :: r =>
         if !ok4 b0 b1 then .invalid
         else match r with
           | [] => .incomplete
           | b2 :: r =>
             if !isCont b2 then .invalid
             else match r with
               | [] => .incomplete
               | b3 :: _ => if isCont b3 then .ok 4 else .invalid)
    | _ => .invalid

theorem scan_unfold (fuel : Nat) (b0 : UInt8) (rest : Bytes) (n : Nat) :
    utf8Scan (fuel + 1) (b0 :: rest) n =
      match step (b0 :: rest) with
      | .ok w => utf8Scan fuel ((b0 :: rest).drop w) (n + w)
      | .incomplete => (n, .incomplete)
      | .invalid => (n, .invalid) := by
  simp only [utf8Scan, step]
  generalize width b0 = w
  match w with
  | 0 => rfl
  | 1 => rfl
  | 2 =>
    cases rest with
    | nil => rfl
    | cons b1 r => by_cases h : isCont b1 = true <;> simp [h]
  | 3 =>
    cases rest with
    | nil => rfl
    | cons b1 r =>
      by_cases h : ok3 b0 b1 = true
      · cases r with
        | nil => simp [h]
        | cons b2 r => by_cases h2 : isCont b2 = true <;> simp [h, h2]
      · simp [h]
  | 4 =>
    cases rest with
    | nil => rfl
    | cons b1 r =>
      by_cases h : ok4 b0 b1 = true
      · cases r with
        | nil => simp [h]
        | cons b2 r =>
          by_cases h2 : isCont b2 = true
          · cases r with
            | nil => simp [h, h2]
            | cons b3 r => by_cases h3 : isCont b3 = true <;> simp [h, h2, h3]
          · simp [h, h2]
      · simp [h]
  | (k + 5) => rfl


/-! ### fuel and offset -/

theorem step_ok_pos (b0 : UInt8) (rest : Bytes) (w : Nat) (h : step (b0 :: rest) = .ok w) :
    1 ≤ w ∧ w ≤ (b0 :: rest).length := by
  simp only [step] at h
  generalize width b0 = k at h
  match k with
  | 0 => cases h
  | 1 => injection h with h; subst h; simp
  | 2 =>
    cases rest with
    | nil => cases h
    | cons b1 r =>
      by_cases c1 : isCont b1 = true <;> simp [c1] at h
      subst h; simp
  | 3 =>
    cases rest with
    | nil => cases h
    | cons b1 r =>
      by_cases c1 : ok3 b0 b1 = true <;> simp [c1] at h
      cases r with
      | nil => cases h
      | cons b2 r =>
        by_cases c2 : isCont b2 = true <;> simp [c2] at h
        subst h; simp
  | 4 =>
    cases rest with
    | nil => cases h
    | cons b1 r =>
      by_cases c1 : ok4 b0 b1 = true <;> simp [c1] at h
      cases r with
      | nil => cases h
      | cons b2 r =>
        by_cases c2 : isCont b2 = true <;> simp [c2] at h
        cases r with
        | nil => cases h
        | cons b3 r =>
          by_cases c3 : isCont b3 = true <;> simp [c3] at h
          subst h; simp
  | (k + 5) => cases h

/-- the offset is only added -/
theorem scan_shift (fuel : Nat) (b : Bytes) (n : Nat) :
    utf8Scan fuel b n = ((utf8Scan fuel b 0).1 + n, (utf8Scan fuel b 0).2) := by
  induction fuel generalizing b n with
  | zero => simp [utf8Scan]
  | succ fuel ih =>
    cases b with
    | nil => simp [utf8Scan]
    | cons b0 rest =>
      rw [scan_unfold, scan_unfold fuel b0 rest 0]
      cases hs : step (b0 :: rest) with
      | ok w =>
        simp only
        rw [ih _ (n + w), ih _ (0 + w)]
        simp only [Nat.zero_add]
        congr 1
        omega
      | incomplete => simp
      | invalid => simp

/-- any fuel above the length gives the same result -/
theorem scan_fuel (f1 f2 : Nat) (b : Bytes) (n : Nat) (h1 : b.length < f1) (h2 : b.length < f2) :
    utf8Scan f1 b n = utf8Scan f2 b n := by
  induction f1 generalizing f2 b n with
  | zero => omega
  | succ f1 ih =>
    cases f2 with
    | zero => omega
    | succ f2 =>
      cases b with
      | nil => simp [utf8Scan]
      | cons b0 rest =>
        rw [scan_unfold, scan_unfold]
        cases hs : step (b0 :: rest) with
        | ok w =>
          obtain ⟨hw1, hw2⟩ := step_ok_pos b0 rest w hs
          simp only
          apply ih
          · simp only [List.length_drop, List.length_cons] at *; omega
          · simp only [List.length_drop, List.length_cons] at *; omega
        | incomplete => rfl
        | invalid => rfl

/-- `utf8` of a non-empty string, one character at a time -/
theorem utf8_cons (b0 : UInt8) (rest : Bytes) :
    utf8 (b0 :: rest) =
      match step (b0 :: rest) with
      | .ok w => ((utf8 ((b0 :: rest).drop w)).1 + w, (utf8 ((b0 :: rest).drop w)).2)
      | .incomplete => (0, .incomplete)
      | .invalid => (0, .invalid) := by
  unfold utf8
  rw [scan_unfold]
  cases hs : step (b0 :: rest) with
  | ok w =>
    obtain ⟨hw1, hw2⟩ := step_ok_pos b0 rest w hs
    simp only
    rw [scan_shift, Nat.zero_add]
    rw [scan_fuel ((b0 :: rest).length) ((List.drop w (b0 :: rest)).length + 1) _ 0
      (by simp only [List.length_drop, List.length_cons] at *; omega) (by omega)]
  | incomplete => rfl
  | invalid => rfl

theorem utf8_nil : utf8 [] = (0, .complete) := by simp [utf8, utf8Scan]


/-! ### bytes of multi-byte characters are not ASCII -/

theorem width_ge2_high (b : UInt8) (h : 2 ≤ width b) : 0x80 ≤ b.toNat := by
  unfold width at h
  simp only at h
  split at h
  · omega
  · omega

theorem isCont_high (b : UInt8) (h : isCont b = true) : 0x80 ≤ b.toNat := by
  simp only [isCont, decide_eq_true_eq] at h; exact h.1

theorem ok3_high (a b : UInt8) (h : ok3 a b = true) : 0x80 ≤ b.toNat := by
  simp only [ok3, decide_eq_true_eq] at h; omega

theorem ok4_high (a b : UInt8) (h : ok4 a b = true) : 0x80 ≤ b.toNat := by
  simp only [ok4, decide_eq_true_eq] at h; omega

theorem high_ne_nl (b : UInt8) (h : 0x80 ≤ b.toNat) : b ≠ 10 := by
  intro e; subst e; simp at h

/-- an incomplete character consists of non-ASCII bytes only -/
theorem step_incomplete_high (a : Bytes) (h : step a = .incomplete) : ∀ x ∈ a, x ≠ 10 := by
  cases a with
  | nil => simp [step] at h
  | cons b0 rest =>
    simp only [step] at h
    generalize hk : width b0 = k at h
    have hb0 : 2 ≤ k → b0 ≠ 10 := fun hk2 => high_ne_nl _ (width_ge2_high b0 (by omega))
    match k with
    | 0 => cases h
    | 1 => cases h
    | 2 =>
      cases rest with
      | nil => intro x hx; simp only [List.mem_singleton] at hx; subst hx; exact hb0 (by omega)
      | cons b1 r => by_cases c1 : isCont b1 = true <;> simp [c1] at h
    | 3 =>
      cases rest with
      | nil => intro x hx; simp only [List.mem_singleton] at hx; subst hx; exact hb0 (by omega)
      | cons b1 r =>
        by_cases c1 : ok3 b0 b1 = true <;> simp [c1] at h
        cases r with
        | nil =>
          intro x hx
          simp only [List.mem_cons, List.mem_nil_iff, or_false] at hx
          rcases hx with rfl | rfl
          · exact hb0 (by omega)
          · exact high_ne_nl _ (ok3_high _ _ c1)
        | cons b2 r => by_cases c2 : isCont b2 = true <;> simp [c2] at h
    | 4 =>
      cases rest with
      | nil => intro x hx; simp only [List.mem_singleton] at hx; subst hx; exact hb0 (by omega)
      | cons b1 r =>
        by_cases c1 : ok4 b0 b1 = true <;> simp [c1] at h
        cases r with
        | nil =>
          intro x hx
          simp only [List.mem_cons, List.mem_nil_iff, or_false] at hx
          rcases hx with rfl | rfl
          · exact hb0 (by omega)
          · exact high_ne_nl _ (ok4_high _ _ c1)
        | cons b2 r =>
          by_cases c2 : isCont b2 = true <;> simp [c2] at h
          cases r with
          | nil =>
            intro x hx
            simp only [List.mem_cons, List.mem_nil_iff, or_false] at hx
            rcases hx with rfl | rfl | rfl
            · exact hb0 (by omega)
            · exact high_ne_nl _ (ok4_high _ _ c1)
            · exact high_ne_nl _ (isCont_high _ c2)
          | cons b3 r => by_cases c3 : isCont b3 = true <;> simp [c3] at h
    | (k + 5) => cases h

/-- a complete character stays the same character whatever follows -/
theorem step_ok_append (a y : Bytes) (w : Nat) (hne : a ≠ []) (h : step a = .ok w) : step (a ++ y) = .ok w := by
  cases a with
  | nil => exact absurd rfl hne
  | cons b0 rest =>
    simp only [List.cons_append, step] at h ⊢
    generalize width b0 = k at h ⊢
    match k with
    | 0 => cases h
    | 1 => exact h
    | 2 =>
      cases rest with
      | nil => cases h
      | cons b1 r => exact h
    | 3 =>
      cases rest with
      | nil => cases h
      | cons b1 r =>
        by_cases c1 : ok3 b0 b1 = true <;> simp [c1] at h ⊢
        cases r with
        | nil => cases h
        | cons b2 r => exact h
    | 4 =>
      cases rest with
      | nil => cases h
      | cons b1 r =>
        by_cases c1 : ok4 b0 b1 = true <;> simp [c1] at h ⊢
        cases r with
        | nil => cases h
        | cons b2 r =>
          by_cases c2 : isCont b2 = true <;> simp [c2] at h ⊢
          cases r with
          | nil => cases h
          | cons b3 r => exact h
    | (k + 5) => cases h

/-- a non-empty prefix of a complete character is that character or an incomplete one -/
theorem step_prefix (a y : Bytes) (w : Nat) (hne : a ≠ []) (h : step (a ++ y) = .ok w) :
    (w ≤ a.length ∧ step a = .ok w) ∨ (a.length < w ∧ step a = .incomplete) := by
  cases a with
  | nil => exact absurd rfl hne
  | cons b0 rest =>
    simp only [List.cons_append, step] at h ⊢
    generalize width b0 = k at h ⊢
    match k with
    | 0 => cases h
    | 1 => injection h with h; subst h; left; simp
    | 2 =>
      cases rest with
      | nil =>
        cases y with
        | nil => cases h
        | cons b1 r =>
          simp only [List.nil_append] at h
          by_cases c1 : isCont b1 = true <;> simp [c1] at h
          subst h; right; simp
      | cons b1 r =>
        simp only [List.cons_append] at h
        by_cases c1 : isCont b1 = true <;> simp [c1] at h ⊢
        subst h; simp
    | 3 =>
      cases rest with
      | nil =>
        cases y with
        | nil => cases h
        | cons b1 r =>
          simp only [List.nil_append] at h
          by_cases c1 : ok3 b0 b1 = true <;> simp [c1] at h
          cases r with
          | nil => cases h
          | cons b2 r =>
            by_cases c2 : isCont b2 = true <;> simp [c2] at h
            subst h; right; simp
      | cons b1 r =>
        simp only [List.cons_append] at h
        by_cases c1 : ok3 b0 b1 = true <;> simp [c1] at h ⊢
        cases r with
        | nil =>
          cases y with
          | nil => cases h
          | cons b2 r =>
            simp only [List.nil_append] at h
            by_cases c2 : isCont b2 = true <;> simp [c2] at h
            subst h; right; simp
        | cons b2 r =>
          simp only [List.cons_append] at h
          by_cases c2 : isCont b2 = true <;> simp [c2] at h ⊢
          subst h; simp
    | 4 =>
      cases rest with
      | nil =>
        cases y with
        | nil => cases h
        | cons b1 r =>
          simp only [List.nil_append] at h
          by_cases c1 : ok4 b0 b1 = true <;> simp [c1] at h
          cases r with
          | nil => cases h
          | cons b2 r =>
            by_cases c2 : isCont b2 = true <;> simp [c2] at h
            cases r with
            | nil => cases h
            | cons b3 r =>
              by_cases c3 : isCont b3 = true <;> simp [c3] at h
              subst h; right; simp
      | cons b1 r =>
        simp only [List.cons_append] at h
        by_cases c1 : ok4 b0 b1 = true <;> simp [c1] at h ⊢
        cases r with
        | nil =>
          cases y with
          | nil => cases h
          | cons b2 r =>
            simp only [List.nil_append] at h
            by_cases c2 : isCont b2 = true <;> simp [c2] at h
            cases r with
            | nil => cases h
            | cons b3 r =>
              by_cases c3 : isCont b3 = true <;> simp [c3] at h
              subst h; right; simp
        | cons b2 r =>
          simp only [List.cons_append] at h
          by_cases c2 : isCont b2 = true <;> simp [c2] at h ⊢
          cases r with
          | nil =>
            cases y with
            | nil => cases h
            | cons b3 r =>
              simp only [List.nil_append] at h
              by_cases c3 : isCont b3 = true <;> simp [c3] at h
              subst h; right; simp
          | cons b3 r =>
            simp only [List.cons_append] at h
            by_cases c3 : isCont b3 = true <;> simp [c3] at h ⊢
            subst h; simp
    | (k + 5) => cases h


/-! ### whole texts -/

/-- the text is valid UTF-8 from the first to the last byte -/
def Complete (b : Bytes) : Prop := utf8 b = (b.length, .complete)

theorem complete_nil : Complete [] := utf8_nil

/-- a valid text starts with a complete character, and the rest is valid -/
theorem complete_cons (b0 : UInt8) (rest : Bytes) (h : Complete (b0 :: rest)) :
    ∃ w, step (b0 :: rest) = .ok w ∧ 1 ≤ w ∧ w ≤ (b0 :: rest).length ∧ Complete ((b0 :: rest).drop w) := by
  unfold Complete at h
  rw [utf8_cons] at h
  cases hs : step (b0 :: rest) with
  | ok w =>
    obtain ⟨h1, h2⟩ := step_ok_pos b0 rest w hs
    refine ⟨w, rfl, h1, h2, ?_⟩
    simp only [hs] at h
    unfold Complete
    have e1 := congrArg Prod.fst h
    have e2 := congrArg Prod.snd h
    simp only at e1 e2
    have hl : (List.drop w (b0 :: rest)).length = (b0 :: rest).length - w := by simp
    apply Prod.ext
    · simp only; omega
    · exact e2
  | incomplete => simp [hs] at h
  | invalid => simp [hs] at h

theorem complete_of_step (b0 : UInt8) (rest : Bytes) (w : Nat) (hs : step (b0 :: rest) = .ok w)
    (hc : Complete ((b0 :: rest).drop w)) : Complete (b0 :: rest) := by
  obtain ⟨h1, h2⟩ := step_ok_pos b0 rest w hs
  unfold Complete at hc ⊢
  rw [utf8_cons, hs]
  simp only [hc]
  have hl : (List.drop w (b0 :: rest)).length = (b0 :: rest).length - w := by simp
  apply Prod.ext
  · simp only; omega
  · rfl

/-- valid ++ valid = valid -/
theorem complete_append (a b : Bytes) (ha : Complete a) (hb : Complete b) : Complete (a ++ b) := by
  generalize hn : a.length = n
  induction n using Nat.strongRecOn generalizing a with
  | _ n ih =>
    cases a with
    | nil => simpa using hb
    | cons b0 rest =>
      obtain ⟨w, hs, h1, h2, hc⟩ := complete_cons b0 rest ha
      have hs' := step_ok_append (b0 :: rest) b w (by simp) hs
      have hd : List.drop w ((b0 :: rest) ++ b) = List.drop w (b0 :: rest) ++ b := by
        rw [List.drop_append_of_le_length h2]
      have := ih (List.drop w (b0 :: rest)).length (by simp only [List.length_drop]; omega)
        (List.drop w (b0 :: rest)) hc rfl
      rw [← hd] at this
      exact complete_of_step b0 (rest ++ b) w hs' this

theorem complete_flatten (ls : List Bytes) (h : ∀ l ∈ ls, Complete l) : Complete ls.flatten := by
  induction ls with
  | nil => exact complete_nil
  | cons l ls ih =>
    simp only [List.flatten_cons]
    exact complete_append _ _ (h l (by simp)) (ih fun x hx => h x (by simp [hx]))

/-- a prefix of a valid text is never invalid: the scan accepts all of it except possibly an
    incomplete last character, whose bytes are not ASCII (in particular not '\n') -/
theorem prefix_tolerant (a y : Bytes) (h : Complete (a ++ y)) :
    (utf8 a).2 ≠ .invalid ∧ (utf8 a).1 ≤ a.length ∧ ∀ x ∈ a.drop (utf8 a).1, x ≠ 10 := by
  generalize hn : a.length = n
  induction n using Nat.strongRecOn generalizing a with
  | _ n ih =>
    cases a with
    | nil => simp [utf8_nil]
    | cons b0 rest =>
      obtain ⟨w, hs, h1, h2, hc⟩ := complete_cons b0 (rest ++ y) h
      rcases step_prefix (b0 :: rest) y w (by simp) hs with ⟨hw, hsa⟩ | ⟨hw, hsa⟩
      · have hd : List.drop w (b0 :: (rest ++ y)) = List.drop w (b0 :: rest) ++ y := by
          rw [← List.cons_append, List.drop_append_of_le_length hw]
        rw [hd] at hc
        obtain ⟨i1, i2, i3⟩ := ih (List.drop w (b0 :: rest)).length
          (by simp only [List.length_drop]; omega) (List.drop w (b0 :: rest)) hc rfl
        rw [utf8_cons, hsa]
        simp only
        refine ⟨i1, ?_, ?_⟩
        · simp only [List.length_drop] at i2; omega
        · intro x hx
          apply i3 x
          rw [List.drop_drop]
          rw [Nat.add_comm] at hx
          exact hx
      · rw [utf8_cons, hsa]
        simp only [List.drop_zero]
        exact ⟨by simp, by omega, step_incomplete_high _ hsa⟩

/-- ASCII text is valid -/
theorem complete_ascii (b : Bytes) (h : ∀ x ∈ b, x.toNat < 0x80) : Complete b := by
  induction b with
  | nil => exact complete_nil
  | cons c rest ih =>
    have hc : width c = 1 := by
      have := h c (by simp)
      simp [width, this]
    have hs : step (c :: rest) = .ok 1 := by simp [step, hc]
    exact complete_of_step c rest 1 hs (by simpa using ih fun x hx => h x (by simp [hx]))

end L
