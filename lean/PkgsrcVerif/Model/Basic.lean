/-
Model/Basic.lean — character classes, digit runs, bounded integers.
Import-free (core only) so that the line-protocol drivers link as executables.

Text conventions (DESIGN §1.3): `&str` APIs are modelled on `List Char`
(Lean `Char` = Rust `char` = Unicode scalar value), byte APIs on `List UInt8`.
-/
namespace M

abbrev Str := List Char
abbrev Bytes := List UInt8

/-- Rust `char::is_ascii_digit`. -/
def isDigit (c : Char) : Bool := decide ('0'.toNat ≤ c.toNat ∧ c.toNat ≤ '9'.toNat)

def isUpper (c : Char) : Bool := decide ('A'.toNat ≤ c.toNat ∧ c.toNat ≤ 'Z'.toNat)
def isLower (c : Char) : Bool := decide ('a'.toNat ≤ c.toNat ∧ c.toNat ≤ 'z'.toNat)

/-- Rust `char::is_ascii_alphabetic`. -/
def isAlpha (c : Char) : Bool := isUpper c || isLower c

/-- Rust `char::is_ascii_alphanumeric`. -/
def isAlnum (c : Char) : Bool := isAlpha c || isDigit c

/-- Rust `char::to_ascii_lowercase`. -/
def lower (c : Char) : Char := if isUpper c then Char.ofNat (c.toNat + 32) else c

/-- Rust `char::is_whitespace` (Unicode `White_Space`). -/
def isWhite (c : Char) : Bool :=
  let n := c.toNat
  decide ((9 ≤ n ∧ n ≤ 13) ∨ n = 32 ∨ n = 0x85 ∨ n = 0xA0 ∨ n = 0x1680 ∨
    (0x2000 ≤ n ∧ n ≤ 0x200A) ∨ n = 0x2028 ∨ n = 0x2029 ∨ n = 0x202F ∨ n = 0x205F ∨ n = 0x3000)

/-- `(b as char).is_whitespace()` for a byte `b` (Latin-1 reading). -/
def isWhiteByte (b : UInt8) : Bool :=
  let n := b.toNat
  decide ((9 ≤ n ∧ n ≤ 13) ∨ n = 32 ∨ n = 0x85 ∨ n = 0xA0)

/-- `u8::is_ascii_whitespace`: space, \t, \n, \x0C, \r (NOT \x0B). -/
def isAsciiWhiteByte (b : UInt8) : Bool :=
  let n := b.toNat
  decide (n = 32 ∨ n = 9 ∨ n = 10 ∨ n = 12 ∨ n = 13)

/-- value of one ASCII digit -/
def digitVal (c : Char) : Nat := c.toNat - '0'.toNat

/-- value of a digit run, most significant first -/
def digitsVal (ds : List Char) : Nat := ds.foldl (fun n c => n * 10 + digitVal c) 0

def i64Max : Int := 9223372036854775807
def i64Min : Int := -9223372036854775808
def u64Max : Nat := 18446744073709551615

def InI64 (i : Int) : Prop := i64Min ≤ i ∧ i ≤ i64Max
instance (i : Int) : Decidable (InI64 i) := by unfold InI64; exact inferInstance

/-- Rust `str::parse::<i64>`: optional single sign, then one or more ASCII digits,
    value within range; anything else is an error. -/
def parseI64? (s : Str) : Option Int :=
  let (neg, ds) := match s with
    | '-' :: r => (true, r)
    | '+' :: r => (false, r)
    | r => (false, r)
  if ds.isEmpty || !ds.all isDigit then none
  else
    let v : Int := if neg then - (digitsVal ds : Int) else (digitsVal ds : Int)
    if i64Min ≤ v ∧ v ≤ i64Max then some v else none

/-- Rust `str::parse::<u64>`: optional `+`, digits, within range. -/
def parseU64? (s : Str) : Option Nat :=
  let ds := match s with
    | '+' :: r => r
    | r => r
  if ds.isEmpty || !ds.all isDigit then none
  else if digitsVal ds ≤ u64Max then some (digitsVal ds) else none

/-- decimal digits of a natural number (Rust `Display` for unsigned integers) -/
def natToDec (n : Nat) : Str := Nat.toDigits 10 n

/-- Rust `Display` for `i64`. -/
def intToDec (i : Int) : Str :=
  if i < 0 then '-' :: natToDec i.natAbs else natToDec i.natAbs

/-- ASCII-case-insensitive prefix test against a lower-case ASCII word
    (`s.as_bytes()[..w.len()].eq_ignore_ascii_case(w)`). -/
def startsWithCI : Str → Str → Bool
  | _, [] => true
  | [], _ :: _ => false
  | c :: s, w :: ws => lower c == w && startsWithCI s ws

/-- Rust `str::starts_with(&str)` on scalar values. -/
def startsWith : Str → Str → Bool
  | _, [] => true
  | [], _ :: _ => false
  | c :: s, w :: ws => c == w && startsWith s ws

end M
