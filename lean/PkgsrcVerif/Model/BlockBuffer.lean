/-
Model/BlockBuffer.lean — the architecture shared by the six RustCrypto cores the crate
dispatches to (`digest::core_api::CoreWrapper` over `block_buffer::BlockBuffer`): a chaining
value, a buffer of fewer than one block of pending bytes, the total length; `update` appends
to the buffer and runs the compression function over every complete block — EAGERLY (MD5,
SHA-1, SHA-2, RIPEMD-160: as soon as a block is full) or LAZILY (BLAKE2: a full block is kept
back until more data arrives, because the last block is compressed with a flag) — and
`finalize` pads what is left.  The compression function, the padding/finalisation and the
initial value are parameters: this file is about the BUFFERING, which is what the streaming
law `update (update s a) b = update s (a ++ b)` depends on.
-/
import PkgsrcVerif.Model.Digest
namespace M

structure BlockHash where
  Chain : Type
  blk : Nat
  blk_pos : 0 < blk
  /-- BLAKE2-style: keep a full block back until more input arrives -/
  keepLast : Bool
  iv : Chain
  compress : Chain → Bytes → Chain
  /-- pad and finish: chaining value, pending bytes, total message length -/
  finish : Chain → Bytes → Nat → Bytes

/-- is there a block to compress now? -/
def BlockHash.ready (B : BlockHash) (l : Bytes) : Bool :=
  if B.keepLast then decide (B.blk < l.length) else decide (B.blk ≤ l.length)

/-- compress complete blocks off the front while one is due -/
def BlockHash.absorb (B : BlockHash) (h : B.Chain) (l : Bytes) : B.Chain × Bytes :=
  if B.ready l then B.absorb (B.compress h (l.take B.blk)) (l.drop B.blk) else (h, l)
termination_by l.length
decreasing_by
  rename_i hr
  have := B.blk_pos
  simp only [BlockHash.ready] at hr
  simp only [List.length_drop]
  split at hr <;> simp at hr <;> omega

structure BlockState (B : BlockHash) where
  chain : B.Chain
  buf : Bytes
  total : Nat

/-- the streaming hasher built from a block hash -/
@[reducible] def BlockHash.hasher (B : BlockHash) : Hasher where
  State := BlockState B
  init := { chain := B.iv, buf := [], total := 0 }
  update s data :=
    let r := B.absorb s.chain (s.buf ++ data)
    { chain := r.1, buf := r.2, total := s.total + data.length }
  final s := B.finish s.chain s.buf s.total

/-- the one-shot reading of the same algorithm: compress every due block of the whole message,
    then finish with the remainder and the message length -/
def BlockHash.oneShot (B : BlockHash) (msg : Bytes) : Bytes :=
  let r := B.absorb B.iv msg
  B.finish r.1 r.2 msg.length

end M
