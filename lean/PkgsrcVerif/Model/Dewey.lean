/-
Model/Dewey.lean — src/dewey.rs: DeweyVersion::new, dewey_test, dewey_cmp,
Dewey::new, Dewey::matches.  Mirrors the code branch for branch (after the
fix: commits for `pre`, case-insensitivity and saturating integer parse).
-/
import PkgsrcVerif.Model.Basic
namespace M

/-- enum DeweyOp -/
inductive Op | le | lt | ge | gt
  deriving DecidableEq, Repr, Inhabited

/-- tokens of the version tokeniser (`DeweyVersion::new`'s loop, one per iteration) -/
inductive Tok
  | num (n : Int)       -- digit run, saturated at i64::MAX
  | sep                 -- '.' or '_'  → 0
  | rev (n : Int)       -- nb<digits>  → pkgrevision
  | mod (w : Int)       -- alpha/beta/pre/rc/pl
  | letter (code : Int) -- ASCII letter → 0, code of the lower-cased letter
  | skip                -- anything else: ignored
  deriving DecidableEq, Repr

/-- `numstr.parse::<i64>().unwrap_or(i64::MAX)` for a non-empty digit run -/
def satI64 (n : Nat) : Int := if (n : Int) ≤ i64Max then (n : Int) else i64Max

/-- `nbstr.parse::<i64>().unwrap_or(0)` for a possibly empty digit run -/
def revVal (ds : Str) : Int :=
  if ds.isEmpty then 0 else if (digitsVal ds : Int) ≤ i64Max then (digitsVal ds : Int) else 0

theorem length_dropWhile_le {α} (p : α → Bool) (l : List α) :
    (l.dropWhile p).length ≤ l.length := by
  induction l with
  | nil => simp
  | cons a l ih => simp only [List.dropWhile]; split <;> simp <;> omega

/-- The loop of `DeweyVersion::new`, one token per iteration, in the order the
    code tests: digits; '.'/'_'; "nb"; alpha; beta; pre; rc; pl; letter; skip. -/
def tokens (s : Str) : List Tok :=
  match s with
  | [] => []
  | c :: rest =>
    if isDigit c then
      .num (satI64 (digitsVal ((c :: rest).takeWhile isDigit))) ::
        tokens (rest.dropWhile isDigit)
    else if c == '.' || c == '_' then .sep :: tokens rest
    else if startsWithCI (c :: rest) ['n', 'b'] then
      .rev (revVal ((rest.drop 1).takeWhile isDigit)) :: tokens ((rest.drop 1).dropWhile isDigit)
    else if startsWithCI (c :: rest) ['a', 'l', 'p', 'h', 'a'] then .mod (-3) :: tokens (rest.drop 4)
    else if startsWithCI (c :: rest) ['b', 'e', 't', 'a'] then .mod (-2) :: tokens (rest.drop 3)
    else if startsWithCI (c :: rest) ['p', 'r', 'e'] then .mod (-1) :: tokens (rest.drop 2)
    else if startsWithCI (c :: rest) ['r', 'c'] then .mod (-1) :: tokens (rest.drop 1)
    else if startsWithCI (c :: rest) ['p', 'l'] then .mod 0 :: tokens (rest.drop 1)
    else if isAlpha c then .letter (lower c).toNat :: tokens rest
    else .skip :: tokens rest
termination_by s.length
decreasing_by
  all_goals simp_wf
  all_goals first
    | omega
    | (have := length_dropWhile_le isDigit rest; omega)
    | (have := length_dropWhile_le isDigit (rest.drop 1); simp at this ⊢; omega)
    | (simp; omega)

/-- struct DeweyVersion -/
structure DV where
  version : List Int
  rev : Int
  deriving DecidableEq, Repr

/-- what each token pushes onto `version` -/
def Tok.comps : Tok → List Int
  | .num n => [n]
  | .sep => [0]
  | .rev _ => []
  | .mod w => [w]
  | .letter c => [0, c]
  | .skip => []

/-- `pkgrevision`: assigned by every nb token, the last assignment wins; 0 initially -/
def lastRev : List Tok → Int → Int
  | [], r => r
  | .rev n :: ts, _ => lastRev ts n
  | _ :: ts, r => lastRev ts r

/-- `DeweyVersion::new` -/
def deweyVersion (s : Str) : DV :=
  let ts := tokens s
  { version := ts.flatMap Tok.comps, rev := lastRev ts 0 }

/-- `dewey_test` -/
def deweyTest (l : Int) (op : Op) (r : Int) : Bool :=
  match op with
  | .ge => decide (l ≥ r)
  | .gt => decide (l > r)
  | .le => decide (l ≤ r)
  | .lt => decide (l < r)

/-- `Ordering::Less` branch of `dewey_cmp`: rest of the longer rhs against 0 -/
def tailR (op : Op) (lrev rrev : Int) : List Int → Bool
  | [] => deweyTest lrev op rrev
  | b :: bs => if 0 ≠ b then deweyTest 0 op b else tailR op lrev rrev bs

/-- `Ordering::Greater` branch of `dewey_cmp`: rest of the longer lhs against 0 -/
def tailL (op : Op) (lrev rrev : Int) : List Int → Bool
  | [] => deweyTest lrev op rrev
  | a :: as => if 0 ≠ a then deweyTest a op 0 else tailL op lrev rrev as

/-- `dewey_cmp` on the two vectors: common prefix, then one of the two tails, then revisions -/
def cmpVec (op : Op) (lrev rrev : Int) : List Int → List Int → Bool
  | [], [] => deweyTest lrev op rrev
  | [], b :: bs => tailR op lrev rrev (b :: bs)
  | a :: as, [] => tailL op lrev rrev (a :: as)
  | a :: as, b :: bs => if a ≠ b then deweyTest a op b else cmpVec op lrev rrev as bs

/-- `dewey_cmp(lhs, op, rhs)` -/
def deweyCmp (l : DV) (op : Op) (r : DV) : Bool := cmpVec op l.rev r.rev l.version r.version

/-! ### Dewey::new -/

/-- positions (in chars) of every '>' / '<', with the operator read there:
    `pattern.get(i+1..i+2) == Some("=")` ⇔ the next scalar value is '='
    (a multi-byte next char makes `get` return `None`, i.e. the strict operator). -/
def scanOps : Str → Nat → List (Nat × Nat × Op)
  | [], _ => []
  | c :: rest, i =>
    if c == '>' then
      (match rest with
       | '=' :: _ => (i, i + 2, Op.ge)
       | _ => (i, i + 1, Op.gt)) :: scanOps rest (i + 1)
    else if c == '<' then
      (match rest with
       | '=' :: _ => (i, i + 2, Op.le)
       | _ => (i, i + 1, Op.lt)) :: scanOps rest (i + 1)
    else scanOps rest (i + 1)

inductive DeweyErr | noOps | order (pos : Nat) | tooMany (pos : Nat)
  deriving DecidableEq, Repr

/-- struct Dewey: base name and the (op, version) bounds -/
structure Dewey where
  pkgname : Str
  matches_ : List (Op × DV)
  deriving DecidableEq, Repr

def slice (s : Str) (a b : Nat) : Str := (s.take b).drop a

def isLower' (o : Op) : Bool := o == .gt || o == .ge
def isUpper' (o : Op) : Bool := o == .lt || o == .le

/-- `Dewey::new` (positions are char positions; the code's are byte positions, they
    differ only in the `pos` of the error, which the correspondence check compares
    after converting). -/
def deweyNew (p : Str) : Except DeweyErr Dewey :=
  match scanOps p 0 with
  | [] => .error .noOps
  | [(s0, e0, o0)] =>
    .ok { pkgname := p.take s0, matches_ := [(o0, deweyVersion (p.drop e0))] }
  | [(s0, e0, o0), (s1, e1, o1)] =>
    if isLower' o0 && isUpper' o1 then
      .ok { pkgname := p.take s0,
            matches_ := [(o0, deweyVersion (slice p e0 s1)), (o1, deweyVersion (p.drop e1))] }
    else .error (.order s0)
  | _ :: _ :: (s2, _, _) :: _ => .error (.tooMany s2)

/-- `pkg.rsplitn(2, '-')`: `(before last '-', after last '-')`, `none` when there is no '-' -/
def rsplitDash (s : Str) : Option (Str × Str) :=
  match s with
  | [] => none
  | c :: rest =>
    match rsplitDash rest with
    | some (b, v) => some (c :: b, v)
    | none => if c == '-' then some ([], rest) else none

/-- `Dewey::matches` -/
def deweyMatches (d : Dewey) (pkg : Str) : Bool :=
  match rsplitDash pkg with
  | none => false
  | some (base, ver) =>
    if base != d.pkgname then false
    else
      let pv := deweyVersion ver
      d.matches_.all (fun m => deweyCmp pv m.1 m.2)

end M
