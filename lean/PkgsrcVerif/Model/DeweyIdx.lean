/-
Model/DeweyIdx.lean — `DeweyVersion::new` as the code really runs it: on a `&str` with a
BYTE index `idx`, slicing `&s[idx..]` at every iteration (a slice that does not start on a
character boundary, or starts past the end, panics), taking the first char with
`.chars().next().unwrap()` (an empty slice panics), testing the modifiers on BYTES
(`as_bytes()[..n].eq_ignore_ascii_case`) and advancing `idx` by byte counts
(`numstr.len()`, 1, 2, 5, 4, 3, `c.len_utf8()`).
`none` = a panic (or the iteration budget ran out).  Lemmas/DeweyIdx.lean proves that this
never happens and that the tokens are those of the character-level model `M.tokens`, which
is the one the correspondence check ties to the code and all C01–C03 theorems speak about.
-/
import PkgsrcVerif.Model.Dewey
namespace M

/-- `char::len_utf8` -/
def utf8Len (c : Char) : Nat :=
  if c.toNat < 0x80 then 1 else if c.toNat < 0x800 then 2 else if c.toNat < 0x10000 then 3 else 4

/-- `str::len` (bytes) -/
def bytesLen : Str → Nat
  | [] => 0
  | c :: s => utf8Len c + bytesLen s

/-- the UTF-8 encoding of one scalar value, as numbers -/
def encodeChar (c : Char) : List Nat :=
  let n := c.toNat
  if n < 0x80 then [n]
  else if n < 0x800 then [0xC0 + n / 64, 0x80 + n % 64]
  else if n < 0x10000 then [0xE0 + n / 4096, 0x80 + (n / 64) % 64, 0x80 + n % 64]
  else [0xF0 + n / 262144, 0x80 + (n / 4096) % 64, 0x80 + (n / 64) % 64, 0x80 + n % 64]

/-- `str::as_bytes` -/
def encode (s : Str) : List Nat := s.flatMap encodeChar

/-- `&s[idx..]`: `none` = panic (idx inside a character or past the end) -/
def sliceFrom : Str → Nat → Option Str
  | s, 0 => some s
  | [], _ + 1 => none
  | c :: rest, idx + 1 => if utf8Len c ≤ idx + 1 then sliceFrom rest (idx + 1 - utf8Len c) else none

/-- `u8::to_ascii_lowercase` -/
def lowerByte (b : Nat) : Nat := if 65 ≤ b ∧ b ≤ 90 then b + 32 else b

/-- `starts_with_ignore_case(slice, prefix)` for a lower-case ASCII prefix: length test, then
    `eq_ignore_ascii_case` on the first `prefix.len()` BYTES -/
def bytesStartCI : List Nat → Str → Bool
  | _, [] => true
  | [], _ :: _ => false
  | b :: bs, w :: ws => (lowerByte b == w.toNat) && bytesStartCI bs ws

/-- The loop of `DeweyVersion::new` with its byte index; `fuel` bounds the iterations. -/
def tokensIdx (s : Str) : Nat → Nat → Option (List Tok)
  | 0, _ => none
  | fuel + 1, idx =>
    if idx == bytesLen s then some []
    else
      match sliceFrom s idx with
      | none => none                                   -- `&s[idx..s.len()]` panics
      | some [] => none                                -- `.chars().next().unwrap()` panics
      | some (c :: rest) =>
        let slice := c :: rest
        let numstr := slice.takeWhile isDigit
        if !numstr.isEmpty then
          (tokensIdx s fuel (idx + bytesLen numstr)).map (.num (satI64 (digitsVal numstr)) :: ·)
        else if c == '.' || c == '_' then (tokensIdx s fuel (idx + 1)).map (.sep :: ·)
        else if bytesStartCI (encode slice) ['n', 'b'] then
          match sliceFrom s (idx + 2) with
          | none => none                               -- second `&s[idx..s.len()]` panics
          | some slice2 =>
            let nbstr := slice2.takeWhile isDigit
            (tokensIdx s fuel (idx + 2 + bytesLen nbstr)).map (.rev (revVal nbstr) :: ·)
        else if bytesStartCI (encode slice) ['a', 'l', 'p', 'h', 'a'] then
          (tokensIdx s fuel (idx + 5)).map (.mod (-3) :: ·)
        else if bytesStartCI (encode slice) ['b', 'e', 't', 'a'] then
          (tokensIdx s fuel (idx + 4)).map (.mod (-2) :: ·)
        else if bytesStartCI (encode slice) ['p', 'r', 'e'] then
          (tokensIdx s fuel (idx + 3)).map (.mod (-1) :: ·)
        else if bytesStartCI (encode slice) ['r', 'c'] then
          (tokensIdx s fuel (idx + 2)).map (.mod (-1) :: ·)
        else if bytesStartCI (encode slice) ['p', 'l'] then
          (tokensIdx s fuel (idx + 2)).map (.mod 0 :: ·)
        else if isAlpha c then (tokensIdx s fuel (idx + 1)).map (.letter (lower c).toNat :: ·)
        else (tokensIdx s fuel (idx + utf8Len c)).map (.skip :: ·)

end M
