/-
Model/Digest.lean — src/digest.rs: the Digest enum, its two name tables, hex
encoding, the reader loop of hash_file (io::copy), hash_str, and the line filter of
hash_patch.  The six compression functions are a PARAMETER (`Hasher`), never code.
-/
import PkgsrcVerif.Model.Basic
namespace M

/-- enum Digest -/
inductive Digest | blake2s | md5 | rmd160 | sha1 | sha256 | sha512
  deriving DecidableEq, Repr

def Digest.all : List Digest := [.blake2s, .md5, .rmd160, .sha1, .sha256, .sha512]

/-- `impl Display for Digest` -/
def Digest.name : Digest → String
  | .blake2s => "BLAKE2s" | .md5 => "MD5" | .rmd160 => "RMD160"
  | .sha1 => "SHA1" | .sha256 => "SHA256" | .sha512 => "SHA512"

def ascii (s : String) : Bytes := s.toList.map (fun c => UInt8.ofNat c.toNat)

/-- `str::to_lowercase` restricted to what can matter for the six names: ASCII letters, and
    U+212A KELVIN SIGN (E2 84 AA) whose lower case is 'k'; every other non-ASCII scalar stays
    non-ASCII and so can never take part in a match -/
def lowerName : Bytes → Bytes
  | 0xE2 :: 0x84 :: 0xAA :: rest => 107 :: lowerName rest
  | b :: rest => (if 65 ≤ b.toNat ∧ b.toNat ≤ 90 then UInt8.ofNat (b.toNat + 32) else b) :: lowerName rest
  | [] => []

/-- `impl FromStr for Digest` (argument is valid UTF-8) -/
def Digest.ofName (s : Bytes) : Option Digest :=
  let l := lowerName s
  if l == ascii "blake2s" then some .blake2s
  else if l == ascii "md5" then some .md5
  else if l == ascii "rmd160" then some .rmd160
  else if l == ascii "sha1" then some .sha1
  else if l == ascii "sha256" then some .sha256
  else if l == ascii "sha512" then some .sha512
  else none

def hexNibble (n : Nat) : UInt8 := if n < 10 then UInt8.ofNat (48 + n) else UInt8.ofNat (87 + n)

/-- `format!("{b:02x}")` folded over the digest bytes -/
def hexLower (b : Bytes) : Bytes := b.flatMap fun x => [hexNibble (x.toNat / 16), hexNibble (x.toNat % 16)]

/-- a streaming hash core; `law` (update∘update = update∘append) is a hypothesis of the C13
    theorems, never an axiom -/
structure Hasher where
  State : Type
  init : State
  update : State → Bytes → State
  final : State → Bytes

def Hasher.Lawful (H : Hasher) : Prop :=
  (∀ s a b, H.update (H.update s a) b = H.update s (a ++ b)) ∧ (∀ s, H.update s [] = s)

/-- what a `Read::read` call can return -/
inductive ReadEvent
  | data (b : Bytes)     -- Ok(n > 0)
  | interrupted          -- Err(Interrupted): io::copy retries
  | error                -- any other Err
  | eof                  -- Ok(0)
  deriving DecidableEq, Repr

/-- `io::copy(reader, hasher)` then finalize+hex: `none` = Err(Io) -/
def hashFile (H : Hasher) (s : H.State) : List ReadEvent → Option Bytes
  | [] => some (hexLower (H.final s))                 -- schedule exhausted = EOF
  | .eof :: _ => some (hexLower (H.final s))
  | .error :: _ => none
  | .interrupted :: rest => hashFile H s rest
  | .data b :: rest => hashFile H (H.update s b) rest

/-- `hash_str` -/
def hashStr (H : Hasher) (b : Bytes) : Bytes := hexLower (H.final (H.update H.init b))

/-- does the 7-byte window "$NetBSD" occur -/
def hasNetBSD : Bytes → Bool
  | 36 :: 78 :: 101 :: 116 :: 66 :: 83 :: 68 :: _ => true
  | _ :: rest => hasNetBSD rest
  | [] => false

/-- `BufRead::split(b'\n')`: pieces between '\n'; a final '\n' adds no piece -/
def splitLines : Bytes → List Bytes
  | [] => []
  | b => go [] b
where
  go (cur : Bytes) : Bytes → List Bytes
    | [] => if cur.isEmpty then [] else [cur.reverse]
    | 10 :: rest => cur.reverse :: go [] rest
    | c :: rest => go (c :: cur) rest

/-- `hash_patch` on the whole content: each kept line is fed followed by '\n' -/
def hashPatch (H : Hasher) (content : Bytes) : Bytes :=
  let kept := (splitLines content).filter (fun l => !hasNetBSD l)
  hexLower (H.final (kept.foldl (fun s l => H.update (H.update s l) [10]) H.init))

end M
