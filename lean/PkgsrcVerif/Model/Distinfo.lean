/-
Model/Distinfo.lean — src/distinfo.rs (after the fix: commits for byte-exact file names,
ASCII whitespace, minimum field count and the emul-*-patch-* classification):
Line::from_bytes, EntryType::from, the two insertion-ordered maps keyed by PathBuf
(key equality = component-wise), from_bytes, as_bytes, insert, find_entry, verify_*.
-/
import PkgsrcVerif.Model.Digest
import PkgsrcVerif.Model.Path
import PkgsrcVerif.Model.Utf8
namespace M

inductive EntryType | distfile | patchfile
  deriving DecidableEq, Repr

def isPrefixB (p b : Bytes) : Bool := p.isPrefixOf b
def isSuffixB (p b : Bytes) : Bool := p.isSuffixOf b
def containsB (p : Bytes) : Bytes → Bool
  | [] => p.isEmpty
  | c :: rest => p.isPrefixOf (c :: rest) || containsB p rest

def bcomps (p : Bytes) : List (Comp UInt8) := components (47 : UInt8) (46 : UInt8) p

/-- `impl From<P: AsRef<Path>> for EntryType` — on the final component; the lossy string
    conversion keeps every ASCII byte in place, so the ASCII tests are byte tests -/
def entryType (path : Bytes) : EntryType :=
  match fileName (47 : UInt8) (46 : UInt8) path with
  | none => .distfile
  | some s =>
    if isPrefixB (ascii "patch-local-") s || isSuffixB (ascii ".orig") s || isSuffixB (ascii ".rej") s
        || isSuffixB (ascii "~") s then .distfile
    else if isPrefixB (ascii "patch-") s ||
        (isPrefixB (ascii "emul-") s && containsB (ascii "-patch-") (s.drop 5)) then
      if !containsB (ascii ".tar.") s then .patchfile else .distfile
    else .distfile

structure Entry where
  filename : Bytes
  filepath : Bytes := []
  size : Option Nat := none
  checksums : List (Digest × Bytes) := []
  filetype : EntryType := .distfile
  deriving DecidableEq, Repr

/-- enum Line -/
inductive Line
  | rcsId (b : Bytes)
  | size (path : Bytes) (n : Nat)
  | checksum (d : Digest) (path : Bytes) (hash : Bytes)
  | none
  deriving DecidableEq, Repr

/-- `slice::split(is_ascii_whitespace)` keeping only non-empty pieces -/
def fields : Bytes → List Bytes
  | b => go [] b
where
  go (cur : Bytes) : Bytes → List Bytes
    | [] => if cur.isEmpty then [] else [cur.reverse]
    | c :: rest =>
      if isAsciiWhiteByte c then (if cur.isEmpty then go [] rest else cur.reverse :: go [] rest)
      else go (c :: cur) rest

def isUtf8' (b : Bytes) : Bool := (utf8 b).2 == .complete

/-- `Line::from_bytes` for one line (no '\n' inside) -/
def lineFromBytes (bytes : Bytes) : Line :=
  let line := bytes.dropWhile isAsciiWhiteByte
  if line.head? == some 35 || line.isEmpty then .none
  else if isPrefixB (ascii "$NetBSD: ") line then .rcsId line
  else
    match fields line with
    | action :: p :: _ :: value :: _ =>
      if !isUtf8' action then .none
      else if !(p.head? == some 40 && p.getLast? == some 41) then .none
      else if !isUtf8' value then .none
      else
        let path := (p.drop 1).dropLast
        if action == ascii "Size" then
          (match parseU64? (value.map fun x => Char.ofNat x.toNat) with
           | some n => .size path n
           | none => .none)
        else
          (match Digest.ofName action with
           | some d => .checksum d path value
           | none => .none)
    | _ => .none   -- fewer than four fields: nothing is recorded

/-- one iteration of the loop in `Line::from_bytes` (which splits its argument on '\n' "to
    simplify things"): `none` = `continue` (blank or comment sub-line), `some l` = `return l` -/
def subLine (bytes : Bytes) : Option Line :=
  let line := bytes.dropWhile isAsciiWhiteByte
  if line.head? == some 35 || line.isEmpty then none else some (lineFromBytes bytes)

/-- an IndexMap<PathBuf, Entry>: insertion-ordered association list, keys compared
    component-wise -/
abbrev EMap := List (Bytes × Entry)

def keyEq (a b : Bytes) : Bool := bcomps a == bcomps b

def EMap.get (m : EMap) (k : Bytes) : Option Entry := (m.find? fun kv => keyEq kv.1 k).map (·.2)

/-- update the value of an existing key in place (position and key spelling kept) -/
def EMap.modify (m : EMap) (k : Bytes) (f : Entry → Entry) : EMap :=
  m.map fun kv => if keyEq kv.1 k then (kv.1, f kv.2) else kv

/-- `IndexMap::insert`: replace in place if present, else append -/
def EMap.insert (m : EMap) (k : Bytes) (e : Entry) : EMap :=
  if (m.get k).isSome then m.modify k (fun _ => e) else m ++ [(k, e)]

structure Distinfo where
  rcsid : Option Bytes := none
  distfiles : EMap := []
  patchfiles : EMap := []

def Distinfo.mapOf (d : Distinfo) (t : EntryType) : EMap :=
  match t with | .distfile => d.distfiles | .patchfile => d.patchfiles

def Distinfo.setMap (d : Distinfo) (t : EntryType) (m : EMap) : Distinfo :=
  match t with | .distfile => { d with distfiles := m } | .patchfile => { d with patchfiles := m }

/-- `update_size` -/
def Distinfo.updateSize (d : Distinfo) (path : Bytes) (n : Nat) : Distinfo :=
  let t := entryType path
  let m := d.mapOf t
  if (m.get path).isSome then d.setMap t (m.modify path fun e => { e with size := some n })
  else d.setMap t (m ++ [(path, { filename := path, size := some n, filetype := t })])

/-- `update_checksum` -/
def Distinfo.updateChecksum (d : Distinfo) (path : Bytes) (dg : Digest) (hash : Bytes) : Distinfo :=
  let t := entryType path
  let m := d.mapOf t
  if (m.get path).isSome then
    d.setMap t (m.modify path fun e => { e with checksums := e.checksums ++ [(dg, hash)] })
  else d.setMap t (m ++ [(path, { filename := path, checksums := [(dg, hash)], filetype := t })])

def splitNl' : Bytes → List Bytes
  | [] => [[]]
  | 10 :: rest => [] :: splitNl' rest
  | c :: rest =>
    match splitNl' rest with
    | [] => [[c]]
    | l :: ls => (c :: l) :: ls

/-- `Line::from_bytes` on arbitrary bytes: the first sub-line that is neither blank nor a
    comment decides; if there is none the result is `Line::None` -/
def lineFromBytesNl (bytes : Bytes) : Line :=
  ((splitNl' bytes).findSome? subLine).getD .none

def Distinfo.applyLine (d : Distinfo) (l : Line) : Distinfo :=
  match l with
  | .rcsId s => { d with rcsid := some s }
  | .size p n => d.updateSize p n
  | .checksum dg p h => d.updateChecksum p dg h
  | .none => d

/-- `Distinfo::from_bytes` -/
def distinfoFromBytes (b : Bytes) : Distinfo :=
  (splitNl' b).foldl (fun d line => d.applyLine (lineFromBytes line)) {}

def natBytes (n : Nat) : Bytes := (natToDec n).map fun c => UInt8.ofNat c.toNat

def checksumLine (dg : Digest) (filename hash : Bytes) : Bytes :=
  ascii dg.name ++ ascii " (" ++ filename ++ ascii ") = " ++ hash ++ [10]

def sizeLine (filename : Bytes) (n : Nat) : Bytes :=
  ascii "Size (" ++ filename ++ ascii ") = " ++ natBytes n ++ ascii " bytes" ++ [10]

/-- `Entry::as_bytes` -/
def Entry.asBytes (e : Entry) : Bytes :=
  (e.checksums.flatMap fun c => checksumLine c.1 e.filename c.2) ++
    (match e.size with | some n => sizeLine e.filename n | none => [])

/-- `Distinfo::as_bytes`: sizes are written for distfiles only -/
def Distinfo.asBytes (d : Distinfo) : Bytes :=
  (match d.rcsid with | some s => s | none => ascii "$NetBSD$") ++ [10, 10] ++
    (d.distfiles.flatMap fun kv => kv.2.asBytes) ++
    (d.patchfiles.flatMap fun kv => kv.2.checksums.flatMap fun c => checksumLine c.1 kv.2.filename c.2)

/-- `Entry::new` -/
def entryNew (filename filepath : Bytes) (checksums : List (Digest × Bytes)) (size : Option Nat) : Entry :=
  { filename := filename, filepath := filepath, checksums := checksums, size := size,
    filetype := entryType filename }

/-- `Distinfo::insert`: returns `is_none()` of the map insert -/
def Distinfo.insert (d : Distinfo) (e : Entry) : Distinfo × Bool :=
  let m := d.mapOf e.filetype
  (d.setMap e.filetype (m.insert e.filename e), (m.get e.filename).isNone)

/-! ### lookup and verification -/

def compText : Comp UInt8 → Bytes
  | .root => [47] | .cur => [46] | .parent => [46, 46] | .normal n => n

/-- `PathBuf::from(component).join(file)` for a relative `file` -/
def joinComp (c : Comp UInt8) (file : Bytes) : Bytes :=
  match c with
  | .root => 47 :: file
  | _ => compText c ++ 47 :: file

/-- `Distinfo::find_entry`: walk the components from the last to the first, growing the
    candidate name, and look each candidate up in the map chosen by the WHOLE path's type.
    `file.parent().is_none()` holds for the initial empty path and for "/" -/
def findEntry (d : Distinfo) (path : Bytes) : Option Entry :=
  let m := d.mapOf (entryType path)
  let rec go (file : Bytes) : List (Comp UInt8) → Option Entry
    | [] => none
    | c :: rest =>
      let file' := if file.isEmpty || bcomps file == [.root] then compText c else joinComp c file
      match m.get file' with
      | some e => some e
      | none => go file' rest
  go [] (bcomps path).reverse

inductive VErr
  | notFound
  | io
  | size (exp act : Nat)
  | missingSize
  | checksum (d : Digest) (exp act : Bytes)
  | missingChecksum (d : Digest)
  deriving DecidableEq, Repr

/-- `Entry::verify_size` given the file's length (`none` = the file cannot be opened) -/
def Entry.verifySize (e : Entry) (fileLen : Option Nat) : Except VErr Nat :=
  match e.size with
  | none => .error .missingSize
  | some n =>
    match fileLen with
    | none => .error .io
    | some len => if len != n then .error (.size n len) else .ok n

/-- `Entry::verify_checksum_internal`: the FIRST checksum with that digest decides;
    `hashOf d patchMode` is the digest of the file in the given mode (`none` = I/O error) -/
def Entry.verifyChecksum (e : Entry) (hashOf : Digest → Bool → Option Bytes) (dg : Digest) :
    Except VErr Digest :=
  match e.checksums.find? (fun c => c.1 == dg) with
  | none => .error (.missingChecksum dg)
  | some c =>
    match hashOf c.1 (e.filetype == .patchfile) with
    | none => .error .io
    | some h => if h != c.2 then .error (.checksum c.1 c.2 h) else .ok dg

end M
