/-
Model/Glob.lean — crate glob 0.3.1: Pattern::new and Pattern::matches
(= matches_with(MatchOptions::new()): case sensitive, no literal-separator
and no literal-leading-dot requirement).  A *dependency* model: it is tied to
the crate by the `glob.*` ops of the correspondence check.
-/
import PkgsrcVerif.Model.Basic
namespace M

inductive CharSpec
  | single (c : Char)
  | range (a b : Char)
  deriving DecidableEq, Repr

inductive GTok
  | char (c : Char)
  | anyChar
  | anySeq
  | anyRec
  | within (cs : List CharSpec)
  | except (cs : List CharSpec)
  deriving DecidableEq, Repr

inductive GlobErr
  | wildcards (pos : Nat)
  | recursive (pos : Nat)
  | range (pos : Nat)
  deriving DecidableEq, Repr

/-- `parse_char_specifiers` -/
def parseSpecs : List Char → List CharSpec
  | a :: '-' :: b :: rest => .range a b :: parseSpecs rest
  | a :: rest => .single a :: parseSpecs rest
  | [] => []

/-- position of the first element satisfying `p` -/
def position {α} (p : α → Bool) : List α → Option Nat
  | [] => none
  | a :: l => if p a then some 0 else (position p l).map (· + 1)

def isSep (c : Char) : Bool := c == '/'

/-- The `while i < chars.len()` loop of `glob::Pattern::new`.  `rest` = `chars[i..]`,
    `prev` = `chars[i-1]` if any, `toks` = tokens pushed so far (in order). -/
def globLoop (fuel : Nat) (rest : Str) (i : Nat) (prev : Option Char) (toks : List GTok) :
    Except GlobErr (List GTok) :=
  match fuel with
  | 0 => .ok toks   -- unreachable: fuel = length + 1
  | fuel + 1 =>
  match rest with
  | [] => .ok toks
  | '?' :: r => globLoop fuel r (i + 1) (some '?') (toks ++ [.anyChar])
  | '*' :: r =>
    let stars := ('*' :: r).takeWhile (· == '*')
    let count := stars.length
    let after := ('*' :: r).dropWhile (· == '*')
    let i' := i + count
    if count > 2 then .error (.wildcards (i + 2))
    else if count == 2 then
      -- `i == 2 || is_separator(chars[i - count - 1])` with the code's i = i'
      if i' == 2 || (match prev with | some c => isSep c | none => false) then
        match after with
        | c :: after' =>
          if isSep c then
            let toks' := if toks.length > 1 && toks.getLast? == some .anyRec then toks else toks ++ [.anyRec]
            globLoop fuel after' (i' + 1) (some c) toks'
          else .error (.recursive i')
        | [] =>
          let toks' := if toks.length > 1 && toks.getLast? == some .anyRec then toks else toks ++ [.anyRec]
          globLoop fuel [] i' (some '*') toks'
      else .error (.recursive (i - 1))
    else globLoop fuel after i' (some '*') (toks ++ [.anySeq])
  | '[' :: r =>
    if r.length ≥ 3 && r.head? == some '!' then
      match position (· == ']') (r.drop 2) with
      | none => .error (.range i)
      | some j =>
        let cs := parseSpecs ((r.drop 1).take (j + 1))
        globLoop fuel (r.drop (j + 3)) (i + j + 4) (some ']') (toks ++ [.except cs])
    else if r.length ≥ 2 && r.head? != some '!' then
      match position (· == ']') (r.drop 1) with
      | none => .error (.range i)
      | some j =>
        let cs := parseSpecs (r.take (j + 1))
        globLoop fuel (r.drop (j + 2)) (i + j + 3) (some ']') (toks ++ [.within cs])
    else .error (.range i)
  | c :: r => globLoop fuel r (i + 1) (some c) (toks ++ [.char c])

/-- `glob::Pattern::new` -/
def globNew (p : Str) : Except GlobErr (List GTok) := globLoop (p.length + 1) p 0 none []

/-- `in_char_specifiers` with `case_sensitive = true` -/
def inSpecs (cs : List CharSpec) (c : Char) : Bool :=
  cs.any fun
    | .single sc => c == sc
    | .range a b => decide (a.toNat ≤ c.toNat ∧ c.toNat ≤ b.toNat)

/-- does a single-character token accept `c` -/
def tokAccepts : GTok → Char → Bool
  | .char c2, c => c == c2
  | .anyChar, _ => true
  | .within cs, c => inSpecs cs c
  | .except cs, c => !inSpecs cs c
  | .anySeq, _ => false
  | .anyRec, _ => false

/-- enum MatchResult -/
inductive MR | m | sub | entire
  deriving DecidableEq, Repr

mutual
/-- `matches_from`: the `for` loop over the remaining tokens `ts`, `fs` = follows_separator -/
def matchesFrom : List GTok → Bool → Str → MR
  | [], _, [] => .m
  | [], _, _ :: _ => .sub
  | .anySeq :: ts, fs, s =>
    match matchesFrom ts fs s with
    | .sub => seqLoop false ts fs s
    | r => r
  | .anyRec :: ts, fs, s =>
    match matchesFrom ts fs s with
    | .sub => seqLoop true ts fs s
    | r => r
  | _ :: _, _, [] => .entire
  | t :: ts, _, c :: s => if tokAccepts t c then matchesFrom ts (isSep c) s else .sub
/-- the `while let Some(c) = file.next()` loop of the `*` / `**` arm; when the file is
    exhausted the `for` loop goes on with the remaining tokens on the empty file -/
def seqLoop : Bool → List GTok → Bool → Str → MR
  | _, ts, fs, [] => matchesFrom ts fs []
  | isRec, ts, _, c :: s =>
    if isRec && !isSep c then seqLoop isRec ts (isSep c) s
    else
      match matchesFrom ts (isSep c) s with
      | .sub => seqLoop isRec ts (isSep c) s
      | r => r
end

/-- `glob::Pattern::matches` -/
def globMatches (ts : List GTok) (s : Str) : Bool := matchesFrom ts true s == .m

end M
