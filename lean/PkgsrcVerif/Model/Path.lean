/-
Model/Path.lean — the parts of std::path (Unix) the library relies on:
Path::components, file_name, PathBuf equality (component-wise), iter().rev(),
parent().is_none(), join.  Polymorphic in the element type so that `&str` APIs
(PkgPath, on `Char`) and byte APIs (distinfo, on `UInt8`) share one model.
std behaviour ⇒ *modelled* base; tied by the `path.comps` op.
-/
import PkgsrcVerif.Model.Basic
namespace M

/-- std::path::Component (Unix; no Prefix) -/
inductive Comp (α : Type)
  | root
  | cur
  | parent
  | normal (name : List α)
  deriving DecidableEq, Repr

/-- split on a separator; `splitOn sep [] = [[]]` (like `slice::split`) -/
def splitOn {α} [BEq α] (sep : α) : List α → List (List α)
  | [] => [[]]
  | c :: rest =>
    if c == sep then [] :: splitOn sep rest
    else
      match splitOn sep rest with
      | [] => [[c]]       -- unreachable, splitOn is never empty
      | seg :: segs => (c :: seg) :: segs

/-- component for one non-empty, non-"." segment -/
def segComp {α} [BEq α] (dot : α) (seg : List α) : Comp α :=
  if seg == [dot, dot] then .parent else .normal seg

/-- `Path::components()` on Unix -/
def components {α} [BEq α] (slash dot : α) (p : List α) : List (Comp α) :=
  let hasRoot := match p with
    | c :: _ => c == slash
    | [] => false
  let segs := splitOn slash p
  let leadingCur := !hasRoot && segs.head? == some [dot]
  let body := (if leadingCur then segs.drop 1 else segs).filter (fun s => !s.isEmpty && s != [dot])
  (if hasRoot then [Comp.root] else []) ++ (if leadingCur then [Comp.cur] else []) ++
    body.map (segComp dot)

/-- text of a component (`Component::as_os_str`) -/
def Comp.text {α} (slash dot : α) : Comp α → List α
  | .root => [slash]
  | .cur => [dot]
  | .parent => [dot, dot]
  | .normal n => n

/-- `Path::file_name()`: the last component if it is Normal -/
def fileName {α} [BEq α] (slash dot : α) (p : List α) : Option (List α) :=
  match (components slash dot p).getLast? with
  | some (.normal n) => some n
  | _ => none

end M
