/-
Model/Pattern.lean — src/pattern.rs: Pattern::new (dispatch + brace balance),
quick_pkg_match, is_simple_char, alternate_match (after the fix: commit that
expands only the right-most '{'), Pattern::matches, Pattern::best_match; and
src/depend.rs Depend::new.
-/
import PkgsrcVerif.Model.Dewey
import PkgsrcVerif.Model.Glob
import PkgsrcVerif.Model.PkgName
import PkgsrcVerif.Model.PkgPath
namespace M

inductive Kind | alternate | dewey | glob | simple
  deriving DecidableEq, Repr

inductive PatErr
  | alternate
  | dewey (e : DeweyErr)
  | glob (e : GlobErr)
  deriving DecidableEq, Repr

structure Pattern where
  kind : Kind
  pattern : Str
  dewey : Option Dewey := none
  glob : Option (List GTok) := none
  deriving DecidableEq, Repr

/-- the brace-balance loop of `Pattern::new`: `depth` = stack height;
    `false` as soon as a '}' pops an empty stack, or if the stack is non-empty at the end -/
def balanced : Str → Nat → Bool
  | [], d => d == 0
  | c :: rest, d =>
    if c == '{' then balanced rest (d + 1)
    else if c == '}' then (match d with | 0 => false | d' + 1 => balanced rest d')
    else balanced rest d

/-- `Pattern::new` -/
def patternNew (p : Str) : Except PatErr Pattern :=
  if p.contains '{' || p.contains '}' then
    if balanced p 0 then .ok { kind := .alternate, pattern := p } else .error .alternate
  else if p.contains '>' || p.contains '<' then
    match deweyNew p with
    | .ok d => .ok { kind := .dewey, pattern := p, dewey := some d }
    | .error e => .error (.dewey e)
  else if p.contains '*' || p.contains '?' || p.contains '[' || p.contains ']' then
    match globNew p with
    | .ok g => .ok { kind := .glob, pattern := p, glob := some g }
    | .error e => .error (.glob e)
  else .ok { kind := .simple, pattern := p }

/-- `is_simple_char` -/
def isSimpleChar (c : Char) : Bool := isAlnum c || c == '-'

/-- `quick_pkg_match` -/
def quickPkgMatch (pattern pkg : Str) : Bool :=
  match pattern with
  | [] => true
  | p0 :: prest =>
    if !isSimpleChar p0 then true
    else
      match pkg with
      | [] => false
      | k0 :: krest =>
        if p0 != k0 then false
        else
          match prest with
          | [] => true
          | p1 :: _ =>
            if !isSimpleChar p1 then true
            else
              match krest with
              | [] => false
              | k1 :: _ => p1 == k1

/-- split at the LAST occurrence of `x`: `(before, after)` -/
def rsplitAt (x : Char) : Str → Option (Str × Str)
  | [] => none
  | c :: rest =>
    match rsplitAt x rest with
    | some (a, b) => some (c :: a, b)
    | none => if c == x then some ([], rest) else none

/-- split at the FIRST occurrence of `x`: `(before, after)` -/
def splitAtFirst (x : Char) : Str → Option (Str × Str)
  | [] => none
  | c :: rest =>
    if c == x then some ([], rest)
    else match splitAtFirst x rest with
      | some (a, b) => some (c :: a, b)
      | none => none

/-- The textual step of `alternate_match`: `rfind('{')`, the first '}' after it,
    the inside split on ','.  Returns `(first, alternatives, last)`. -/
def splitLastBrace (p : Str) : Option (Str × List Str × Str) :=
  match rsplitAt '{' p with
  | none => none
  | some (first, after) =>
    match splitAtFirst '}' after with
    | none => none
    | some (inner, last) => some (first, splitOn ',' inner, last)

def countOpen (p : Str) : Nat := p.count '{'

/-- kind-specific match of a compiled non-alternate pattern -/
def matchKind (pat : Pattern) (pkg : Str) : Bool :=
  match pat.kind with
  | .alternate => false
  | .dewey => (match pat.dewey with | some d => deweyMatches d pkg | none => false)
  | .glob => (match pat.glob with | some g => globMatches g pkg | none => false)
  | .simple => pat.pattern == pkg

theorem count_rsplitAt {x : Char} {p a b : Str} (h : rsplitAt x p = some (a, b)) :
    p.count x = a.count x + 1 + b.count x ∧ b.count x = 0 := by
  induction p generalizing a b with
  | nil => simp [rsplitAt] at h
  | cons c rest ih =>
    simp only [rsplitAt] at h
    cases hr : rsplitAt x rest with
    | some ab =>
      obtain ⟨a', b'⟩ := ab
      simp only [hr, Option.some.injEq, Prod.mk.injEq] at h
      obtain ⟨rfl, rfl⟩ := h
      have := ih hr
      simp only [List.count_cons]
      omega
    | none =>
      simp only [hr] at h
      split at h
      · rename_i hc
        simp only [Option.some.injEq, Prod.mk.injEq] at h
        obtain ⟨rfl, rfl⟩ := h
        have hn : ∀ (l : Str), rsplitAt x l = none → l.count x = 0 := by
          intro l
          induction l with
          | nil => simp
          | cons d l ihl =>
            simp only [rsplitAt]
            cases hl : rsplitAt x l with
            | some _ => simp
            | none =>
              simp only
              split
              · simp
              · rename_i hd; intro _; simp [List.count_cons, ihl hl, hd]
        have := hn _ hr
        simp only [List.count_cons, hc, List.count_nil]
        simp_all
      · simp at h

theorem count_splitAtFirst {x y : Char} {p a b : Str} (h : splitAtFirst x p = some (a, b)) :
    a.count y ≤ p.count y ∧ b.count y ≤ p.count y ∧ a.count y + b.count y ≤ p.count y := by
  induction p generalizing a b with
  | nil => simp [splitAtFirst] at h
  | cons c rest ih =>
    simp only [splitAtFirst] at h
    split at h
    · simp only [Option.some.injEq, Prod.mk.injEq] at h
      obtain ⟨rfl, rfl⟩ := h
      simp [List.count_cons]
    · cases hr : splitAtFirst x rest with
      | none => simp [hr] at h
      | some ab =>
        obtain ⟨a', b'⟩ := ab
        simp only [hr, Option.some.injEq, Prod.mk.injEq] at h
        obtain ⟨rfl, rfl⟩ := h
        have := ih hr
        simp only [List.count_cons]
        split <;> omega

theorem count_splitOn_mem {sep y : Char} {l m : Str} (h : m ∈ splitOn sep l) :
    m.count y ≤ l.count y := by
  induction l generalizing m with
  | nil => simp [splitOn] at h; subst h; simp
  | cons c rest ih =>
    simp only [splitOn] at h
    split at h
    · simp only [List.mem_cons] at h
      rcases h with rfl | h
      · simp
      · have := ih h; simp only [List.count_cons]; omega
    · cases hs : splitOn sep rest with
      | nil => simp [hs] at h; subst h; simp [List.count_cons]
      | cons seg segs =>
        simp only [hs, List.mem_cons] at h
        rcases h with rfl | h
        · have := ih (m := seg) (by simp [hs]); simp only [List.count_cons]; omega
        · have := ih (m := m) (by simp [hs, h]); simp only [List.count_cons]; omega

/-- every substitution of `alternate_match` has strictly fewer '{' — the reason the
    recursion of `Pattern::matches` ↔ `alternate_match` terminates (C17) -/
theorem countOpen_subst {p first last : Str} {alts : List Str} {m : Str}
    (h : splitLastBrace p = some (first, alts, last)) (hm : m ∈ alts) :
    countOpen (first ++ m ++ last) < countOpen p := by
  unfold splitLastBrace at h
  cases h1 : rsplitAt '{' p with
  | none => simp [h1] at h
  | some fa =>
    obtain ⟨f, after⟩ := fa
    simp only [h1] at h
    cases h2 : splitAtFirst '}' after with
    | none => simp [h2] at h
    | some il =>
      obtain ⟨inner, l⟩ := il
      simp only [h2, Option.some.injEq, Prod.mk.injEq] at h
      obtain ⟨rfl, rfl, rfl⟩ := h
      have c1 := count_rsplitAt h1
      have c2 := count_splitAtFirst (y := '{') h2
      have c3 := count_splitOn_mem (y := '{') hm
      simp only [countOpen, List.count_append]
      omega

/-- `alternate_match(pattern, pkg)`: substitute each alternative of the right-most
    group, re-compile, and run `Pattern::matches` on the result (inlined: quick test,
    then the kind-specific matcher; an alternate result recurses). -/
def altMatch (p : Str) (pkg : Str) : Bool :=
  match h : splitLastBrace p with
  | none => false
  | some (first, alts, last) =>
    alts.attach.any fun ⟨m, hm⟩ =>
      let fmt := first ++ m ++ last
      match patternNew fmt with
      | .error _ => false
      | .ok pat =>
        quickPkgMatch fmt pkg &&
          (if pat.kind == .alternate then altMatch fmt pkg else matchKind pat pkg)
termination_by countOpen p
decreasing_by exact countOpen_subst h hm

/-- `Pattern::matches` (`likely` is always false: `Pattern::new` never sets it) -/
def patternMatches (pat : Pattern) (pkg : Str) : Bool :=
  quickPkgMatch pat.pattern pkg &&
    (if pat.kind == .alternate then altMatch pat.pattern pkg else matchKind pat pkg)

/-- Rust `str` ordering `a < b` (byte-wise = scalar-value-wise lexicographic) -/
def strLt : Str → Str → Bool
  | [], [] => false
  | [], _ :: _ => true
  | _ :: _, [] => false
  | a :: as, b :: bs => if a.toNat < b.toNat then true else if a.toNat > b.toNat then false else strLt as bs

/-- `Pattern::best_match`: `none`, or `some false` = pkg1 / `some true` = pkg2 … returned as the name -/
def bestMatch (pat : Pattern) (pkg1 pkg2 : Str) : Option Str :=
  match patternMatches pat pkg1, patternMatches pat pkg2 with
  | true, false => some pkg1
  | false, true => some pkg2
  | false, false => none
  | true, true =>
    let d1 := deweyVersion (pkgNameNew pkg1).pkgversion
    let d2 := deweyVersion (pkgNameNew pkg2).pkgversion
    if deweyCmp d1 .gt d2 then some pkg1
    else if deweyCmp d1 .lt d2 then some pkg2
    else if strLt pkg1 pkg2 then some pkg1
    else some pkg2

/-! ### Depend -/

inductive DependErr | invalid | pattern (e : PatErr) | pkgpath
  deriving DecidableEq, Repr

structure Depend where
  pattern : Pattern
  pkgpath : PkgPath
  deriving DecidableEq, Repr

/-- `Depend::new` -/
def dependNew (s : Str) : Except DependErr Depend :=
  match splitOn ':' s with
  | [a, b] =>
    match patternNew a with
    | .error e => .error (.pattern e)
    | .ok pat =>
      match pkgPathNew b with
      | none => .error .pkgpath
      | some pp => .ok { pattern := pat, pkgpath := pp }
  | _ => .error .invalid

end M
