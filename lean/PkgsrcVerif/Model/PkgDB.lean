/-
Model/PkgDB.lean — src/metadata.rs (MetadataEntry tables, Metadata::read_metadata after
the fix: commit that reports a non-numeric size as an error, is_valid) and src/pkgdb.rs
(is_valid_pkgdir, the Files iterator after the fix: commit that splits with PkgName).
The file system is a PARAMETER: a directory listing with node kinds and file contents.
-/
import PkgsrcVerif.Model.ScanIndex
namespace M

inductive MEntry
  | buildInfo | buildVersion | comment | contents | deInstall | desc | display | install
  | installedInfo | mtreeDirs | preserve | requiredBy | sizeAll | sizePkg
  deriving DecidableEq, Repr

def MEntry.all : List MEntry :=
  [.buildInfo, .buildVersion, .comment, .contents, .deInstall, .desc, .display, .install,
   .installedInfo, .mtreeDirs, .preserve, .requiredBy, .sizeAll, .sizePkg]

/-- `MetadataEntry::to_filename` -/
def MEntry.toFilename : MEntry → String
  | .buildInfo => "+BUILD_INFO" | .buildVersion => "+BUILD_VERSION" | .comment => "+COMMENT"
  | .contents => "+CONTENTS" | .deInstall => "+DEINSTALL" | .desc => "+DESC" | .display => "+DISPLAY"
  | .install => "+INSTALL" | .installedInfo => "+INSTALLED_INFO" | .mtreeDirs => "+MTREE_DIRS"
  | .preserve => "+PRESERVE" | .requiredBy => "+REQUIRED_BY" | .sizeAll => "+SIZE_ALL"
  | .sizePkg => "+SIZE_PKG"

/-- `MetadataEntry::from_filename` (a second, separately written table) -/
def MEntry.fromFilename (s : String) : Option MEntry :=
  if s == "+BUILD_INFO" then some .buildInfo
  else if s == "+BUILD_VERSION" then some .buildVersion
  else if s == "+COMMENT" then some .comment
  else if s == "+CONTENTS" then some .contents
  else if s == "+DEINSTALL" then some .deInstall
  else if s == "+DESC" then some .desc
  else if s == "+DISPLAY" then some .display
  else if s == "+INSTALL" then some .install
  else if s == "+INSTALLED_INFO" then some .installedInfo
  else if s == "+MTREE_DIRS" then some .mtreeDirs
  else if s == "+PRESERVE" then some .preserve
  else if s == "+REQUIRED_BY" then some .requiredBy
  else if s == "+SIZE_ALL" then some .sizeAll
  else if s == "+SIZE_PKG" then some .sizePkg
  else none

structure Metadata where
  buildInfo : Option (List Str) := none
  buildVersion : Option (List Str) := none
  comment : Str := []
  contents : Str := []
  deinstall : Option Str := none
  desc : Str := []
  display : Option Str := none
  install : Option Str := none
  installedInfo : Option (List Str) := none
  mtreeDirs : Option (List Str) := none
  preserve : Option (List Str) := none
  requiredBy : Option (List Str) := none
  sizeAll : Option Int := none
  sizePkg : Option Int := none

/-- `str::lines` on characters -/
def strLines (s : Str) : List Str :=
  match s with
  | [] => []
  | _ =>
    let pieces := splitOn '\n' s
    let strip (l : Str) : Str := if l.getLast? == some '\r' then l.dropLast else l
    let term := pieces.dropLast.map strip
    match pieces.getLast? with
    | some [] => term
    | some l => term ++ [l]
    | none => term

/-- `Metadata::read_metadata`; `none` = Err -/
def Metadata.read (m : Metadata) (e : MEntry) (value : Str) : Option Metadata :=
  let v := trim value
  let vec := strLines v
  match e with
  | .buildInfo => some { m with buildInfo := some vec }
  | .buildVersion => some { m with buildVersion := some vec }
  | .comment => some { m with comment := m.comment ++ v }
  | .contents => some { m with contents := m.contents ++ v }
  | .deInstall => some { m with deinstall := some v }
  | .desc => some { m with desc := m.desc ++ v }
  | .display => some { m with display := some v }
  | .install => some { m with install := some v }
  | .installedInfo => some { m with installedInfo := some vec }
  | .mtreeDirs => some { m with mtreeDirs := some vec }
  | .preserve => some { m with preserve := some vec }
  | .requiredBy => some { m with requiredBy := some vec }
  | .sizeAll => (parseI64? v).map fun n => { m with sizeAll := some n }
  | .sizePkg => (parseI64? v).map fun n => { m with sizePkg := some n }

/-- `Metadata::is_valid` -/
def Metadata.isValid (m : Metadata) : Bool := !m.comment.isEmpty && !m.contents.isEmpty && !m.desc.isEmpty

/-! ### the package database -/

inductive Node
  | file
  | dir (files : List (String × Bytes))   -- names of the entries inside, with file contents
  deriving Repr

structure Package where
  pkgname : Str
  pkgbase : Str
  pkgversion : Str
  files : List (String × Bytes)

/-- `is_valid_pkgdir` -/
def isValidPkgdir : Node → Bool
  | .file => false
  | .dir fs => ["+COMMENT", "+CONTENTS", "+DESC"].all fun f => fs.any (·.1 == f)

/-- one `next()` result per valid directory of the listing, in listing order;
    `none` = the InvalidData error item (name is not UTF-8) -/
def pkgdbIter (listing : List (Bytes × Node)) : List (Option Package) :=
  listing.filterMap fun (name, node) =>
    if !isValidPkgdir node then none
    else
      match node with
      | .file => none
      | .dir fs =>
        if (utf8 name).2 != .complete then some none
        else
          match (String.fromUTF8? name.toByteArray).map String.toList with
          | none => some none
          | some p =>
            let n := pkgNameNew p
            some (some { pkgname := p, pkgbase := n.pkgbase, pkgversion := n.pkgversion, files := fs })

/-- `Package::read_metadata` -/
def Package.readMetadata (p : Package) (e : MEntry) : Option Bytes :=
  (p.files.find? (·.1 == e.toFilename)).map (·.2)

end M
