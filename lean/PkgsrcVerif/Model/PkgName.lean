/-
Model/PkgName.lean — src/pkgname.rs PkgName::new, and the two Summary accessors
pkgbase()/pkgversion() (src/summary.rs) that split a PKGNAME on their own.
-/
import PkgsrcVerif.Model.Dewey
namespace M

/-- `s.rsplit_once("nb")`: text before / after the LAST occurrence of "nb" -/
def rsplitNb : Str → Option (Str × Str)
  | [] => none
  | c :: rest =>
    match rsplitNb rest with
    | some (a, b) => some (c :: a, b)
    | none =>
      match c, rest with
      | 'n', 'b' :: r => some ([], r)
      | _, _ => none

structure PkgName where
  pkgname : Str
  pkgbase : Str
  pkgversion : Str
  pkgrevision : Option Int
  deriving DecidableEq, Repr

/-- `PkgName::new` (`rsplit_once('-')` = `rsplitDash`) -/
def pkgNameNew (s : Str) : PkgName :=
  let (b, v) := match rsplitDash s with
    | some (b, v) => (b, v)
    | none => (s, [])
  let r := match rsplitNb v with
    | some (_, d) => some ((parseI64? d).getD 0)
    | none => none
  { pkgname := s, pkgbase := b, pkgversion := v, pkgrevision := r }

/-- `Summary::pkgbase` on the PKGNAME value: `rfind('-')`, `None` when the dash is at 0 -/
def summaryPkgbase (s : Str) : Option Str :=
  match rsplitDash s with
  | some (b, _) => if b.isEmpty then none else some b
  | none => none

/-- `Summary::pkgversion`: `None` when the dash is the last character -/
def summaryPkgversion (s : Str) : Option Str :=
  match rsplitDash s with
  | some (_, v) => if v.isEmpty then none else some v
  | none => none

end M
