/-
Model/PkgPath.lean — src/pkgpath.rs PkgPath::new and accessors.
A PathBuf is modelled by its text; PathBuf equality is equality of `components`.
-/
import PkgsrcVerif.Model.Path
namespace M

structure PkgPath where
  short : Str   -- text of the `short` PathBuf
  full : Str    -- text of the `full` PathBuf
  deriving DecidableEq, Repr

def pcomps (p : Str) : List (Comp Char) := components '/' '.' p

/-- derived `PartialEq` of `PkgPath`: both PathBufs equal component-wise -/
def PkgPath.eqv (a b : PkgPath) : Bool :=
  pcomps a.short == pcomps b.short && pcomps a.full == pcomps b.full

/-- `PkgPath::new`; `none` = `Err(PkgPathError::InvalidPath)` -/
def pkgPathNew (p : Str) : Option PkgPath :=
  match pcomps p with
  | [.normal _, .normal _] =>
    -- f = PathBuf::from("../../"); f.push(p)  (p is relative here)
    some { short := p, full := ['.', '.', '/', '.', '.', '/'] ++ p }
  | [.parent, .parent, .normal a, .normal b] =>
    -- s = PathBuf::from(c[2]); s.push(c[3])
    some { short := a ++ '/' :: b, full := p }
  | _ => none

end M
