/-
Model/Plist.lean — src/plist.rs: PlistEntry::from_bytes, Plist::from_bytes (the
start/tstart/trim/end index loop, after the fix: commit for one-character lines) and
the query views.  Byte-level throughout.
-/
import PkgsrcVerif.Model.Utf8
namespace M

inductive PEntry
  | file (b : Bytes)
  | cwd (b : Bytes)
  | exec (b : Bytes)
  | unexec (b : Bytes)
  | mode (o : Option Bytes)
  | pkgoptPreserve
  | owner (o : Option Bytes)
  | group (o : Option Bytes)
  | comment (o : Option Bytes)
  | ignore
  | name (b : Bytes)
  | pkgdir (b : Bytes)
  | dirrm (b : Bytes)
  | display (b : Bytes)
  | pkgdep (b : Bytes)
  | blddep (b : Bytes)
  | pkgcfl (b : Bytes)
  deriving DecidableEq, Repr

inductive PErr | unsupported | incorrect | utf8
  deriving DecidableEq, Repr

def isUtf8 (b : Bytes) : Bool := (utf8 b).2 == .complete

/-- position of the first byte equal to `x` -/
def indexOf (x : UInt8) : Bytes → Option Nat
  | [] => none
  | c :: rest => if c == x then some 0 else (indexOf x rest).map (· + 1)

/-- plist_args_osstr!: required raw argument -/
def argsOs (args : Option Bytes) (mk : Bytes → PEntry) : Except PErr PEntry :=
  match args with
  | some a => .ok (mk a)
  | none => .error .incorrect

/-- plist_args_str!: required UTF-8 argument -/
def argsStr (args : Option Bytes) (mk : Bytes → PEntry) : Except PErr PEntry :=
  match args with
  | some a => if isUtf8 a then .ok (mk a) else .error .utf8
  | none => .error .incorrect

/-- plist_args_str_opt!: optional UTF-8 argument -/
def argsStrOpt (args : Option Bytes) (mk : Option Bytes → PEntry) : Except PErr PEntry :=
  match args with
  | some a => if isUtf8 a then .ok (mk (some a)) else .error .utf8
  | none => .ok (mk none)

def asciiB (s : String) : Bytes := s.toList.map (fun c => UInt8.ofNat c.toNat)

/-- the `match cmd.as_str()` of `PlistEntry::from_bytes` (cmd starts with '@') -/
def dispatch (cmd : Bytes) (args : Option Bytes) : Except PErr PEntry :=
  if cmd == asciiB "@cwd" || cmd == asciiB "@src" || cmd == asciiB "@cd" then argsOs args .cwd
  else if cmd == asciiB "@exec" then argsOs args .exec
  else if cmd == asciiB "@unexec" then argsOs args .unexec
  else if cmd == asciiB "@option" then
    (match args with
     | none => .error .incorrect
     | some a =>
       if !isUtf8 a then .error .incorrect            -- `OsStr::to_str` is None
       else if a == asciiB "preserve" then .ok .pkgoptPreserve
       else .error .unsupported)
  else if cmd == asciiB "@mode" then argsStrOpt args .mode
  else if cmd == asciiB "@owner" then argsStrOpt args .owner
  else if cmd == asciiB "@group" then argsStrOpt args .group
  else if cmd == asciiB "@comment" then .ok (.comment args)
  else if cmd == asciiB "@ignore" then
    (match args with | some _ => .error .incorrect | none => .ok .ignore)
  else if cmd == asciiB "@name" then argsStr args .name
  else if cmd == asciiB "@pkgdep" then argsStr args .pkgdep
  else if cmd == asciiB "@blddep" then argsStr args .blddep
  else if cmd == asciiB "@pkgcfl" then argsStr args .pkgcfl
  else if cmd == asciiB "@pkgdir" then argsOs args .pkgdir
  else if cmd == asciiB "@dirrm" then argsOs args .dirrm
  else if cmd == asciiB "@display" then argsOs args .display
  else .error .unsupported

/-- `PlistEntry::from_bytes` -/
def entryFromBytes (bytes : Bytes) : Except PErr PEntry :=
  let fin := bytes.length
  -- (idx, cmd): position of the first ' ' and the bytes before it; (0, whole) when none
  let (idx, cmd) := match indexOf 32 bytes with
    | some i => (i, bytes.take i)
    | none => (0, bytes)
  let args : Option Bytes :=
    if idx == 0 || idx + 1 ≥ fin then none
    else
      -- skip blanks (Latin-1 whitespace) from idx on
      let rest := (bytes.drop idx).dropWhile isWhiteByte
      if rest.isEmpty then none else some rest
  if cmd.head? == some 64 then dispatch cmd args else .ok (.file bytes)

/-- state of the line scanner of `Plist::from_bytes` -/
structure Scan where
  lines : List (Nat × Nat)   -- (start, end) pairs pushed so far, in order
  start : Nat
  tstart : Nat
  trim : Bool
  fin : Nat                  -- the variable `end`

/-- one iteration of `for (idx, ch) in bytes.iter().enumerate()` -/
def scanStep (s : Scan) (idx : Nat) (ch : UInt8) : Scan :=
  if ch == 10 then
    { lines := if s.tstart < idx then s.lines ++ [(s.start, idx)] else s.lines,
      start := idx + 1, fin := idx + 1, tstart := idx + 1, trim := true }
  else if s.trim && isWhiteByte ch then { s with tstart := s.tstart + 1 }
  else { s with trim := false }

def scanLoop (s : Scan) (idx : Nat) : Bytes → Scan
  | [] => s
  | ch :: rest => scanLoop (scanStep s idx ch) (idx + 1) rest

/-- the (start, end) pairs `Plist::from_bytes` collects, trailing-line rule included -/
def scanLines (bytes : Bytes) : List (Nat × Nat) :=
  let s := scanLoop { lines := [], start := 0, tstart := 0, trim := true, fin := 0 } 0 bytes
  if s.fin < bytes.length && s.tstart < bytes.length then s.lines ++ [(s.start, bytes.length)] else s.lines

def sliceB (b : Bytes) (a e : Nat) : Bytes := (b.take e).drop a

/-- parse each slice in order; the first error aborts -/
def entriesOf : List Bytes → Except PErr (List PEntry)
  | [] => .ok []
  | l :: ls =>
    match entryFromBytes l with
    | .error e => .error e
    | .ok x =>
      match entriesOf ls with
      | .error e => .error e
      | .ok xs => .ok (x :: xs)

/-- `Plist::from_bytes` -/
def plistFromBytes (bytes : Bytes) : Except PErr (List PEntry) :=
  entriesOf ((scanLines bytes).map fun (a, e) => sliceB bytes a e)

/-! ### views -/

/-- one iteration of the `files()` closure: (ignore flag, output so far) -/
def filesStep (acc : Bool × List Bytes) (e : PEntry) : Bool × List Bytes :=
  match e with
  | .ignore => (true, acc.2)
  | .file f => if acc.1 then (false, acc.2) else (false, acc.2 ++ [f])
  | _ => acc

/-- `files()`: the ignore flag state machine -/
def files (es : List PEntry) : List Bytes := (es.foldl filesStep (false, [])).2

/-- one iteration of the `files_prefixed()` closure: (ignore flag, prefix, output so far) -/
def prefixedStep (acc : Bool × Option Bytes × List Bytes) (e : PEntry) : Bool × Option Bytes × List Bytes :=
  match e with
  | .cwd d => (acc.1, some d, acc.2.2)
  | .ignore => (true, acc.2.1, acc.2.2)
  | .file f =>
    if acc.1 then (false, acc.2.1, acc.2.2)
    else
      let p := acc.2.1.getD []
      let p := if p.getLast? == some 47 then p else p ++ [47]
      (false, acc.2.1, acc.2.2 ++ [p ++ f])
  | _ => acc

/-- `files_prefixed()` -/
def filesPrefixed (es : List PEntry) : List Bytes := (es.foldl prefixedStep (false, none, [])).2.2

def isInstallKind : PEntry → Bool
  | .cwd _ | .exec _ | .mode _ | .owner _ | .group _ | .pkgdir _ => true
  | _ => false

def isUninstallKind : PEntry → Bool
  | .cwd _ | .unexec _ | .mode _ | .owner _ | .group _ | .pkgdir _ | .dirrm _ => true
  | _ => false

/-- one iteration of the `install_cmds()` / `uninstall_cmds()` filter closures -/
def cmdsStep (keep : PEntry → Bool) (acc : Bool × List PEntry) (e : PEntry) : Bool × List PEntry :=
  match e with
  | .ignore => (true, acc.2)
  | .file _ => if acc.1 then (false, acc.2) else (false, acc.2 ++ [e])
  | _ => if keep e then (acc.1, acc.2 ++ [e]) else acc

/-- `install_cmds()` / `uninstall_cmds()` share their shape: ignore flag + a kind filter -/
def cmds (keep : PEntry → Bool) (es : List PEntry) : List PEntry := (es.foldl (cmdsStep keep) (false, [])).2

def installCmds := cmds isInstallKind
def uninstallCmds := cmds isUninstallKind

def depends (es : List PEntry) : List Bytes := es.filterMap fun | .pkgdep s => some s | _ => none
def buildDepends (es : List PEntry) : List Bytes := es.filterMap fun | .blddep s => some s | _ => none
def conflicts (es : List PEntry) : List Bytes := es.filterMap fun | .pkgcfl s => some s | _ => none
def pkgdirs (es : List PEntry) : List Bytes := es.filterMap fun | .pkgdir s => some s | _ => none
def pkgrmdirs (es : List PEntry) : List Bytes := es.filterMap fun | .dirrm s => some s | _ => none
def plistPkgname (es : List PEntry) : Option Bytes := es.findSome? fun | .name s => some s | _ => none
def plistDisplay (es : List PEntry) : Option Bytes := es.findSome? fun | .display s => some s | _ => none
def isPreserve (es : List PEntry) : Bool := (es.filter (· == .pkgoptPreserve)).length > 0

end M
