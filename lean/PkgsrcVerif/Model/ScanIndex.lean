/-
Model/ScanIndex.lean — src/scanindex.rs: ScanIndex::from_reader (record segmentation
on PKGNAME=), KeyValue::visit_str (KEY=VALUE map, last insert wins) and the typed
field extraction of `impl Deserialize for ScanIndex`.  Character level (`&str` APIs
with Unicode-aware trim / split_whitespace).
-/
import PkgsrcVerif.Model.Pattern
import PkgsrcVerif.Model.Utf8
namespace M

/-- `str::trim` -/
def trim (s : Str) : Str := ((s.dropWhile isWhite).reverse.dropWhile isWhite).reverse

/-- `str::split_whitespace` -/
def splitWhitespace (s : Str) : List Str :=
  go [] s
where
  go (cur : Str) : Str → List Str
    | [] => if cur.isEmpty then [] else [cur.reverse]
    | c :: rest =>
      if isWhite c then (if cur.isEmpty then go [] rest else cur.reverse :: go [] rest)
      else go (c :: cur) rest

/-- `str::split_once('=')` -/
def splitOnceEq : Str → Option (Str × Str)
  | [] => none
  | c :: rest =>
    if c == '=' then some ([], rest)
    else (splitOnceEq rest).map fun (k, v) => (c :: k, v)

/-- the HashMap<String,String> of `KeyValue::visit_str`: later inserts win -/
abbrev KV := List (Str × Str)

def KV.get (m : KV) (k : String) : Option Str :=
  ((m.reverse.find? fun kv => kv.1 == k.toList).map (·.2))

/-- `visit_str` on the lines of one block -/
def keyValues (block : List Str) : KV :=
  block.filterMap fun line => (splitOnceEq line).map fun (k, v) => (trim k, trim v)

structure ScanIndex where
  pkgname : PkgName
  pkgLocation : Option PkgPath
  allDepends : List Depend
  pkgSkipReason : Option Str
  pkgFailReason : Option Str
  noBinOnFtp : Option Str
  restricted : Option Str
  categories : Option Str
  maintainer : Option Str
  useDestdir : Option Str
  bootstrapPkg : Option Str
  usergroupPhase : Option Str
  scanDepends : List Str
  pbulkWeight : Option Str
  multiVersion : List Str

def mapMOpt {α β} (f : α → Option β) : List α → Option (List β)
  | [] => some []
  | a :: l => match f a with
    | none => none
    | some b => (mapMOpt f l).map (b :: ·)

/-- `impl Deserialize for ScanIndex` on one block; `none` = Err -/
def toIndex (block : List Str) : Option ScanIndex :=
  let m := keyValues block
  -- ALL_DEPENDS first (any bad item fails), then PKGNAME (required), then PKG_LOCATION
  match mapMOpt (fun s => match dependNew s with | .ok d => some d | .error _ => none)
      (match m.get "ALL_DEPENDS" with | some v => splitWhitespace v | none => []) with
  | none => none
  | some deps =>
    match m.get "PKGNAME" with
    | none => none
    | some n =>
      let loc : Option (Option PkgPath) := match m.get "PKG_LOCATION" with
        | none => some none
        | some v => (pkgPathNew v).map some
      match loc with
      | none => none
      | some loc =>
        some { pkgname := pkgNameNew n, pkgLocation := loc, allDepends := deps,
               pkgSkipReason := m.get "PKG_SKIP_REASON", pkgFailReason := m.get "PKG_FAIL_REASON",
               noBinOnFtp := m.get "NO_BIN_ON_FTP", restricted := m.get "RESTRICTED",
               categories := m.get "CATEGORIES", maintainer := m.get "MAINTAINER",
               useDestdir := m.get "USE_DESTDIR", bootstrapPkg := m.get "BOOTSTRAP_PKG",
               usergroupPhase := m.get "USERGROUP_PHASE",
               scanDepends := (match m.get "SCAN_DEPENDS" with | some v => splitWhitespace v | none => []),
               pbulkWeight := m.get "PBULK_WEIGHT",
               multiVersion := (match m.get "MULTI_VERSION" with | some v => splitWhitespace v | none => []) }

def startsWithPkgname (l : Str) : Bool := startsWith l "PKGNAME=".toList

/-- the loop of `from_reader` over the (already trimmed, possibly empty) lines:
    `(indexes so far, buffer)`; `none` = a flush failed -/
def readLoop (acc : List ScanIndex) (buf : List Str) : List Str → Option (List ScanIndex)
  | [] => if buf.isEmpty then some acc else (toIndex buf).map fun i => acc ++ [i]
  | line :: rest =>
    if line.isEmpty then readLoop acc buf rest
    else if startsWithPkgname line && !buf.isEmpty then
      match toIndex buf with
      | none => none
      | some i => readLoop (acc ++ [i]) [line] rest
    else readLoop acc (buf ++ [line]) rest

/-- `BufRead::lines` on the whole input: split at '\n', a final '\n' adds no line, one
    trailing '\r' stripped; `none` if some line is not valid UTF-8 -/
def readerLines (b : Bytes) : Option (List Str) :=
  let raw := splitNlB b
  let raw := match raw.getLast? with | some [] => raw.dropLast | _ => raw
  mapMOpt (fun l =>
    let l := if l.getLast? == some 13 then l.dropLast else l
    if (utf8 l).2 == .complete then (String.fromUTF8? l.toByteArray).map String.toList else none) raw
where
  splitNlB : Bytes → List Bytes
    | [] => [[]]
    | 10 :: rest => [] :: splitNlB rest
    | c :: rest =>
      match splitNlB rest with
      | [] => [[c]]
      | l :: ls => (c :: l) :: ls

/-- `ScanIndex::from_reader`; `ioError` = the reader reports a hard error before EOF -/
def fromReader (b : Bytes) (ioError : Bool) : Option (List ScanIndex) :=
  if ioError then none
  else
    match readerLines b with
    | none => none
    | some ls => readLoop [] [] (ls.map trim)

end M
