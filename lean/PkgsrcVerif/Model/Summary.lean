/-
Model/Summary.lean — src/summary.rs: SummaryVariable (two name tables), Summary
(setters, pushers, getters, is_completed, Display, FromStr) and SummaryStream
(Write::write after the fix: commit that tolerates a multi-byte character split across
writes, Display).  Byte-level: from_str only ever splits on the ASCII bytes
\n, \r and '=', so it composes with the stream's byte buffer.
-/
import PkgsrcVerif.Model.Utf8
namespace M

/-- enum SummaryVariable, in declaration (= derive(Ord) = printing) order -/
inductive Var
  | buildDate | categories | comment | conflicts | depends | description | fileCksum | fileName
  | fileSize | homepage | license | machineArch | opsys | osVersion | pkgOptions | pkgname
  | pkgpath | pkgtoolsVersion | prevPkgpath | provides | requires | sizePkg | supersedes
  deriving DecidableEq, Repr

def Var.all : List Var :=
  [.buildDate, .categories, .comment, .conflicts, .depends, .description, .fileCksum, .fileName,
   .fileSize, .homepage, .license, .machineArch, .opsys, .osVersion, .pkgOptions, .pkgname,
   .pkgpath, .pkgtoolsVersion, .prevPkgpath, .provides, .requires, .sizePkg, .supersedes]

def asciiBytes (s : String) : Bytes := s.toList.map (fun c => UInt8.ofNat c.toNat)

/-- `impl Display for SummaryVariable` -/
def Var.name : Var → String
  | .buildDate => "BUILD_DATE" | .categories => "CATEGORIES" | .comment => "COMMENT"
  | .conflicts => "CONFLICTS" | .depends => "DEPENDS" | .description => "DESCRIPTION"
  | .fileCksum => "FILE_CKSUM" | .fileName => "FILE_NAME" | .fileSize => "FILE_SIZE"
  | .homepage => "HOMEPAGE" | .license => "LICENSE" | .machineArch => "MACHINE_ARCH"
  | .opsys => "OPSYS" | .osVersion => "OS_VERSION" | .pkgOptions => "PKG_OPTIONS"
  | .pkgname => "PKGNAME" | .pkgpath => "PKGPATH" | .pkgtoolsVersion => "PKGTOOLS_VERSION"
  | .prevPkgpath => "PREV_PKGPATH" | .provides => "PROVIDES" | .requires => "REQUIRES"
  | .sizePkg => "SIZE_PKG" | .supersedes => "SUPERSEDES"

/-- `impl FromStr for SummaryVariable` (a second, separately written table in the code) -/
def Var.ofName (s : Bytes) : Option Var :=
  if s == asciiBytes "BUILD_DATE" then some .buildDate
  else if s == asciiBytes "FILE_SIZE" then some .fileSize
  else if s == asciiBytes "CATEGORIES" then some .categories
  else if s == asciiBytes "COMMENT" then some .comment
  else if s == asciiBytes "CONFLICTS" then some .conflicts
  else if s == asciiBytes "DEPENDS" then some .depends
  else if s == asciiBytes "DESCRIPTION" then some .description
  else if s == asciiBytes "FILE_CKSUM" then some .fileCksum
  else if s == asciiBytes "FILE_NAME" then some .fileName
  else if s == asciiBytes "HOMEPAGE" then some .homepage
  else if s == asciiBytes "LICENSE" then some .license
  else if s == asciiBytes "MACHINE_ARCH" then some .machineArch
  else if s == asciiBytes "OPSYS" then some .opsys
  else if s == asciiBytes "OS_VERSION" then some .osVersion
  else if s == asciiBytes "PKG_OPTIONS" then some .pkgOptions
  else if s == asciiBytes "PKGNAME" then some .pkgname
  else if s == asciiBytes "PKGPATH" then some .pkgpath
  else if s == asciiBytes "PKGTOOLS_VERSION" then some .pkgtoolsVersion
  else if s == asciiBytes "PREV_PKGPATH" then some .prevPkgpath
  else if s == asciiBytes "PROVIDES" then some .provides
  else if s == asciiBytes "REQUIRES" then some .requires
  else if s == asciiBytes "SIZE_PKG" then some .sizePkg
  else if s == asciiBytes "SUPERSEDES" then some .supersedes
  else none

inductive VKind | str | int | arr
  deriving DecidableEq, Repr

/-- which SummaryValue constructor the API stores for each variable -/
def Var.kind : Var → VKind
  | .conflicts | .depends | .description | .provides | .requires | .supersedes => .arr
  | .fileSize | .sizePkg => .int
  | _ => .str

/-- enum SummaryValue -/
inductive Value
  | s (x : Bytes)
  | i (n : Int)
  | a (l : List Bytes)
  deriving DecidableEq, Repr

/-- struct Summary: the HashMap as a total function -/
abbrev Summary := Var → Option Value

def Summary.empty : Summary := fun _ => none

/-- `insert_or_update` -/
def Summary.set (s : Summary) (v : Var) (x : Value) : Summary := fun w => if w = v then some x else s w

/-- `insert_or_push` with `SummaryValue::push`; `none` = panic!("pushing only supported on A()") -/
def Summary.push (s : Summary) (v : Var) (item : Bytes) : Option Summary :=
  match s v with
  | none => some (s.set v (.a [item]))
  | some (.a l) => some (s.set v (.a (l ++ [item])))
  | some _ => none

/-- `get_s` / `get_i` / `get_a`: `none` = panic!("internal error") -/
def Summary.getS (s : Summary) (v : Var) : Option (Option Bytes) :=
  match s v with
  | none => some none
  | some (.s x) => some (some x)
  | some _ => none
def Summary.getI (s : Summary) (v : Var) : Option (Option Int) :=
  match s v with
  | none => some none
  | some (.i n) => some (some n)
  | some _ => none
def Summary.getA (s : Summary) (v : Var) : Option (Option (List Bytes)) :=
  match s v with
  | none => some none
  | some (.a l) => some (some l)
  | some _ => none

/-- the eleven required variables, in the order `from_str` / `is_completed` test them -/
def Var.required : List Var :=
  [.buildDate, .categories, .comment, .description, .machineArch, .opsys, .osVersion, .pkgname,
   .pkgpath, .pkgtoolsVersion, .sizePkg]

/-- `is_completed` -/
def Summary.isCompleted (s : Summary) : Bool := Var.required.all fun v => (s v).isSome

def intBytes (n : Int) : Bytes := (intToDec n).map (fun c => UInt8.ofNat c.toNat)

/-- lines printed for one variable -/
def printVar (v : Var) (x : Value) : Bytes :=
  match x with
  | .s b => asciiBytes v.name ++ [61] ++ b ++ [10]
  | .i n => asciiBytes v.name ++ [61] ++ intBytes n ++ [10]
  | .a l => l.flatMap fun b => asciiBytes v.name ++ [61] ++ b ++ [10]

/-- `impl Display for Summary`: BTreeMap over the enum order, one line per value -/
def Summary.print (s : Summary) : Bytes :=
  Var.all.flatMap fun v => match s v with
    | some x => printVar v x
    | none => []

/-- strip one trailing '\r' -/
def stripCr (l : Bytes) : Bytes :=
  match l.getLast? with
  | some 13 => l.dropLast
  | _ => l

/-- `str::lines()`: split at '\n'; a final piece without '\n' is a line as is (even if it ends
    in '\r'); a terminated line loses its '\n' and then one '\r' -/
def lines : Bytes → List Bytes
  | [] => []
  | b =>
    match splitOn (10 : UInt8) b with
    | [] => []
    | pieces =>
      -- all but the last piece were terminated by '\n'; the last one is a line only if non-empty
      let term := pieces.dropLast.map stripCr
      match pieces.getLast? with
      | some [] => term
      | some l => term ++ [l]
      | none => term
where
  splitOn (sep : UInt8) : Bytes → List Bytes
    | [] => [[]]
    | c :: rest =>
      if c == sep then [] :: splitOn sep rest
      else match splitOn sep rest with
        | [] => [[c]]
        | seg :: segs => (c :: seg) :: segs

/-- `line.splitn(2, '=')`: `(key, value)` at the FIRST '=' -/
def splitEq : Bytes → Option (Bytes × Bytes)
  | [] => none
  | c :: rest =>
    if c == 61 then some ([], rest)
    else (splitEq rest).map fun (k, v) => (c :: k, v)

inductive SumErr
  | parseLine (line : Bytes)
  | parseVariable (key : Bytes)
  | parseInt
  | incomplete (v : Var)
  deriving DecidableEq, Repr

def bytesToAsciiStr (b : Bytes) : Str := b.map fun x => Char.ofNat x.toNat

/-- one line of `from_str` -/
def parseLine (s : Summary) (line : Bytes) : Except SumErr Summary :=
  match splitEq line with
  | none => .error (.parseLine line)
  | some (k, val) =>
    match Var.ofName k with
    | none => .error (.parseVariable k)
    | some v =>
      match v.kind with
      | .str => .ok (s.set v (.s val))
      | .arr =>
        (match s.push v val with
         | some s' => .ok s'
         | none => .ok s)   -- unreachable (type invariant, C17)
      | .int =>
        match parseI64? (bytesToAsciiStr val) with
        | some n => .ok (s.set v (.i n))
        | none => .error .parseInt

def parseLines (s : Summary) : List Bytes → Except SumErr Summary
  | [] => .ok s
  | l :: ls =>
    match parseLine s l with
    | .ok s' => parseLines s' ls
    | .error e => .error e

/-- `impl FromStr for Summary` -/
def Summary.parse (text : Bytes) : Except SumErr Summary :=
  match parseLines Summary.empty (lines text) with
  | .error e => .error e
  | .ok s =>
    match Var.required.find? (fun v => (s v).isNone) with
    | some v => .error (.incomplete v)
    | none => .ok s

/-! ### SummaryStream -/

structure Stream where
  buf : Bytes
  entries : List Summary

def Stream.init : Stream := { buf := [], entries := [] }

/-- byte offset just past the LAST "\n\n" (`rfind("\n\n") + 2`), if any -/
def lastSepEnd : Bytes → Option Nat
  | [] => none
  | c :: rest =>
    match lastSepEnd rest with
    | some k => some (k + 1)
    | none =>
      match c, rest with
      | 10, 10 :: _ => some 2
      | _, _ => none

/-- `str::split("\n\n")`, left to right, non-overlapping -/
def splitSep2 : Bytes → List Bytes
  | [] => [[]]
  | 10 :: 10 :: rest => [] :: splitSep2 rest
  | c :: rest =>
    match splitSep2 rest with
    | [] => [[c]]
    | seg :: segs => (c :: seg) :: segs

/-- `split_terminator("\n\n")`: a trailing empty piece is dropped -/
def splitTerminator (b : Bytes) : List Bytes :=
  let ps := splitSep2 b
  match ps.getLast? with
  | some [] => ps.dropLast
  | _ => ps

/-- parse records in order, pushing until the first failure -/
def parseRecords (acc : List Summary) : List Bytes → List Summary × Bool
  | [] => (acc, true)
  | r :: rs =>
    match Summary.parse r with
    | .ok s => parseRecords (acc ++ [s]) rs
    | .error _ => (acc, false)

/-- `Write::write`: `(new state, Ok(len) = true / Err(InvalidData) = false)` -/
def Stream.write (st : Stream) (input : Bytes) : Stream × Bool :=
  let buf := st.buf ++ input
  let (valid, ending) := utf8 buf
  let text := buf.take valid
  match lastSepEnd text with
  | none => ({ st with buf := buf }, ending != .invalid)
  | some k =>
    let (entries, ok) := parseRecords st.entries (splitTerminator (text.take k))
    if !ok then ({ buf := buf, entries := entries }, false)
    else ({ buf := buf.drop k, entries := entries }, ending != .invalid)

/-- `impl Display for SummaryStream`: each entry followed by a blank line -/
def Stream.print (st : Stream) : Bytes := st.entries.flatMap fun s => s.print ++ [10]

end M
