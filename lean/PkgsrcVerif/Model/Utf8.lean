/-
Model/Utf8.lean — the observable content of `std::str::from_utf8`'s `Utf8Error`:
how many leading bytes are valid UTF-8 and whether what follows is merely an
incomplete sequence (`error_len() == None`) or definitely invalid.
std behaviour ⇒ modelled base (Unicode Table 3-7 / core::str::validations),
tied by the `utf8.scan` op.
-/
import PkgsrcVerif.Model.Basic
namespace M

inductive ScanEnd | complete | incomplete | invalid
  deriving DecidableEq, Repr

def isCont (b : UInt8) : Bool := decide (0x80 ≤ b.toNat ∧ b.toNat ≤ 0xBF)

/-- second-byte range check for 3-byte sequences -/
def ok3 (b0 b1 : UInt8) : Bool :=
  let x := b0.toNat; let y := b1.toNat
  decide ((x = 0xE0 ∧ 0xA0 ≤ y ∧ y ≤ 0xBF) ∨ (0xE1 ≤ x ∧ x ≤ 0xEC ∧ 0x80 ≤ y ∧ y ≤ 0xBF) ∨
    (x = 0xED ∧ 0x80 ≤ y ∧ y ≤ 0x9F) ∨ (0xEE ≤ x ∧ x ≤ 0xEF ∧ 0x80 ≤ y ∧ y ≤ 0xBF))

/-- second-byte range check for 4-byte sequences -/
def ok4 (b0 b1 : UInt8) : Bool :=
  let x := b0.toNat; let y := b1.toNat
  decide ((x = 0xF0 ∧ 0x90 ≤ y ∧ y ≤ 0xBF) ∨ (0xF1 ≤ x ∧ x ≤ 0xF3 ∧ 0x80 ≤ y ∧ y ≤ 0xBF) ∨
    (x = 0xF4 ∧ 0x80 ≤ y ∧ y ≤ 0x8F))

/-- width class of a first byte: 1, 2, 3, 4 or 0 (never a first byte) -/
def width (b : UInt8) : Nat :=
  let x := b.toNat
  if x < 0x80 then 1 else if 0xC2 ≤ x ∧ x ≤ 0xDF then 2 else if 0xE0 ≤ x ∧ x ≤ 0xEF then 3
  else if 0xF0 ≤ x ∧ x ≤ 0xF4 then 4 else 0

/-- `(valid_up_to, how it ended)` -/
def utf8Scan (fuel : Nat) (b : Bytes) (n : Nat) : Nat × ScanEnd :=
  match fuel with
  | 0 => (n, .complete)
  | fuel + 1 =>
    match b with
    | [] => (n, .complete)
    | b0 :: rest =>
      match width b0 with
      | 1 => utf8Scan fuel rest (n + 1)
      | 2 =>
        (match rest with
         | [] => (n, .incomplete)
         | b1 :: r => if isCont b1 then utf8Scan fuel r (n + 2) else (n, .invalid))
      | 3 =>
        (match rest with
         | [] => (n, .incomplete)
         | b1 :: r =>
           if !ok3 b0 b1 then (n, .invalid)
           else match r with
             | [] => (n, .incomplete)
             | b2 :: r => if isCont b2 then utf8Scan fuel r (n + 3) else (n, .invalid))
      | 4 =>
        (match rest with
         | [] => (n, .incomplete)
         | b1 :: r =>
           if !ok4 b0 b1 then (n, .invalid)
           else match r with
             | [] => (n, .incomplete)
             | b2 :: r =>
               if !isCont b2 then (n, .invalid)
               else match r with
                 | [] => (n, .incomplete)
                 | b3 :: r => if isCont b3 then utf8Scan fuel r (n + 4) else (n, .invalid))
      | _ => (n, .invalid)

def utf8 (b : Bytes) : Nat × ScanEnd := utf8Scan (b.length + 1) b 0

end M
