/-
Props/C01.lean — Version comparison follows pkg_install's dewey ordering.
Property theorems only; helper lemmas live in Lemmas/.

Model: `M.deweyVersion` (the if-chain tokeniser of DeweyVersion::new) and
`M.deweyCmp` (the three-branch dewey_cmp).  Spec: `S.version` (modifier table,
letters as alphabet rank) and `S.padCmp` (padded lexicographic, revision last).

The full statement is FALSE for the code (finding F3: a letter is stored as its
ASCII code, not its rank); it is kept visible as `C01_full`, refuted by
`C01_counterexample`, and proved on the decidable domain `S.LetterAligned` as
`C01_partial`.
-/
import PkgsrcVerif.Lemmas.DeweyTokens
import PkgsrcVerif.Model.Pattern
open M S L

/-- the library's verdict for `W op V` (W the package's version, V the pattern's bound) -/
def libVerdict (W : Str) (op : Op) (V : Str) : Bool := deweyCmp (deweyVersion W) op (deweyVersion V)

/-- The comparison routine is padded lexicographic comparison, revision last — for every
    pair of component vectors and every operator (an asymmetric padding branch, a revision
    compared too early or a swapped operator row would fail here). -/
theorem C01_cmp_is_padded_lex (a b : DV) (op : Op) :
    deweyCmp a op b = testOrd (padCmp a.rev b.rev a.version b.version) op := by
  unfold deweyCmp; exact cmpVec_spec op _ _ _ _

/-- The tokeniser reads exactly the rule's components — digit runs by value, '.', '_', pl = 0,
    alpha, beta, rc, pre = -3, -2, -1, -1, letters case-insensitively, nb<N> the revision, all else
    ignored — except that a letter of rank r is stored as r + 96 (`S.encode`). For every string
    whose digit runs have at most 18 digits. -/
theorem C01_tokens_spec (s : Str) (h : InDomain s = true) :
    deweyVersion s = ⟨encode (S.version s).1, (S.version s).2⟩ :=
  (deweyVersion_spec s h).1

/-- The property at full strength: for all version strings in the domain and all four
    operators the library's verdict is the rule's verdict. -/
def C01_full : Prop :=
  ∀ (W V : Str) (op : Op), InDomain W = true → InDomain V = true → libVerdict W op V = S.verdict W op V

/-- F3: `1a < 1.5` under the rule (a = 0,1 against 0,5) but not for the library (0,97 against 0,5). -/
theorem C01_counterexample : ¬ C01_full := by
  intro h
  have := h ['1', 'a'] ['1', '.', '5'] .lt (by decide) (by decide)
  have e1 : libVerdict ['1', 'a'] .lt ['1', '.', '5'] = false := by
    simp [libVerdict, deweyVersion, tokens, isDigit, startsWithCI, isAlpha, isUpper, isLower, lower,
      satI64, digitsVal, digitVal, i64Max, Tok.comps, lastRev, deweyCmp, cmpVec, deweyTest]
  have e2 : S.verdict ['1', 'a'] .lt ['1', '.', '5'] = true := by
    have v1 : S.version ['1', 'a'] = ([(1, false), (0, false), (1, true)], 0) := by decide
    have v2 : S.version ['1', '.', '5'] = ([(1, false), (0, false), (5, false)], 0) := by decide
    simp [S.verdict, S.cmp, v1, v2, padCmp, cmp3, testOrd, Ordering.then]
  rw [e1, e2] at this
  cases this

/-- The property on the domain where F3 cannot matter: wherever a letter meets a number
    (after zero padding) that number is outside [1,122]. -/
theorem C01_partial (W V : Str) (op : Op) (hW : InDomain W = true) (hV : InDomain V = true)
    (hal : LetterAligned W V = true) : libVerdict W op V = S.verdict W op V := by
  obtain ⟨eW, rW⟩ := deweyVersion_spec W hW
  obtain ⟨eV, rV⟩ := deweyVersion_spec V hV
  simp only [libVerdict, C01_cmp_is_padded_lex, eW, eV, S.verdict, S.cmp]
  rw [padCmp_encode_aligned _ _ _ _ hal rW rV]

/-- letter-free versions are always aligned, so for them the property holds outright -/
theorem C01_letter_free (W V : Str) (op : Op) (hW : InDomain W = true) (hV : InDomain V = true)
    (hlW : ∀ c ∈ (S.version W).1, c.2 = false) (hlV : ∀ c ∈ (S.version V).1, c.2 = false) :
    libVerdict W op V = S.verdict W op V := by
  apply C01_partial W V op hW hV
  unfold LetterAligned
  generalize (S.version W).1 = a at hlW
  generalize (S.version V).1 = b at hlV
  induction a generalizing b with
  | nil => simp_all [aligned, alignedAt]
  | cons x xs ih =>
    cases b with
    | nil => simp_all [aligned, alignedAt]
    | cons y ys =>
      simp only [aligned, Bool.and_eq_true]
      exact ⟨by simp_all [alignedAt], ih (fun c hc => hlW c (by simp [hc])) ys (fun c hc => hlV c (by simp [hc]))⟩

/-- best_match compares the two candidates' versions with this same comparison
    (GT test, then LT test, then the byte-wise smaller name) -/
theorem C01_best_match (pat : Pattern) (n1 n2 : Str)
    (h1 : patternMatches pat n1 = true) (h2 : patternMatches pat n2 = true) :
    bestMatch pat n1 n2 =
      some (if libVerdict (pkgNameNew n1).pkgversion .gt (pkgNameNew n2).pkgversion then n1
            else if libVerdict (pkgNameNew n1).pkgversion .lt (pkgNameNew n2).pkgversion then n2
            else if strLt n1 n2 then n1 else n2) := by
  simp only [bestMatch, h1, h2, libVerdict]
  by_cases ha : deweyCmp (deweyVersion (pkgNameNew n1).pkgversion) .gt (deweyVersion (pkgNameNew n2).pkgversion) = true <;>
  by_cases hb : deweyCmp (deweyVersion (pkgNameNew n1).pkgversion) .lt (deweyVersion (pkgNameNew n2).pkgversion) = true <;>
  by_cases hc : strLt n1 n2 = true <;> simp [ha, hb, hc]

/-- non-vacuity: the versions of `dewey_match_range` are in the domain and aligned -/
example : InDomain ['1', '.', '0', 'a', 'l', 'p', 'h', 'a', '3', 'n', 'b', '2'] = true ∧ InDomain ['2', '.', '0', 'b', 'e', 't', 'a', '4', 'n', 'b', '7'] = true ∧
    LetterAligned ['1', '.', '0', 'a', 'l', 'p', 'h', 'a', '3', 'n', 'b', '2'] ['2', '.', '0', 'b', 'e', 't', 'a', '4', 'n', 'b', '7'] = true := by decide +kernel

/-- non-vacuity: unequal lengths and a revision tie-break, with a letter against padding -/
example : LetterAligned ['1', '.', '0', 'a'] ['1', '.', '0', '.', '0', '.', '1', 'n', 'b', '2'] = true := by
  decide +kernel

example : S.verdict ['1', '.', '0', 'n', 'b', '1'] .lt ['1', '.', '0', '.', '0', 'n', 'b', '2'] = true := by
  have v1 : S.version ['1', '.', '0', 'n', 'b', '1'] = ([(1, false), (0, false), (0, false)], 1) := by decide
  have v2 : S.version ['1', '.', '0', '.', '0', 'n', 'b', '2'] =
      ([(1, false), (0, false), (0, false), (0, false), (0, false)], 2) := by decide
  simp [S.verdict, S.cmp, v1, v2, padCmp, cmp3, testOrd, Ordering.then]
