/-
Props/C02.lean — A dewey pattern matches exactly the same-base packages inside
its range; malformed comparison patterns are rejected at compile time.
Property theorems only; helper lemmas live in Lemmas/.
-/
import PkgsrcVerif.Lemmas.Quick
open M S L

/-- Compile ⇔ grammar: `Dewey::new p` succeeds exactly when `p` reads, with maximal munch,
    as BASE OP V or BASE OP1 V1 OP2 V2 with OP1 ∈ {>,>=} and OP2 ∈ {<,<=}; the compiled
    pattern then holds that BASE and those bounds (each V tokenised by DeweyVersion::new).
    No operator / three or more operators / any other order of two operators are rejected,
    each with its own error — never silently reinterpreted. -/
theorem C02_compile_iff (p : Str) :
    (∀ base bs, parsePattern p = .ok (base, bs) →
        deweyNew p = .ok ⟨base, bs.map (fun ov => (ov.1, deweyVersion ov.2))⟩) ∧
    (parsePattern p = .error .noOps → deweyNew p = .error .noOps) ∧
    (parsePattern p = .error .order → ∃ pos, deweyNew p = .error (.order pos)) ∧
    (parsePattern p = .error .tooMany → ∃ pos, deweyNew p = .error (.tooMany pos)) :=
  deweyNew_eq_parse p

/-- the grammar's three rejections are exhaustive and the accepted forms are exactly
    one bound, or a lower bound followed by an upper bound -/
theorem C02_grammar_forms (p : Str) :
    (∃ base b, parsePattern p = .ok (base, [b])) ∨
    (∃ base b1 b2, parsePattern p = .ok (base, [b1, b2]) ∧ isLowerOp b1.1 = true ∧ isUpperOp b2.1 = true) ∨
    parsePattern p = .error .noOps ∨ parsePattern p = .error .order ∨ parsePattern p = .error .tooMany := by
  obtain ⟨t0, l, hl⟩ : ∃ t0 l, lexOps p = (t0, l) := ⟨_, _, rfl⟩
  simp only [parsePattern, hl]
  match l with
  | [] => simp
  | [b] => simp
  | [b1, b2] =>
    by_cases h : (isLowerOp b1.1 && isUpperOp b2.1) = true
    · simp only [h, if_true]; right; left
      simp only [Bool.and_eq_true] at h
      exact ⟨_, _, _, rfl, h.1, h.2⟩
    · simp [h]
  | _ :: _ :: _ :: _ => simp

/-- Match ⇔ the name splits at its LAST '-' into the pattern's base, byte for byte, and a
    version that satisfies EVERY bound. -/
theorem C02_match_iff (d : Dewey) (n : Str) :
    deweyMatches d n = true ↔
      ∃ pre v, n = pre ++ '-' :: v ∧ '-' ∉ v ∧ pre = d.pkgname ∧
        ∀ m ∈ d.matches_, deweyCmp (deweyVersion v) m.1 m.2 = true := by
  unfold deweyMatches
  cases hr : rsplitDash n with
  | none =>
    have hn := rsplitDash_none hr
    constructor
    · intro h; cases h
    · rintro ⟨pre, v, rfl, _⟩; exact absurd (by simp) hn
  | some bv =>
    obtain ⟨b, v⟩ := bv
    obtain ⟨hn, hv⟩ := rsplitDash_some hr
    constructor
    · intro h
      by_cases hb : (b != d.pkgname) = true
      · simp [hb] at h
      · simp only [hb, Bool.false_eq_true, if_false, List.all_eq_true] at h
        refine ⟨b, v, hn, hv, by simpa using hb, ?_⟩
        intro m hm; exact h m hm
    · rintro ⟨pre, v', hn', hv', hpre, hall⟩
      have u := last_dash_unique (hn ▸ hn') hv hv'
      obtain ⟨rfl, rfl⟩ := u
      simp only [hpre, bne_self_eq_false, Bool.false_eq_true, if_false, List.all_eq_true]
      intro m hm; exact hall m hm

/-- a name without '-' never matches -/
theorem C02_no_dash_never (d : Dewey) (n : Str) (h : '-' ∉ n) : deweyMatches d n = false := by
  cases hm : deweyMatches d n with
  | false => rfl
  | true =>
    obtain ⟨pre, v, rfl, _⟩ := (C02_match_iff d n).mp hm
    exact absurd (by simp) h

/-- the code's matcher and the specification's matcher (lexer + reverse/takeWhile split)
    agree on every pattern the grammar accepts and every name -/
theorem C02_spec_agrees (p : Str) (base : Str) (bs : List (Op × Str)) (d : Dewey) (n : Str)
    (hp : parsePattern p = .ok (base, bs)) (hd : deweyNew p = .ok d) :
    deweyMatches d n = patMatches (base, bs) n := by
  rw [(C02_compile_iff p).1 base bs hp] at hd
  injection hd with hd
  subst hd
  unfold deweyMatches patMatches
  rw [splitLastDash_eq]
  cases rsplitDash n with
  | none => rfl
  | some bv =>
    obtain ⟨b, v⟩ := bv
    simp only
    by_cases hb : b = base
    · subst hb; simp [List.all_map]
      rfl
    · have : (b != base) = true := by simpa using hb
      simp [this, hb]

/-- For brace-free patterns the standalone Dewey matcher always agrees with the general
    Pattern matcher: dispatch sends every brace-free pattern containing '<' or '>' to
    `Dewey::new`, and the first-two-characters shortcut is inert for them. -/
theorem C02_pattern_agrees_dewey (p n : Str)
    (hb : (p.contains '{' || p.contains '}') = false)
    (ho : (p.contains '>' || p.contains '<') = true) :
    (∀ e, deweyNew p = .error e → patternNew p = .error (.dewey e)) ∧
    (∀ d, deweyNew p = .ok d →
        ∃ pat, patternNew p = .ok pat ∧ pat.kind = .dewey ∧ patternMatches pat n = deweyMatches d n) := by
  constructor
  · intro e he; simp only [patternNew, hb, ho, he, Bool.false_eq_true, if_false, if_true]
  · intro d hd
    refine ⟨{ kind := .dewey, pattern := p, dewey := some d }, by simp only [patternNew, hb, ho, hd, Bool.false_eq_true, if_false, if_true], rfl, ?_⟩
    simp only [patternMatches, matchKind]
    have hk : (Kind.dewey == Kind.alternate) = false := by decide
    simp only [hk, Bool.false_eq_true, if_false]
    cases hm : deweyMatches d n with
    | false => simp
    | true =>
      obtain ⟨pre, v, rfl, _, hpre, _⟩ := (C02_match_iff d _).mp hm
      obtain ⟨x, rest, hshape, hx⟩ := deweyNew_ok_shape p d hd
      rw [hshape, hpre, quick_dewey _ _ _ _ hx]
      rfl

/-- every slice `Dewey::new` takes is in range: start ≤ end (feeds C17) -/
theorem C02_slices_in_range (p : Str) (i : Nat) :
    ∀ t ∈ scanOps p i, i ≤ t.1 ∧ t.1 < t.2.1 ∧ t.2.1 ≤ i + p.length + 1 := by
  induction p generalizing i with
  | nil => simp [scanOps]
  | cons c rest ih =>
    intro t ht
    simp only [scanOps] at ht
    split at ht
    · simp only [List.mem_cons] at ht
      rcases ht with rfl | ht
      · cases rest with
        | nil => simp
        | cons d r => by_cases hd : d = '=' <;> simp [hd] <;> omega
      · have := ih (i + 1) t ht; simp only [List.length_cons]; omega
    · split at ht
      · simp only [List.mem_cons] at ht
        rcases ht with rfl | ht
        · cases rest with
          | nil => simp
          | cons d r => by_cases hd : d = '=' <;> simp [hd] <;> omega
        · have := ih (i + 1) t ht; simp only [List.length_cons]; omega
      · have := ih (i + 1) t ht; simp only [List.length_cons]; omega

/-- non-vacuity: `foo>=1.0<2` parses by the grammar into base `foo` and two bounds -/
example : parsePattern ['f', 'o', 'o', '>', '=', '1', '.', '0', '<', '2'] =
    .ok (['f', 'o', 'o'], [(.ge, ['1', '.', '0']), (.lt, ['2'])]) := by rfl
