/-
Props/C03.lean — Version order is a total preorder; the four operators are
mutually consistent.  Property theorems only; helper lemmas live in Lemmas/.

All statements quantify over ARBITRARY version strings (any Unicode text, digit
runs of any length — the model saturates exactly as the code does), through
`M.deweyVersion`, and more generally over arbitrary component vectors.
-/
import PkgsrcVerif.Lemmas.DeweyCmp
import PkgsrcVerif.Lemmas.DeweyApi
import PkgsrcVerif.Props.C02
open M S L

/-- the library's verdict for `A op B` (A the package's version, B the pattern's bound) -/
def vtest (A : Str) (op : Op) (B : Str) : Bool := deweyCmp (deweyVersion A) op (deweyVersion B)

/-- every verdict is the operator table applied to ONE three-way comparison -/
theorem C03_single_comparison (a b : DV) (op : Op) :
    deweyCmp a op b = testOrd (padCmp a.rev b.rev a.version b.version) op := by
  unfold deweyCmp; exact cmpVec_spec op _ _ _ _

/-- exactly one of A<B, A>B, (A<=B and A>=B) -/
theorem C03_trichotomy (A B : Str) :
    (vtest A .lt B = true ∧ vtest A .gt B = false ∧ (vtest A .le B && vtest A .ge B) = false) ∨
    (vtest A .lt B = false ∧ vtest A .gt B = true ∧ (vtest A .le B && vtest A .ge B) = false) ∨
    (vtest A .lt B = false ∧ vtest A .gt B = false ∧ (vtest A .le B && vtest A .ge B) = true) := by
  simp only [vtest, C03_single_comparison]
  cases padCmp (deweyVersion A).rev (deweyVersion B).rev (deweyVersion A).version (deweyVersion B).version <;>
    simp [testOrd]

/-- A<=B is the negation of A>B -/
theorem C03_le_is_not_gt (A B : Str) : vtest A .le B = !vtest A .gt B := by
  simp only [vtest, C03_single_comparison]
  cases padCmp (deweyVersion A).rev (deweyVersion B).rev (deweyVersion A).version (deweyVersion B).version <;>
    simp [testOrd]

/-- A>=B is the negation of A<B -/
theorem C03_ge_is_not_lt (A B : Str) : vtest A .ge B = !vtest A .lt B := by
  simp only [vtest, C03_single_comparison]
  cases padCmp (deweyVersion A).rev (deweyVersion B).rev (deweyVersion A).version (deweyVersion B).version <;>
    simp [testOrd]

/-- A<=A and A>=A (and neither A<A nor A>A) -/
theorem C03_refl (A : Str) :
    vtest A .le A = true ∧ vtest A .ge A = true ∧ vtest A .lt A = false ∧ vtest A .gt A = false := by
  simp only [vtest, C03_single_comparison, padCmp_refl]
  simp [testOrd]

/-- the verdict is the same whichever version is written in the pattern and whichever is
    the package's: `A<B` with A as package ⇔ `B>A` with B as package; same for <= / >=.
    This crosses the two separately written padding branches of `dewey_cmp`. -/
theorem C03_swap (A B : Str) :
    vtest A .lt B = vtest B .gt A ∧ vtest A .le B = vtest B .ge A := by
  simp only [vtest, C03_single_comparison]
  rw [padCmp_swap]
  cases padCmp (deweyVersion B).rev (deweyVersion A).rev (deweyVersion B).version (deweyVersion A).version <;>
    simp [testOrd, Ordering.swap] <;> decide

/-- A<=B and B<=C imply A<=C -/
theorem C03_trans (A B C : Str) (h1 : vtest A .le B = true) (h2 : vtest B .le C = true) :
    vtest A .le C = true := by
  simp only [vtest, C03_single_comparison, testOrd, bne_iff_ne, ne_eq] at *
  exact padCmp_trans_le _ _ _ _ _ _ h1 h2

/-- the same laws for arbitrary component vectors (what `dewey_cmp` is given), so nothing
    depends on how a string was tokenised -/
theorem C03_trans_vectors (a b c : DV) (h1 : deweyCmp a .le b = true) (h2 : deweyCmp b .le c = true) :
    deweyCmp a .le c = true := by
  simp only [C03_single_comparison, testOrd, bne_iff_ne, ne_eq] at *
  exact padCmp_trans_le _ _ _ _ _ _ h1 h2

/-- A two-bound pattern matches exactly when both of its single-bound halves match. -/
theorem C03_two_bounds_is_and (base : Str) (m1 m2 : Op × DV) (n : Str) :
    deweyMatches { pkgname := base, matches_ := [m1, m2] } n =
      (deweyMatches { pkgname := base, matches_ := [m1] } n &&
       deweyMatches { pkgname := base, matches_ := [m2] } n) := by
  unfold deweyMatches
  cases rsplitDash n with
  | none => simp
  | some bv =>
    obtain ⟨b, v⟩ := bv
    by_cases h : (b != base) = true
    · simp [h]
    · simp [h]

/-- **Lift to the public API.**  Writing the bound as pattern text `BASE OP B` and the package as
    `BASE-A` (BASE and B free of comparison characters, B not starting with '=', A free of '-'),
    `Dewey::new` accepts the pattern and `Dewey::matches` returns exactly the verdict `A OP B`
    — so every law above (trichotomy, the two negations, reflexivity, swap, transitivity) holds
    verbatim for the answers of the public matcher. -/
theorem C03_api (base A B : Str) (op : Op) (hb : NoOp base) (hB : NoOp B) (he : B.head? ≠ some '=')
    (hA : '-' ∉ A) :
    ∃ d, deweyNew (base ++ opText op ++ B) = .ok d ∧ deweyMatches d (base ++ '-' :: A) = vtest A op B := by
  refine ⟨⟨base, [(op, deweyVersion B)]⟩, deweyNew_single base B op hb hB he, ?_⟩
  unfold vtest
  cases hc : deweyCmp (deweyVersion A) op (deweyVersion B) with
  | true =>
    rw [C02_match_iff]
    exact ⟨base, A, rfl, hA, rfl, by
      intro m hm; simp only [List.mem_singleton] at hm; subst hm; exact hc⟩
  | false =>
    cases hm : deweyMatches ⟨base, [(op, deweyVersion B)]⟩ (base ++ '-' :: A) with
    | false => rfl
    | true =>
      obtain ⟨pre, v', hn, hv', hpre, hall⟩ := (C02_match_iff _ _).mp hm
      simp only at hpre
      subst hpre
      have hv : v' = A := by
        have := List.append_cancel_left hn
        injection this with _ e; exact e.symm
      subst hv
      have := hall (op, deweyVersion B) (by simp)
      simp only at this
      rw [this] at hc
      cases hc

/-- e.g. through the API: `p<=B` rejects `p-A` exactly when `p>B` accepts it -/
theorem C03_api_le_not_gt (base A B : Str) (hb : NoOp base) (hB : NoOp B) (he : B.head? ≠ some '=')
    (hA : '-' ∉ A) :
    ∃ d1 d2, deweyNew (base ++ ['<', '='] ++ B) = .ok d1 ∧ deweyNew (base ++ ['>'] ++ B) = .ok d2 ∧
      deweyMatches d1 (base ++ '-' :: A) = !deweyMatches d2 (base ++ '-' :: A) := by
  obtain ⟨d1, h1, m1⟩ := C03_api base A B .le hb hB he hA
  obtain ⟨d2, h2, m2⟩ := C03_api base A B .gt hb hB he hA
  exact ⟨d1, d2, h1, h2, by rw [m1, m2, C03_le_is_not_gt]⟩

/-- non-vacuity: an unequal-length triple with a negative tail, 1.0.0alpha < 1 = 1.0 -/
example : deweyCmp ⟨[1, 0, 0, 0, 0, -3], 0⟩ .lt ⟨[1], 0⟩ = true ∧
          deweyCmp ⟨[1], 0⟩ .le ⟨[1, 0, 0], 0⟩ = true ∧
          deweyCmp ⟨[1, 0, 0], 0⟩ .ge ⟨[1], 0⟩ = true := by decide

/-- non-vacuity of `C03_api`: base `pkg`, bound `1.0nb2`, package version `1.0.0` meet its
    hypotheses -/
example : NoOp "pkg".toList ∧ NoOp "1.0nb2".toList ∧ "1.0nb2".toList.head? ≠ some '=' ∧ '-' ∉ "1.0.0".toList := by
  refine ⟨⟨by decide, by decide⟩, ⟨by decide, by decide⟩, by decide, by decide⟩
