/-
Props/C04.lean — Brace alternation matches exactly the union of its csh-style
expansions.  Property theorems only; helper lemmas live in Lemmas/.

Model: `M.balanced` (the stack loop of Pattern::new) and `M.altMatch`
(alternate_match after the fix: expand the right-most '{', re-compile, recurse).
Spec: parse trees `S.Seq` with `render`, `wf`, `expand` (Spec/Brace.lean).
-/
import PkgsrcVerif.Lemmas.BraceParse
import PkgsrcVerif.Lemmas.BraceUnique
open M S

/-- a pattern containing a brace compiles iff the stack loop accepts it, and then as an
    alternate pattern; otherwise the error is `Alternate` -/
theorem C04_compile_iff_balanced (p : Str) (hb : (p.contains '{' || p.contains '}') = true) :
    (balanced p 0 = true → patternNew p = .ok { kind := .alternate, pattern := p }) ∧
    (balanced p 0 = false → patternNew p = .error .alternate) := by
  constructor <;> intro h <;> simp only [patternNew, hb, h, if_true, Bool.false_eq_true, if_false]

/-- every well-formed tree renders to a string the compiler accepts: properly nested
    braces (any depth, any number of groups, empty alternatives) always compile -/
theorem C04_tree_compiles (t : Seq) (hwf : t.wf false = true)
    (hb : (t.render.contains '{' || t.render.contains '}') = true) :
    patternNew t.render = .ok { kind := .alternate, pattern := t.render } := by
  have := Seq.balanced_render t false hwf [] 0
  simp only [List.append_nil, balanced, beq_self_eq_true] at this
  exact (C04_compile_iff_balanced t.render hb).1 this

/-- the depth counter: a '}' with nothing open is rejected immediately, whatever follows -/
theorem C04_close_first_rejected (rest : Str) : balanced ('}' :: rest) 0 = false := by
  have : ('}' == '{') = false := by decide
  simp [balanced, this]

/-- Semantic core of the expansion loop: the csh expansions of a tree are exactly the
    expansions of the tree with its RIGHT-MOST group replaced by each of that group's
    alternatives (which are plain strings) — so expanding one group at a time, right to
    left, enumerates the union, nothing more and nothing less. -/
theorem C04_expand_subst (t : Seq) (h : 0 < t.groups) (e : Str) :
    e ∈ t.expand ↔ ∃ m ∈ t.last, e ∈ (t.subst m).expand :=
  Seq.expand_subst t h e

/-- every substitution of `alternate_match` has strictly fewer '{' (termination of the
    mutual recursion Pattern::matches ↔ alternate_match, and the induction measure) -/
theorem C04_step_decreases (p first last : Str) (alts : List Str) (m : Str)
    (h : splitLastBrace p = some (first, alts, last)) (hm : m ∈ alts) :
    countOpen (first ++ m ++ last) < countOpen p :=
  countOpen_subst h hm

/-- **The property at full strength** (soundness and completeness of `alternate_match`): for
    every well-formed tree with at least one group — any nesting depth, any number of groups,
    empty alternatives — and every name, the implementation's loop (`rfind('{')`, first '}',
    `split(',')`, `format!`, re-compile, quick pre-filter, recurse) accepts the name exactly when
    at least one string of the tree's csh expansion, taken as a pattern in its own right,
    matches it.  Textual half: Lemmas/BraceText.lean (`splitLastBrace_render`,
    `Seq.render_subst`, `Seq.subst_ok`); the pre-filter is shown inert
    (`quick_of_expansion`); semantic half: `C04_expand_subst`. -/
theorem C04_sound_complete (t : Seq) (n : Str) (hw : t.wf false = true) (hg : 0 < t.groups) :
    altMatch t.render n = t.expand.any (expansionMatches · n) :=
  L.altMatch_tree (t.groups - 1) t (by omega) hw n

/-- … and therefore through the public entry point: the compiled pattern matches a name iff
    the quick pre-filter passes and some expansion matches — where the pre-filter is implied
    by the second conjunct -/
theorem C04_pattern_matches (t : Seq) (n : Str) (hw : t.wf false = true) (hg : 0 < t.groups) (pat : Pattern)
    (hp : patternNew t.render = .ok pat) :
    patternMatches pat n = t.expand.any (expansionMatches · n) := by
  have hnew := C04_tree_compiles t hw (by rw [L.render_has_open t hg]; rfl)
  rw [hp] at hnew
  injection hnew with hnew
  subst hnew
  simp only [patternMatches, beq_self_eq_true, if_true, C04_sound_complete t n hw hg]
  cases hany : t.expand.any (expansionMatches · n) with
  | false => simp
  | true =>
    obtain ⟨e, he, hx⟩ := List.any_eq_true.mp hany
    simp [L.quick_of_expansion t e n he (L.expansionMatches_quick e n hx)]

/-- **"compiles exactly when its braces are properly nested"**, with *properly nested* stated
    as a grammar, not as a counter: a string containing a brace compiles iff it is the
    rendering of some well-formed tree (groups `{ alt , … , alt }` of any depth, commas splitting
    only inside their own group, literals never braces).  `→`: `L.tree_of_balanced` (first return
    to the enclosing depth, strong induction on the length); `←`: `Seq.balanced_render`. -/
theorem C04_compile_iff_grammar (p : Str) (hb : (p.contains '{' || p.contains '}') = true) :
    (∃ pat, patternNew p = .ok pat) ↔ ∃ t : Seq, t.wf false = true ∧ t.render = p := by
  constructor
  · rintro ⟨pat, hp⟩
    cases hbal : balanced p 0 with
    | true => exact L.tree_of_balanced p hbal
    | false => rw [(C04_compile_iff_balanced p hb).2 hbal] at hp; cases hp
  · rintro ⟨t, hw, rfl⟩
    exact ⟨_, C04_tree_compiles t hw hb⟩

/-- a rejected brace pattern is rejected with the `Alternate` error, never reinterpreted as a
    dewey / glob / plain pattern -/
theorem C04_reject_is_alternate (p : Str) (hb : (p.contains '{' || p.contains '}') = true)
    (hno : ¬ ∃ t : Seq, t.wf false = true ∧ t.render = p) : patternNew p = .error .alternate := by
  cases hbal : balanced p 0 with
  | true => exact absurd (L.tree_of_balanced p hbal) hno
  | false => exact (C04_compile_iff_balanced p hb).2 hbal

/-- **C04 for every pattern STRING** (no tree given in advance): whenever a string containing a
    brace compiles, it has a well-formed parse tree, and for EVERY well-formed tree that renders
    to it the compiled pattern matches a name iff some string of that tree's csh expansion
    matches the name as a pattern in its own right.  (All parse trees of one string therefore
    agree on what is matched.) -/
theorem C04_every_pattern (p : Str) (pat : Pattern)
    (hb : (p.contains '{' || p.contains '}') = true) (hp : patternNew p = .ok pat) :
    (∃ t : Seq, t.wf false = true ∧ t.render = p) ∧
    ∀ t : Seq, t.wf false = true → t.render = p → ∀ n, patternMatches pat n = t.expand.any (expansionMatches · n) := by
  refine ⟨(C04_compile_iff_grammar p hb).1 ⟨pat, hp⟩, ?_⟩
  rintro t hw rfl n
  have hg : 0 < t.groups := by
    cases hgz : t.groups with
    | zero =>
      have := L.render_no_brace_of_flat t false hw hgz
      rw [this.1, this.2] at hb; simp at hb
    | succ k => omega
  exact C04_pattern_matches t n hw hg pat hp

/-- **The parse tree of a pattern is unique**: two well-formed trees with the same rendering are
    equal (the closing brace of a group and the commas of its own depth are determined by the
    text), so "the csh-style brace expansion of the pattern" is a function of the pattern STRING. -/
theorem C04_parse_tree_unique (t1 t2 : Seq) (h1 : t1.wf false = true) (h2 : t2.wf false = true)
    (h : t1.render = t2.render) : t1 = t2 :=
  L.Seq.render_inj t1 t2 false h1 h2 h

/-- hence: every compiling brace pattern has EXACTLY ONE parse tree, and the compiled pattern
    matches a name iff some string of that tree's expansion matches it -/
theorem C04_every_pattern_unique (p : Str) (pat : Pattern)
    (hb : (p.contains '{' || p.contains '}') = true) (hp : patternNew p = .ok pat) :
    ∃ t : Seq, (t.wf false = true ∧ t.render = p) ∧ (∀ t' : Seq, t'.wf false = true → t'.render = p → t' = t) ∧
      ∀ n, patternMatches pat n = t.expand.any (expansionMatches · n) := by
  obtain ⟨⟨t, hw, hr⟩, hall⟩ := C04_every_pattern p pat hb hp
  exact ⟨t, ⟨hw, hr⟩, fun t' hw' hr' => C04_parse_tree_unique t' t hw' hw (hr'.trans hr.symm), hall t hw hr⟩

/-- non-vacuity: the tree of `{a{b,c},d}-1` is well formed, renders to that string and
    expands to exactly ab-1, ac-1, d-1 (so `ad-1` is not an expansion) -/
def exampleTree : Seq :=
  .cons (.grp (.more (.cons (.lit 'a') (.cons (.grp (.more (.cons (.lit 'b') .nil) (.one (.cons (.lit 'c') .nil)))) .nil))
                     (.one (.cons (.lit 'd') .nil))))
    (.cons (.lit '-') (.cons (.lit '1') .nil))

example : exampleTree.wf false = true ∧
    exampleTree.render = ['{', 'a', '{', 'b', ',', 'c', '}', ',', 'd', '}', '-', '1'] ∧
    exampleTree.expand = [['a', 'b', '-', '1'], ['a', 'c', '-', '1'], ['d', '-', '1']] := by
  decide
