/-
Props/C04.lean — Brace alternation matches exactly the union of its csh-style
expansions.  Property theorems only; helper lemmas live in Lemmas/.

Model: `M.balanced` (the stack loop of Pattern::new) and `M.altMatch`
(alternate_match after the fix: expand the right-most '{', re-compile, recurse).
Spec: parse trees `S.Seq` with `render`, `wf`, `expand` (Spec/Brace.lean).
-/
import PkgsrcVerif.Lemmas.BraceMatch
open M S

/-- a pattern containing a brace compiles iff the stack loop accepts it, and then as an
    alternate pattern; otherwise the error is `Alternate` -/
theorem C04_compile_iff_balanced (p : Str) (hb : (p.contains '{' || p.contains '}') = true) :
    (balanced p 0 = true → patternNew p = .ok { kind := .alternate, pattern := p }) ∧
    (balanced p 0 = false → patternNew p = .error .alternate) := by
  constructor <;> intro h <;> simp only [patternNew, hb, h, if_true, Bool.false_eq_true, if_false]

/-- every well-formed tree renders to a string the compiler accepts: properly nested
    braces (any depth, any number of groups, empty alternatives) always compile -/
theorem C04_tree_compiles (t : Seq) (hwf : t.wf false = true)
    (hb : (t.render.contains '{' || t.render.contains '}') = true) :
    patternNew t.render = .ok { kind := .alternate, pattern := t.render } := by
  have := Seq.balanced_render t false hwf [] 0
  simp only [List.append_nil, balanced, beq_self_eq_true] at this
  exact (C04_compile_iff_balanced t.render hb).1 this

/-- the depth counter: a '}' with nothing open is rejected immediately, whatever follows -/
theorem C04_close_first_rejected (rest : Str) : balanced ('}' :: rest) 0 = false := by
  have : ('}' == '{') = false := by decide
  simp [balanced, this]

/-- Semantic core of the expansion loop: the csh expansions of a tree are exactly the
    expansions of the tree with its RIGHT-MOST group replaced by each of that group's
    alternatives (which are plain strings) — so expanding one group at a time, right to
    left, enumerates the union, nothing more and nothing less. -/
theorem C04_expand_subst (t : Seq) (h : 0 < t.groups) (e : Str) :
    e ∈ t.expand ↔ ∃ m ∈ t.last, e ∈ (t.subst m).expand :=
  Seq.expand_subst t h e

/-- every substitution of `alternate_match` has strictly fewer '{' (termination of the
    mutual recursion Pattern::matches ↔ alternate_match, and the induction measure) -/
theorem C04_step_decreases (p first last : Str) (alts : List Str) (m : Str)
    (h : splitLastBrace p = some (first, alts, last)) (hm : m ∈ alts) :
    countOpen (first ++ m ++ last) < countOpen p :=
  countOpen_subst h hm

/-- **The property at full strength** (soundness and completeness of `alternate_match`): for
    every well-formed tree with at least one group — any nesting depth, any number of groups,
    empty alternatives — and every name, the implementation's loop (`rfind('{')`, first '}',
    `split(',')`, `format!`, re-compile, quick pre-filter, recurse) accepts the name exactly when
    at least one string of the tree's csh expansion, taken as a pattern in its own right,
    matches it.  Textual half: Lemmas/BraceText.lean (`splitLastBrace_render`,
    `Seq.render_subst`, `Seq.subst_ok`); the pre-filter is shown inert
    (`quick_of_expansion`); semantic half: `C04_expand_subst`. -/
theorem C04_sound_complete (t : Seq) (n : Str) (hw : t.wf false = true) (hg : 0 < t.groups) :
    altMatch t.render n = t.expand.any (expansionMatches · n) :=
  L.altMatch_tree (t.groups - 1) t (by omega) hw n

/-- … and therefore through the public entry point: the compiled pattern matches a name iff
    the quick pre-filter passes and some expansion matches — where the pre-filter is implied
    by the second conjunct -/
theorem C04_pattern_matches (t : Seq) (n : Str) (hw : t.wf false = true) (hg : 0 < t.groups) (pat : Pattern)
    (hp : patternNew t.render = .ok pat) :
    patternMatches pat n = t.expand.any (expansionMatches · n) := by
  have hnew := C04_tree_compiles t hw (by rw [L.render_has_open t hg]; rfl)
  rw [hp] at hnew
  injection hnew with hnew
  subst hnew
  simp only [patternMatches, beq_self_eq_true, if_true, C04_sound_complete t n hw hg]
  cases hany : t.expand.any (expansionMatches · n) with
  | false => simp
  | true =>
    obtain ⟨e, he, hx⟩ := List.any_eq_true.mp hany
    simp [L.quick_of_expansion t e n he (L.expansionMatches_quick e n hx)]

/-- non-vacuity: the tree of `{a{b,c},d}-1` is well formed, renders to that string and
    expands to exactly ab-1, ac-1, d-1 (so `ad-1` is not an expansion) -/
def exampleTree : Seq :=
  .cons (.grp (.more (.cons (.lit 'a') (.cons (.grp (.more (.cons (.lit 'b') .nil) (.one (.cons (.lit 'c') .nil)))) .nil))
                     (.one (.cons (.lit 'd') .nil))))
    (.cons (.lit '-') (.cons (.lit '1') .nil))

example : exampleTree.wf false = true ∧
    exampleTree.render = ['{', 'a', '{', 'b', ',', 'c', '}', ',', 'd', '}', '-', '1'] ∧
    exampleTree.expand = [['a', 'b', '-', '1'], ['a', 'c', '-', '1'], ['d', '-', '1']] := by
  decide
