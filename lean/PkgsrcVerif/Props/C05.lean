/-
Props/C05.lean — Glob and plain patterns: whole-name match, right dispatch, inert
fast-reject.  Property theorems only; helper lemmas live in Lemmas/.

The glob crate is a dependency: its compiler and matcher are modelled in
Model/Glob.lean (tied to the crate by the glob.* ops); the theorems below are
about that model and about pkgsrc-rs's own dispatch and shortcut around it.
-/
import PkgsrcVerif.Lemmas.Glob
import PkgsrcVerif.Lemmas.GlobRaw
import PkgsrcVerif.Lemmas.Quick
import PkgsrcVerif.Props.C02
open M S L

/-- which kind `Pattern::new` picks is a function of which characters occur:
    braces first, then comparison operators, then any of `* ? [ ]`, else plain -/
theorem C05_dispatch (p : Str) :
    (match patternNew p with
     | .ok pat => pat.kind
     | .error .alternate => Kind.alternate
     | .error (.dewey _) => Kind.dewey
     | .error (.glob _) => Kind.glob) =
    (if p.contains '{' || p.contains '}' then Kind.alternate
     else if p.contains '>' || p.contains '<' then Kind.dewey
     else if p.contains '*' || p.contains '?' || p.contains '[' || p.contains ']' then Kind.glob
     else Kind.simple) := by
  by_cases h1 : (p.contains '{' || p.contains '}') = true
  · simp only [patternNew, h1, if_true]
    cases balanced p 0 <;> rfl
  · by_cases h2 : (p.contains '>' || p.contains '<') = true
    · simp only [patternNew, h1, h2, Bool.false_eq_true, if_true, if_false]
      cases deweyNew p <;> rfl
    · by_cases h3 : (p.contains '*' || p.contains '?' || p.contains '[' || p.contains ']') = true
      · simp only [patternNew, h1, h2, h3, Bool.false_eq_true, if_true, if_false]
        cases globNew p <;> rfl
      · simp only [patternNew, h1, h2, h3, Bool.false_eq_true, if_false]

/-- a pattern with none of the special characters matches only the identical string -/
theorem C05_plain (p n : Str)
    (h1 : (p.contains '{' || p.contains '}') = false) (h2 : (p.contains '>' || p.contains '<') = false)
    (h3 : (p.contains '*' || p.contains '?' || p.contains '[' || p.contains ']') = false) :
    ∃ pat, patternNew p = .ok pat ∧ (patternMatches pat n = true ↔ p = n) := by
  refine ⟨{ kind := .simple, pattern := p }, by simp only [patternNew, h1, h2, h3, Bool.false_eq_true, if_false], ?_⟩
  simp only [patternMatches, matchKind]
  have hk : (Kind.simple == Kind.alternate) = false := by decide
  simp only [hk, Bool.false_eq_true, if_false, Bool.and_eq_true, beq_iff_eq]
  constructor
  · exact fun h => h.2
  · rintro rfl
    refine ⟨?_, rfl⟩
    -- the shortcut accepts the pattern itself
    match p with
    | [] => simp [quickPkgMatch]
    | [a] => by_cases ha : isSimpleChar a = true <;> simp [quickPkgMatch, ha]
    | a :: b :: r =>
      by_cases ha : isSimpleChar a = true <;> by_cases hb : isSimpleChar b = true <;>
        simp [quickPkgMatch, ha, hb]

/-- a glob pattern: dispatch sends it to the glob compiler, a malformed glob is reported
    at compile time, and the answer of `Pattern::matches` is the glob matcher's answer —
    the first-two-characters shortcut never changes it -/
theorem C05_glob (p n : Str)
    (h1 : (p.contains '{' || p.contains '}') = false) (h2 : (p.contains '>' || p.contains '<') = false)
    (h3 : (p.contains '*' || p.contains '?' || p.contains '[' || p.contains ']') = true) :
    (∀ e, globNew p = .error e → patternNew p = .error (.glob e)) ∧
    (∀ ts, globNew p = .ok ts →
      ∃ pat, patternNew p = .ok pat ∧ pat.kind = .glob ∧ patternMatches pat n = globMatches ts n) := by
  constructor
  · intro e he
    simp only [patternNew, h1, h2, h3, he, Bool.false_eq_true, if_false, if_true]
  · intro ts hts
    refine ⟨{ kind := .glob, pattern := p, glob := some ts },
      by simp only [patternNew, h1, h2, h3, hts, Bool.false_eq_true, if_false, if_true], rfl, ?_⟩
    simp only [patternMatches, matchKind]
    have hk : (Kind.glob == Kind.alternate) = false := by decide
    simp only [hk, Bool.false_eq_true, if_false]
    cases hm : globMatches ts n with
    | false => simp
    | true => simp [quick_glob p n ts hts hm]

/-- the glob matcher — backtracking loop, three-valued result and early exits included —
    decides the declarative relation "`*` = any run, any other token = one character it
    accepts", for every token list without `**` and every name -/
theorem C05_matcher_decides_relation (ts : List GTok) (hnr : NoRec ts) (n : Str) :
    globMatches ts n = true ↔ GM ts n :=
  globMatches_iff ts hnr n

/-- The first-two-characters early rejection never changes an answer, for any kind of
    brace-free pattern: whenever the kind-specific matcher says yes, so does the shortcut. -/
theorem C05_quick_inert (pat : Pattern) (p n : Str) (hp : patternNew p = .ok pat)
    (hk : pat.kind ≠ .alternate) (hm : matchKind pat n = true) : quickPkgMatch p n = true := by
  unfold patternNew at hp
  split at hp
  · split at hp
    · injection hp with hp; subst hp; exact absurd rfl hk
    · cases hp
  · split at hp
    · cases hd : deweyNew p with
      | error e => simp [hd] at hp
      | ok d =>
        simp only [hd] at hp
        injection hp with hp; subst hp
        simp only [matchKind] at hm
        obtain ⟨pre, v, rfl, _, hpre, _⟩ := (C02_match_iff d n).mp hm
        obtain ⟨x, rest, hshape, hx⟩ := deweyNew_ok_shape p d hd
        rw [hshape, hpre]; exact quick_dewey _ _ _ _ hx
    · split at hp
      · cases hg : globNew p with
        | error e => simp [hg] at hp
        | ok ts =>
          simp only [hg] at hp
          injection hp with hp; subst hp
          simp only [matchKind] at hm
          exact quick_glob p n ts hg hm
      · injection hp with hp; subst hp
        simp only [matchKind, beq_iff_eq] at hm
        subst hm
        match p with
        | [] => simp [quickPkgMatch]
        | [a] => by_cases ha : isSimpleChar a = true <;> simp [quickPkgMatch, ha]
        | a :: b :: r =>
          by_cases ha : isSimpleChar a = true <;> by_cases hb : isSimpleChar b = true <;>
            simp [quickPkgMatch, ha, hb]

/-- **A glob pattern matches exactly when the whole name matches it as a shell glob.**
    For every pattern text without `**` and every name: the `glob` crate's compiler (as
    modelled) accepts the pattern exactly when every '[' opens a closed, non-empty set — a
    malformed glob is reported at compile time — and then its matcher answers exactly the
    statement's raw-text semantics ('*' any run, '?' one character, '[set]' / '[!set]' with
    ranges, everything else literal, case-sensitive, whole name). -/
theorem C05_glob_is_shell_glob (p n : Str) (hnd : S.noDoubleStar p = true) :
    (S.globWF (p.length + 1) p = false → ∃ e, globNew p = .error e) ∧
    (S.globWF (p.length + 1) p = true →
      ∃ ts, globNew p = .ok ts ∧ globMatches ts n = S.globMatches p n) := by
  have hw := tokenize_isSome_iff_wf (p.length + 1) p (by omega)
  obtain ⟨h1, h2⟩ := globLoop_tokenize (p.length + 1) p 0 none [] (by omega) hnd
  constructor
  · intro hf
    rw [hf] at hw
    cases ht : tokenize (p.length + 1) p with
    | none => exact h2 ht
    | some ts => simp [ht] at hw
  · intro ht
    rw [ht] at hw
    cases htk : tokenize (p.length + 1) p with
    | none => simp [htk] at hw
    | some ts =>
      refine ⟨ts, by simpa [globNew] using h1 ts htk, ?_⟩
      obtain ⟨hnr, hsem⟩ := tokenize_sem (p.length + 1) p ts htk
      apply Bool.eq_iff_iff.mpr
      rw [C05_matcher_decides_relation ts hnr n]
      exact hsem n

/-- non-vacuity: the token list of `foo-[0-9]*` has no `**` and matches foo-1 declaratively -/
example : GM [.char 'f', .within [.range '0' '9'], .anySeq] ['f', '1', 'x'] :=
  .one (by decide) (by decide) (by decide) (.one (by decide) (by decide) (by decide) (.star 1 .nil))

/-- non-vacuity of `C05_glob_is_shell_glob`: `foo-[0-9]*` has no `**`, is well formed, and the
    raw-text semantics accepts foo-1.0 and rejects fooX1 -/
example : S.noDoubleStar "foo-[0-9]*".toList = true ∧ S.globWF 11 "foo-[0-9]*".toList = true ∧
    S.globMatches "foo-[0-9]*".toList "foo-1.0".toList = true ∧
    S.globMatches "foo-[0-9]*".toList "fooX1".toList = false ∧
    S.globWF 7 "foo-[0".toList = false := by decide
