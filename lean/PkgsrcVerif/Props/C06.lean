/-
Props/C06.lean — best_match returns the matching candidate with the highest version.
Property theorems only; helper lemmas live in Lemmas/.
-/
import PkgsrcVerif.Lemmas.Best
import PkgsrcVerif.Lemmas.DeweyTokens
open M S L

/-- the result is None exactly when neither name matches -/
theorem C06_none_iff (pat : Pattern) (a b : Str) :
    bestMatch pat a b = none ↔ (patternMatches pat a = false ∧ patternMatches pat b = false) := by
  unfold bestMatch
  cases ha : patternMatches pat a <;> cases hb : patternMatches pat b <;> simp
  -- both match: some branch is taken
  split <;> (try split) <;> (try split) <;> simp

/-- otherwise it is one of the two names, it matches, and no matching candidate is strictly
    better (higher version in the library's dewey order, ties to the byte-wise smaller name) -/
theorem C06_is_matching_max (pat : Pattern) (a b w : Str) (h : bestMatch pat a b = some w) :
    (w = a ∨ w = b) ∧ patternMatches pat w = true ∧
    (patternMatches pat a = true → geq w a) ∧ (patternMatches pat b = true → geq w b) := by
  cases ha : patternMatches pat a <;> cases hb : patternMatches pat b
  · simp [bestMatch, ha, hb] at h
  · simp only [bestMatch, ha, hb] at h; injection h with h; subst h
    exact ⟨Or.inr rfl, hb, by simp [ha], fun _ => geq_refl _⟩
  · simp only [bestMatch, ha, hb] at h; injection h with h; subst h
    exact ⟨Or.inl rfl, ha, fun _ => geq_refl _, by simp [hb]⟩
  · obtain ⟨w', hw', hor, g1, g2⟩ := bestMatch_both pat a b ha hb
    rw [h] at hw'; injection hw' with hw'; subst hw'
    refine ⟨hor, ?_, fun _ => g1, fun _ => g2⟩
    rcases hor with rfl | rfl <;> assumption

/-- the result does not depend on argument order -/
theorem C06_comm (pat : Pattern) (a b : Str) : bestMatch pat a b = bestMatch pat b a := by
  cases ha : patternMatches pat a <;> cases hb : patternMatches pat b
  · simp [bestMatch, ha, hb]
  · simp [bestMatch, ha, hb]
  · simp [bestMatch, ha, hb]
  · obtain ⟨w1, e1, o1, g1a, g1b⟩ := bestMatch_both pat a b ha hb
    obtain ⟨w2, e2, o2, g2b, g2a⟩ := bestMatch_both pat b a hb ha
    rw [e1, e2]
    congr 1
    apply geq_antisymm
    · rcases o2 with rfl | rfl <;> assumption
    · rcases o1 with rfl | rfl <;> assumption

/-- a pairwise reduction of a candidate list: any binary bracketing of any arrangement -/
inductive RTree
  | leaf (n : Str)
  | node (l r : RTree)

def RTree.leaves : RTree → List Str
  | .leaf n => [n]
  | .node l r => l.leaves ++ r.leaves

/-- combine two partial winners the way a caller of `best_match` would -/
def combine (pat : Pattern) : Option Str → Option Str → Option Str
  | some a, some b => bestMatch pat a b
  | some a, none => some a
  | none, some b => some b
  | none, none => none

def RTree.reduce (pat : Pattern) : RTree → Option Str
  | .leaf n => if patternMatches pat n then some n else none
  | .node l r => combine pat (l.reduce pat) (r.reduce pat)

/-- specification of the winner of a candidate list -/
def IsBest (pat : Pattern) (cands : List Str) : Option Str → Prop
  | none => ∀ x ∈ cands, patternMatches pat x = false
  | some w => w ∈ cands ∧ patternMatches pat w = true ∧
      ∀ x ∈ cands, patternMatches pat x = true → geq w x

/-- every reduction tree computes a winner of its leaves -/
theorem C06_reduce_is_best (pat : Pattern) (t : RTree) : IsBest pat t.leaves (t.reduce pat) := by
  induction t with
  | leaf n =>
    simp only [RTree.reduce, RTree.leaves]
    cases h : patternMatches pat n
    · simp [IsBest, h]
    · simp [IsBest, h, geq_refl]
  | node l r ihl ihr =>
    simp only [RTree.reduce, RTree.leaves]
    cases hl : l.reduce pat with
    | none =>
      cases hr : r.reduce pat with
      | none =>
        simp only [hl, hr, IsBest] at ihl ihr ⊢
        simp only [combine]
        intro x hx
        rcases List.mem_append.mp hx with h | h
        · exact ihl x h
        · exact ihr x h
      | some b =>
        simp only [hl, hr, IsBest] at ihl ihr ⊢
        simp only [combine]
        refine ⟨List.mem_append.mpr (Or.inr ihr.1), ihr.2.1, ?_⟩
        intro x hx hm
        rcases List.mem_append.mp hx with h | h
        · rw [ihl x h] at hm; cases hm
        · exact ihr.2.2 x h hm
    | some a =>
      cases hr : r.reduce pat with
      | none =>
        simp only [hl, hr, IsBest] at ihl ihr ⊢
        simp only [combine]
        refine ⟨List.mem_append.mpr (Or.inl ihl.1), ihl.2.1, ?_⟩
        intro x hx hm
        rcases List.mem_append.mp hx with h | h
        · exact ihl.2.2 x h hm
        · rw [ihr x h] at hm; cases hm
      | some b =>
        simp only [hl, hr, IsBest] at ihl ihr
        simp only [combine]
        obtain ⟨w, hw, hor, ga, gb⟩ := bestMatch_both pat a b ihl.2.1 ihr.2.1
        rw [hw]
        simp only [IsBest]
        refine ⟨?_, ?_, ?_⟩
        · rcases hor with rfl | rfl
          · exact List.mem_append.mpr (Or.inl ihl.1)
          · exact List.mem_append.mpr (Or.inr ihr.1)
        · rcases hor with rfl | rfl
          · exact ihl.2.1
          · exact ihr.2.1
        · intro x hx hm
          rcases List.mem_append.mp hx with h | h
          · exact geq_trans w a x ga (ihl.2.2 x h hm)
          · exact geq_trans w b x gb (ihr.2.2 x h hm)

/-- the winner of a candidate list is unique -/
theorem C06_best_unique (pat : Pattern) (cands : List Str) (r1 r2 : Option Str)
    (h1 : IsBest pat cands r1) (h2 : IsBest pat cands r2) : r1 = r2 := by
  cases r1 with
  | none =>
    cases r2 with
    | none => rfl
    | some w => simp only [IsBest] at h1 h2; rw [h1 w h2.1] at h2; simp at h2
  | some w =>
    cases r2 with
    | none => simp only [IsBest] at h1 h2; rw [h2 w h1.1] at h1; simp at h1
    | some w' =>
      simp only [IsBest] at h1 h2
      congr 1
      exact geq_antisymm w w' (h1.2.2 w' h2.1 h2.2.1) (h2.2.2 w h1.1 h1.2.1)

/-- Reducing any list of candidates pairwise yields the same winner for every order of
    reduction: any two reduction trees over the same candidates (any permutation, any
    bracketing, even with repetitions) agree. -/
theorem C06_any_reduction (pat : Pattern) (t1 t2 : RTree)
    (h : ∀ x, x ∈ t1.leaves ↔ x ∈ t2.leaves) : t1.reduce pat = t2.reduce pat := by
  have b1 := C06_reduce_is_best pat t1
  have b2 := C06_reduce_is_best pat t2
  have b2' : IsBest pat t1.leaves (t2.reduce pat) := by
    cases hr : t2.reduce pat with
    | none => simp only [hr, IsBest] at b2 ⊢; intro x hx; exact b2 x ((h x).mp hx)
    | some w =>
      simp only [hr, IsBest] at b2 ⊢
      exact ⟨(h w).mpr b2.1, b2.2.1, fun x hx hm => b2.2.2 x ((h x).mp hx) hm⟩
  exact C06_best_unique pat t1.leaves _ _ b1 b2'

/-- in particular for permutations of a list -/
theorem C06_perm_reduction (pat : Pattern) (t1 t2 : RTree) (h : t1.leaves.Perm t2.leaves) :
    t1.reduce pat = t2.reduce pat :=
  C06_any_reduction pat t1 t2 (fun _ => h.mem_iff)

/-- The winner under the pkg_install RULE's order (`S.cmp`): wherever the candidates' versions
    are in the C01 domain and pairwise `LetterAligned`, "at least as good" in the library's
    order is "at least as good" in the rule's order. The unrestricted statement is false —
    finding F3, witness foo-1a vs foo-1.5 — see `C01_counterexample`. -/
theorem C06_spec_order_partial (a b : Str)
    (hda : InDomain (pkgNameNew a).pkgversion = true) (hdb : InDomain (pkgNameNew b).pkgversion = true)
    (hal : LetterAligned (pkgNameNew a).pkgversion (pkgNameNew b).pkgversion = true) :
    vle a b ↔ S.cmp (pkgNameNew a).pkgversion (pkgNameNew b).pkgversion ≠ .gt := by
  obtain ⟨ea, ra⟩ := deweyVersion_spec _ hda
  obtain ⟨eb, rb⟩ := deweyVersion_spec _ hdb
  simp only [vle, dvOf, ea, eb, S.cmp]
  rw [padCmp_encode_aligned _ _ _ _ hal ra rb]

/-- non-vacuity: a three-leaf tree and a differently bracketed permutation of it -/
example (pat : Pattern) (a b c : Str) :
    (RTree.node (.node (.leaf a) (.leaf b)) (.leaf c)).reduce pat =
    (RTree.node (.leaf c) (.node (.leaf b) (.leaf a))).reduce pat :=
  C06_any_reduction pat _ _ (by intro x; simp only [RTree.leaves, List.mem_append, List.mem_singleton]; grind)
