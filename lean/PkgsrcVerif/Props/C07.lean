/-
Props/C07.lean — pkg_summary entries round-trip: generate→parse and canonical
parse→generate.  Property theorems only; helper lemmas live in Lemmas/.
Name tables, printed form, history independence, type invariant, and BOTH round trips:
print→parse (`C07_parse_print`) and canonical parse→print (`C07_print_parse_canonical`),
via the C08 refinement theorem.
-/
import PkgsrcVerif.Lemmas.SummaryCanonical
import PkgsrcVerif.Props.C08
open M L

/-- the two separately written name tables are mutually inverse over all 23 variables:
    every printed name parses back to its variable … -/
theorem C07_tables_inverse (v : Var) : Var.ofName (asciiBytes v.name) = some v := ofName_name v

/-- … and a name that parses to a variable is exactly that variable's printed name -/
theorem C07_tables_inverse' (x : Bytes) (v : Var) (h : Var.ofName x = some v) :
    x = asciiBytes v.name := ofName_some x v h

/-- The printed form is exactly: for each of the 23 variables in the fixed pkg_summary order,
    one `VAR=value` line per value (the code's BTreeMap-over-enum printing = the spec's
    table-driven printing). -/
theorem C07_print_form (s : Summary) : s.print = S.print s := by
  simp only [Summary.print, S.print, table_eq, List.flatMap_map]
  congr 1
  funext v
  cases s v with
  | none => rfl
  | some x => cases x <;> rfl

/-- The printed form depends only on the current values: two states with equal values print
    identically, whatever call histories produced them. (In the model the state IS the value
    function, so this is immediate; its content for the implementation — HashMap iteration
    order never leaks — is carried by the correspondence check with random histories.) -/
theorem C07_history_independent (s1 s2 : Summary) (h : ∀ v, s1 v = s2 v) : s1.print = s2.print := by
  have : s1 = s2 := funext h
  rw [this]

/-- setters and pushers touch only their own variable -/
theorem C07_set_frame (s : Summary) (v w : Var) (x : Value) (h : w ≠ v) : s.set v x w = s w :=
  set_other s v w x h

theorem C07_push_frame (s s' : Summary) (v w : Var) (item : Bytes) (h : w ≠ v)
    (hp : s.push v item = some s') : s' w = s w := by
  unfold Summary.push at hp
  cases hx : s v with
  | none => simp only [hx] at hp; injection hp with hp; subst hp; exact set_other _ _ _ _ h
  | some x =>
    cases x with
    | a l => simp only [hx] at hp; injection hp with hp; subst hp; exact set_other _ _ _ _ h
    | s b => simp [hx] at hp
    | i n => simp [hx] at hp

/-- pushes append in call order -/
theorem C07_push_appends (s : Summary) (v : Var) (l : List Bytes) (item : Bytes) (h : s v = some (.a l)) :
    ∃ s', s.push v item = some s' ∧ s' v = some (.a (l ++ [item])) := by
  exact ⟨s.set v (.a (l ++ [item])), by simp only [Summary.push, h], set_same _ _ _⟩

/-- The generate→parse round trip, at full strength: for every well-typed state with all
    required variables set, values free of CR/LF and non-empty line lists, parsing the printed
    text yields the same value for each of the 23 variables.  (Proof: the printed text is a list
    of '\n'-terminated lines free of CR/LF, so `S.textLines` recovers them; each line classifies
    as its own (variable, value); per variable the collected values are the stored ones; the
    model parser equals the specification parser by `C08_model_is_spec`.) -/
theorem C07_parse_print (s : Summary) (hw : WellTyped s) (hc : s.isCompleted = true)
    (hr : S.roundTrippable s = true) (hi : ∀ v n, s v = some (.i n) → InI64 n) :
    ∃ s', Summary.parse s.print = .ok s' ∧ ∀ v, s' v = s v := by
  obtain ⟨s1, h1, e1⟩ := spec_parse_print s hw hc hr hi
  obtain ⟨s2, h2, e2⟩ := (C08_model_is_spec s.print).2.2 s1 h1
  exact ⟨s2, h2, fun v => (e2 v).trans (e1 v)⟩

/-- **The parse→generate direction**: printing a parsed canonical entry reproduces its text byte
    for byte.  Canonical = '\n'-terminated lines without '\r', every line `VAR=value` with a
    known variable, variables in the fixed pkg_summary order (only multi-line variables repeat),
    integers in canonical decimal form. -/
theorem C07_print_parse_canonical (t : Bytes) (hcan : S.canonical t = true) (s : Summary)
    (hp : Summary.parse t = .ok s) : s.print = t := by
  obtain ⟨s', hs', he⟩ := (C08_model_is_spec t).2.1 s hp
  rw [C07_history_independent s s' he]
  exact spec_print_parse t hcan s' hs'

/-- non-vacuity: a canonical three-line text (a multi-line variable twice, a negative size) -/
example : S.canonical (asciiBytes "DEPENDS=a\nDEPENDS=b\nSIZE_PKG=-3\n") = true := by decide +kernel

/-- the non-empty-list hypothesis is needed: an empty line list prints nothing, so it reads
    back as "unset" -/
theorem C07_empty_list_prints_nothing (s : Summary) (v : Var) (h : s v = some (.a [])) :
    s.print = Summary.print (fun w => if w = v then none else s w) := by
  unfold Summary.print
  congr 1
  funext w
  by_cases e : w = v
  · subst e; simp [h, printVar]
  · simp [e]

/-- non-vacuity: a one-variable state prints one line -/
example : (Summary.empty.set .comment (.s [104, 105])).print =
    asciiBytes "COMMENT=hi" ++ [10] := by decide
