/-
Props/C08.lean — pkg_summary parsing accepts exactly complete well-formed entries,
else says why.  Property theorems only; helper lemmas live in Lemmas/.
-/
import PkgsrcVerif.Lemmas.SummaryParse
open M L

/-- is_completed() is true exactly when the eleven required variables are set -/
theorem C08_is_completed_iff (s : Summary) :
    s.isCompleted = true ↔ ∀ v ∈ Var.required, (s v).isSome = true := by
  simp [Summary.isCompleted, List.all_eq_true]

/-- an accepted entry is complete -/
theorem C08_ok_complete (t : Bytes) (s : Summary) (h : Summary.parse t = .ok s) : s.isCompleted = true := by
  unfold Summary.parse at h
  cases hp : parseLines Summary.empty (lines t) with
  | error e => simp [hp] at h
  | ok s' =>
    simp only [hp] at h
    cases hf : Var.required.find? (fun v => (s' v).isNone) with
    | some v => simp [hf] at h
    | none =>
      simp only [hf] at h
      injection h with h; subst h
      rw [C08_is_completed_iff]
      intro v hv
      have := List.find?_eq_none.mp hf v hv
      cases hv' : s' v with
      | none => simp [hv'] at this
      | some _ => rfl

/-- a text whose lines all parse but which lacks a required variable is rejected as
    Incomplete, naming the FIRST missing variable in the fixed order -/
theorem C08_incomplete_names_first_missing (t : Bytes) (s' : Summary) (v : Var)
    (hp : parseLines Summary.empty (lines t) = .ok s')
    (hf : Var.required.find? (fun v => (s' v).isNone) = some v) :
    Summary.parse t = .error (.incomplete v) := by
  simp [Summary.parse, hp, hf]

/-- a line fault is reported in line order: the error of the first line that does not parse,
    whatever follows it -/
theorem C08_first_fault_wins (s : Summary) (good : List Bytes) (bad : Bytes) (rest : List Bytes)
    (s1 : Summary) (e : SumErr)
    (hg : parseLines s good = .ok s1) (hb : parseLine s1 bad = .error e) :
    parseLines s (good ++ bad :: rest) = .error e := by
  induction good generalizing s with
  | nil =>
    simp only [parseLines] at hg; injection hg with hg; subst hg
    simp [parseLines, hb]
  | cons l ls ih =>
    simp only [parseLines] at hg
    cases hl : parseLine s l with
    | error e' => simp [hl] at hg
    | ok s2 =>
      simp only [hl] at hg
      simp only [List.cons_append, parseLines, hl]
      exact ih s2 hg

/-- the value is everything after the FIRST '=' -/
theorem C08_value_after_first_eq (k v : Bytes) (hk : (61 : UInt8) ∉ k) :
    splitEq (k ++ 61 :: v) = some (k, v) := by
  induction k with
  | nil => simp [splitEq]
  | cons c k ih =>
    simp only [List.mem_cons, not_or] at hk
    have hc : (c == 61) = false := by simpa using fun e => hk.1 e.symm
    simp [splitEq, hc, ih hk.2]

/-- a line without '=' is a ParseLine error carrying that line -/
theorem C08_no_eq_is_parse_line (s : Summary) (l : Bytes) (h : (61 : UInt8) ∉ l) :
    parseLine s l = .error (.parseLine l) := by
  have : splitEq l = none := by
    induction l with
    | nil => rfl
    | cons c l ih =>
      simp only [List.mem_cons, not_or] at h
      have hc : (c == 61) = false := by simpa using fun e => h.1 e.symm
      simp [splitEq, hc, ih h.2]
  simp [parseLine, this]

/-- an unknown variable name is a ParseVariable error carrying that name -/
theorem C08_unknown_is_parse_variable (s : Summary) (k v : Bytes) (hk : (61 : UInt8) ∉ k)
    (hn : Var.ofName k = none) : parseLine s (k ++ 61 :: v) = .error (.parseVariable k) := by
  simp [parseLine, C08_value_after_first_eq k v hk, hn]

/-- repeated multi-line variables accumulate in input order -/
theorem C08_arrays_accumulate (s : Summary) (x : Var) (val : Bytes) (l : List Bytes)
    (hk : x.kind = .arr) (hs : s x = some (.a l)) :
    ∃ s', parseLine s (asciiBytes x.name ++ 61 :: val) = .ok s' ∧ s' x = some (.a (l ++ [val])) := by
  have hne : (61 : UInt8) ∉ asciiBytes x.name := by cases x <;> decide
  refine ⟨s.set x (.a (l ++ [val])), ?_, set_same _ _ _⟩
  simp only [parseLine, C08_value_after_first_eq _ val hne, ofName_name, hk, Summary.push, hs]

/-- a repeated single-valued variable keeps its last value -/
theorem C08_single_last_wins (s : Summary) (x : Var) (val : Bytes) (hk : x.kind = .str) :
    ∃ s', parseLine s (asciiBytes x.name ++ 61 :: val) = .ok s' ∧ s' x = some (.s val) ∧
      ∀ w, w ≠ x → s' w = s w := by
  have hne : (61 : UInt8) ∉ asciiBytes x.name := by cases x <;> decide
  refine ⟨s.set x (.s val), ?_, set_same _ _ _, fun w hw => set_other _ _ _ _ hw⟩
  simp only [parseLine, C08_value_after_first_eq _ val hne, ofName_name, hk]

/-- FILE_SIZE / SIZE_PKG must be integers: anything `str::parse::<i64>` rejects is ParseInt -/
theorem C08_bad_integer (s : Summary) (x : Var) (val : Bytes) (hk : x.kind = .int)
    (hv : parseI64? (bytesToAsciiStr val) = none) :
    parseLine s (asciiBytes x.name ++ 61 :: val) = .error .parseInt := by
  have hne : (61 : UInt8) ∉ asciiBytes x.name := by cases x <;> decide
  simp only [parseLine, C08_value_after_first_eq _ val hne, ofName_name, hk, hv]

/-- REFINEMENT TO THE SPECIFICATION, for every text: the code's line-by-line fold computes
    exactly the classify-then-collect specification `S.parse` — it accepts the same texts, with
    the same value for each of the 23 variables (value = everything after the first '=',
    multi-line variables accumulate in input order, a repeated single-valued variable keeps its
    last value), and it rejects the same texts with the same cause (first malformed line /
    unknown variable / bad integer in line order, else the first missing required variable). -/
theorem C08_model_is_spec (t : Bytes) :
    (∀ e, Summary.parse t = .error e ↔ S.parse t = .error e) ∧
    (∀ s, Summary.parse t = .ok s → ∃ s', S.parse t = .ok s' ∧ ∀ v, s v = s' v) ∧
    (∀ s', S.parse t = .ok s' → ∃ s, Summary.parse t = .ok s ∧ ∀ v, s v = s' v) := by
  -- both sides, in terms of the classified lines
  have hm : Summary.parse t = (match S.firstFault ((S.textLines t).map fun l => (l, S.classify l)) with
      | some e => .error e
      | none =>
        let s := (pairsOf ((S.textLines t).map fun l => (l, S.classify l))).foldl applyPair Summary.empty
        match Var.required.find? (fun v => (s v).isNone) with
        | some v => .error (.incomplete v)
        | none => .ok s) := by
    unfold Summary.parse
    rw [parseLines_fold, lines_eq_textLines]
    cases S.firstFault ((S.textLines t).map fun l => (l, S.classify l)) <;> rfl
  have hs : S.parse t = (match S.firstFault ((S.textLines t).map fun l => (l, S.classify l)) with
      | some e => .error e
      | none =>
        let s := S.valueOf (pairsOf ((S.textLines t).map fun l => (l, S.classify l)))
        match S.required.find? (fun v => (s v).isNone) with
        | some v => .error (.incomplete v)
        | none => .ok s) := by
    simp only [S.parse, pairsOf]
    cases S.firstFault ((S.textLines t).map fun l => (l, S.classify l)) <;> rfl
  have hv := fold_eq_valueOf _ (intsOk_pairsOf (S.textLines t))
  have hreq : S.required = Var.required := rfl
  have hfind : Var.required.find? (fun v => ((pairsOf ((S.textLines t).map fun l => (l, S.classify l))).foldl
      applyPair Summary.empty v).isNone) =
      S.required.find? (fun v => (S.valueOf (pairsOf ((S.textLines t).map fun l => (l, S.classify l))) v).isNone) := by
    rw [hreq]; congr 1; funext v; rw [hv v]
  rw [hm, hs]
  cases hf : S.firstFault ((S.textLines t).map fun l => (l, S.classify l)) with
  | some e =>
    refine ⟨fun e' => Iff.rfl, ?_, ?_⟩ <;> (intro s h; cases h)
  | none =>
    simp only [hfind]
    cases hr : S.required.find? (fun v => (S.valueOf (pairsOf ((S.textLines t).map fun l => (l, S.classify l))) v).isNone) with
    | some v =>
      refine ⟨fun e' => Iff.rfl, ?_, ?_⟩ <;> (intro s h; cases h)
    | none =>
      refine ⟨?_, ?_, ?_⟩
      · intro e; constructor <;> (intro h; cases h)
      · intro s h; injection h with h; subst h; exact ⟨_, rfl, hv⟩
      · intro s' h; injection h with h; subst h; exact ⟨_, rfl, hv⟩

/-- non-vacuity: exactly two variables are integer-valued and six are multi-line -/
example : (Var.all.filter (·.kind == .int)).length = 2 ∧ (Var.all.filter (·.kind == .arr)).length = 6 := by
  decide
