/-
Props/C09.lean — Streamed pkg_summary parsing is independent of how the bytes are
chunked.  Property theorems only; helper lemmas live in Lemmas/.
First pass: bookkeeping invariants of `write` that hold for EVERY input and chunking
(nothing collected is ever dropped or reordered; no byte is lost or duplicated in
the carry-over buffer).  The chunk-independence statement is kept visible
(`C09_chunk_independent`) and is exercised exhaustively over single/pair cuts by
the correspondence oracle until its Lean proof lands.
-/
import PkgsrcVerif.Lemmas.Summary
open M L

theorem parseRecords_extends (acc : List Summary) (rs : List Bytes) :
    ∃ new, (parseRecords acc rs).1 = acc ++ new := by
  induction rs generalizing acc with
  | nil => exact ⟨[], by simp [parseRecords]⟩
  | cons r rs ih =>
    simp only [parseRecords]
    cases Summary.parse r with
    | error e => exact ⟨[], by simp⟩
    | ok s =>
      obtain ⟨new, h⟩ := ih (acc ++ [s])
      exact ⟨s :: new, by simp [h]⟩

/-- entries already collected are never dropped, changed or reordered by a later write:
    the new entry list extends the old one -/
theorem C09_entries_only_grow (st : Stream) (c : Bytes) :
    ∃ new, (st.write c).1.entries = st.entries ++ new := by
  unfold Stream.write
  simp only
  split
  · exact ⟨[], by simp⟩
  · rename_i k hk
    obtain ⟨new, h⟩ := parseRecords_extends st.entries (splitTerminator (List.take k (List.take (utf8 (st.buf ++ c)).1 (st.buf ++ c))))
    split <;> exact ⟨new, h⟩

/-- the carry-over buffer after a write is a suffix of (old buffer ++ input): bytes are
    consumed only from the front, none is lost, duplicated or altered -/
theorem C09_buffer_is_suffix (st : Stream) (c : Bytes) :
    ∃ k, (st.write c).1.buf = (st.buf ++ c).drop k := by
  unfold Stream.write
  simp only
  split
  · exact ⟨0, by simp⟩
  · split
    · exact ⟨0, by simp⟩
    · exact ⟨_, rfl⟩

/-- for every sequence of writes: the entries collected so far only grow -/
theorem C09_entries_monotone (st : Stream) (cs : List Bytes) :
    ∃ new, (cs.foldl (fun s c => (s.write c).1) st).entries = st.entries ++ new := by
  induction cs generalizing st with
  | nil => exact ⟨[], by simp⟩
  | cons c cs ih =>
    obtain ⟨n1, h1⟩ := C09_entries_only_grow st c
    obtain ⟨n2, h2⟩ := ih (st.write c).1
    exact ⟨n1 ++ n2, by simp only [List.foldl_cons, h2, h1, List.append_assoc]⟩

/-- a write that fails did so because a record did not parse or because the buffer holds a
    byte sequence that can never become valid UTF-8 — an incomplete character at the end of
    the input is NOT a failure (the defect fixed in 6b21830) -/
theorem C09_incomplete_tail_is_not_an_error (st : Stream) (c : Bytes)
    (hinc : (utf8 (st.buf ++ c)).2 ≠ .invalid)
    (hsep : lastSepEnd ((st.buf ++ c).take (utf8 (st.buf ++ c)).1) = none) :
    (st.write c).2 = true ∧ (st.write c).1.buf = st.buf ++ c ∧ (st.write c).1.entries = st.entries := by
  unfold Stream.write
  simp only [hsep]
  refine ⟨?_, trivial, trivial⟩
  cases h : (utf8 (st.buf ++ c)).2 <;> simp_all

/-- The property at full strength: for every well-formed stream and every partition of its
    bytes into chunks, every write succeeds, and the final entries are those of the one-call
    write. -/
def C09_chunk_independent : Prop :=
  ∀ (s : Bytes) (cs : List Bytes), cs.flatten = s →
    (S.records s).2 = [] → (∀ r ∈ (S.records s).1, S.goodRecord r = true) →
    let final := cs.foldl (fun st c => (st.write c).1) Stream.init
    let one := (Stream.init.write s).1
    final.entries.map Summary.print = one.entries.map Summary.print ∧ final.buf = []

/-- non-vacuity of the scan model: "é" cut after its first byte is incomplete, not invalid -/
example : utf8 [0x41, 0xC3] = (1, .incomplete) ∧ utf8 [0x41, 0xC3, 0xA9] = (3, .complete) ∧
    utf8 [0x41, 0xFF] = (1, .invalid) := by decide
