/-
Props/C09.lean — Streamed pkg_summary parsing is independent of how the bytes are
chunked.  Property theorems only; helper lemmas live in Lemmas/.
Bookkeeping invariants of `write` that hold for EVERY input and chunking (nothing
collected is ever dropped or reordered; no byte is lost or duplicated in the
carry-over buffer), and the chunk-independence theorem itself
(`C09_chunk_independent`, proof in Lemmas/Stream.lean + Lemmas/Utf8.lean).
-/
import PkgsrcVerif.Lemmas.Stream
import PkgsrcVerif.Lemmas.StreamPrint
import PkgsrcVerif.Props.C07
open M L

theorem parseRecords_extends (acc : List Summary) (rs : List Bytes) :
    ∃ new, (parseRecords acc rs).1 = acc ++ new := by
  induction rs generalizing acc with
  | nil => exact ⟨[], by simp [parseRecords]⟩
  | cons r rs ih =>
    simp only [parseRecords]
    cases Summary.parse r with
    | error e => exact ⟨[], by simp⟩
    | ok s =>
      obtain ⟨new, h⟩ := ih (acc ++ [s])
      exact ⟨s :: new, by simp [h]⟩

/-- entries already collected are never dropped, changed or reordered by a later write:
    the new entry list extends the old one -/
theorem C09_entries_only_grow (st : Stream) (c : Bytes) :
    ∃ new, (st.write c).1.entries = st.entries ++ new := by
  unfold Stream.write
  simp only
  split
  · exact ⟨[], by simp⟩
  · rename_i k hk
    obtain ⟨new, h⟩ := parseRecords_extends st.entries (splitTerminator (List.take k (List.take (utf8 (st.buf ++ c)).1 (st.buf ++ c))))
    split <;> exact ⟨new, h⟩

/-- the carry-over buffer after a write is a suffix of (old buffer ++ input): bytes are
    consumed only from the front, none is lost, duplicated or altered -/
theorem C09_buffer_is_suffix (st : Stream) (c : Bytes) :
    ∃ k, (st.write c).1.buf = (st.buf ++ c).drop k := by
  unfold Stream.write
  simp only
  split
  · exact ⟨0, by simp⟩
  · split
    · exact ⟨0, by simp⟩
    · exact ⟨_, rfl⟩

/-- for every sequence of writes: the entries collected so far only grow -/
theorem C09_entries_monotone (st : Stream) (cs : List Bytes) :
    ∃ new, (cs.foldl (fun s c => (s.write c).1) st).entries = st.entries ++ new := by
  induction cs generalizing st with
  | nil => exact ⟨[], by simp⟩
  | cons c cs ih =>
    obtain ⟨n1, h1⟩ := C09_entries_only_grow st c
    obtain ⟨n2, h2⟩ := ih (st.write c).1
    exact ⟨n1 ++ n2, by simp only [List.foldl_cons, h2, h1, List.append_assoc]⟩

/-- a write that fails did so because a record did not parse or because the buffer holds a
    byte sequence that can never become valid UTF-8 — an incomplete character at the end of
    the input is NOT a failure (the defect fixed in 6b21830) -/
theorem C09_incomplete_tail_is_not_an_error (st : Stream) (c : Bytes)
    (hinc : (utf8 (st.buf ++ c)).2 ≠ .invalid)
    (hsep : lastSepEnd ((st.buf ++ c).take (utf8 (st.buf ++ c)).1) = none) :
    (st.write c).2 = true ∧ (st.write c).1.buf = st.buf ++ c ∧ (st.write c).1.entries = st.entries := by
  unfold Stream.write
  simp only [hsep]
  refine ⟨?_, trivial, trivial⟩
  cases h : (utf8 (st.buf ++ c)).2 <;> simp_all

/-- the oracle's executable "record of a well-formed stream" is the predicate the proof uses -/
theorem goodRecord_sound (r : Bytes) (h : S.goodRecord r = true) : GoodRec r := by
  simp only [S.goodRecord, Bool.and_eq_true, beq_iff_eq, bne_iff_ne, ne_eq, Bool.not_eq_true',
    List.isEmpty_eq_false_iff, Option.isNone_iff_eq_none] at h
  obtain ⟨⟨⟨⟨⟨⟨u1, u2⟩, hp⟩, hne⟩, hh⟩, hl⟩, hs⟩ := h
  refine ⟨?_, ?_, ⟨hne, hh, hl, hs⟩⟩
  · unfold Complete; exact Prod.ext u1 u2
  · cases hsp : S.parse r with
    | error e => simp [hsp] at hp
    | ok s' =>
      obtain ⟨s, hs, _⟩ := (C08_model_is_spec r).2.2 s' hsp
      exact ⟨s, hs⟩

/-- **The property at full strength.**  For every well-formed stream `s` (its "\n\n"-separated
    records are all good and nothing follows the last separator) and EVERY way `cs` of cutting
    its bytes into successive writes — including cuts inside a multi-byte character or inside
    the blank-line separator, empty chunks, one byte at a time —
    every write succeeds, nothing is left in the buffer, the collected entries are exactly the
    stream's records in order, and the final state is the one a single write of `s` produces. -/
theorem C09_chunk_independent (s : Bytes) (cs : List Bytes) (hcs : cs.flatten = s)
    (hrest : (S.records s).2 = []) (hgood : ∀ r ∈ (S.records s).1, S.goodRecord r = true) :
    (runWrites Stream.init cs).2 = true ∧
    (runWrites Stream.init cs).1.buf = [] ∧
    (runWrites Stream.init cs).1.entries = (S.records s).1.map entryOf ∧
    (runWrites Stream.init cs).1 = (Stream.init.write s).1 := by
  have hg : ∀ r ∈ (S.records s).1, GoodRec r := fun r hr => goodRecord_sound r (hgood r hr)
  have hT : s = T (S.records s).1 := by
    have := splitSep2_join s
    simp only [S.records] at hrest ⊢
    rw [hrest, List.append_nil] at this
    exact this
  generalize (S.records s).1 = rs at hg hT ⊢
  have key : ∀ cs' : List Bytes, cs'.flatten = s →
      (runWrites Stream.init cs').2 = true ∧ (runWrites Stream.init cs').1.entries = rs.map entryOf ∧
      (runWrites Stream.init cs').1.buf = [] := by
    intro cs' h'
    apply runWrites_chunks rs hg
    rw [h', hT]
    exact inv_init rs
  obtain ⟨k1, k2, k3⟩ := key cs hcs
  obtain ⟨o1, o2, o3⟩ := key [s] (by simp)
  refine ⟨k1, k3, k2, ?_⟩
  have e1 : (runWrites Stream.init [s]).1 = (Stream.init.write s).1 := by simp [runWrites]
  rw [← e1]
  cases hA : (runWrites Stream.init cs).1
  cases hB : (runWrites Stream.init [s]).1
  rw [hA] at k2 k3; rw [hB] at o2 o3
  simp only at k2 k3 o2 o3
  rw [k2, k3, o2, o3]

/-- the final '\n' of an entry's text is optional for the entry parser (std `lines()`): a record
    of a stream — which carries no final '\n', the "\n\n" after it being the separator — parses
    exactly like the '\n'-terminated text Display prints for it -/
theorem C09_record_parses_like_entry_text (r : Bytes) (hne : r ≠ []) (h10 : r.getLast? ≠ some 10)
    (h13 : r.getLast? ≠ some 13) : Summary.parse (r ++ [10]) = Summary.parse r :=
  parse_append_nl r hne h10 h13

/-- **"… and printing the collection reproduces the stream."**  Display prints every entry in
    the fixed pkg_summary order, so this clause can only hold for streams whose entries are
    written that way; for every well-formed stream whose records are canonical entry texts
    (`S.canonical (r ++ "\n")`: known variables in the fixed order, no '\r', canonical integers)
    and EVERY chunking, the printed collection is the stream, byte for byte. -/
theorem C09_print_reproduces_stream (s : Bytes) (cs : List Bytes) (hcs : cs.flatten = s)
    (hrest : (S.records s).2 = []) (hgood : ∀ r ∈ (S.records s).1, S.goodRecord r = true)
    (hcan : ∀ r ∈ (S.records s).1, S.canonical (r ++ [10]) = true) :
    (runWrites Stream.init cs).1.print = s := by
  obtain ⟨_, _, hent, _⟩ := C09_chunk_independent s cs hcs hrest hgood
  have hT : s = T (S.records s).1 := by
    have := splitSep2_join s
    simp only [S.records] at hrest ⊢
    rw [hrest, List.append_nil] at this
    exact this
  rw [Stream.print, hent]
  conv => rhs; rw [hT]
  unfold T
  rw [List.flatMap_map]
  apply flatMap_congr_mem
  intro r hr
  have hg := goodRecord_sound r (hgood r hr)
  obtain ⟨s0, hs0⟩ := hg.parses
  have hc := hcan r hr
  have h13 : r.getLast? ≠ some 13 := by
    intro h
    have hmem : (13 : UInt8) ∈ r ++ [10] := List.mem_append_left _ (List.mem_of_getLast? h)
    have : (r ++ [10]).contains 13 = true := by simpa using hmem
    simp only [S.canonical, Bool.and_eq_true, Bool.not_eq_true'] at hc
    rw [this] at hc
    exact absurd hc.1.2 (by simp)
  have hp : Summary.parse (r ++ [10]) = .ok s0 := by
    rw [parse_append_nl r hg.clean.ne hg.clean.last h13]; exact hs0
  have := C07_print_parse_canonical (r ++ [10]) hc s0 hp
  simp only [entryOf, hs0, this, List.append_assoc, List.cons_append, List.nil_append]

/-- **The malformed-entry clause.**  Let the stream be well-formed entries `goods`, then an entry
    `bad` that the entry parser rejects (valid UTF-8, one block of lines), each followed by a
    blank line, then any valid UTF-8 `tail`.  For EVERY way of cutting it into writes: all
    writes before the one whose bytes complete `bad` succeed, that write (index `i`) fails, and
    the entries collected at that failure are exactly `goods`, in order. -/
theorem C09_malformed_entry (goods : List Bytes) (bad tail : Bytes) (hs : BadStream goods bad tail)
    (cs : List Bytes) (hcs : cs.flatten = T (goods ++ [bad]) ++ tail) :
    ∃ i st', firstFail Stream.init cs = some (i, st') ∧ st'.entries = goods.map entryOf ∧
      (cs.take i).flatten.length < (T (goods ++ [bad])).length ∧
      (T (goods ++ [bad])).length ≤ (cs.take (i + 1)).flatten.length := by
  have := firstFail_chunks goods bad tail hs Stream.init cs 0 (by rw [hcs]; exact inv2_init goods bad tail)
  simpa using this

/-- non-vacuity: `COMMENT=x` alone is a single block of valid UTF-8 that the parser rejects
    (required variables missing), so with the witness record in front it is a `BadStream` -/
example : (∀ s, Summary.parse (asciiBytes "COMMENT=x") ≠ .ok s) ∧
    Clean (asciiBytes "COMMENT=x") ∧ Complete (asciiBytes "COMMENT=x") := by
  refine ⟨?_, ⟨by decide, by decide, by decide, by decide⟩, by unfold Complete; decide⟩
  intro s h
  have : (match Summary.parse (asciiBytes "COMMENT=x") with | .ok _ => true | .error _ => false) = false := by
    decide +kernel
  rw [h] at this
  cases this

/-- non-vacuity: a complete entry whose COMMENT ends in a two-byte character … -/
def witnessRecord : Bytes :=
  asciiBytes "BUILD_DATE=d\nCATEGORIES=c\nCOMMENT=caf" ++ [0xC3, 0xA9] ++
  asciiBytes "\nDESCRIPTION=x\nMACHINE_ARCH=m\nOPSYS=o\nOS_VERSION=1\nPKGNAME=p-1\nPKGPATH=a/b\nPKGTOOLS_VERSION=2\nSIZE_PKG=3"

/-- … gives a two-entry stream that meets the theorem's hypotheses, and the chunking
    [first 38 bytes, rest] cuts between the two bytes of that character -/
example :
    let s := witnessRecord ++ [10, 10] ++ witnessRecord ++ [10, 10]
    (S.records s).2 = [] ∧ (S.records s).1.all S.goodRecord = true ∧ (S.records s).1.length = 2 ∧
    (s.take 38).getLast? = some 0xC3 ∧ [s.take 38, s.drop 38].flatten = s := by
  decide +kernel

/-- non-vacuity of the scan model: "é" cut after its first byte is incomplete, not invalid -/
example : utf8 [0x41, 0xC3] = (1, .incomplete) ∧ utf8 [0x41, 0xC3, 0xA9] = (3, .complete) ∧
    utf8 [0x41, 0xFF] = (1, .invalid) := by decide
