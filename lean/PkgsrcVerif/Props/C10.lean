/-
Props/C10.lean — distinfo files round-trip byte-exactly, including non-UTF-8 names.
Property theorems only; helper lemmas live in Lemmas/.
First pass: serialisation shape, size round trip, map invariants.  The whole-file
round trip is stated (`C10_bytes_roundtrip`) and decided on every run by the
correspondence oracle (strict canonical grammar) until its Lean proof lands.
-/
import PkgsrcVerif.Lemmas.Distinfo
import PkgsrcVerif.Spec.Distinfo
open M L

/-- sizes up to u64::MAX survive print → parse -/
theorem C10_u64_dec_roundtrip (n : Nat) (h : n ≤ u64Max) : parseU64? (natToDec n) = some n :=
  parseU64_natToDec n h

/-- both file maps keep one entry per file (component-wise key) after parsing ANY text -/
theorem C10_maps_no_dup_keys (b : Bytes) : DNoDup (distinfoFromBytes b) := dnodup_fromBytes b

/-- the written form: Id line (or `$NetBSD$`), blank line, then every distfile's checksum lines
    followed by its size line, then every patch file's checksum lines — names and Id written as
    the bytes they are (no lossy conversion) -/
theorem C10_as_bytes_form (d : Distinfo) :
    d.asBytes = (d.rcsid.getD (ascii "$NetBSD$")) ++ [10, 10] ++
      (d.distfiles.flatMap fun kv =>
        (kv.2.checksums.flatMap fun c => checksumLine c.1 kv.2.filename c.2) ++
        (match kv.2.size with | some n => sizeLine kv.2.filename n | none => [])) ++
      (d.patchfiles.flatMap fun kv => kv.2.checksums.flatMap fun c => checksumLine c.1 kv.2.filename c.2) := by
  unfold Distinfo.asBytes Entry.asBytes
  cases d.rcsid <;> rfl

/-- a checksum line contains the file name bytes verbatim between "(" and ") = " -/
theorem C10_name_bytes_verbatim (dg : Digest) (name hash : Bytes) :
    checksumLine dg name hash = ascii dg.name ++ [32, 40] ++ name ++ [41, 32, 61, 32] ++ hash ++ [10] := by
  simp [checksumLine, ascii]

/-- insert: a new file is appended (returns true), an existing one is replaced in place
    (returns false) — order of the other files is untouched -/
theorem C10_insert_order (d : Distinfo) (e : Entry) :
    (((d.mapOf e.filetype).get e.filename).isSome = false →
        (d.insert e).2 = true ∧ ((d.insert e).1.mapOf e.filetype) = d.mapOf e.filetype ++ [(e.filename, e)]) ∧
    (((d.mapOf e.filetype).get e.filename).isSome = true →
        (d.insert e).2 = false ∧ keys ((d.insert e).1.mapOf e.filetype) = keys (d.mapOf e.filetype)) := by
  unfold Distinfo.insert
  constructor
  · intro h
    simp only [mapOf_setMap, EMap.insert, h, Bool.false_eq_true, if_false]
    cases hg : (d.mapOf e.filetype).get e.filename with
    | none => simp
    | some x => simp [hg] at h
  · intro h
    simp only [mapOf_setMap, EMap.insert, h, if_true, keys_modify]
    cases hg : (d.mapOf e.filetype).get e.filename with
    | none => simp [hg] at h
    | some x => simp

/-- The property at full strength. -/
def C10_bytes_roundtrip : Prop :=
  ∀ f : Bytes, S.canonicalDistinfo f = true → (distinfoFromBytes f).asBytes = f

/-- non-vacuity: the doc-comment example file is canonical -/
example : S.canonicalDistinfo (ascii "$NetBSD: distinfo,v 1.1 2024/01/01 00:00:00 x Exp $\n\nBLAKE2s (foo-1.0.tar.gz) = aa\nSHA512 (foo-1.0.tar.gz) = bb\nSize (foo-1.0.tar.gz) = 42 bytes\nSHA1 (patch-aa) = cc\n") = true := by
  decide +kernel
