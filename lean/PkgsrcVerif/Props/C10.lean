/-
Props/C10.lean — distinfo files round-trip byte-exactly, including non-UTF-8 names.
Property theorems only; helper lemmas live in Lemmas/.
Serialisation shape, size round trip, map invariants, and both whole-file round trips:
parse→write of a canonical file (`C10_bytes_roundtrip`) and write→parse of well-formed
data (`C10_write_parse`); proofs in Lemmas/DistinfoRoundtrip.lean.
-/
import PkgsrcVerif.Lemmas.DistinfoRoundtrip
import PkgsrcVerif.Spec.Distinfo
open M L

/-- sizes up to u64::MAX survive print → parse -/
theorem C10_u64_dec_roundtrip (n : Nat) (h : n ≤ u64Max) : parseU64? (natToDec n) = some n :=
  parseU64_natToDec n h

/-- both file maps keep one entry per file (component-wise key) after parsing ANY text -/
theorem C10_maps_no_dup_keys (b : Bytes) : DNoDup (distinfoFromBytes b) := dnodup_fromBytes b

/-- the written form: Id line (or `$NetBSD$`), blank line, then every distfile's checksum lines
    followed by its size line, then every patch file's checksum lines — names and Id written as
    the bytes they are (no lossy conversion) -/
theorem C10_as_bytes_form (d : Distinfo) :
    d.asBytes = (d.rcsid.getD (ascii "$NetBSD$")) ++ [10, 10] ++
      (d.distfiles.flatMap fun kv =>
        (kv.2.checksums.flatMap fun c => checksumLine c.1 kv.2.filename c.2) ++
        (match kv.2.size with | some n => sizeLine kv.2.filename n | none => [])) ++
      (d.patchfiles.flatMap fun kv => kv.2.checksums.flatMap fun c => checksumLine c.1 kv.2.filename c.2) := by
  unfold Distinfo.asBytes Entry.asBytes
  cases d.rcsid <;> rfl

/-- a checksum line contains the file name bytes verbatim between "(" and ") = " -/
theorem C10_name_bytes_verbatim (dg : Digest) (name hash : Bytes) :
    checksumLine dg name hash = ascii dg.name ++ [32, 40] ++ name ++ [41, 32, 61, 32] ++ hash ++ [10] := by
  simp [checksumLine, ascii]

/-- insert: a new file is appended (returns true), an existing one is replaced in place
    (returns false) — order of the other files is untouched -/
theorem C10_insert_order (d : Distinfo) (e : Entry) :
    (((d.mapOf e.filetype).get e.filename).isSome = false →
        (d.insert e).2 = true ∧ ((d.insert e).1.mapOf e.filetype) = d.mapOf e.filetype ++ [(e.filename, e)]) ∧
    (((d.mapOf e.filetype).get e.filename).isSome = true →
        (d.insert e).2 = false ∧ keys ((d.insert e).1.mapOf e.filetype) = keys (d.mapOf e.filetype)) := by
  unfold Distinfo.insert
  constructor
  · intro h
    simp only [mapOf_setMap, EMap.insert, h, Bool.false_eq_true, if_false]
    cases hg : (d.mapOf e.filetype).get e.filename with
    | none => simp
    | some x => simp [hg] at h
  · intro h
    simp only [mapOf_setMap, EMap.insert, h, if_true, keys_modify]
    cases hg : (d.mapOf e.filetype).get e.filename with
    | none => simp [hg] at h
    | some x => simp

/-- **Parse → write, byte for byte.**  A file in canonical layout — the rendering of
    well-formed block data: RCS Id line (any bytes after `$NetBSD: `, or the unexpanded
    `$NetBSD$`), blank line, one block per distfile (checksum lines, then the Size line), one
    block per patch (checksum lines only); names of any non-blank bytes, UTF-8 or not, pairwise
    different files; hashes blank-free UTF-8; sizes up to u64::MAX — is reproduced exactly by
    `Distinfo::from_bytes` followed by `as_bytes`. -/
theorem C10_bytes_roundtrip (f : Bytes) (h : S.canonicalDistinfo f = true) :
    (distinfoFromBytes f).asBytes = f := by
  unfold S.canonicalDistinfo at h
  cases hp : S.parseCanon f with
  | none => simp [hp] at h
  | some cf =>
    simp only [hp, Bool.and_eq_true, beq_iff_eq] at h
    have hok := fileOk_of_wf cf h.1
    rw [← h.2, fromBytes_render cf hok, asBytes_distinfo cf hok]

/-- the same, quantified directly over ALL well-formed block data instead of going through the
    executable recogniser `S.canonicalDistinfo` (whose completeness is therefore not needed): the
    rendering of ANY well-formed data is reproduced byte for byte -/
theorem C10_bytes_roundtrip_data (cf : S.CFile) (h : cf.wf = true) :
    (distinfoFromBytes cf.render).asBytes = cf.render := by
  have hok := fileOk_of_wf cf h
  rw [fromBytes_render cf hok, asBytes_distinfo cf hok]

/-- **Write → parse.**  Conversely, for the Distinfo a well-formed block list denotes (RCS Id,
    files in order, each with its checksums in order and its size), writing it and parsing the
    result yields the same Distinfo — same Id, same files in the same order, same checksums in
    order, same sizes. -/
theorem C10_write_parse (cf : S.CFile) (h : cf.wf = true) :
    distinfoFromBytes cf.distinfo.asBytes = cf.distinfo := by
  have hok := fileOk_of_wf cf h
  rw [asBytes_distinfo cf hok, fromBytes_render cf hok]

/-- what the data denotes: the maps list exactly the blocks, in order -/
theorem C10_data_shape (cf : S.CFile) :
    cf.distinfo.distfiles.map (·.1) = cf.dists.map (·.name) ∧
    cf.distinfo.patchfiles.map (·.1) = cf.patches.map (·.name) ∧
    (∀ b ∈ cf.dists, (b.name, b.entry .distfile) ∈ cf.distinfo.distfiles) := by
  refine ⟨by simp [S.CFile.distinfo], by simp [S.CFile.distinfo], ?_⟩
  intro b hb
  simp only [S.CFile.distinfo, List.mem_map]
  exact ⟨b, hb, rfl⟩

/-- non-vacuity: the doc-comment example file is canonical -/
example : S.canonicalDistinfo (ascii "$NetBSD: distinfo,v 1.1 2024/01/01 00:00:00 x Exp $\n\nBLAKE2s (foo-1.0.tar.gz) = aa\nSHA512 (foo-1.0.tar.gz) = bb\nSize (foo-1.0.tar.gz) = 42 bytes\nSHA1 (patch-aa) = cc\n") = true := by
  decide +kernel

/-- non-vacuity with the awkward bytes the property names: a file name with a lone 0xE9 (invalid
    UTF-8), one containing 0xA0 and 0x85, an Id with a Latin-1 byte and a trailing blank, a size
    of u64::MAX — canonical, hence covered by the theorem -/
example : S.canonicalDistinfo
    (ascii "$NetBSD: j" ++ [0xF6] ++ ascii "rg Exp $ \n\nSHA1 (lone" ++ [0xE9] ++ ascii ".tgz) = aa\nSize (lone" ++ [0xE9] ++
     ascii ".tgz) = 18446744073709551615 bytes\nMD5 (patch-" ++ [0xC3, 0xA0, 0xC3, 0x85] ++ ascii ") = bb\n") = true := by
  decide +kernel
