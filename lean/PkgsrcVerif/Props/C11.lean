/-
Props/C11.lean — Each recognised distinfo line lands on its file; other lines change
nothing.  Property theorems only; helper lemmas live in Lemmas/.
-/
import PkgsrcVerif.Lemmas.Distinfo
import PkgsrcVerif.Lemmas.EntryType
import PkgsrcVerif.Spec.Distinfo
import PkgsrcVerif.Lemmas.DistinfoComplete
open M L

/-- lines that are not recognised (comments, blank lines, unknown algorithms, unparsable
    sizes, short lines, …) change nothing -/
theorem C11_ignored_line_inert (d : Distinfo) (l : Bytes) (h : lineFromBytes l = .none) :
    d.applyLine (lineFromBytes l) = d := by
  rw [h]; rfl

/-- … wherever they stand: deleting every unrecognised line from a text does not change
    the parse -/
theorem C11_ignored_lines_inert (ls : List Bytes) (d : Distinfo) :
    ls.foldl (fun d line => d.applyLine (lineFromBytes line)) d =
      (ls.filter fun l => lineFromBytes l != .none).foldl (fun d line => d.applyLine (lineFromBytes line)) d := by
  induction ls generalizing d with
  | nil => rfl
  | cons l ls ih =>
    by_cases h : lineFromBytes l = .none
    · have : (lineFromBytes l != Line.none) = false := by simp [h]
      simp only [List.foldl_cons, List.filter_cons, this, Bool.false_eq_true, if_false, h, Distinfo.applyLine]
      exact ih d
    · have : (lineFromBytes l != Line.none) = true := by simpa using h
      simp only [List.foldl_cons, List.filter_cons, this, if_true]
      exact ih _

/-- comments and blank lines are never recognised -/
theorem C11_comment_blank (l : Bytes)
    (h : (l.dropWhile isAsciiWhiteByte).head? = some 35 ∨ l.dropWhile isAsciiWhiteByte = []) :
    lineFromBytes l = .none := by
  unfold lineFromBytes
  rcases h with h | h
  · simp [h]
  · simp [h]

/-- "nothing else": whatever is recorded as a checksum comes from a line with at least four
    blank-separated fields whose first is a supported algorithm, second a parenthesised
    name, fourth the hash -/
theorem C11_sound_checksum (l : Bytes) (dg : Digest) (p h : Bytes) (hl : lineFromBytes l = .checksum dg p h) :
    ∃ action nm f2 rest, fields (l.dropWhile isAsciiWhiteByte) = action :: nm :: f2 :: h :: rest ∧
      Digest.ofName action = some dg ∧ nm.head? = some 40 ∧ nm.getLast? = some 41 ∧
      p = (nm.drop 1).dropLast := by
  unfold lineFromBytes at hl
  simp only at hl
  split at hl
  · cases hl
  · split at hl
    · cases hl
    · split at hl
      · rename_i action nm f2 value rest hf
        split at hl
        · cases hl
        · split at hl
          · cases hl
          · split at hl
            · cases hl
            · rename_i hparen _
              split at hl
              · split at hl <;> cases hl
              · split at hl
                · rename_i d hd
                  injection hl with e1 e2 e3
                  subst e1; subst e2; subst e3
                  simp only [Bool.not_eq_true', Bool.and_eq_false_iff, not_or, Bool.not_eq_false] at hparen
                  have hp : (nm.head? == some 40) = true ∧ (nm.getLast? == some 41) = true := by
                    cases h1 : (nm.head? == some 40) <;> cases h2 : (nm.getLast? == some 41) <;> simp_all
                  exact ⟨action, nm, f2, rest, hf, hd, by simpa using hp.1, by simpa using hp.2, rfl⟩
                · cases hl
      · cases hl

/-- a size is recorded only from a line whose first field is "Size" and whose fourth field
    is a valid u64 -/
theorem C11_sound_size (l : Bytes) (p : Bytes) (n : Nat) (hl : lineFromBytes l = .size p n) :
    ∃ nm f2 value rest, fields (l.dropWhile isAsciiWhiteByte) = ascii "Size" :: nm :: f2 :: value :: rest ∧
      parseU64? (value.map fun x => Char.ofNat x.toNat) = some n ∧ p = (nm.drop 1).dropLast := by
  unfold lineFromBytes at hl
  simp only at hl
  split at hl
  · cases hl
  · split at hl
    · cases hl
    · split at hl
      · rename_i action nm f2 value rest hf
        split at hl
        · cases hl
        · split at hl
          · cases hl
          · split at hl
            · cases hl
            · split at hl
              · rename_i hsz
                split at hl
                · rename_i v hv
                  injection hl with e1 e2
                  subst e1; subst e2
                  have : action = ascii "Size" := by simpa using hsz
                  subst this
                  exact ⟨nm, f2, value, rest, hf, hv, rfl⟩
                · cases hl
              · split at hl <;> cases hl
      · cases hl

/-- names keep first-appearance order and a later line for a known file is merged into its
    entry in place: the key list only ever grows at the end -/
theorem C11_first_appearance_order (d : Distinfo) (p : Bytes) (dg : Digest) (h : Bytes) :
    let t := entryType p
    keys ((d.updateChecksum p dg h).mapOf t) =
      if ((d.mapOf t).get p).isSome then keys (d.mapOf t) else keys (d.mapOf t) ++ [p] := by
  simp only [Distinfo.updateChecksum]
  split
  · simp only [mapOf_setMap, keys_modify]
  · simp [mapOf_setMap, keys]

/-- checksums of one file are kept in line order -/
theorem C11_checksums_in_line_order (m : EMap) (p : Bytes) (dg : Digest) (h : Bytes) (e : Entry)
    (he : (p, e) ∈ m) :
    ∃ e', (p, e') ∈ m.modify p (fun e => { e with checksums := e.checksums ++ [(dg, h)] }) ∧
      e'.checksums = e.checksums ++ [(dg, h)] := by
  refine ⟨{ e with checksums := e.checksums ++ [(dg, h)] }, ?_, rfl⟩
  simp only [EMap.modify, List.mem_map]
  refine ⟨(p, e), he, ?_⟩
  have : keyEq p p = true := by simp [keyEq]
  simp [this]

/-- patch files and distfiles live in separate maps: a line only touches the map of its
    own kind -/
theorem C11_kinds_apart (d : Distinfo) (p : Bytes) (dg : Digest) (h : Bytes) (t : EntryType)
    (ht : t ≠ entryType p) : (d.updateChecksum p dg h).mapOf t = d.mapOf t := by
  simp only [Distinfo.updateChecksum]
  split <;> (cases t <;> cases hp : entryType p <;> simp_all [Distinfo.setMap, Distinfo.mapOf])

/-- non-vacuity: the classification examples of the statement -/
example : entryType (ascii "patch-aa") = .patchfile ∧ entryType (ascii "emul-linux-patch-a") = .patchfile ∧
    entryType (ascii "patch-local-x") = .distfile ∧ entryType (ascii "patch-2.7.6.tar.xz") = .distfile ∧
    entryType (ascii "emul-patch-x") = .distfile ∧ entryType (ascii "foo.patch-1") = .distfile := by
  decide +kernel

/-- `Line::from_bytes` also accepts text with embedded newlines (the first sub-line that is
    neither blank nor a comment decides).  `Distinfo::from_bytes` only ever passes it
    '\n'-free pieces, on which that loop runs exactly once — so the document parser written
    with the code's own call structure is the model's `distinfoFromBytes`, to which all C10–C12
    theorems refer. -/
theorem C11_line_loop_runs_once (b : Bytes) :
    (∀ l ∈ splitNl' b, lineFromBytesNl l = lineFromBytes l) ∧
    (splitNl' b).foldl (fun d line => d.applyLine (lineFromBytesNl line)) {} = distinfoFromBytes b :=
  ⟨fun l hl => lineFromBytesNl_of_no_nl l (splitNl'_pieces b l hl), distinfoFromBytes_mirrors b⟩

/-- **Classification = the statement's rule**: the code's `EntryType::from` (byte tests on
    `Path::file_name()`) decides "patch file" exactly as the statement's shell globs on the final
    path component: (patch-* or emul-*-patch-*) and none of patch-local-*, *.orig, *.rej, *~,
    *.tar.* — for every path of arbitrary bytes. -/
theorem C11_classification (path : Bytes) : entryType path = S.entryType path :=
  entryType_eq path

/-- hence a recognised checksum line lands in the map the statement's rule names -/
theorem C11_lands_by_rule (d : Distinfo) (p : Bytes) (dg : Digest) (h : Bytes) :
    ∃ m, d.updateChecksum p dg h = d.setMap (S.entryType p) m := by
  rw [← C11_classification]
  unfold Distinfo.updateChecksum
  simp only
  split <;> exact ⟨_, rfl⟩

/-! ### completeness: no recognised line is dropped because of the bytes in its file name -/

/-- **Every well-formed checksum line is recognised, whatever bytes its name contains.**  The
    line is `lead ALG s1 (name) s2 mid s3 hash tail` where `lead` is any run of ASCII blanks
    (possibly empty), `s1 s2 s3` any NON-EMPTY runs of ASCII blanks (spaces, tabs, FF, CR),
    `ALG` a spelling `Digest::from_str` accepts, `name` ANY bytes that are not ASCII blanks —
    bytes >= 0x80, invalid UTF-8 such as a lone E9, NEL 85 / NBSP A0, parentheses — `mid` the
    third field (`=` in the strict form; the parser does not look at it), `hash` non-empty UTF-8
    without blanks, and `tail` empty or a blank followed by anything.  It is recorded with
    exactly that name and hash. -/
theorem C11_complete_checksum_line (lead alg s1 fn s2 mid s3 hash tail : Bytes) (d : Digest)
    (hl : L.AllWs lead) (ha : L.AlgWord alg d) (h1 : L.AllWs s1) (h1n : s1 ≠ []) (hf : L.NoWs fn)
    (h2 : L.AllWs s2) (h2n : s2 ≠ []) (hm : L.NoWs mid) (hmn : mid ≠ []) (h3 : L.AllWs s3) (h3n : s3 ≠ [])
    (hh : L.NoWs hash) (hhn : hash ≠ []) (hu : isUtf8' hash = true) (ht : L.TailOk tail) :
    lineFromBytes (L.csLine lead alg s1 fn s2 mid s3 hash tail) = .checksum d fn hash :=
  L.lineFromBytes_csLine lead alg s1 fn s2 mid s3 hash tail d hl ha h1 h1n hf h2 h2n hm hmn h3 h3n hh hhn hu ht

/-- the six canonical spellings are such algorithm words -/
theorem C11_canonical_alg_words (d : Digest) : L.AlgWord (ascii d.name) d := L.algWord_canonical d

/-- **Every well-formed size line is recognised**: `Size (name) = N` with a `u64` decimal `N`,
    optionally followed by ` bytes` (or anything else after a blank), same freedom for blanks
    and name bytes. -/
theorem C11_complete_size_line (lead s1 fn s2 mid s3 value tail : Bytes) (n : Nat)
    (hl : L.AllWs lead) (h1 : L.AllWs s1) (h1n : s1 ≠ []) (hf : L.NoWs fn)
    (h2 : L.AllWs s2) (h2n : s2 ≠ []) (hm : L.NoWs mid) (hmn : mid ≠ []) (h3 : L.AllWs s3) (h3n : s3 ≠ [])
    (hv : L.NoWs value) (hvn : value ≠ []) (hu : isUtf8' value = true)
    (hp : parseU64? (value.map fun x => Char.ofNat x.toNat) = some n) (ht : L.TailOk tail) :
    lineFromBytes (L.csLine lead (ascii "Size") s1 fn s2 mid s3 value tail) = .size fn n :=
  L.lineFromBytes_szLine lead s1 fn s2 mid s3 value tail n hl h1 h1n hf h2 h2n hm hmn h3 h3n hv hvn hu hp ht

/-- **No recognised line is dropped by the document parser**: if any line of the text is
    recognised as a checksum for `name`, then the parsed Distinfo has an entry under exactly that
    name (component-wise key) in the map the statement's classification rule names, and that
    entry carries the checksum — whatever lines come before or after (later lines only add). -/
theorem C11_no_checksum_dropped (t l fn h : Bytes) (dg : Digest) (hl : l ∈ splitNl' t)
    (hr : lineFromBytes l = .checksum dg fn h) :
    ∃ e, ((distinfoFromBytes t).mapOf (S.entryType fn)).get fn = some e ∧ (dg, h) ∈ e.checksums := by
  rw [← C11_classification]
  exact L.fold_records_sum (splitNl' t) {} l hl fn dg h hr

/-- … and likewise a recognised size line leaves its file with a recorded size -/
theorem C11_no_size_dropped (t l fn : Bytes) (n : Nat) (hl : l ∈ splitNl' t)
    (hr : lineFromBytes l = .size fn n) :
    ∃ e n', ((distinfoFromBytes t).mapOf (S.entryType fn)).get fn = some e ∧ e.size = some n' := by
  rw [← C11_classification]
  exact L.fold_records_size (splitNl' t) {} l hl fn n hr

/-- non-vacuity: a line with tabs, a leading blank, a name made of a lone E9, NEL and NBSP bytes
    and a closing parenthesis inside, and a trailing comment -/
example : lineFromBytes (L.csLine [32, 9] (ascii "SHA512") [9, 32] [0xE9, 0x85, 0xA0, 41, 0x41] [32] [61] [9]
    (ascii "abc") [32, 35]) = .checksum .sha512 [0xE9, 0x85, 0xA0, 41, 0x41] (ascii "abc") := by
  decide +kernel
