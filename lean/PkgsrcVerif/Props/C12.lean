/-
Props/C12.lean — Checksum and size verification passes only for files that really
match (*partial*: the file's length/content and the digest function are parameters;
what is proved is the decision logic around them).
Property theorems only; helper lemmas live in Lemmas/.
-/
import PkgsrcVerif.Lemmas.Distinfo
import PkgsrcVerif.Lemmas.FindEntry
open M L

/-- size verification succeeds exactly when the file's length equals the recorded size;
    a mismatch carries expected and actual; no recorded size is MissingSize -/
theorem C12_size_iff (e : Entry) (len : Nat) :
    (∀ n, e.verifySize (some len) = .ok n ↔ (e.size = some n ∧ len = n)) ∧
    (∀ n, e.size = some n → len ≠ n → e.verifySize (some len) = .error (.size n len)) ∧
    (e.size = none → e.verifySize (some len) = .error .missingSize) := by
  refine ⟨?_, ?_, ?_⟩
  · intro n
    unfold Entry.verifySize
    cases hs : e.size with
    | none => simp
    | some m =>
      simp only [Option.some.injEq]
      by_cases h : len = m
      · subst h; simp
      · have : (len != m) = true := by simpa using h
        simp only [this, if_true]
        constructor
        · intro h'; cases h'
        · rintro ⟨rfl, rfl⟩; exact absurd rfl h
  · intro n hs hne
    have : (len != n) = true := by simpa using hne
    simp [Entry.verifySize, hs, this]
  · intro hs; simp [Entry.verifySize, hs]

/-- checksum verification for an algorithm succeeds exactly when the FIRST recorded hash for
    that algorithm equals the digest of the file — computed over the `$NetBSD`-stripped
    content exactly for patch entries; a mismatch carries expected and actual; an
    unrecorded algorithm is MissingChecksum -/
theorem C12_checksum_iff (e : Entry) (hashOf : Digest → Bool → Option Bytes) (dg : Digest) :
    (∀ c, e.checksums.find? (fun c => c.1 == dg) = some c →
      ∀ h, hashOf c.1 (e.filetype == .patchfile) = some h →
        (h = c.2 → e.verifyChecksum hashOf dg = .ok dg) ∧
        (h ≠ c.2 → e.verifyChecksum hashOf dg = .error (.checksum c.1 c.2 h))) ∧
    (e.checksums.find? (fun c => c.1 == dg) = none →
      e.verifyChecksum hashOf dg = .error (.missingChecksum dg)) := by
  constructor
  · intro c hc h hh
    constructor
    · intro heq; subst heq; simp [Entry.verifyChecksum, hc, hh]
    · intro hne
      have : (h != c.2) = true := by simpa using hne
      simp [Entry.verifyChecksum, hc, hh, this]
  · intro hn; simp [Entry.verifyChecksum, hn]

/-- in particular a hash that merely SHARES A PREFIX with the digest, or the digest of the
    file in the other mode, does not verify -/
theorem C12_no_prefix_match (e : Entry) (hashOf : Digest → Bool → Option Bytes) (dg : Digest)
    (c : Digest × Bytes) (h : Bytes) (hc : e.checksums.find? (fun c => c.1 == dg) = some c)
    (hh : hashOf c.1 (e.filetype == .patchfile) = some h) (hne : h ≠ c.2) :
    e.verifyChecksum hashOf dg ≠ .ok dg := by
  rw [((C12_checksum_iff e hashOf dg).1 c hc h hh).2 hne]
  intro h'; cases h'

/-- an unreadable file is an I/O error, never a pass -/
theorem C12_io_error (e : Entry) (n : Nat) (hs : e.size = some n) :
    e.verifySize none = .error .io := by
  simp [Entry.verifySize, hs]

/-- the mode used by `calculate_checksum`/verification is decided by the entry type alone -/
theorem C12_patch_mode (e : Entry) (hashOf : Digest → Bool → Option Bytes) (dg : Digest)
    (c : Digest × Bytes) (hc : e.checksums.find? (fun c => c.1 == dg) = some c) (hp : e.filetype = .patchfile) :
    e.verifyChecksum hashOf dg =
      (match hashOf c.1 true with
       | none => .error .io
       | some h => if h != c.2 then .error (.checksum c.1 c.2 h) else .ok dg) := by
  simp only [Entry.verifyChecksum, hc, hp, beq_self_eq_true]
  cases hashOf c.1 true with
  | none => rfl
  | some h => by_cases hh : h = c.2 <;> simp [hh]

/-- a path none of whose trailing sub-paths is recorded is NotFound (empty maps) -/
theorem C12_not_found_empty (path : Bytes) : findEntry {} path = none := by
  unfold findEntry
  simp only
  generalize (bcomps path).reverse = cs
  have : ∀ (cs : List (Comp UInt8)) (file : Bytes), findEntry.go (Distinfo.mapOf {} (entryType path)) file cs = none := by
    intro cs
    induction cs with
    | nil => intro file; rfl
    | cons c cs ih =>
      intro file
      simp only [findEntry.go]
      have : (Distinfo.mapOf {} (entryType path)).get
          (if file.isEmpty || bcomps file == [.root] then compText c else joinComp c file) = none := by
        cases entryType path <;> rfl
      rw [this]
      exact ih _
  exact this cs []

/-- non-vacuity: size 3 recorded, file of length 3 passes and of length 4 fails -/
example : ({ filename := [120], size := some 3 } : Entry).verifySize (some 3) = .ok 3 ∧
    ({ filename := [120], size := some 3 } : Entry).verifySize (some 4) = .error (.size 3 4) := by
  constructor <;> rfl

/-- **Lookup by the shortest recorded trailing sub-path.**  For every Distinfo and every path of
    arbitrary bytes, `find_entry` returns the entry recorded — in the map chosen by the type of the
    WHOLE path — under the shortest trailing sub-path of the path (its last component, its last
    two, …, the whole path) that is recorded at all; recorded names and sub-paths are compared
    component-wise, so `a//b`, `a/./b` and `a/b` are the same name, and DIST_SUBDIR entries are
    found from full paths.  Nothing recorded under any trailing sub-path ⇒ not found. -/
theorem C12_shortest_subpath (d : Distinfo) (path : Bytes) :
    findEntry d path = (S.trailing path).findSome? (lookupComps (d.mapOf (entryType path))) :=
  findEntry_spec d path

/-- in particular: if the last component alone is recorded, that entry is returned whatever
    longer sub-paths are recorded too -/
theorem C12_shortest_wins (d : Distinfo) (path : Bytes) (t : List (Comp UInt8)) (rest : List (List (Comp UInt8)))
    (e : Entry) (ht : S.trailing path = t :: rest) (he : lookupComps (d.mapOf (entryType path)) t = some e) :
    findEntry d path = some e := by
  rw [C12_shortest_subpath, ht, List.findSome?_cons, he]
