/-
Props/C13.lean — Digests equal the standard algorithms for every input and every read
pattern (*partial*: the six compression functions live in external crates; here they
are a parameter `H : Hasher` with the streaming law as a HYPOTHESIS, and equality with
the standards is tied by running the Lean reference implementations of
Spec/Hashes.lean against the crate outputs on every run).
Property theorems only.
-/
import PkgsrcVerif.Model.Digest
import PkgsrcVerif.Lemmas.BlockBuffer
open M

/-- all bytes a schedule delivers before its first EOF (errors excluded by hypothesis) -/
def delivered : List ReadEvent → Bytes
  | [] => []
  | .eof :: _ => []
  | .error :: _ => []
  | .interrupted :: rest => delivered rest
  | .data b :: rest => b ++ delivered rest

/-- no hard error before the first EOF -/
def errorFree : List ReadEvent → Bool
  | [] => true
  | .eof :: _ => true
  | .error :: _ => false
  | .interrupted :: rest => errorFree rest
  | .data _ :: rest => errorFree rest

/-- For every read schedule without a hard error before EOF — any split of the data into
    reads of any sizes, any number of Interrupted results anywhere — hashing the reader gives
    the hex digest of the concatenated data. -/
theorem C13_schedule_independent (H : Hasher) (hl : H.Lawful) (s : H.State) (evs : List ReadEvent)
    (he : errorFree evs = true) :
    hashFile H s evs = some (hexLower (H.final (H.update s (delivered evs)))) := by
  induction evs generalizing s with
  | nil => simp [hashFile, delivered, hl.2]
  | cons e rest ih =>
    cases e with
    | eof => simp [hashFile, delivered, hl.2]
    | error => simp [errorFree] at he
    | interrupted => simp only [hashFile, delivered]; exact ih s (by simpa [errorFree] using he)
    | data b =>
      simp only [hashFile, delivered]
      rw [ih (H.update s b) (by simpa [errorFree] using he), hl.1]

/-- a read error before EOF is returned as an error: nothing after it is consumed and no
    digest is produced -/
theorem C13_error_is_error (H : Hasher) (s : H.State) (evs : List ReadEvent)
    (he : errorFree evs = false) : hashFile H s evs = none := by
  induction evs generalizing s with
  | nil => simp [errorFree] at he
  | cons e rest ih =>
    cases e with
    | eof => simp [errorFree] at he
    | error => rfl
    | interrupted => simp only [hashFile]; exact ih s (by simpa [errorFree] using he)
    | data b => simp only [hashFile]; exact ih _ (by simpa [errorFree] using he)

/-- the string entry point equals the reader entry point on the same bytes -/
theorem C13_str_eq_file (H : Hasher) (b : Bytes) :
    some (hashStr H b) = hashFile H H.init [.data b, .eof] := by
  simp [hashStr, hashFile]

/-- The patch hash equals the plain hash of the input with every line containing `$NetBSD`
    removed, each kept line newline-terminated (a final unterminated line counting as
    terminated). -/
theorem C13_patch_is_filtered_file (H : Hasher) (hl : H.Lawful) (c : Bytes) :
    hashPatch H c = hexLower (H.final (H.update H.init
      (((splitLines c).filter fun l => !hasNetBSD l).flatMap fun l => l ++ [10]))) := by
  have key : ∀ (kept : List Bytes) (s : H.State),
      kept.foldl (fun s l => H.update (H.update s l) [10]) s = H.update s (kept.flatMap fun l => l ++ [10]) := by
    intro kept
    induction kept with
    | nil => intro s; simp [hl.2]
    | cons l ls ih =>
      intro s
      rw [List.foldl_cons, ih, List.flatMap_cons, hl.1, hl.1, List.append_assoc]
  simp only [hashPatch, key]

/-- hex encoding: two lower-case hex digits per byte -/
theorem C13_hex_length (b : Bytes) : (hexLower b).length = 2 * b.length := by
  induction b with
  | nil => rfl
  | cons x b ih => simp only [hexLower, List.flatMap_cons, List.length_append, List.length_cons,
      List.length_nil] at ih ⊢; omega

theorem hexNibble_lower (n : Nat) (h : n < 16) :
    (48 ≤ (hexNibble n).toNat ∧ (hexNibble n).toNat ≤ 57) ∨ (97 ≤ (hexNibble n).toNat ∧ (hexNibble n).toNat ≤ 102) := by
  have : n = 0 ∨ n = 1 ∨ n = 2 ∨ n = 3 ∨ n = 4 ∨ n = 5 ∨ n = 6 ∨ n = 7 ∨ n = 8 ∨ n = 9 ∨ n = 10 ∨
      n = 11 ∨ n = 12 ∨ n = 13 ∨ n = 14 ∨ n = 15 := by omega
  rcases this with h | h | h | h | h | h | h | h | h | h | h | h | h | h | h | h <;> subst h <;> decide

/-- … and only the characters 0-9 a-f -/
theorem C13_hex_lowercase (b : Bytes) : ∀ c ∈ hexLower b,
    (48 ≤ c.toNat ∧ c.toNat ≤ 57) ∨ (97 ≤ c.toNat ∧ c.toNat ≤ 102) := by
  intro c hc
  simp only [hexLower, List.mem_flatMap, List.mem_cons, List.mem_nil_iff, or_false] at hc
  obtain ⟨x, _, rfl | rfl⟩ := hc
  · exact hexNibble_lower _ (by have := x.toNat_lt; omega)
  · exact hexNibble_lower _ (Nat.mod_lt _ (by decide))

/-- algorithm names print in their canonical spelling and parse back to themselves
    (parse ∘ print = id on the six) -/
theorem C13_names_roundtrip (d : Digest) : Digest.ofName (ascii d.name) = some d := by
  cases d <;> decide

/-- … parsing is case-insensitive: lower- and upper-casing the canonical name still parses -/
theorem C13_names_case_insensitive :
    Digest.ofName (ascii "sha256") = some .sha256 ∧ Digest.ofName (ascii "Sha256") = some .sha256 ∧
    Digest.ofName (ascii "BLAKE2S") = some .blake2s ∧ Digest.ofName (ascii "blake2s") = some .blake2s ∧
    Digest.ofName (ascii "rmd160") = some .rmd160 ∧ Digest.ofName (ascii "md5") = some .md5 ∧
    Digest.ofName (ascii "sha1") = some .sha1 ∧ Digest.ofName (ascii "sha512") = some .sha512 ∧
    Digest.ofName (ascii "SHA3") = none ∧ Digest.ofName (ascii "SHA-1") = none := by decide

/-- a name parses iff its lower-cased form is one of the six lower-cased canonical names -/
theorem C13_names_iff (s : Bytes) (d : Digest) :
    Digest.ofName s = some d → lowerName s = lowerName (ascii d.name) := by
  intro h
  unfold Digest.ofName at h
  simp only at h
  have ite : ∀ {c : Prop} [Decidable c] {a v : Digest} {r : Option Digest},
      (if c then some a else r) = some v → (c ∧ a = v) ∨ (¬c ∧ r = some v) := by
    intro c _ a v r h
    by_cases hc : c
    · simp only [hc, if_true] at h; injection h with h; exact Or.inl ⟨hc, h⟩
    · simp only [hc, if_false] at h; exact Or.inr ⟨hc, h⟩
  rcases ite h with ⟨hc, rfl⟩ | ⟨_, h⟩
  · exact (eq_of_beq hc).trans (by decide)
  rcases ite h with ⟨hc, rfl⟩ | ⟨_, h⟩
  · exact (eq_of_beq hc).trans (by decide)
  rcases ite h with ⟨hc, rfl⟩ | ⟨_, h⟩
  · exact (eq_of_beq hc).trans (by decide)
  rcases ite h with ⟨hc, rfl⟩ | ⟨_, h⟩
  · exact (eq_of_beq hc).trans (by decide)
  rcases ite h with ⟨hc, rfl⟩ | ⟨_, h⟩
  · exact (eq_of_beq hc).trans (by decide)
  rcases ite h with ⟨hc, rfl⟩ | ⟨_, h⟩
  · exact (eq_of_beq hc).trans (by decide)
  cases h

/-- the six names are pairwise distinct, so each enum value reaches its own row -/
theorem C13_names_distinct : (Digest.all.map Digest.name).Nodup := by decide

/-- non-vacuity: a lawful hasher exists (append-then-hash), and a schedule with short reads
    and interrupts is error free -/
example : (⟨Bytes, [], fun s b => s ++ b, fun s => s⟩ : Hasher).Lawful :=
  ⟨fun s a b => List.append_assoc s a b, fun s => List.append_nil s⟩

example : errorFree [.data [1], .interrupted, .data [2, 3], .interrupted, .eof, .error] = true ∧
    delivered [.data [1], .interrupted, .data [2, 3], .interrupted, .eof, .error] = [1, 2, 3] := by decide

/-! ### the streaming law is not an empty hypothesis: block-buffered cores satisfy it -/

/-- **Every block-buffered hash core satisfies the streaming law** the theorems above assume —
    whatever its block size, compression function, initial value and padding, and whether it
    compresses a block as soon as it is full (MD5, SHA-1, SHA-256/512, RIPEMD-160) or keeps a full
    block back until more input arrives (BLAKE2s).  This is the architecture of all six
    RustCrypto cores the crate dispatches to (`CoreWrapper` over `BlockBuffer`), modelled in
    Model/BlockBuffer.lean; what remains a parameter is the arithmetic of the compression
    functions themselves. -/
theorem C13_block_buffered_cores_are_lawful (B : BlockHash) : (L.hasherR B).Lawful :=
  L.hasherR_lawful B

/-- hence, for any such core: reading the data in ANY schedule of reads without a hard error —
    any sizes, any interruptions — gives the hex of the ONE-SHOT computation over the delivered
    bytes (compress every complete block of the whole message in order, then pad the remainder
    with the total length) -/
theorem C13_block_buffered_schedule (B : BlockHash) (evs : List ReadEvent) (he : errorFree evs = true) :
    hashFile (L.hasherR B) (L.hasherR B).init evs = some (hexLower (B.oneShot (delivered evs))) := by
  rw [C13_schedule_independent (L.hasherR B) (L.hasherR_lawful B) _ evs he, L.hasherR_final_update]

/-- … and feeding the pieces directly to the core (as `hash_patch` does, line by line) is the
    one-shot computation over their concatenation -/
theorem C13_block_buffered_pieces (B : BlockHash) (chunks : List Bytes) :
    B.hasher.final (chunks.foldl B.hasher.update B.hasher.init) = B.oneShot chunks.flatten :=
  L.stream_eq_oneShot B chunks

/-- non-vacuity: a toy eager core with 4-byte blocks (chaining value = list of block sums), fed
    "abcdefghij" as 3+1+6 bytes and at once -/
def toyCore : BlockHash where
  Chain := List Nat
  blk := 4
  blk_pos := by decide
  keepLast := false
  iv := []
  compress h b := h ++ [(b.map (·.toNat)).sum]
  finish h rest n := (h ++ [rest.length, n]).map UInt8.ofNat

example : toyCore.hasher.final ([[97, 98, 99], [100], [101, 102, 103, 104, 105, 106]].foldl
    toyCore.hasher.update toyCore.hasher.init) = toyCore.oneShot [97, 98, 99, 100, 101, 102, 103, 104, 105, 106] :=
  C13_block_buffered_pieces toyCore _

/-- … and the patch hash through any such core — fed line by line, a line and its newline in two
    separate `update` calls as the code does — is the ONE-SHOT digest of the filtered text: every
    line containing `$NetBSD` removed, each kept line newline-terminated -/
theorem C13_block_buffered_patch (B : BlockHash) (c : Bytes) :
    hashPatch (L.hasherR B) c =
      hexLower (B.oneShot (((splitLines c).filter fun l => !hasNetBSD l).flatMap fun l => l ++ [10])) := by
  rw [C13_patch_is_filtered_file (L.hasherR B) (L.hasherR_lawful B) c, L.hasherR_final_update]
