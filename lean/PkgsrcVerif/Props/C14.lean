/-
Props/C14.lean — PLIST parses to one entry per non-blank line, arguments kept byte
for byte.  Property theorems only; helper lemmas live in Lemmas/.
-/
import PkgsrcVerif.Lemmas.PlistScan
import PkgsrcVerif.Lemmas.PlistEntry
open M S L

/-- The line scanner — the start/tstart/trim/end index loop — cuts the input into exactly
    its lines that contain a non-whitespace byte: none dropped, merged or invented, for
    every byte string, with or without a final newline. -/
theorem C14_scan_is_split_filter (b : Bytes) :
    (scanLines b).map (fun p => sliceB b p.1 p.2) = plines b :=
  plines_eq b

/-- Parsing one line is the command table applied to "word before the first space" and
    "rest minus leading blanks": the 18-way match of the code equals table lookup + rule. -/
theorem C14_entry_is_table (line : Bytes) : entryFromBytes line = S.entry line :=
  entryFromBytes_eq line

theorem entriesOf_eq (ls : List Bytes) : entriesOf ls = mapEntries ls := by
  induction ls with
  | nil => rfl
  | cons l ls ih =>
    simp only [entriesOf, mapEntries, entryFromBytes_eq, ih]
    cases entry l with
    | error e => rfl
    | ok x => cases mapEntries ls <;> rfl

/-- One entry per non-blank line, in order, each equal to what parsing that line alone
    gives; the first failing line's error is the document's error. -/
theorem C14_one_entry_per_line (b : Bytes) : plistFromBytes b = S.document b := by
  unfold plistFromBytes S.document
  rw [entriesOf_eq]
  have := plines_eq b
  rw [← this]
  rfl

/-- a line is a file entry unless it begins with '@', bytes preserved exactly -/
theorem C14_file_unless_at (line : Bytes) (h : line.head? ≠ some 64) :
    entryFromBytes line = .ok (.file line) := by
  rw [entryFromBytes_eq]
  have : (line.head? != some 64) = true := by simpa using h
  simp [S.entry, this]

/-- an '@' word that is not one of the 18 table rows is an error, never a file -/
theorem C14_unknown_is_error (line : Bytes) (h : line.head? = some 64)
    (hu : ∀ e ∈ commandTable, (bytesOf e.1 == line.takeWhile (· != 32)) = false) :
    entryFromBytes line = .error .unsupported := by
  rw [entryFromBytes_eq]
  have h1 : (line.head? != some 64) = false := by simp [h]
  simp only [S.entry, h1, Bool.false_eq_true, if_false, S.command]
  have : commandTable.find? (fun e => bytesOf e.1 == line.takeWhile (· != 32)) = none := by
    rw [List.find?_eq_none]; intro e he; simp [hu e he]
  simp [this]

/-- the argument rules of the table, row by row (required / optional / forbidden; UTF-8 is
    demanded exactly for name, pkgdep, blddep, pkgcfl, mode, owner, group) -/
theorem C14_command_table :
    (commandTable.map fun e => (e.1, e.2.2)) =
      [("@cwd", .reqRaw), ("@src", .reqRaw), ("@cd", .reqRaw), ("@exec", .reqRaw), ("@unexec", .reqRaw),
       ("@option", .option), ("@mode", .optUtf8), ("@owner", .optUtf8), ("@group", .optUtf8),
       ("@comment", .optRaw), ("@ignore", .forbidden), ("@name", .reqUtf8), ("@pkgdep", .reqUtf8),
       ("@blddep", .reqUtf8), ("@pkgcfl", .reqUtf8), ("@pkgdir", .reqRaw), ("@dirrm", .reqRaw),
       ("@display", .reqRaw)] := by decide

/-- a required raw argument is preserved byte for byte (only leading blanks stripped) -/
theorem C14_argument_preserved (arg : Bytes) (h : arg ≠ []) (hb : ∀ c, arg.head? = some c → isWhiteByte c = false) :
    entryFromBytes (asciiB "@cwd" ++ 32 :: arg) = .ok (.cwd arg) := by
  rw [entryFromBytes_eq]
  have hstrip : arg.dropWhile isWhiteByte = arg := by
    cases arg with
    | nil => rfl
    | cons c r => simp [List.dropWhile_cons, hb c rfl]
  have hne : arg.isEmpty = false := by cases arg <;> simp_all
  simp [S.entry, asciiB, List.takeWhile_cons, List.dropWhile_cons, hstrip, hne, S.command,
    commandTable, bytesOf, S.applyRule, S.build]

/-- non-vacuity: the nine-line list of `test_files` has nine non-blank lines -/
example : (plines (asciiB "@cwd /\nbin/a\n@ignore\nbin/b\n\n  \nbin/c\n@name x-1\n@comment\nz")).length = 8 := by
  decide
