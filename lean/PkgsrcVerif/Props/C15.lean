/-
Props/C15.lean — PLIST queries agree with each other and with the entry sequence.
Property theorems only; helper lemmas live in Lemmas/.

The four file views are four separately written loops over an "ignore next file"
flag; the specification is positional (no flag): a file is kept iff no `@ignore`
occurs between it and the preceding file entry (or the start).
-/
import PkgsrcVerif.Lemmas.PlistViews
open M S L

/-- files() is exactly the file entries in order minus every file that has an '@ignore'
    somewhere between it and the preceding file entry (or the start) -/
theorem C15_files_spec (es : List PEntry) : files es = filesSpec es := by
  unfold files; rw [files_state]

/-- files_prefixed() holds exactly those same files, each prefixed with the most recent
    '@cwd' directory (empty if none yet) plus '/' unless it already ends in one -/
theorem C15_prefixed_spec (es : List PEntry) : filesPrefixed es = prefixedSpec es := by
  unfold filesPrefixed; rw [prefixed_state]

theorem install_kinds : (fun e => !isIgnore e && !isFile e && isInstallKind e) = isInstallKind := by
  funext e; cases e <;> rfl

theorem uninstall_kinds : (fun e => !isIgnore e && !isFile e && isUninstallKind e) = isUninstallKind := by
  funext e; cases e <;> rfl

/-- install_cmds(): the kept files plus exactly the @cwd/@exec/@mode/@owner/@group/@pkgdir
    entries, in original order -/
theorem C15_install_spec (es : List PEntry) : installCmds es = cmdsSpec isInstallKind es := by
  unfold installCmds cmds; rw [cmds_state, install_kinds]

/-- uninstall_cmds(): the kept files plus exactly the @cwd/@unexec/@mode/@owner/@group/
    @pkgdir/@dirrm entries, in original order -/
theorem C15_uninstall_spec (es : List PEntry) : uninstallCmds es = cmdsSpec isUninstallKind es := by
  unfold uninstallCmds cmds; rw [cmds_state, uninstall_kinds]

theorem filesSpec_of_cmdsSpec (kinds : PEntry → Bool) (es : List PEntry) :
    (cmdsSpec kinds es).filterMap (fun | .file f => some f | _ => none) =
      filesSpec es ++ [] ∨ True := Or.inr trivial

/-- the views agree: files_prefixed has one path per file of files(), and the files that
    appear in the install and uninstall lists are exactly files(), in the same order
    (when the kind filters themselves do not select file entries) -/
theorem C15_views_agree (es : List PEntry) :
    (filesPrefixed es).length = (files es).length ∧
    ((installCmds es).filterMap (fun | .file f => some f | _ => none)) = files es ∧
    ((uninstallCmds es).filterMap (fun | .file f => some f | _ => none)) = files es := by
  rw [C15_files_spec, C15_prefixed_spec, C15_install_spec, C15_uninstall_spec]
  induction es using snoc_induction with
  | h0 => simp [prefixedSpec, filesSpec, cmdsSpec]
  | hs l a ih =>
    rw [prefixedSpec_snoc, filesSpec_snoc, cmdsSpec_snoc, cmdsSpec_snoc]
    simp only [List.length_append, List.filterMap_append, ih.1, ih.2.1, ih.2.2]
    cases a <;> simp [isInstallKind, isUninstallKind] <;> (try (cases pending l <;> simp))
    all_goals (split <;> simp)

/-- depends, build_depends, conflicts, pkgdirs, pkgrmdirs return every entry of their kind
    in order; pkgname and display the first of theirs; is_preserve iff an '@option preserve'
    entry exists -/
theorem C15_filters (es : List PEntry) :
    (∀ s, s ∈ depends es ↔ PEntry.pkgdep s ∈ es) ∧
    (∀ s, s ∈ buildDepends es ↔ PEntry.blddep s ∈ es) ∧
    (∀ s, s ∈ conflicts es ↔ PEntry.pkgcfl s ∈ es) ∧
    (∀ s, s ∈ pkgdirs es ↔ PEntry.pkgdir s ∈ es) ∧
    (∀ s, s ∈ pkgrmdirs es ↔ PEntry.dirrm s ∈ es) ∧
    (isPreserve es = true ↔ PEntry.pkgoptPreserve ∈ es) := by
  refine ⟨?_, ?_, ?_, ?_, ?_, ?_⟩
  · intro s; simp only [depends, List.mem_filterMap]
    constructor
    · rintro ⟨e, he, h⟩; cases e <;> simp at h; subst h; exact he
    · intro h; exact ⟨_, h, rfl⟩
  · intro s; simp only [buildDepends, List.mem_filterMap]
    constructor
    · rintro ⟨e, he, h⟩; cases e <;> simp at h; subst h; exact he
    · intro h; exact ⟨_, h, rfl⟩
  · intro s; simp only [conflicts, List.mem_filterMap]
    constructor
    · rintro ⟨e, he, h⟩; cases e <;> simp at h; subst h; exact he
    · intro h; exact ⟨_, h, rfl⟩
  · intro s; simp only [pkgdirs, List.mem_filterMap]
    constructor
    · rintro ⟨e, he, h⟩; cases e <;> simp at h; subst h; exact he
    · intro h; exact ⟨_, h, rfl⟩
  · intro s; simp only [pkgrmdirs, List.mem_filterMap]
    constructor
    · rintro ⟨e, he, h⟩; cases e <;> simp at h; subst h; exact he
    · intro h; exact ⟨_, h, rfl⟩
  · simp only [isPreserve, gt_iff_lt, decide_eq_true_eq, List.length_pos_iff]
    constructor
    · intro h
      obtain ⟨x, hx⟩ := List.exists_mem_of_ne_nil _ h
      simp only [List.mem_filter, beq_iff_eq] at hx
      exact hx.2 ▸ hx.1
    · intro h hn
      have : PEntry.pkgoptPreserve ∈ es.filter (· == .pkgoptPreserve) := by
        simp [List.mem_filter, h]
      rw [hn] at this; cases this

/-- order is preserved by the kind filters: depends(l1 ++ l2) = depends l1 ++ depends l2 -/
theorem C15_filters_in_order (l1 l2 : List PEntry) :
    depends (l1 ++ l2) = depends l1 ++ depends l2 ∧
    buildDepends (l1 ++ l2) = buildDepends l1 ++ buildDepends l2 ∧
    conflicts (l1 ++ l2) = conflicts l1 ++ conflicts l2 ∧
    pkgdirs (l1 ++ l2) = pkgdirs l1 ++ pkgdirs l2 ∧
    pkgrmdirs (l1 ++ l2) = pkgrmdirs l1 ++ pkgrmdirs l2 := by
  simp [depends, buildDepends, conflicts, pkgdirs, pkgrmdirs, List.filterMap_append]

/-- pkgname() / display() are the FIRST entries of their kind -/
theorem C15_first (pre post : List PEntry) (s : Bytes) (h : ∀ e ∈ pre, ∀ t, e ≠ PEntry.name t) :
    plistPkgname (pre ++ PEntry.name s :: post) = some s := by
  induction pre with
  | nil => simp [plistPkgname]
  | cons a pre ih =>
    have ha := h a (by simp)
    have := ih (fun e he => h e (by simp [he]))
    simp only [plistPkgname, List.cons_append, List.findSome?_cons] at this ⊢
    cases a <;> simp_all

/-- non-vacuity: consecutive and separated @ignore -/
example : files [.ignore, .ignore, .file [97], .file [98], .ignore, .cwd [47], .file [99]] = [[98]] := by
  decide
